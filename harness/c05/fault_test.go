package c05

import (
	"fmt"
	"os"
	"path/filepath"
	"sort"
	"strings"
	"syscall"

	"pgregory.net/rapid"

	"github.com/lindb/lindb/pkg/queue"
	"github.com/lindb/lindb/pkg/queue/page"
)

// ---- page-store faults ---------------------------------------------------------------------------
//
// The queue stores everything through page.Factory / page.MappedPage. What can fail there in
// production (pkg/queue/page/factory.go, mpage.go, pkg/fileutil/mmap.go):
//
//	AcquirePage(i) of a page the factory does not hold yet creates and maps the file i.bat:
//	  open fails (EMFILE / ENOSPC / EACCES)       -> error, no file
//	  ftruncate to the page size fails (ENOSPC)   -> error, an empty file i.bat stays behind
//	  mmap fails (ENOMEM, vm.max_map_count)       -> error, a zero file of the page size stays behind
//	  (a page the factory holds is returned from its map: that cannot fail while the factory is open)
//	MappedPage.Sync() = msync fails (EIO)          -> error
//	page.NewFactory (mkdir / list / map of the existing files) fails -> the queue cannot be opened
//
// GetPage has no error: it reports a page as absent only when the factory does not hold it, so it
// is not a fault point. The stores into a mapped page have no error either.
//
// The queue creates page files inside an append at two places: the next data page when the message
// does not fit into the room left (roll-over), the next index page when the sequence is the first
// of an index page. These - and the page syncs next to them - are the generated fault points of an
// append; the construction of one of the three factories is the fault point of an open.
//
// What the property demands under such a fault: an append that returns an error has not appended
// (the appended sequence does not move, nothing stored above the acknowledged position changes),
// an append that returns success has - fault or not - and every later append, read, reopen works
// on intact messages.

type pageFault struct {
	acquire int            // remaining failures of the creation of a data / index page file
	residue string         // what the failed creation leaves behind: none | empty-file | full-file
	sync    int            // remaining failures of Sync on data / index pages
	ctor    string         // the construction of this factory (data | index | meta) fails once
	fired   map[string]int // what was injected so far
}

var seamFault *pageFault // guarded by seamMu; armed only while the history goroutine runs a fault script

var residues = []string{"none", "none", "empty-file", "full-file"}

func (pf *pageFault) total() int {
	seamMu.Lock()
	defer seamMu.Unlock()
	n := 0
	for _, c := range pf.fired {
		n += c
	}
	return n
}

func (pf *pageFault) snapshot() map[string]int {
	seamMu.Lock()
	defer seamMu.Unlock()
	m := map[string]int{}
	for k, c := range pf.fired {
		m[k] = c
	}
	return m
}

// since lists what fired after the snapshot was taken.
func (pf *pageFault) since(snap map[string]int) []string {
	seamMu.Lock()
	defer seamMu.Unlock()
	var out []string
	for k, c := range pf.fired {
		if c > snap[k] {
			out = append(out, k)
		}
	}
	sort.Strings(out)
	return out
}

func armFault(pf *pageFault) {
	seamMu.Lock()
	seamFault = pf
	seamMu.Unlock()
}

// faultAcquire: the creation of a page file of the live queue fails.
func (f *seamFactory) faultAcquire(index int64) error {
	if f.kind != "data" && f.kind != "index" {
		return nil
	}
	seamMu.Lock()
	defer seamMu.Unlock()
	pf := seamFault
	if pf == nil || pf.acquire == 0 {
		return nil
	}
	if _, held := f.Factory.GetPage(index); held {
		return nil // served from the map of the factory: no file is created, nothing can fail
	}
	pf.acquire--
	pf.fired["create-"+f.kind+"-page"]++
	name := filepath.Join(f.path, fmt.Sprintf("%d.bat", index))
	switch pf.residue {
	case "empty-file", "full-file":
		fh, err := os.OpenFile(name, os.O_CREATE|os.O_RDWR, 0644)
		if err != nil {
			panic(fmt.Sprintf("harness: residue file: %v", err))
		}
		if pf.residue == "full-file" {
			if err := fh.Truncate(int64(f.pageSize)); err != nil {
				panic(fmt.Sprintf("harness: residue file: %v", err))
			}
			if w := seamW; w != nil && f.kind == "data" && index > w.maxData {
				w.maxData = index // a directory image now copies one more data page (generation only)
			}
		}
		_ = fh.Close()
		if pf.residue == "empty-file" {
			return &os.PathError{Op: "truncate", Path: name, Err: syscall.ENOSPC}
		}
		return syscall.ENOMEM // mmap
	}
	return &os.PathError{Op: "open", Path: name, Err: syscall.EMFILE}
}

// faultConstruct: the construction of a page factory of the live queue fails.
func faultConstruct(path string) error {
	seamMu.Lock()
	defer seamMu.Unlock()
	pf := seamFault
	if pf == nil || pf.ctor == "" || pf.ctor != filepath.Base(path) {
		return nil
	}
	pf.fired["construct-"+pf.ctor+"-factory"]++
	pf.ctor = ""
	return &os.PathError{Op: "open", Path: path, Err: syscall.EMFILE}
}

// faultPage: a mapped page of the live queue whose Sync can fail.
type faultPage struct {
	page.MappedPage
	f *seamFactory
}

func (f *seamFactory) wrapPage(index int64, p page.MappedPage) page.MappedPage {
	if !f.own {
		return p
	}
	f.mu.Lock()
	defer f.mu.Unlock()
	if w, ok := f.wrapped[index]; ok && w.MappedPage == p {
		return w
	}
	w := &faultPage{MappedPage: p, f: f}
	f.wrapped[index] = w
	return w
}

func (p *faultPage) Sync() error {
	if p.f.kind == "data" || p.f.kind == "index" {
		seamMu.Lock()
		if pf := seamFault; pf != nil && pf.sync > 0 {
			pf.sync--
			pf.fired["sync-"+p.f.kind+"-page"]++
			seamMu.Unlock()
			return os.NewSyscallError("msync", syscall.EIO)
		}
		seamMu.Unlock()
	}
	return p.MappedPage.Sync()
}

// ---- appends under page-store faults ---------------------------------------------------------------

// faultyTry appends m while pf is armed. An error is acceptable only if a fault was injected
// during this append, and then the append has consumed no sequence (checked by tryPut).
func (w *world) faultyTry(m msg, pf *pageFault, what string) (appended bool) {
	snap := pf.snapshot()
	putErr, violation := w.tryPut(m)
	if violation != nil {
		w.fatalf("%v", violation)
	}
	fired := pf.since(snap)
	if putErr != nil {
		if len(fired) == 0 {
			w.fatalf("put of %d bytes failed (%v) although no page-store operation failed", m.size, putErr)
		}
		w.logf("  -> failed: %v (injected: %s)", putErr, strings.Join(fired, ","))
		w.classes["fault-put-failed"]++
		w.classes["fault-put-failed("+strings.Join(fired, ",")+")"]++
		for _, k := range fired {
			if k == "create-index-page" {
				w.advance(m.size) // the space was reserved before the index page was needed (generation only)
			}
		}
		if what == "retry" {
			w.classes["fault-retry-failed-again"]++
		}
		return false
	}
	switch {
	case len(fired) > 0:
		w.logf("  -> appended (injected: %s)", strings.Join(fired, ","))
		w.classes["fault-put-succeeded-despite("+strings.Join(fired, ",")+")"]++
	case what == "first":
		w.classes["fault-armed-but-not-reached"]++
	}
	if what == "retry" {
		w.classes["fault-retry-succeeded"]++
	}
	return true
}

// faultScript: the writer appends m while page-store faults are armed, then a generated script of
// the writer sending again (the retry of the failed message, or its next one), another writer's
// append, reads, reopen, acknowledge+GC runs with the remaining faults still armed; in the end the
// faults are gone and the writer gets its message in. After every step everything above the
// acknowledged position must be intact.
func (w *world) faultScript(m msg) {
	t := w.t
	pf := &pageFault{
		acquire: rapid.SampledFrom([]int{1, 1, 2, 3}).Draw(t, "createFailures"),
		residue: rapid.SampledFrom(residues).Draw(t, "residue"),
		sync:    rapid.SampledFrom([]int{0, 0, 1, 2}).Draw(t, "syncFailures"),
		fired:   map[string]int{},
	}
	w.logf("faultyPut id=%d size=%d: the next %d creations of a data/index page file fail (residue %s), the next %d page syncs fail",
		m.id, m.size, pf.acquire, pf.residue, pf.sync)
	w.classes["fault-put"]++
	armFault(pf)
	defer armFault(nil)
	cur, appended, failedOnce := m, false, false
	appended = w.faultyTry(cur, pf, "first")
	failedOnce = !appended
	w.check("after an append under page-store faults")
	for i, n := 0, rapid.IntRange(1, 4).Draw(t, "after"); i < n; i++ {
		switch step := rapid.SampledFrom([]string{"write", "write", "write", "other", "reopen", "ackgc", "read"}).Draw(t, "faultStep"); step {
		case "write":
			what := "retry"
			if appended {
				cur, what = w.newMsg(w.genPutSize()), "next"
			}
			w.logf("  writer: %s id=%d size=%d", what, cur.id, cur.size)
			appended = w.faultyTry(cur, pf, what)
			failedOnce = failedOnce || !appended
		case "other":
			o := w.newMsg(w.genPutSize())
			w.logf("  other writer: put id=%d size=%d", o.id, o.size)
			if !appended {
				w.classes["fault-other-append-while-failed-message-waits"]++
			}
			w.faultyTry(o, pf, "other")
		case "reopen":
			// the fault points are those of an append: nothing is injected into the open
			armFault(nil)
			w.opReopen()
			armFault(pf)
			if failedOnce {
				w.classes["fault-reopen-after-failed-append"]++
			}
		case "ackgc":
			if app, ack := w.q.AppendedSeq(), w.q.AcknowledgedSeq(); app > ack {
				to := ack + 1 + int64(rapid.IntRange(0, 1<<20).Draw(t, "ackOff"))%(app-ack)
				w.logf("  ack %d", to)
				if err := w.ackTo(to); err != nil {
					w.fatalf("%v", err)
				}
			}
			w.opGC()
		case "read":
		}
		w.check("after a step that follows an append under page-store faults")
	}
	armFault(nil)
	if !appended {
		// the faults are over: the writer gets its message in
		w.logf("  writer: retry id=%d size=%d (no faults any more)", cur.id, cur.size)
		if err := w.putMsg(cur); err != nil {
			w.fatalf("%v", err)
		}
		w.classes["fault-retry-succeeded"]++
	}
	if failedOnce {
		w.classes["fault-script-with-failed-append"]++
		if pf.residue != "none" {
			w.classes["fault-residue-"+pf.residue]++
		}
	}
	w.check("after the appends under page-store faults")
}

// opFaultyPut: an append under page-store faults. In the page-boundary profile the append is
// mostly the one that has to roll over to the next data page (the cursor is brought to the page
// end first when the budget of fills allows it); elsewhere the faults are reached when the
// sequence is the first of an index page.
func (w *world) opFaultyPut() {
	t := w.t
	if w.heavy && w.room() > nearEnd && w.fills < maxFills && rapid.IntRange(0, 2).Draw(t, "fillFirst") > 0 {
		w.fillOnly()
	}
	size := genSize(t)
	if w.heavy && w.room() <= nearEnd {
		delta := rapid.SampledFrom(roomDeltas).Draw(t, "roomDelta")
		if rapid.IntRange(0, 3).Draw(t, "faultRoomKind") > 0 {
			size = w.sizeFor("exceed", delta, size)
		} else {
			size = w.sizeFor("fit", delta, size)
		}
	}
	w.faultScript(w.newMsg(size))
}

// opReopenFaulty: close; the open fails because one of the three page factories cannot be
// constructed; the next open works and finds everything intact.
func (w *world) opReopenFaulty() {
	kind := rapid.SampledFrom([]string{"data", "index", "meta"}).Draw(w.t, "failedFactory")
	w.logf("reopen: the %s page factory cannot be constructed; reopen again", kind)
	if c := w.tailClass(); c != "" {
		w.classes["reopen-with-"+c]++
	}
	w.dropHeld("close")
	w.q.Close()
	w.closedAfterReset()
	w.nextPageSize()
	pf := &pageFault{ctor: kind, fired: map[string]int{}}
	armFault(pf)
	q, err := queue.NewQueue(w.dir, w.pageSize)
	armFault(nil)
	if err == nil {
		w.q = q
		w.opened()
		if pf.total() > 0 {
			w.classes["open-succeeded-despite-factory-failure"]++
		}
	} else {
		if pf.total() == 0 {
			w.fatalf("open queue failed (%v) although no page-store operation failed", err)
		}
		w.open()
		w.classes["reopen-failed("+kind+" factory)-then-reopen"]++
	}
	w.classes["reopen"]++
	w.check("after a failed open followed by an open")
}
