package c05

import (
	"fmt"
	"os"
	"path/filepath"
	"runtime"
	"strings"
	"sync"
	"testing"
	"time"

	"pgregory.net/rapid"

	"github.com/lindb/lindb/pkg/queue"
	"github.com/lindb/lindb/verifharness/sim/crash"
	"github.com/lindb/lindb/verifharness/sim/ev"
	"github.com/lindb/lindb/verifharness/sim/qsim"
)

// ---- the acknowledge tick overlapped by appends ------------------------------------------------
//
// In production the acknowledged position is moved by another goroutine than the appenders
// (FanOutQueue.Sync -> Queue.SetAcknowledgedSeq on every tick of the WAL manager, while the write
// path appends). The acknowledge works on the meta page - the page that also carries the appended
// sequence the next open starts from. Every store / sync the acknowledging goroutine makes on the
// meta page is a point at which an appender can run in production unless the implementation
// excludes it there, so the harness owns these points:
//
//	point k = the k-th before/after event of a meta-page store or sync made by SetAcknowledgedSeq
//
// At the generated point a second goroutine performs 1..3 complete Puts (should the implementation
// hold a lock there, the appends simply finish after the acknowledge, like a blocked goroutine
// would - and at every later meta-page event of the acknowledge they get another 2 ms to return, as
// they would when the acknowledge released its lock half way; the clock only chooses between
// legal schedules). Then the process "restarts" in
// a generated way before anything else is appended: a directory image taken at the next meta-page
// event of the still running acknowledge, an image right after it returned, a close/reopen, or no
// restart at all. Model: every Put that returned keeps its sequence and bytes after the restart,
// the appended sequence the restarted queue reports is the one of the last Put that returned, and
// the next appends get the following sequences without touching anything.

const ackSeamWait = 4 * time.Millisecond

type ackSeamPlan struct {
	point   int    // index of the meta-page event of the acknowledge at which the appender starts
	to      int64  // sequence to acknowledge
	kind    string // valid | drain | stale(<=ack) | beyond(>appended)
	sizes   []int  // sizes of the overlapping appends
	restart string // image-inside | image | reopen | none
}

func (p ackSeamPlan) String() string {
	return fmt.Sprintf("ack %d (%s) overlapped at meta-page event %d by appends %v, then %s", p.to, p.kind, p.point, p.sizes, p.restart)
}

func (w *world) genAckSeamPlan() ackSeamPlan {
	t := w.t
	app, ack := w.q.AppendedSeq(), w.q.AcknowledgedSeq()
	var p ackSeamPlan
	switch k := rapid.IntRange(0, 9).Draw(t, "ackSeamKind"); {
	case k < 4 || app-ack < 2:
		p.kind, p.to = "drain", app
	case k < 8:
		p.kind, p.to = "valid", rapid.Int64Range(ack+1, app-1).Draw(t, "ackSeamTo")
	case k == 8:
		p.kind, p.to = "stale(<=ack)", ack-int64(rapid.IntRange(0, 1).Draw(t, "ackSeamBack"))
	default:
		p.kind, p.to = "beyond(>appended)", app+int64(rapid.IntRange(1, 2).Draw(t, "ackSeamBeyond"))
	}
	p.point = rapid.SampledFrom([]int{0, 0, 0, 1, 2, 3, 4, 5}).Draw(t, "ackSeamPoint")
	for i, n := 0, rapid.SampledFrom([]int{1, 1, 2, 3}).Draw(t, "ackSeamAppends"); i < n; i++ {
		p.sizes = append(p.sizes, w.genPutSize())
	}
	p.restart = rapid.SampledFrom([]string{"image-inside", "image", "image", "reopen", "reopen", "none"}).Draw(t, "ackSeamRestart")
	return p
}

// recoverQuiescentImage opens a directory image that was taken while no append was in flight and
// `puts` appends had returned: the recovered queue reports exactly the last of them, everything
// above the acknowledged position reads back, and further appends get the following sequences.
func (w *world) recoverQuiescentImage(dir, label string, puts int, ackOneOf []int64) {
	rq, err := queue.NewQueue(dir, w.pageSize)
	if err != nil {
		w.fatalf("%s: queue cannot be reopened: %v", label, err)
	}
	defer rq.Close()
	app := rq.AppendedSeq()
	if app != int64(puts)-1 {
		w.fatalf("%s: recovered appended sequence %d, but %d appends had returned success when the image was taken (want %d)", label, app, puts, puts-1)
	}
	ackOK := false
	for _, a := range ackOneOf {
		ackOK = ackOK || a == rq.AcknowledgedSeq()
	}
	if !ackOK {
		w.fatalf("%s: recovered acknowledged sequence %d, want one of %v", label, rq.AcknowledgedSeq(), ackOneOf)
	}
	assigned := map[int64]uint64{}
	for s, id := range w.assigned {
		if s < int64(puts) {
			assigned[s] = id
		}
	}
	var pending []uint64
	if err := scan(rq, w.byID, assigned, &pending, label); err != nil {
		w.fatalf("%v", err)
	}
	byID := map[uint64]msg{}
	for k, v := range w.byID {
		byID[k] = v
	}
	for i := 0; i < 2; i++ {
		n := msg{id: 1<<41 + uint64(i), size: []int{100, 0, 5, 4000}[(puts+i)%4]}
		byID[n.id] = n
		if err := rq.Put(n.bytes()); err != nil {
			w.fatalf("%s: append after recovery: %v", label, err)
		}
		if got := rq.AppendedSeq(); got != app+int64(i)+1 {
			w.fatalf("%s: append after recovery moved the appended sequence to %d, want %d", label, got, app+int64(i)+1)
		}
		assigned[app+int64(i)+1] = n.id
		if err := scan(rq, byID, assigned, &pending, fmt.Sprintf("%s after %d new appends", label, i+1)); err != nil {
			w.fatalf("%v", err)
		}
	}
}

func goroutineID() string {
	var b [64]byte
	s := string(b[:runtime.Stack(b[:], false)])
	if i := strings.Index(s, " ["); i > 0 {
		return s[:i]
	}
	return s
}

// opAckOverlappedByPuts: see the comment at the top of the file.
func (w *world) opAckOverlappedByPuts() {
	if w.q.AppendedSeq() <= w.q.AcknowledgedSeq() {
		// something to acknowledge is needed
		for i, n := 0, rapid.IntRange(1, 3).Draw(w.t, "ackSeamBefore"); i < n; i++ {
			w.opPut()
		}
	}
	w.check("before an acknowledge overlapped by appends") // every sequence is known to the model from here
	p := w.genAckSeamPlan()
	w.logf("ackOverlappedByPuts: %s (appended %d, acknowledged %d)", p, w.q.AppendedSeq(), w.q.AcknowledgedSeq())
	app0, ack0 := w.q.AppendedSeq(), w.q.AcknowledgedSeq()
	valid := p.to > ack0 && p.to <= app0
	var ms []msg
	for _, s := range p.sizes {
		ms = append(ms, w.newMsg(s))
	}
	imgDir, err := os.MkdirTemp("", "c05ack-")
	if err != nil {
		w.fatalf("harness: %v", err)
	}
	defer os.RemoveAll(imgDir)

	var (
		mu         sync.Mutex
		events     int  // meta-page events of the acknowledge seen so far
		fired      bool // the appender was started
		doneInside bool // the appends returned while the acknowledge sat at the point
		insideImg  string
		insideErr  error
		insideAt   string
		done       = make(chan error, 1)
	)
	runAppends := func() {
		go func() {
			var err error
			for _, m := range ms {
				if err = w.putMsg(m); err != nil {
					break
				}
			}
			done <- err
		}()
	}
	acker := goroutineID() // the hook acts on the events of the acknowledging goroutine only
	waitAppends := func(d time.Duration) {
		select {
		case err := <-done:
			done <- err
			mu.Lock()
			doneInside = true
			mu.Unlock()
		case <-time.After(d):
		}
	}
	qsim.SetHook(func(op, path string, before bool) {
		if !strings.Contains(path, string(filepath.Separator)+"meta"+string(filepath.Separator)) || goroutineID() != acker {
			return
		}
		mu.Lock()
		if fired {
			switch {
			case !doneInside:
				// the appender had to wait at the generated point: the implementation may let it in
				// from here on (it released a lock): a blocked goroutine would run now
				mu.Unlock()
				waitAppends(ackSeamWait / 2)
			case p.restart == "image-inside" && insideImg == "" && insideErr == nil:
				// the acknowledge goes on after the appends returned: the process dies here
				insideImg = filepath.Join(imgDir, "inside")
				insideAt = fmt.Sprintf("%s (before=%v)", op, before)
				mu.Unlock()
				if err := crash.CopyTree(w.dir, insideImg); err != nil {
					mu.Lock()
					insideErr = err
					mu.Unlock()
				}
			default:
				mu.Unlock()
			}
			return
		}
		k := events
		events++
		if k != p.point {
			mu.Unlock()
			return
		}
		fired = true
		mu.Unlock()
		runAppends()
		waitAppends(ackSeamWait)
	})
	w.q.SetAcknowledgedSeq(p.to)
	qsim.SetHook(nil)
	mu.Lock()
	reached := fired
	if !fired {
		// the acknowledge made fewer meta-page stores than the generated point (a refused
		// acknowledge makes none): the appender runs right after it
		fired = true
	}
	mu.Unlock()
	if !reached {
		runAppends()
	}
	if err := <-done; err != nil {
		w.fatalf("append overlapping an acknowledge: %v", err)
	}
	if insideErr != nil {
		w.fatalf("harness: image: %v", insideErr)
	}
	w.lastSize = -1
	wantAck := ack0
	if valid {
		wantAck = p.to
	}
	if got := w.q.AcknowledgedSeq(); got != wantAck {
		w.fatalf("acknowledged sequence is %d after SetAcknowledgedSeq(%d) with appended=%d acknowledged=%d, want %d", got, p.to, app0, ack0, wantAck)
	}
	if valid {
		w.ackedHeld(p.to)
	}
	w.classes["ack-overlapped-by-appends"]++
	w.classes["ack-seam-"+p.kind]++
	switch {
	case !reached:
		w.classes["ack-seam-point-not-reached(appends ran after the acknowledge)"]++
	case doneInside:
		w.classes["ack-seam-appends-returned-inside-the-acknowledge"]++
		w.classes[fmt.Sprintf("ack-seam-appends-inside-at-event-%d", p.point)]++
	default:
		w.classes["ack-seam-appender-blocked-until-the-acknowledge-returned"]++
		w.classes[fmt.Sprintf("ack-seam-appender-started-at-event-%d", p.point)]++
	}
	w.noteHeld("acknowledge-overlapped-by-appends")
	w.check("after an acknowledge overlapped by appends")
	if insideImg != "" {
		w.classes["ack-seam-image-inside-the-acknowledge"]++
		w.recoverQuiescentImage(insideImg, "image taken inside SetAcknowledgedSeq at meta-page "+insideAt+" after the overlapping appends had returned",
			w.okPuts, []int64{ack0, wantAck})
		w.nt++
	}
	switch p.restart {
	case "image", "image-inside":
		dir := filepath.Join(imgDir, "after")
		if err := crash.CopyTree(w.dir, dir); err != nil {
			w.fatalf("harness: image: %v", err)
		}
		w.classes["ack-seam-image-after-the-acknowledge"]++
		w.recoverQuiescentImage(dir, "image taken after the acknowledge and the overlapping appends returned", w.okPuts, []int64{wantAck})
		w.nt++
	case "reopen":
		w.opReopen()
		w.classes["ack-seam-reopen"]++
		w.check("after the reopen that followed an acknowledge overlapped by appends")
	default:
		w.classes["ack-seam-no-restart"]++
	}
}

// TestAckOverlapsAppend: short histories made of appends, acknowledgements overlapped by appends
// at the meta-page seams with a generated restart, plain reopens and collections.
func TestAckOverlapsAppend(t *testing.T) {
	rapid.Check(t, func(t *rapid.T) {
		w, cleanup := newWorld(t, "c05a-")
		defer cleanup()
		w.pageSizes = []int64{0, dataPageSize}
		w.open()
		for i, n := 0, rapid.IntRange(0, 4).Draw(t, "before"); i < n; i++ {
			w.opPut()
		}
		t.Repeat(map[string]func(*rapid.T){
			"ackOverlapped":  func(t *rapid.T) { w.t = t; w.opAckOverlappedByPuts() },
			"ackOverlapped2": func(t *rapid.T) { w.t = t; w.opAckOverlappedByPuts() },
			"ackOverlapped3": func(t *rapid.T) { w.t = t; w.opAckOverlappedByPuts() },
			"put":            func(t *rapid.T) { w.t = t; w.opPut() },
			"ack":            func(t *rapid.T) { w.t = t; w.opAck() },
			"gc":             func(t *rapid.T) { w.t = t; w.opGC() },
			"reopen":         func(t *rapid.T) { w.t = t; w.opReopen() },
			"getAndHold":     func(t *rapid.T) { w.t = t; w.opGetAndHold() },
			"":               func(t *rapid.T) { w.t = t; w.check("after step") },
		})
		w.t = t
		w.opReopen()
		w.check("after final reopen")
		w.opPut()
		w.check("after final append")
		for c, n := range w.classes {
			ev.Class("TestAckOverlapsAppend", c, n)
		}
		ev.Case("TestAckOverlapsAppend", strings.Join(w.ops, ";"), w.classes["ack-overlapped-by-appends"] > 0 &&
			(w.classes["ack-seam-reopen"] > 0 || w.nt > 0), nil, map[string]any{"history": w.ops, "images_recovered": w.nt})
	})
}
