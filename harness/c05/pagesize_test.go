package c05

import (
	"strings"
	"testing"

	"pgregory.net/rapid"

	"github.com/lindb/lindb/verifharness/sim/ev"
)

// ---- the data page size as a configuration dimension ---------------------------------------------
//
// queue.NewQueue(dir, pageSize): the size comes from the configuration (config.WAL.GetPageSize:
// <= 0 -> 128 MiB, capped at 1 GiB; replica/wal.go hands it to NewFanOutQueue), NewQueue raises
// anything below 128 MiB to 128 MiB, and every data page file is mapped with that size. The
// operator may change the value between two runs, so the same directory is legally opened with
// another size than the one its page files were created with - smaller or larger. The property
// does not mention the page size: whatever was appended and not acknowledged has to be readable
// byte for byte after every such reopen, sequences stay dense, later appends alter nothing.
//
// The harness draws the size for every open (also for the open that recovers a crash image) out
// of the sizes of the history.

func effectiveSize(configured int64) int64 {
	if configured < dataPageSize {
		return dataPageSize
	}
	return configured
}

// opened: bookkeeping after a successful open with w.pageSize (class counters only).
func (w *world) opened() {
	eff := effectiveSize(w.pageSize)
	if w.createdWith != 0 && eff < w.createdWith {
		w.classes["open-with-smaller-page-size-than-files-were-mapped-with"]++
		if w.q.AppendedSeq() > w.q.AcknowledgedSeq() {
			w.classes["open-with-smaller-page-size,unacknowledged-messages"]++
		}
		w.sizeShrinks++
	}
	if eff > w.createdWith {
		if w.createdWith != 0 {
			w.classes["open-with-larger-page-size-than-files-were-mapped-with"]++
		}
		w.createdWith = eff
	}
	switch {
	case w.pageSize < dataPageSize:
		w.classes["open-page-size-below-floor(raised)"]++
	case w.pageSize == dataPageSize:
		w.classes["open-page-size-128MiB"]++
	default:
		w.classes["open-page-size-above-128MiB"]++
	}
}

// nextPageSize: the configuration may have been edited before the next open.
func (w *world) nextPageSize() {
	if len(w.pageSizes) < 2 {
		return
	}
	if rapid.IntRange(0, 2).Draw(w.t, "pageSizeEdited") > 0 {
		return
	}
	old := w.pageSize
	w.pageSize = rapid.SampledFrom(w.pageSizes).Draw(w.t, "pageSize")
	if effectiveSize(old) != effectiveSize(w.pageSize) {
		w.sizeChanges++
		w.classes["reopen-with-another-page-size"]++
		if w.off > dataPageSize/2 || w.maxData > 0 {
			w.classes["reopen-with-another-page-size,>=64MiB-in-the-page-or-rolled-over"]++
		}
	}
	w.logf("  (configured page size is now %d)", w.pageSize)
}

// TestPageSizeReopen: a few big (mostly zero) messages of tens of MiB, so that the position of
// the data-page roll-over matters, on a queue that is opened with a generated page size at every
// open: below the floor, the 128 MiB default, 128 MiB + one OS page, 192 / 256 / 512 MiB, 1 GiB.
// Between the big appends: reopen under another size, ack (+ gc), readers that hold messages,
// small appends, an append above the message size limit (refused whatever the configured size).
func TestPageSizeReopen(t *testing.T) {
	sizes := []int64{0, 1, 64 << 20, dataPageSize, dataPageSize + 4096, 192 << 20, 256 << 20, 256 << 20, 512 << 20, 1 << 30}
	rapid.Check(t, func(t *rapid.T) {
		w, cleanup := newWorld(t, "c05p-")
		defer cleanup()
		w.heavy = true
		w.fills = maxFills // the big messages of this test do the filling
		w.pageSizes = sizes
		// start above the default in 2 of 3 cases: the interesting direction is a later open with less
		if rapid.IntRange(0, 2).Draw(t, "startBig") > 0 {
			w.pageSize = rapid.SampledFrom(sizes[5:]).Draw(t, "pageSize")
		} else {
			w.pageSize = rapid.SampledFrom(sizes).Draw(t, "pageSize")
		}
		w.logf("open with page size %d", w.pageSize)
		w.open()
		n := rapid.IntRange(3, 6).Draw(t, "bigMessages")
		total := 0
		for i := 0; i < n; i++ {
			if rapid.IntRange(0, 2).Draw(t, "smallBefore") == 0 {
				w.opPut()
			}
			size := rapid.IntRange(30<<20, 70<<20).Draw(t, "bigSize")
			m := w.newMsg(size)
			w.logf("put id=%d size=%d", m.id, m.size)
			if err := w.putMsg(m); err != nil {
				w.fatalf("%v", err)
			}
			total += size
			w.check("after big append")
			switch rapid.IntRange(0, 7).Draw(t, "between") {
			case 0, 1, 2:
				w.reopenWithOtherSize()
			case 3:
				if w.q.AppendedSeq() > w.q.AcknowledgedSeq() {
					w.opAck()
					w.opGC()
				}
				w.reopenWithOtherSize()
			case 4:
				w.holdSome()
			case 5:
				w.opPutTooBig()
			}
			w.check("after the step behind a big append")
		}
		// the last run of the process uses the default configuration
		w.pageSize = 0
		w.logf("  (configured page size is now 0)")
		w.pageSizes = nil
		w.opReopen()
		w.check("after reopen with the default page size")
		w.opPut()
		w.check("after final append")
		for c, n := range w.classes {
			ev.Class("TestPageSizeReopen", c, n)
		}
		nt := total > dataPageSize && w.classes["open-with-smaller-page-size,unacknowledged-messages"] > 0
		ev.Case("TestPageSizeReopen", strings.Join(w.ops, ";"), nt, nil, map[string]any{"history": w.ops, "bytes": total})
	})
}

// reopenWithOtherSize: close, the operator edits the configuration, open.
func (w *world) reopenWithOtherSize() {
	old := w.pageSize
	for i := 0; i < 4 && effectiveSize(w.pageSize) == effectiveSize(old); i++ {
		w.pageSize = rapid.SampledFrom(w.pageSizes).Draw(w.t, "pageSize")
	}
	sizes := w.pageSizes
	w.pageSizes = nil // opReopen must not draw again
	w.logf("  (configured page size is now %d)", w.pageSize)
	if effectiveSize(old) != effectiveSize(w.pageSize) {
		w.sizeChanges++
		w.classes["reopen-with-another-page-size"]++
		if w.off > dataPageSize/2 || w.maxData > 0 {
			w.classes["reopen-with-another-page-size,>=64MiB-in-the-page-or-rolled-over"]++
		}
	}
	w.opReopen()
	w.pageSizes = sizes
}
