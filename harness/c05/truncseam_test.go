package c05

import (
	"errors"
	"fmt"
	"os"
	"path/filepath"
	"runtime"
	"runtime/debug"
	"sort"
	"strconv"
	"strings"
	"sync"
	"time"

	commonfileutil "github.com/lindb/common/pkg/fileutil"
	"pgregory.net/rapid"

	"github.com/lindb/lindb/pkg/queue"
	"github.com/lindb/lindb/pkg/queue/page"
)

// ---- points INSIDE the page truncation of GC -----------------------------------------------------
//
// Queue.GC() -> dataPageFct.TruncatePages(D), indexPageFct.TruncatePages(P). For every expired page
// (id below D / P) the factory does, one page after the other (pkg/queue/page/factory.go):
//
//	unmap the page      (page.Close -> page.MMapCloseFunc, an exported variable)
//	remove its file     (removeFileFunc; seam pkg/queue/page/export_verif.go VerifSetRemoveFile)
//	drop it from its map
//
// GC runs on the WAL housekeeping goroutine; appenders, the consumer that acknowledges, readers and
// the replication handshake that resets the log position (Queue.SetAppendedSeq - also backwards,
// onto the very index page that is being collected: the next append needs that page id again) run
// on others. Whatever the implementation does not exclude by a lock can happen between any two of
// the steps above. Up to /repo e5b201e GC held no queue lock at all (only the factory kept its own
// mutex for one TruncatePages); since then GC holds the queue's read lock from its start to its end,
// so writers wait and only readers get as far as the mutex of the truncating factory.
//
// The harness owns these points: "enter" (GC is about to call TruncatePages of a factory) and the
// four points of every expired page (before / after the unmap, before / after the file removal). In
// "actor" mode a generated script of another actor is started at one generated point (kind of
// factory, expired page, phase) and runs to completion there - or, when the implementation makes it
// wait for GC, GC goes on and the script finishes when it can, like a blocked goroutine would. In
// "observer" mode every point is reported (gccrash_test.go takes directory images there).
//
// Whether the actor waits is noticed without using the clock as a correctness signal: every factory
// call of the queue goes through seamFactory, which tells the seam when the actor enters / leaves a
// call of the factory that is inside TruncatePages (grace period for "has this call returned"), and
// the script reports the start and the end of each step (idle period for "waits for something else
// GC holds"). Both periods only decide which of two legal schedules is explored, never a verdict.
//
// Locks (why nothing here can dead-lock): GC holds the queue's read lock and the mutex of the
// factory it truncates; the hooks of the harness run on the GC goroutine and take neither. The actor
// may wait for either of them (also while it holds putMutex); GC never waits for the actor longer
// than the grace / idle period.

const (
	truncGrace   = 20 * time.Millisecond // a factory call of the actor that has not returned by then waits for the truncation
	truncIdle    = 60 * time.Millisecond // an actor that shows no progress for that long waits for something GC holds (today: GC holds the queue's read lock, every writer waits)
	truncStuck   = 60 * time.Second      // harness failure, never a verdict
	maxTruncOps  = 2                     // GC-inside-truncation operations per history
	phEnter      = "enter"               // GC is about to call TruncatePages of the factory (whether or not pages expire)
	phBeforeUnm  = "before-unmap"
	phAfterUnm   = "after-unmap"
	phBeforeRem  = "before-remove"
	phAfterRem   = "after-remove"
	opTruncPages = "truncatePages"
	opUnmap      = "unmap"
	opRemoveFile = "removeFile"
)

var truncPhases = []string{phEnter, phBeforeUnm, phAfterUnm, phBeforeRem, phAfterRem, phBeforeUnm, phBeforeRem}

type truncEvent struct {
	kind   string // data | index
	op     string // truncatePages | unmap | removeFile
	path   string // page file (directory of the factory for truncatePages)
	pageID int64  // -1 for truncatePages
	before bool
}

type truncSeam struct {
	mu sync.Mutex

	// plan
	kind    string               // data | index | any: factory whose truncation the actor runs in (any: the first one with expired pages)
	phase   string               // one of truncPhases
	pick    int                  // which of the expired pages
	ackPage int64                // index page of the acknowledged sequence GC works with (generation only)
	script  func() error         // the other actor (runs on its own goroutine); nil: none
	observe func(e truncEvent)   // every event (GC goroutine); nil: none
	preTrun func(f *seamFactory) // entry of TruncatePages of a factory of the live queue (GC goroutine); nil: none

	// state of the truncation in progress
	active     *seamFactory
	index      int64
	expired    []int64
	targetKind string
	target     int64

	// what happened (merged into the class counters after GC returned)
	fired      bool
	firedKind  string
	firedIndex int64   // argument of the TruncatePages the actor ran in
	firedPages []int64 // expired pages of that truncation
	seen       map[string]int

	// hand-shake with the actor
	waiting  bool
	inCall   bool
	calls    int
	note     chan struct{}
	done     chan error
	gcDone   chan struct{}
	blocked  bool // the actor waited for the truncation: GC went on
	inside   bool // the script finished while GC sat at the point
	idle     bool // the actor showed no progress (outside the factory calls): treated as waiting for GC
	actorErr error

	origUnmap page.CloseFunc
}

var truncS *truncSeam // guarded by seamMu

func currentTrunc() *truncSeam {
	seamMu.Lock()
	defer seamMu.Unlock()
	return truncS
}

func armTrunc(ts *truncSeam) {
	ts.seen = map[string]int{}
	ts.note = make(chan struct{}, 1)
	ts.done = make(chan error, 1)
	ts.gcDone = make(chan struct{})
	ts.origUnmap = page.MMapCloseFunc
	seamMu.Lock()
	truncS = ts
	seamMu.Unlock()
	page.MMapCloseFunc = func(f *os.File, b []byte) error {
		name := f.Name()
		ts.event(opUnmap, name, true)
		err := ts.origUnmap(f, b)
		ts.event(opUnmap, name, false)
		return err
	}
	page.VerifSetRemoveFile(func(path string) error {
		ts.event(opRemoveFile, path, true)
		err := commonfileutil.RemoveFile(path)
		ts.event(opRemoveFile, path, false)
		return err
	})
}

func disarmTrunc(ts *truncSeam) {
	seamMu.Lock()
	if truncS != ts {
		seamMu.Unlock()
		return
	}
	truncS = nil
	seamMu.Unlock()
	page.MMapCloseFunc = ts.origUnmap
	page.VerifSetRemoveFile(nil)
}

func pageIDOf(path string) int64 {
	id, err := strconv.ParseInt(strings.TrimSuffix(filepath.Base(path), ".bat"), 10, 64)
	if err != nil {
		return -1
	}
	return id
}

// truncEnter / truncLeave: called by seamFactory.TruncatePages around the production call.
func (f *seamFactory) truncEnter(index int64) *truncSeam {
	if !f.own || (f.kind != "data" && f.kind != "index") {
		return nil
	}
	ts := currentTrunc()
	if ts == nil {
		return nil
	}
	var expired []int64
	if ents, err := os.ReadDir(f.path); err == nil {
		for _, e := range ents {
			if id := pageIDOf(e.Name()); id >= 0 && id < index {
				expired = append(expired, id)
			}
		}
	}
	sort.Slice(expired, func(i, j int) bool { return expired[i] < expired[j] })
	ts.mu.Lock()
	ts.active, ts.index, ts.expired = f, index, expired
	ts.seen["truncate-"+f.kind]++
	if len(expired) > 0 {
		ts.seen["truncate-"+f.kind+"-with-expired-pages"]++
		if len(expired) > 1 {
			ts.seen["truncate-"+f.kind+"-with>=2-expired-pages"]++
		}
		if ts.targetKind == "" && !ts.fired && (ts.kind == "any" || ts.kind == f.kind) {
			ts.targetKind, ts.target = f.kind, expired[ts.pick%len(expired)]
		}
	}
	fire := ts.script != nil && !ts.fired && ts.phase == phEnter && (ts.kind == f.kind || (ts.kind == "any" && len(expired) > 0))
	if fire {
		ts.fired, ts.firedKind, ts.firedIndex = true, f.kind, index
		ts.firedPages = append([]int64(nil), expired...)
	}
	obs, pre := ts.observe, ts.preTrun
	ts.mu.Unlock()
	if pre != nil {
		pre(f)
	}
	if obs != nil {
		obs(truncEvent{kind: f.kind, op: opTruncPages, path: f.path, pageID: -1, before: true})
	}
	if fire {
		ts.runActor()
	}
	return ts
}

func (f *seamFactory) truncLeave(ts *truncSeam) {
	if ts == nil {
		return
	}
	ts.mu.Lock()
	ts.active = nil
	obs := ts.observe
	ts.mu.Unlock()
	if obs != nil {
		obs(truncEvent{kind: f.kind, op: opTruncPages, path: f.path, pageID: -1, before: false})
	}
}

// event: one step of the truncation of one page (GC goroutine).
func (ts *truncSeam) event(op, path string, before bool) {
	ts.mu.Lock()
	f := ts.active
	if f == nil || filepath.Dir(path) != f.path {
		ts.mu.Unlock()
		return // not a page of a factory of the live queue that is inside TruncatePages
	}
	id := pageIDOf(path)
	phase := phBeforeUnm
	switch {
	case op == opUnmap && !before:
		phase = phAfterUnm
	case op == opRemoveFile && before:
		phase = phBeforeRem
	case op == opRemoveFile && !before:
		phase = phAfterRem
	}
	if before {
		ts.seen[op+"-"+f.kind+"-page"]++
	}
	fire := ts.script != nil && !ts.fired && f.kind == ts.targetKind && id == ts.target && phase == ts.phase
	if fire {
		ts.fired, ts.firedKind, ts.firedIndex = true, f.kind, ts.index
		ts.firedPages = append([]int64(nil), ts.expired...)
	}
	obs := ts.observe
	kind := f.kind
	ts.mu.Unlock()
	if obs != nil {
		obs(truncEvent{kind: kind, op: op, path: path, pageID: id, before: before})
	}
	if fire {
		ts.runActor()
	}
}

// actorCall: the actor enters (in=true) / leaves a call of factory f. Only calls of the factory
// that is inside TruncatePages can make the actor wait.
func (f *seamFactory) actorCall(in bool) {
	if !f.own {
		return
	}
	ts := currentTrunc()
	if ts == nil {
		return
	}
	ts.mu.Lock()
	if !ts.waiting {
		ts.mu.Unlock()
		return
	}
	switch {
	case in && ts.active == f:
		ts.inCall = true
		ts.calls++
	case !in && ts.inCall:
		ts.inCall = false
	}
	ts.mu.Unlock()
	select {
	case ts.note <- struct{}{}:
	default:
	}
}

// runActor starts the script and waits until it is finished or waits for the truncation.
func (ts *truncSeam) runActor() {
	ts.mu.Lock()
	ts.waiting = true
	ts.mu.Unlock()
	go func() { ts.done <- guarded(ts.script) }()
	idle := time.NewTimer(truncIdle)
	defer idle.Stop()
	var grace <-chan time.Time
	graceCall := 0
	stop := func() {
		ts.mu.Lock()
		ts.waiting = false
		ts.mu.Unlock()
	}
	for {
		select {
		case err := <-ts.done:
			ts.actorErr, ts.inside = err, true
			stop()
			return
		case <-ts.note:
			if !idle.Stop() {
				select {
				case <-idle.C:
				default:
				}
			}
			idle.Reset(truncIdle)
			ts.mu.Lock()
			in, call := ts.inCall, ts.calls
			ts.mu.Unlock()
			switch {
			case !in:
				grace = nil
			case grace == nil || call != graceCall:
				grace, graceCall = time.After(truncGrace), call
			}
		case <-grace:
			grace = nil
			ts.mu.Lock()
			if ts.inCall && ts.calls == graceCall {
				ts.waiting, ts.blocked = false, true
				ts.mu.Unlock()
				return // the actor waits for the truncation: GC goes on
			}
			in, call := ts.inCall, ts.calls
			ts.mu.Unlock()
			if in {
				grace, graceCall = time.After(truncGrace), call
			}
		case <-idle.C:
			// no factory call in flight and no progress: the actor waits for something else GC holds
			if os.Getenv("C05_DEBUG_IDLE") != "" {
				buf := make([]byte, 1<<16)
				fmt.Printf("IDLE inCall=%v calls=%d\n%s\n", ts.inCall, ts.calls, buf[:runtime.Stack(buf, true)])
			}
			ts.mu.Lock()
			ts.waiting, ts.blocked, ts.idle = false, true, true
			ts.mu.Unlock()
			return
		}
	}
}

// progress: the actor is alive (start / end of a step).
func (ts *truncSeam) progress() {
	ts.mu.Lock()
	waiting := ts.waiting
	ts.mu.Unlock()
	if waiting {
		select {
		case ts.note <- struct{}{}:
		default:
		}
	}
}

// gate: a script whose actor had to wait for the truncation runs its remaining steps after GC
// returned (the schedule stays owned by the harness).
func (ts *truncSeam) gate() {
	ts.mu.Lock()
	b := ts.blocked
	ts.mu.Unlock()
	if b {
		<-ts.gcDone
	}
}

// finish: GC returned. Waits for the script (if it was started) and reports its error.
func (ts *truncSeam) finish() error {
	close(ts.gcDone)
	if ts.fired && !ts.inside {
		select {
		case ts.actorErr = <-ts.done:
		case <-time.After(truncStuck):
			return errors.New("harness: the actor that waited for the page truncation did not finish after GC returned")
		}
	}
	return ts.actorErr
}

// ---- the other actor's script --------------------------------------------------------------------

type truncStep struct {
	kind  string // small | fit | exceed | ack | ackAll | read | resetLower | resetSame | resetHigher
	mode  string // resetLower: into-collected-page | last-slot-of-collected-page | lower-page | within-page
	delta int
	small int
	puts  int // appends that follow a reset
	done  bool
}

func (s *truncStep) String() string {
	if s.kind == "resetLower" {
		return fmt.Sprintf("%s(%s,%d)+%dputs", s.kind, s.mode, s.delta, s.puts)
	}
	if strings.HasPrefix(s.kind, "reset") {
		return fmt.Sprintf("%s+%dputs", s.kind, s.puts)
	}
	return s.kind
}

// checkResetErr is checkReset for the actor goroutine.
func (w *world) checkResetErr(seq, wantApp int64, where string) error {
	if app, ack := w.q.AppendedSeq(), w.q.AcknowledgedSeq(); app != wantApp || ack != seq {
		return fmt.Errorf("%s: appended %d acknowledged %d, want appended %d acknowledged %d", where, app, ack, wantApp, seq)
	}
	for _, s := range []int64{seq, wantApp + 1} {
		if s < 0 {
			continue
		}
		if data, err := w.q.Get(s); !errors.Is(err, queue.ErrOutOfSequenceRange) {
			return fmt.Errorf("%s: Get(%d) with appended=%d ack=%d returned %d bytes, err=%v; want ErrOutOfSequenceRange", where, s, wantApp, seq, len(data), err)
		}
	}
	return nil
}

// lowerResetAllowed: see genResetTarget (after a reopen rewound the write cursor a backwards reset
// is out of scope).
func (w *world) lowerResetAllowed() bool { return !w.cursorRewound }

// runTruncStep executes one step of the script (actor goroutine, or the test goroutine when the
// point was not reached).
func (w *world) runTruncStep(ts *truncSeam, s *truncStep, where string, insideGC bool) error {
	s.done = true
	switch s.kind {
	case "small", "fit", "exceed", "ack", "ackAll", "read":
		st := &seamStep{kind: s.kind, delta: s.delta, small: s.small}
		return w.runStep(st, where)
	}
	app := w.q.AppendedSeq()
	var seq int64
	kind := s.kind
	if kind == "resetLower" && !w.lowerResetAllowed() {
		kind = "resetSame"
		w.classes["excluded_out_of_scope_lower-reset-after-cursor-rewind"]++
	}
	label := ""
	switch kind {
	case "resetSame":
		seq, label = app, "same"
	case "resetHigher":
		base := app
		if w.maxEver > base {
			base = w.maxEver
		}
		seq, label = base+1+int64(s.delta), "higher"
	case "resetLower":
		p := ts.ackPage
		if !insideGC {
			p = app / indexItemsPerPage
		}
		boundary := p * indexItemsPerPage
		switch {
		case s.mode == "into-collected-page" && p >= 1:
			// the append that follows needs the index page that is being collected again
			seq, label = boundary-2-int64(s.delta), "lower(into-the-index-page-being-collected)"
		case s.mode == "last-slot-of-collected-page" && p >= 1:
			seq, label = boundary-1, "lower(last-slot-of-the-index-page-being-collected)"
		case s.mode == "lower-page" && p >= 2:
			seq, label = boundary-indexItemsPerPage-2-int64(s.delta), "lower(into-an-earlier-index-page)"
		default:
			seq, label = app-1-int64(s.delta), "lower"
		}
		if seq < -1 {
			seq = -1
		}
		if seq >= app {
			seq, label = app, "same"
		}
	}
	w.logf("  %s: setAppendedSeq %d (%s; appended %d, acknowledged %d)", where, seq, label, app, w.q.AcknowledgedSeq())
	w.dropHeld("setAppendedSeq")
	if insideGC && ts.ackPage > w.collectedIndex {
		w.collectedIndex = ts.ackPage // the index pages below are gone / going (generation only)
	}
	w.q.SetAppendedSeq(seq)
	w.modelReset(seq, app)
	w.classes["reset"]++
	w.classes["reset-"+label]++
	if insideGC {
		w.classes["trunc-reset-inside-truncation"]++
		w.classes["trunc-reset-inside-truncation-"+label]++
	}
	if err := w.checkResetErr(seq, seq, where+" after setAppendedSeq"); err != nil {
		return err
	}
	for i := 0; i < s.puts; i++ {
		m := w.newMsg(s.small + 13*i)
		w.logf("  %s: put id=%d size=%d (behind the reset)", where, m.id, m.size)
		if err := w.putMsg(m); err != nil {
			return err
		}
		if got := w.q.AppendedSeq(); got != seq+1+int64(i) {
			return fmt.Errorf("%s: append %d after setAppendedSeq(%d) got sequence %d", where, i+1, seq, got)
		}
		if insideGC {
			w.classes["trunc-put-behind-a-reset"]++
		}
	}
	return nil
}

// genTruncScript draws the script of the other actor.
func (w *world) genTruncScript(indexPlanned bool) []*truncStep {
	t := w.t
	var steps []*truncStep
	n := rapid.IntRange(1, 4).Draw(t, "truncSteps")
	for i := 0; i < n; i++ {
		s := &truncStep{
			delta: rapid.IntRange(0, 2).Draw(t, "truncDelta"),
			small: rapid.IntRange(0, 4096).Draw(t, "small"),
			puts:  rapid.IntRange(1, 3).Draw(t, "putsBehindReset"),
		}
		k := rapid.IntRange(0, 13).Draw(t, "truncStepKind")
		if i == 0 && indexPlanned && k > 8 && rapid.IntRange(0, 1).Draw(t, "resetFirst") == 0 {
			k = 0 // the backwards reset is the most frequent first step
		}
		switch {
		case k < 4:
			s.kind = "resetLower"
			s.mode = rapid.SampledFrom([]string{"into-collected-page", "into-collected-page", "into-collected-page",
				"last-slot-of-collected-page", "lower-page", "within-page"}).Draw(t, "lowerMode")
		case k == 4:
			s.kind = "resetSame"
		case k == 5:
			s.kind = "resetHigher"
		case k < 8:
			s.kind = "small"
		case k == 8:
			s.kind = "fit"
			s.delta = rapid.SampledFrom(roomDeltas).Draw(t, "roomDelta")
		case k == 9:
			s.kind = "exceed"
			s.delta = rapid.SampledFrom(roomDeltas).Draw(t, "roomDelta")
		case k == 10:
			s.kind = "ack"
		case k == 11:
			s.kind = "ackAll"
		default:
			s.kind = "read"
		}
		steps = append(steps, s)
	}
	return steps
}

// ---- situations in which GC has pages to collect -----------------------------------------------

type collectable struct {
	lo    int64 // acknowledging a sequence >= lo makes the next GC collect at least one page
	index bool  // ... an index page
	data  bool  // ... a data page
}

// prepareCollectable appends across an index-page boundary (the boundary is reached through a
// forward reset to just below it, like opBoundaryReopen / opResetBackAcrossIndexPage) and / or
// across a data-page boundary (page-boundary profile only: a fill, then an append that does not
// fit), so that an acknowledgement behind the boundary gives the collector work.
func (w *world) prepareCollectable() collectable {
	t := w.t
	var c collectable
	wantData := w.heavy && (w.room() <= nearEnd || w.fills < maxFills) && rapid.IntRange(0, 2).Draw(t, "collectDataPage") > 0
	wantIndex := !wantData || rapid.IntRange(0, 1).Draw(t, "collectIndexPageToo") == 0
	c.lo = w.q.AcknowledgedSeq() + 1
	if wantIndex {
		base := w.q.AppendedSeq()
		if w.maxEver > base {
			base = w.maxEver
		}
		boundary := int64(indexItemsPerPage)
		if base >= 0 {
			boundary = (base/indexItemsPerPage + 1) * indexItemsPerPage
		}
		w.resetTo(boundary-1-int64(rapid.IntRange(0, 3).Draw(t, "beforeBoundary")), "higher(to-index-page-boundary)")
		for past := int64(rapid.IntRange(0, 2).Draw(t, "pastBoundary")); w.q.AppendedSeq() < boundary+past; {
			w.opPut()
		}
		c.index, c.lo = true, boundary
	}
	if wantData {
		if w.room() > nearEnd {
			w.fillOnly()
		}
		before := w.maxData
		m := w.newMsg(w.sizeFor("exceed", rapid.SampledFrom(roomDeltas).Draw(t, "roomDelta"), 64))
		w.logf("put id=%d size=%d (does not fit into the data page)", m.id, m.size)
		if err := w.putMsg(m); err != nil {
			w.fatalf("%v", err)
		}
		if w.maxData > before {
			c.data = true
			if app := w.q.AppendedSeq(); app > c.lo {
				c.lo = app
			}
		}
	}
	for i, n := 0, rapid.IntRange(0, 2).Draw(t, "unacknowledgedTail"); i < n; i++ {
		w.opPut()
	}
	w.check("after the appends across a page boundary")
	return c
}

// genCollectingAck draws the acknowledged position GC will work with.
func (w *world) genCollectingAck(c collectable) int64 {
	app := w.q.AppendedSeq()
	if c.lo >= app || rapid.IntRange(0, 3).Draw(w.t, "ackEverything") == 0 {
		return app
	}
	return rapid.Int64Range(c.lo, app).Draw(w.t, "ack")
}

// ---- GC with another actor inside the truncation -------------------------------------------------

// opGCInsideTruncation: the consumer acknowledged behind a page boundary; GC collects the pages
// below; at a generated point inside the truncation of one expired page another actor runs a
// generated script: appends (small / up to the page end / rolling over), acknowledgements, a reader
// of everything above the acknowledged position, resets of the log position (same / forward /
// backwards - onto the index page that is being collected, its last slot, an earlier page) each
// followed by appends. Afterwards, in the same process and (mostly) after a reopen, every message
// whose append returned success and that is above the acknowledged position has its sequence and
// its bytes.
//
// The points: "enter" = GC has sampled the acknowledged sequence, read its index entry and is about
// to call TruncatePages of the data / of the index factory (whether or not a page expires); the four
// points of one expired page. Today GC holds the queue's read lock from its start to its end
// (/repo fix e5b201e: before, a backwards reset between the sample and the index truncation lost the
// append behind it, see regression_gcreset_test.go), so appends, acknowledgements and resets wait
// until GC returned and only readers get as far as the lock of the truncating factory; the script
// then finishes after GC. An implementation that lets them in is explored at exactly these points.
func (w *world) opGCInsideTruncation() {
	t := w.t
	if w.truncOps >= maxTruncOps {
		t.Skip("budget of GC-inside-truncation operations used up")
	}
	w.truncOps++
	c := w.prepareCollectable()
	ack := w.genCollectingAck(c)
	if ack > w.q.AcknowledgedSeq() {
		w.logf("ack %d", ack)
		if err := w.ackTo(ack); err != nil {
			w.fatalf("%v", err)
		}
	}
	phase := rapid.SampledFrom(truncPhases).Draw(t, "truncPhase")
	kind := "index"
	switch {
	case phase == phEnter:
		kind = rapid.SampledFrom([]string{"data", "index"}).Draw(t, "truncKind")
	case c.data && c.index:
		kind = rapid.SampledFrom([]string{"index", "index", "data", "any"}).Draw(t, "truncKind")
	case c.data:
		kind = rapid.SampledFrom([]string{"data", "any"}).Draw(t, "truncKind")
	}
	steps := w.genTruncScript(true)
	ts := &truncSeam{kind: kind, phase: phase, pick: rapid.IntRange(0, 3).Draw(t, "truncPage")}
	ts.ackPage = w.q.AcknowledgedSeq() / indexItemsPerPage
	where := fmt.Sprintf("gc at %s/%s", kind, ts.phase)
	ts.script = func() error {
		for _, s := range steps {
			ts.gate()
			ts.progress()
			if err := w.runTruncStep(ts, s, where, true); err != nil {
				return err
			}
			ts.progress()
		}
		return nil
	}
	w.logf("gcInsideTruncation %v at %s/%s (appended %d, acknowledged %d)", steps, kind, ts.phase, w.q.AppendedSeq(), ack)
	hasReset := false
	for _, s := range steps {
		hasReset = hasReset || strings.HasPrefix(s.kind, "reset")
	}
	if hasReset {
		w.dropHeld("setAppendedSeq")
	}
	armTrunc(ts)
	defer disarmTrunc(ts)
	putsBefore := w.okPuts
	w.q.GC()
	disarmTrunc(ts)
	err := ts.finish()
	w.noteGC()
	w.noteHeld("gc-with-another-actor-inside-the-truncation")
	if err != nil {
		w.fatalf("while GC was inside the page truncation: %v", err)
	}
	for k, n := range ts.seen {
		w.classes["trunc-"+k] += n
	}
	w.classes["gc-inside-truncation"]++
	switch {
	case !ts.fired:
		// nothing to collect for the planned factory: the actor runs after GC
		w.classes["trunc-point-not-reached(actor-ran-after-gc)"]++
		for _, s := range steps {
			if err := w.runTruncStep(ts, s, "after gc", false); err != nil {
				w.fatalf("%v", err)
			}
		}
	default:
		w.classes["trunc-actor-at-"+ts.firedKind+"/"+ts.phase]++
		if len(ts.firedPages) > 1 {
			w.classes["trunc-actor-while->=2-pages-expire"]++
		}
		if ts.blocked && !ts.idle {
			w.classes["trunc-actor-waited-for-the-truncation"]++
		}
		if ts.idle {
			w.classes["trunc-actor-showed-no-progress(treated-as-waiting-for-gc)"]++
		}
		if ts.inside {
			w.classes["trunc-actor-finished-inside-the-truncation"]++
		}
		if w.okPuts != putsBefore || hasReset {
			w.classes["trunc-actor-appended-or-reset"]++
		}
	}
	w.check("after gc with another actor inside the page truncation")
	if rapid.IntRange(0, 2).Draw(t, "reopenAfterTruncation") > 0 {
		w.opReopen()
		w.check("after gc with another actor inside the page truncation and a reopen")
		w.classes["trunc-reopen-after"]++
	}
}

// ---- a page handed out by a factory is mapped ----------------------------------------------------
//
// AcquirePage / GetPage of an open factory return a page the caller stores into / reads from at
// once: a page that was unmapped (by a truncation) and is handed out nevertheless makes the process
// die at the next access. The harness notices it at the hand-out, reports it with the next check
// and keeps the page from the caller.

var unmappedHandOut string // guarded by seamMu

func (f *seamFactory) unmappedPage(index int64, p page.MappedPage) bool {
	if !f.own || p == nil || !p.Closed() {
		return false
	}
	seamMu.Lock()
	if unmappedHandOut == "" {
		unmappedHandOut = fmt.Sprintf("the %s page factory handed out page %d although that page is unmapped (any access to it kills the process)", f.kind, index)
	}
	seamMu.Unlock()
	return true
}

func takeUnmappedHandOut() string {
	seamMu.Lock()
	defer seamMu.Unlock()
	s := unmappedHandOut
	unmappedHandOut = ""
	return s
}

// ---- an access to an unmapped page is a verdict, not the end of the test process ----------------
//
// A store into / a read from a page that was unmapped (by a truncation that should not have taken
// it) is a SIGSEGV: in production the process dies. debug.SetPanicOnFault turns it into a panic of
// the faulting goroutine, so that the history that led to it is reported (and shrunk) like any other
// violation. Set for the history goroutine (newWorld) and for the actor goroutines started here.

func guarded(f func() error) (err error) {
	debug.SetPanicOnFault(true)
	defer func() {
		if r := recover(); r != nil {
			err = fmt.Errorf("the code under test panicked (in production the process dies here): %v", r)
		}
	}()
	return f()
}
