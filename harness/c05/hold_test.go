package c05

import (
	"bytes"
	"fmt"
	"sort"

	"pgregory.net/rapid"
)

// ---- readers that keep what Get returned ---------------------------------------------------------
//
// Production consumers do not compare-and-drop: a replicator keeps the message of replica index N
// while it is sent, several replicators (one consumer group each) of one WAL queue read the same
// data page from their own goroutines, a consumer may collect a batch. "Can be read back under its
// own sequence number, byte for byte" and "a later append never alters an earlier message" are
// statements about what such a reader holds, too.
//
// Lifetime of a slice returned by Queue.Get(seq), derived from the code (assumption of the check):
//
//   - pkg/queue/queue.go Get returns dataPage.ReadBytes(off, len) and page/mpage.go ReadBytes returns
//     mappedBytes[off:off+len]: the result aliases the mapping of the data page, nothing is copied;
//   - a data page is unmapped at exactly two places: (1) Queue.Close -> Factory.Close closes every
//     page; (2) Queue.GC reads the acknowledged sequence a, takes the data page id P of a's index
//     entry and calls dataPageFct.TruncatePages(P), which unmaps and removes every page with id < P.
//     Offsets are reserved in sequence order under the append lock, so the data page id never
//     decreases with the sequence: a message with sequence > a lives in a page >= P and survives
//     every GC that ran while its sequence was above the acknowledged position (a GC that read an
//     older acknowledged position truncates less);
//   - SetAppendedSeq (follower reset) moves the acknowledged position as well.
//
// So a retained slice is looked at again only while (a) the queue it came from has not been
// closed and (b) its sequence has been above the acknowledged position ever since it was taken.
// The harness drops a retained slice the moment its sequence is acknowledged (before any GC can
// run), drops everything before Close / SetAppendedSeq, and never carries one across a reopen.
// Inside that lifetime nothing may change the bytes: Gets of other sequences of the same or of
// another page (the full scan after every step is such a reader), appends incl. roll-over and
// exact fit, overlapping appends, failed appends, acknowledgements below it, GC, directory
// images.

type heldMsg struct {
	seq    int64
	m      msg
	data   []byte // what Get returned
	want   []byte // the appended bytes (nil for a sparse message: compared through msg.equal)
	page   int64  // modelled data page (class counters only)
	step   int    // number of history entries when it was taken
	serial int
	checks int
	since  []string // what happened since it was taken (failure message only)
}

const maxHeld = 10

// intact compares the retained slice with the appended bytes. full=false only looks at the
// marks of a sparse message (used at the many points inside one append).
func (h *heldMsg) intact(full bool) bool {
	if h.want != nil {
		return bytes.Equal(h.data, h.want)
	}
	if full {
		return h.m.equal(h.data)
	}
	if len(h.data) != h.m.size {
		return false
	}
	k0, k1 := h.m.mark(0), h.m.mark(h.m.size)
	return bytes.Equal(h.data[:16], k0[:]) && bytes.Equal(h.data[h.m.size-16:], k1[:])
}

func (h *heldMsg) describe() string {
	diff := -1
	if h.want != nil {
		n := len(h.data)
		if len(h.want) < n {
			n = len(h.want)
		}
		for i := 0; i < n; i++ {
			if h.data[i] != h.want[i] {
				diff = i
				break
			}
		}
	}
	what := ""
	if id, ok := idOf(h.data); ok && id != h.m.id {
		what = fmt.Sprintf(" - it now starts like message %d", id)
	}
	return fmt.Sprintf("sequence %d: the bytes a reader got from Get at history entry %d (message %d, %d bytes) and still holds now read %s (len %d, first difference at byte %d [-1: not located])%s; "+
		"the sequence has been above the acknowledged position and the queue open ever since; since then: %v",
		h.seq, h.step, h.m.id, h.m.size, head(h.data), len(h.data), diff, what, h.since)
}

// noteHeld records an event the retained slices have to survive (class counters and messages).
func (w *world) noteHeld(event string) {
	if len(w.held) == 0 {
		return
	}
	w.heldEvents[event] = true
}

func (w *world) flushHeldEvents(count bool) {
	if len(w.heldEvents) == 0 {
		return
	}
	evs := make([]string, 0, len(w.heldEvents))
	for e := range w.heldEvents {
		evs = append(evs, e)
		delete(w.heldEvents, e)
	}
	sort.Strings(evs)
	for _, e := range evs {
		if count {
			w.classes["held-reverified-after-"+e] += len(w.held)
		}
		for _, h := range w.held {
			if len(h.since) < 12 && (len(h.since) == 0 || h.since[len(h.since)-1] != e) {
				h.since = append(h.since, e)
			}
		}
	}
}

// verifyHeld: every retained slice still reads as the appended message.
func (w *world) verifyHeld(where string) error {
	if len(w.held) == 0 {
		for e := range w.heldEvents {
			delete(w.heldEvents, e)
		}
		return nil
	}
	w.flushHeldEvents(true)
	for _, h := range w.held {
		if !h.intact(true) {
			return fmt.Errorf("%s: %s", where, h.describe())
		}
		h.checks++
	}
	w.classes["held-slices-reverified"] += len(w.held)
	return nil
}

// peekHeld is verifyHeld for the points inside an operation (cheap, no class bookkeeping).
func (w *world) peekHeld(where string) error {
	for _, h := range w.held {
		if !h.intact(false) {
			w.flushHeldEvents(false)
			return fmt.Errorf("%s: %s", where, h.describe())
		}
	}
	return nil
}

// dropHeld forgets every retained slice (before Close / SetAppendedSeq).
func (w *world) dropHeld(why string) {
	if len(w.held) > 0 {
		w.classes["held-dropped-before-"+why] += len(w.held)
	}
	w.held = nil
	for e := range w.heldEvents {
		delete(w.heldEvents, e)
	}
}

// ackedHeld: the acknowledged position moved to ack. Slices at or below it are forgotten (their
// page may be unmapped by the next GC); the others have to survive the acknowledgement.
func (w *world) ackedHeld(ack int64) {
	if len(w.held) == 0 {
		return
	}
	kept := w.held[:0]
	for _, h := range w.held {
		if h.seq > ack {
			kept = append(kept, h)
		} else {
			w.classes["held-dropped-when-acknowledged"]++
		}
	}
	for i := len(kept); i < len(w.held); i++ {
		w.held[i] = nil
	}
	w.held = kept
	w.noteHeld("ack-below")
}

func (w *world) heldSparse() int {
	n := 0
	for _, h := range w.held {
		if h.want == nil {
			n++
		}
	}
	return n
}

// genHoldSet draws the sequences a reader gets and keeps, out of [lo, hi] (everything above the
// acknowledged position): adjacent runs, strided picks, the newest ones, the two sides of a data
// page boundary, arbitrary picks incl. the same sequence twice; in either direction.
func (w *world) genHoldSet(lo, hi int64) (seqs []int64, kind string) {
	t := w.t
	clip := func(s int64) bool { return s >= lo && s <= hi }
	add := func(s int64) {
		if clip(s) {
			seqs = append(seqs, s)
		}
	}
	// the newest sequence in (lo, hi] whose modelled data page differs from its predecessor's
	boundary := int64(-1)
	for s := hi; s > lo; s-- {
		if p, ok := w.pageOf[s]; ok {
			if q, ok := w.pageOf[s-1]; ok && q != p {
				boundary = s
				break
			}
		}
	}
	k := rapid.IntRange(0, 6).Draw(t, "holdKind")
	if boundary >= 0 && rapid.IntRange(0, 1).Draw(t, "holdAtPageBoundary") == 0 {
		k = 4
	}
	switch k {
	case 0, 1:
		kind = "adjacent-run"
		s := rapid.Int64Range(lo, hi).Draw(t, "holdStart")
		for i, n := int64(0), int64(rapid.IntRange(2, 5).Draw(t, "holdLen")); i < n; i++ {
			add(s + i)
		}
	case 2:
		kind = "strided"
		s := rapid.Int64Range(lo, hi).Draw(t, "holdStart")
		stride := int64(rapid.IntRange(2, 3).Draw(t, "holdStride"))
		for i, n := int64(0), int64(rapid.IntRange(2, 4).Draw(t, "holdLen")); i < n; i++ {
			add(s + i*stride)
		}
	case 3:
		kind = "newest"
		for i, n := int64(0), int64(rapid.IntRange(1, 4).Draw(t, "holdLen")); i < n; i++ {
			add(hi - i)
		}
	case 4:
		// last messages of one data page and first ones of the next (modelled pages)
		kind = "page-boundary"
		if s := boundary; s >= 0 {
			add(s - 2)
			add(s - 1)
			add(s)
			add(s + 1)
		}
		if len(seqs) == 0 {
			kind = "oldest+newest"
			add(lo)
			add(hi)
		}
	case 5:
		kind = "picks"
		for i, n := 0, rapid.IntRange(1, 5).Draw(t, "holdLen"); i < n; i++ {
			add(rapid.Int64Range(lo, hi).Draw(t, "holdSeq"))
		}
	default:
		kind = "same-sequence-twice"
		s := rapid.Int64Range(lo, hi).Draw(t, "holdStart")
		add(s)
		add(s + int64(rapid.IntRange(0, 1).Draw(t, "holdOther")))
		add(s)
	}
	if rapid.IntRange(0, 2).Draw(t, "holdDescending") == 0 {
		for i, j := 0, len(seqs)-1; i < j; i, j = i+1, j-1 {
			seqs[i], seqs[j] = seqs[j], seqs[i]
		}
		kind += "(reversed)"
	}
	return seqs, kind
}

// holdSome: a reader gets a generated set of sequences and keeps every result; after each Get
// everything it holds (from this and earlier batches) is compared again. Reports false when there
// is nothing above the acknowledged position.
func (w *world) holdSome() bool {
	app, ack := w.q.AppendedSeq(), w.q.AcknowledgedSeq()
	if app <= ack {
		return false
	}
	seqs, kind := w.genHoldSet(ack+1, app)
	takeSparse := rapid.IntRange(0, 2).Draw(w.t, "holdBigMessage") == 0
	w.logf("getAndHold %v (%s)", seqs, kind)
	batch := 0
	for _, s := range seqs {
		id, ok := w.assigned[s]
		if !ok {
			// appended by an overlapping appender and not read since: let the scan match it first
			w.check("before a reader gets sequence " + fmt.Sprint(s))
			if id, ok = w.assigned[s]; !ok {
				w.fatalf("harness: sequence %d has no message after a scan", s)
			}
		}
		m := w.byID[id]
		if m.sparse() && (!takeSparse || w.heldSparse() > 0) {
			// the comparison of a mostly-zero message of tens of MiB is expensive: one at a time
			w.classes["hold-skipped-big-message"]++
			continue
		}
		data, err := w.q.Get(s)
		if err != nil {
			w.fatalf("Get(%d) with appended=%d ack=%d: %v", s, app, ack, err)
		}
		if !m.equal(data) {
			w.fatalf("Get(%d) returned %d bytes (%s), appended message %d has %d bytes", s, len(data), head(data), m.id, m.size)
		}
		h := &heldMsg{seq: s, m: m, data: data, page: w.pageOf[s], step: len(w.ops), serial: w.holdSerial}
		w.holdSerial++
		if !m.sparse() {
			h.want = m.bytes()
		} else {
			w.classes["hold-big-message(>4MiB)"]++
		}
		samePage, otherPage, sameSeq := 0, 0, 0
		for _, o := range w.held {
			switch {
			case o.seq == s:
				sameSeq++
			case o.page == h.page:
				samePage++
			default:
				otherPage++
			}
		}
		if samePage > 0 {
			w.noteHeld("get-of-another-sequence-of-the-same-page")
		}
		if otherPage > 0 {
			w.noteHeld("get-of-a-sequence-of-another-page")
		}
		if sameSeq > 0 {
			w.noteHeld("get-of-the-same-sequence-again")
			w.classes["hold-same-sequence-by-two-holders"]++
		}
		for _, o := range w.held {
			if o.page == h.page && (o.seq == s+1 || o.seq == s-1) {
				w.classes["hold-adjacent-in-one-page"]++
				break
			}
		}
		for _, o := range w.held {
			if o.page == h.page && o.seq != s && o.seq != s+1 && o.seq != s-1 {
				w.classes["hold-non-adjacent-in-one-page"]++
				break
			}
		}
		switch {
		case m.size == 0:
			w.classes["hold-empty-message"]++
		case m.size < 8:
			w.classes["hold-short-message(1-7B)"]++
		}
		w.held = append(w.held, h)
		batch++
		if err := w.verifyHeld(fmt.Sprintf("after Get(%d) by a reader that holds %d messages", s, len(w.held))); err != nil {
			w.fatalf("%v", err)
		}
	}
	for len(w.held) > maxHeld {
		// the reader is done with the oldest one
		copy(w.held, w.held[1:])
		w.held[len(w.held)-1] = nil
		w.held = w.held[:len(w.held)-1]
		w.classes["held-released(oldest)"]++
	}
	w.classes["getAndHold"]++
	w.classes["getAndHold-"+kind]++
	perPage := map[int64]int{}
	for _, h := range w.held {
		perPage[h.page]++
	}
	most := 0
	for _, n := range perPage {
		if n > most {
			most = n
		}
	}
	switch {
	case most >= 5:
		w.classes["held-at-once-in-one-page>=5"]++
	case most >= 2:
		w.classes["held-at-once-in-one-page-2..4"]++
	}
	if len(perPage) >= 2 {
		w.classes["held-at-once-in-two-or-more-pages"]++
	}
	return true
}

func (w *world) opGetAndHold() {
	if !w.holdSome() {
		w.t.Skip("nothing above the acknowledged position")
	}
}

// opRelease: the reader is done with some of its messages.
func (w *world) opRelease() {
	if len(w.held) == 0 {
		w.t.Skip("nothing held")
	}
	kind := rapid.SampledFrom([]string{"one", "older-half", "all"}).Draw(w.t, "release")
	n := len(w.held)
	switch kind {
	case "one":
		i := rapid.IntRange(0, n-1).Draw(w.t, "releaseIdx")
		w.held = append(w.held[:i:i], w.held[i+1:]...)
	case "older-half":
		w.held = append([]*heldMsg(nil), w.held[(n+1)/2:]...)
	default:
		w.held = nil
	}
	w.logf("release %s (%d -> %d held)", kind, n, len(w.held))
	w.classes["held-released"] += n - len(w.held)
}

// opAckBelowHeld: the consumer acknowledges what it is done with while it still holds later
// messages (and the collector may run): the acknowledged position moves to just below the oldest
// sequence held.
func (w *world) opAckBelowHeld() {
	if len(w.held) == 0 {
		w.t.Skip("nothing held")
	}
	lowest := w.held[0].seq
	for _, h := range w.held {
		if h.seq < lowest {
			lowest = h.seq
		}
	}
	ack := w.q.AcknowledgedSeq()
	to := lowest - 1 - int64(rapid.IntRange(0, 2).Draw(w.t, "ackGap"))
	if to <= ack {
		to = lowest - 1
	}
	if to <= ack {
		w.t.Skip("the oldest held message is the first above the acknowledged position")
	}
	gc := rapid.IntRange(0, 2).Draw(w.t, "thenGC") > 0
	w.logf("ack %d (below the oldest held sequence %d), gc=%v", to, lowest, gc)
	if err := w.ackTo(to); err != nil {
		w.fatalf("%v", err)
	}
	w.classes["ack-just-below-held"]++
	if gc {
		before := w.pageOf[lowest]
		w.q.GC()
		w.noteGC()
		w.noteHeld("gc")
		if p, ok := w.pageOf[to]; ok && p == before && p > 0 {
			// the collector may have removed earlier data pages; the held ones live in the page of the acknowledged message
			w.noteHeld("gc-up-to-the-page-of-the-held-message")
		}
	}
}

// heldNonTrivial: the history kept >= 2 messages of one data page at once and looked at retained
// slices again after a later append and after a Get of another sequence of the same page.
func (w *world) heldNonTrivial() bool {
	return (w.classes["held-at-once-in-one-page-2..4"] > 0 || w.classes["held-at-once-in-one-page>=5"] > 0) &&
		w.classes["held-reverified-after-get-of-another-sequence-of-the-same-page"] > 0 &&
		(w.classes["held-reverified-after-append"] > 0 || w.classes["held-reverified-after-overlapping-append"] > 0)
}
