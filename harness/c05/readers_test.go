package c05

import (
	"bytes"
	"fmt"
	"os"
	"path/filepath"
	"strings"
	"sync"
	"testing"

	"pgregory.net/rapid"

	"github.com/lindb/lindb/pkg/queue"
	"github.com/lindb/lindb/verifharness/sim/ev"
)

// TestConcurrentReaders: 2-4 readers (the replicators / consumer groups of one WAL queue) run on
// their own goroutines against the production queue (no page wrappers). A case is a generated plan
// of rounds. In the first half of a round every reader gets one sequence - mostly different
// sequences of the same data page - while an appender goroutine appends and a consumer
// acknowledges below everything that is held or will be read and runs GC. After a barrier every
// reader compares what it just got and what it kept from earlier rounds (a generated number of
// rounds each) with the appended bytes, while the appender goes on appending. The plan fixes which
// calls overlap, not how they interleave; the oracle - a held message above the acknowledged
// position reads as appended - does not depend on the interleaving. -race in the thorough tier.

type readerPick struct {
	seq  int64 // -1: the reader sits this round out
	keep int   // number of rounds the slice is kept (>= 1: compared in this round's second half)
}

type readerKept struct {
	seq   int64
	data  []byte
	round int
	until int
}

type readersPlan struct {
	initial  []int // sizes of the messages appended before the readers start
	fillAt   int   // index in initial of the message that fills the data page (-1: none)
	readers  int
	rounds   int
	picks    [][]readerPick // [round][reader]
	appendsA [][]int        // sizes appended while the readers get
	appendsB [][]int        // sizes appended while the readers compare
	reps     []int          // Gets per reader in the round's first half (every result is kept until the comparison)
	ack      []int64        // acknowledged position set in the round's first half (-1: none)
	gc       []bool
}

func (p *readersPlan) String() string {
	var sb strings.Builder
	fmt.Fprintf(&sb, "initial sizes %v (fill at %d), %d readers\n", p.initial, p.fillAt, p.readers)
	for k := 0; k < p.rounds; k++ {
		fmt.Fprintf(&sb, "  round %d: get(x%d) %v | appends %v | ack %d gc=%v || compare | appends %v\n", k, p.reps[k], p.picks[k], p.appendsA[k], p.ack[k], p.gc[k], p.appendsB[k])
	}
	return sb.String()
}

func genReaderSize(t *rapid.T) int {
	switch rapid.IntRange(0, 15).Draw(t, "sizeKind") {
	case 0:
		return 0
	case 1:
		return rapid.IntRange(1, 7).Draw(t, "size")
	case 2, 3:
		return rapid.IntRange(8, 64).Draw(t, "size")
	case 4:
		return rapid.IntRange(60000, 70000).Draw(t, "size")
	case 5:
		if rapid.IntRange(0, 3).Draw(t, "big") == 0 {
			return rapid.IntRange(1<<20, 2<<20).Draw(t, "size")
		}
		return rapid.IntRange(4096, 20000).Draw(t, "size")
	default:
		return rapid.IntRange(8, 4096).Draw(t, "size")
	}
}

func genReadersPlan(t *rapid.T) *readersPlan {
	p := &readersPlan{fillAt: -1}
	n0 := rapid.IntRange(4, 30).Draw(t, "initial")
	for i := 0; i < n0; i++ {
		p.initial = append(p.initial, genReaderSize(t))
	}
	if rapid.IntRange(0, 5).Draw(t, "twoPages") == 0 {
		// one mostly-zero message brings the write cursor close to the end of data page 0, the
		// messages behind it (and the concurrent appends) go to page 1
		p.fillAt = rapid.IntRange(1, n0-1).Draw(t, "fillAt")
		used := 0
		for _, s := range p.initial[:p.fillAt] {
			used += s
		}
		leave := rapid.SampledFrom([]int{0, 5, 100, 5000, 70000}).Draw(t, "leave")
		p.initial[p.fillAt] = dataPageSize - used - leave
	}
	p.readers = rapid.IntRange(2, 4).Draw(t, "readers")
	p.rounds = rapid.IntRange(2, 6).Draw(t, "rounds")
	published := int64(n0)
	for k := 0; k < p.rounds; k++ {
		// the readers move forward: nothing below floor is read from this round on
		floor := int64(k) * int64(n0) / int64(2*p.rounds)
		if rapid.IntRange(0, 3).Draw(t, "behind") == 0 {
			floor = 0
		}
		half := (p.rounds + 1) / 2
		if p.fillAt >= 0 && k >= half && int64(p.fillAt)+1 < published {
			// two data pages: in the later rounds the readers have left page 0 behind (it can be collected)
			floor = int64(p.fillAt) + 1
		}
		var picks []readerPick
		base := rapid.Int64Range(floor, published-1).Draw(t, "base")
		pattern := rapid.SampledFrom([]string{"adjacent", "adjacent", "strided", "same", "free", "free"}).Draw(t, "pattern")
		for r := 0; r < p.readers; r++ {
			var s int64
			switch pattern {
			case "adjacent":
				s = base + int64(r)
			case "strided":
				s = base + 2*int64(r)
			case "same":
				s = base
			default:
				s = rapid.Int64Range(floor, published-1).Draw(t, "seq")
			}
			if s >= published {
				s = base - (s - published) - 1
			}
			if s < floor || s >= published || int(s) == p.fillAt {
				s = -1
			}
			if s >= 0 && rapid.IntRange(0, 9).Draw(t, "idle") == 0 {
				s = -1
			}
			keep := rapid.IntRange(1, p.rounds).Draw(t, "keep")
			if p.fillAt >= 0 && k < half && keep > half-k {
				keep = half - k // what was read from page 0 is given up before the readers leave it behind
			}
			picks = append(picks, readerPick{seq: s, keep: keep})
		}
		p.picks = append(p.picks, picks)
		// a reader may ask again and again (a replicator retrying a send): every result counts
		p.reps = append(p.reps, rapid.SampledFrom([]int{1, 1, 2, 16, 128, 512}).Draw(t, "gets"))
		var a, b []int
		for i, n := 0, rapid.IntRange(0, 3).Draw(t, "appendsWhileGetting"); i < n; i++ {
			a = append(a, genReaderSize(t))
		}
		for i, n := 0, rapid.IntRange(0, 2).Draw(t, "appendsWhileComparing"); i < n; i++ {
			b = append(b, genReaderSize(t))
		}
		p.appendsA, p.appendsB = append(p.appendsA, a), append(p.appendsB, b)
		published += int64(len(a) + len(b))
	}
	// acknowledgements: in round k strictly below every sequence read from round k on and every
	// sequence still held in round k
	wantAck := make([]bool, p.rounds)
	for k := range wantAck {
		wantAck[k] = rapid.IntRange(0, 2).Draw(t, "ack") == 0
		p.gc = append(p.gc, rapid.IntRange(0, 2).Draw(t, "gc") > 0)
	}
	ackFrac := make([]int, p.rounds)
	for k := range ackFrac {
		ackFrac[k] = rapid.IntRange(0, 3).Draw(t, "ackGap")
	}
	if half := (p.rounds + 1) / 2; p.fillAt >= 0 && half < p.rounds {
		wantAck[half], p.gc[half], ackFrac[half] = true, true, 0
	}
	prev := int64(-1)
	for k := 0; k < p.rounds; k++ {
		bound := published // exclusive upper bound for the acknowledged position + 1
		for j := 0; j < p.rounds; j++ {
			for _, pk := range p.picks[j] {
				if pk.seq < 0 {
					continue
				}
				if j >= k || j+pk.keep-1 >= k {
					if pk.seq < bound {
						bound = pk.seq
					}
				}
			}
		}
		// only sequences appended before the readers started are acknowledged (their sequence is known to be published)
		if bound > int64(len(p.initial)) {
			bound = int64(len(p.initial))
		}
		to := bound - 1 - int64(ackFrac[k])
		if to <= prev {
			to = bound - 1
		}
		if !wantAck[k] || to <= prev {
			p.ack = append(p.ack, -1)
			continue
		}
		p.ack = append(p.ack, to)
		prev = to
	}
	return p
}

func TestConcurrentReaders(t *testing.T) {
	rapid.Check(t, func(t *rapid.T) { runConcurrentReaders(t, genReadersPlan(t)) })
}

func runConcurrentReaders(t *rapid.T, p *readersPlan) {
	queue.VerifSetPageFactory(nil)
	dir, err := os.MkdirTemp("", "c05rd-")
	if err != nil {
		t.Fatalf("harness: %v", err)
	}
	defer os.RemoveAll(dir)
	q, err := queue.NewQueue(filepath.Join(dir, "q"), 0)
	if err != nil {
		t.Fatalf("open queue: %v", err)
	}
	defer q.Close() // after the last look at a retained slice

	// all messages of the case, in sequence order (one appender at a time: the sequence of every
	// message is known beforehand)
	var msgs []msg
	pageOf := []int64{}
	off, page := 0, int64(0)
	addMsg := func(size int) msg {
		m := msg{id: uint64(len(msgs) + 1), size: size}
		msgs = append(msgs, m)
		if off+size > dataPageSize {
			off, page = 0, page+1
		}
		off += size
		pageOf = append(pageOf, page)
		return m
	}
	for _, s := range p.initial {
		m := addMsg(s)
		b, release := m.materialize()
		err := q.Put(b)
		release()
		if err != nil {
			t.Fatalf("put of %d bytes: %v", s, err)
		}
	}
	var planA, planB [][]msg
	for k := 0; k < p.rounds; k++ {
		var a, b []msg
		for _, s := range p.appendsA[k] {
			a = append(a, addMsg(s))
		}
		for _, s := range p.appendsB[k] {
			b = append(b, addMsg(s))
		}
		planA, planB = append(planA, a), append(planB, b)
	}
	want := make(map[int64][]byte)
	for k := range p.picks {
		for _, pk := range p.picks[k] {
			if pk.seq >= 0 && want[pk.seq] == nil {
				want[pk.seq] = msgs[pk.seq].bytes()
			}
		}
	}

	classes := map[string]int{}
	kept := make([][]readerKept, p.readers)
	ackNow := int64(-1)
	nt := false
	for k := 0; k < p.rounds; k++ {
		// ---- first half: get | append | acknowledge + collect, all at the same time
		var wg sync.WaitGroup
		start := make(chan struct{})
		got := make([][]byte, p.readers)
		again := make([][][]byte, p.readers) // results of the repeated Gets of the round
		getErr := make([]error, p.readers)
		var putErr, putErrB error
		for r := 0; r < p.readers; r++ {
			if p.picks[k][r].seq < 0 {
				continue
			}
			wg.Add(1)
			go func(r int, s int64) {
				defer wg.Done()
				<-start
				got[r], getErr[r] = q.Get(s)
				n := p.reps[k] - 1
				if size := msgs[s].size; size > 0 && n > (8<<20)/size {
					n = (8 << 20) / size // bounded comparison work per reader and round
				}
				for i := 0; i < n && getErr[r] == nil; i++ {
					var d []byte
					d, getErr[r] = q.Get(s)
					again[r] = append(again[r], d)
				}
			}(r, p.picks[k][r].seq)
		}
		if len(planA[k]) > 0 {
			wg.Add(1)
			go func(ms []msg) {
				defer wg.Done()
				<-start
				for _, m := range ms {
					if err := q.Put(m.bytes()); err != nil {
						putErr = err
						return
					}
				}
			}(planA[k])
		}
		if p.ack[k] >= 0 {
			wg.Add(1)
			go func(to int64, gc bool) {
				defer wg.Done()
				<-start
				q.SetAcknowledgedSeq(to)
				if gc {
					q.GC()
				}
			}(p.ack[k], p.gc[k])
			ackNow = p.ack[k]
		} else if p.gc[k] && ackNow >= 0 {
			wg.Add(1)
			go func() {
				defer wg.Done()
				<-start
				q.GC()
			}()
		}
		close(start)
		wg.Wait() // the barrier: every Get has returned
		if putErr != nil {
			t.Fatalf("round %d: put: %v\nplan:\n%s", k, putErr, p)
		}
		pages := map[int64]map[int64]bool{}
		for r := 0; r < p.readers; r++ {
			pk := p.picks[k][r]
			if pk.seq < 0 {
				continue
			}
			if getErr[r] != nil {
				t.Fatalf("round %d reader %d: Get(%d) with acknowledged position %d: %v\nplan:\n%s", k, r, pk.seq, ackNow, getErr[r], p)
			}
			kept[r] = append(kept[r], readerKept{seq: pk.seq, data: got[r], round: k, until: k + pk.keep - 1})
			pg := pageOf[pk.seq]
			if pages[pg] == nil {
				pages[pg] = map[int64]bool{}
			}
			pages[pg][pk.seq] = true
			if pk.keep >= 2 {
				classes["slice-kept-over->=2-rounds"]++
			}
		}
		differentSamePage := false
		for _, set := range pages {
			if len(set) >= 2 {
				differentSamePage = true
			}
		}
		if differentSamePage {
			classes["round:different-sequences-of-one-page-read-at-once"]++
		}
		if len(pages) >= 2 {
			classes["round:sequences-of-two-pages-read-at-once"]++
		}
		n := 0
		for _, set := range pages {
			n += len(set)
		}
		readersActive := 0
		for _, pk := range p.picks[k] {
			if pk.seq >= 0 {
				readersActive++
			}
		}
		if readersActive > n {
			classes["round:one-sequence-read-by-two-readers-at-once"]++
		}
		if p.reps[k] >= 16 && readersActive >= 2 {
			classes["round:>=16-gets-per-reader-at-once"]++
		}
		if len(planA[k]) > 0 && readersActive > 0 {
			classes["round:appends-while-readers-get"]++
		}
		if p.ack[k] >= 0 {
			classes["round:ack-below-while-readers-get"]++
			if p.gc[k] {
				classes["round:gc-while-readers-get"]++
				if pageOf[p.ack[k]] > 0 {
					classes["round:gc-removes-page-0-while-readers-hold-page-1"]++
				}
			}
		}

		// ---- second half: every reader compares what it holds | the appender goes on
		cmpErr := make([]error, p.readers)
		start2 := make(chan struct{})
		for r := 0; r < p.readers; r++ {
			if len(kept[r]) == 0 {
				continue
			}
			wg.Add(1)
			go func(r int) {
				defer wg.Done()
				<-start2
				for i, d := range again[r] {
					if s := p.picks[k][r].seq; !bytes.Equal(d, want[s]) {
						cmpErr[r] = fmt.Errorf("reader %d, round %d: Get(%d) number %d of %d returned %s (len %d), appended: %s (len %d)",
							r, k, s, i+2, len(again[r])+1, head(d), len(d), head(want[s]), len(want[s]))
						return
					}
				}
				for _, h := range kept[r] {
					if !bytes.Equal(h.data, want[h.seq]) {
						what := ""
						if id, ok := idOf(h.data); ok && id != msgs[h.seq].id && id >= 1 && id <= uint64(len(msgs)) {
							what = fmt.Sprintf(" - it starts like the message of sequence %d", id-1)
						}
						cmpErr[r] = fmt.Errorf("reader %d, round %d: the bytes it got from Get(%d) in round %d and still holds read %s (len %d), appended: %s (len %d)%s",
							r, k, h.seq, h.round, head(h.data), len(h.data), head(want[h.seq]), len(want[h.seq]), what)
						return
					}
				}
			}(r)
		}
		if len(planB[k]) > 0 {
			wg.Add(1)
			go func(ms []msg) {
				defer wg.Done()
				<-start2
				for _, m := range ms {
					if err := q.Put(m.bytes()); err != nil {
						putErrB = err
						return
					}
				}
			}(planB[k])
			classes["round:appends-while-readers-compare"]++
		}
		close(start2)
		wg.Wait()
		if putErrB != nil {
			t.Fatalf("round %d: put: %v\nplan:\n%s", k, putErrB, p)
		}
		for r, err := range cmpErr {
			if err != nil {
				t.Fatalf("%v (acknowledged position %d)\nplan:\n%s", err, ackNow, p)
			}
			held := 0
			live := kept[r][:0]
			for _, h := range kept[r] {
				if h.until > k {
					live = append(live, h)
					held++
				}
			}
			kept[r] = live
			if held >= 2 {
				classes["reader-holds->=2-messages-across-a-round"]++
			}
		}
		if differentSamePage && (len(planA[k]) > 0 || p.ack[k] >= 0) {
			nt = true
		}
	}
	// at the end: dense sequences, everything above the acknowledged position reads as appended
	if app := q.AppendedSeq(); app != int64(len(msgs))-1 {
		t.Fatalf("appended sequence %d after %d successful appends\nplan:\n%s", app, len(msgs), p)
	}
	for s := q.AcknowledgedSeq() + 1; s < int64(len(msgs)); s++ {
		data, err := q.Get(s)
		if err != nil || !msgs[s].equal(data) {
			t.Fatalf("final scan: Get(%d): err=%v, %d bytes %s, appended %d bytes\nplan:\n%s", s, err, len(data), head(data), msgs[s].size, p)
		}
	}
	classes[fmt.Sprintf("readers=%d", p.readers)]++
	if p.fillAt >= 0 {
		classes["two-data-pages"]++
	}
	for c, n := range classes {
		ev.Class("TestConcurrentReaders", c, n)
	}
	ev.Case("TestConcurrentReaders", p.String(), nt, nil, map[string]any{"plan": strings.Split(p.String(), "\n")})
}
