package c05

import (
	"errors"
	"fmt"
	"strings"
	"sync"
	"time"

	"pgregory.net/rapid"

	"github.com/lindb/lindb/pkg/queue"
	"github.com/lindb/lindb/verifharness/sim/qsim"
)

// ---- index reset (Queue.SetAppendedSeq) as an operation ------------------------------------------
//
// Callers (replica/partition.go ResetReplicaIndex <- the Reset RPC of a follower,
// replica/replicator.go ResetAppendIndex <- remoteReplicator.IsReady of a leader whose log is
// behind its follower, both through FanOutQueue.SetAppendedSeq): during a replication handshake
// the log position of a partition is moved to idx-1; the next message the partition logs
// (ReplicaLog / WriteLog -> Queue.Put) is expected at index idx. Today's callers only move the
// position forward (to a sequence above the appended one); the API takes any sequence >= -1 and
// the same / a lower sequence are generated as well (assumption of the check).
//
// What the code promises (queue.go SetAppendedSeq: appended = acknowledged = seq, both stored in
// the meta page): after a reset to seq
//   - AppendedSeq() == AcknowledgedSeq() == seq, also after a reopen;
//   - everything at or below seq counts as acknowledged (not readable, collectable);
//   - appends that return success afterwards get seq+1, seq+2, ... (dense) and can be read back
//     byte for byte until they are acknowledged; no later append alters them.
//
// Locks: SetAppendedSeq takes rwMutex only, Put holds putMutex for the whole append and takes
// rwMutex inside alloc and inside persistMetaOfMessage, not in between. So a reset can run to
// completion while an appender A has reserved its space (alloc) and has not published its
// sequence yet (the existing seam: the WriteBytes into the data page). A then publishes
// appended+1 = seq+1 and returns success: its message is a message appended after the reset, above
// the acknowledged position, and has to stay intact under the appends that follow.
// (Should an implementation make the reset wait for the appender, A keeps the sequence it would
// have got without the reset and the reset acknowledges it if it is <= seq; both outcomes are
// accepted, they are told apart by the appended sequence afterwards.)

const indexItemsPerPage = 262144

// modelReset updates the model for a completed SetAppendedSeq(seq); oldApp is the appended
// sequence before.
func (w *world) modelReset(seq, oldApp int64) {
	for s := range w.assigned {
		if s > seq {
			delete(w.assigned, s) // these sequences will be handed out again
		}
	}
	for s := range w.pageOf {
		if s > seq {
			delete(w.pageOf, s)
		}
	}
	w.pending = nil
	w.okPuts = int(seq) + 1
	w.firstSeq = seq + 1
	w.lastSize = -1
	w.resetNoPut = true
	// no index entry behind seq: never written (beyond everything appended), or its index page was collected
	w.resetUnwritten = seq > oldApp || seq < 0 || seq/indexItemsPerPage < w.collectedIndex
	if oldApp > w.maxEver {
		w.maxEver = oldApp
	}
	if seq/indexItemsPerPage != oldApp/indexItemsPerPage && seq >= 0 {
		w.indexJumps++
		w.classes["reset-into-another-index-page"]++
	}
}

// closedAfterReset: the queue is being reopened. If nothing was appended since a reset to a
// sequence without index entry, the open computes the write cursor from that (zero) entry: data
// page 0, offset 0 (generation only).
func (w *world) closedAfterReset() {
	if w.resetNoPut && w.resetUnwritten {
		w.off = 0
		w.cursorRewound = true
		w.classes["reopen-right-after-reset-to-unwritten-sequence"]++
	}
	w.resetNoPut = false
}

// genResetTarget draws the sequence of a reset relative to the appended one.
func (w *world) genResetTarget(app int64) (seq int64, kind string) {
	t := w.t
	k := rapid.IntRange(0, 9).Draw(t, "resetKind")
	// a forward reset goes beyond everything the log ever held: after an earlier reset cut off a
	// tail, the index entries of that tail are stale (they may point to data pages behind the
	// write cursor) and the forward-only handshake code cannot land on them
	base := app
	if w.maxEver > base && k < 6 {
		base = w.maxEver
		w.classes["reset-higher-goes-beyond-a-cut-off-tail"]++
	}
	switch {
	case k < 4:
		return base + int64(rapid.IntRange(1, 6).Draw(t, "resetUp")), "higher"
	case k == 4:
		if w.indexJumps < 2 {
			// to just below the next index-page boundary: the appends that follow cross it
			next := (base/indexItemsPerPage + 1) * indexItemsPerPage
			if base < 0 {
				next = indexItemsPerPage
			}
			return next - 1 - int64(rapid.IntRange(0, 2).Draw(t, "beforeBoundary")), "higher(to-index-page-boundary)"
		}
		return base + 1000, "higher"
	case k == 5:
		if w.indexJumps < 2 {
			return base + int64(rapid.IntRange(300000, 600000).Draw(t, "resetFar")), "higher(far)"
		}
		return base + 1, "higher"
	case k < 8:
		return app, "same"
	}
	if w.cursorRewound {
		// after a reopen put the write cursor back to data page 0, index entries of an earlier
		// life of the log point to later pages: a reset back to them is not a sequence of calls the
		// handshake code can produce (it only moves forward); left out
		w.classes["excluded_out_of_scope_lower-reset-after-cursor-rewind"]++
		return app, "same"
	}
	if app >= indexItemsPerPage && app%indexItemsPerPage < 8 && rapid.IntRange(0, 1).Draw(t, "resetBackAcrossIndexPage") == 0 {
		// the appended sequence is one of the first of its index page: back into the page before
		return app/indexItemsPerPage*indexItemsPerPage - 1 - int64(rapid.IntRange(0, 2).Draw(t, "beforeBoundary")), "lower(back-across-index-page-boundary)"
	}
	seq = app - int64(rapid.IntRange(1, 6).Draw(t, "resetDown"))
	if ack := w.q.AcknowledgedSeq(); app-ack >= 2 && rapid.IntRange(0, 2).Draw(t, "resetAboveAck") > 0 {
		// back to a sequence that is still unacknowledged: the tail of the log is cut off
		seq = rapid.Int64Range(ack+1, app-1).Draw(t, "resetTo")
	}
	if seq < -1 {
		seq = -1
	}
	if seq == app {
		return seq, "same"
	}
	if seq <= w.q.AcknowledgedSeq() {
		return seq, "lower(at-or-below-ack)"
	}
	return seq, "lower"
}

// checkReset: the positions after a reset and the sequences next to them.
func (w *world) checkReset(seq, wantApp int64, where string) {
	if app, ack := w.q.AppendedSeq(), w.q.AcknowledgedSeq(); app != wantApp || ack != seq {
		w.fatalf("%s: appended %d acknowledged %d, want appended %d acknowledged %d", where, app, ack, wantApp, seq)
	}
	// at or below the reset sequence: acknowledged; above the appended one: not there yet
	for _, s := range []int64{seq, wantApp + 1} {
		if s < 0 {
			continue
		}
		if data, err := w.q.Get(s); !errors.Is(err, queue.ErrOutOfSequenceRange) {
			w.fatalf("%s: Get(%d) with appended=%d ack=%d returned %d bytes, err=%v; want ErrOutOfSequenceRange", where, s, wantApp, seq, len(data), err)
		}
	}
}

// opReset: a reset that overlaps nothing, then (mostly) an append.
func (w *world) opReset() {
	app := w.q.AppendedSeq()
	seq, kind := w.genResetTarget(app)
	w.logf("setAppendedSeq %d (%s; appended %d, acknowledged %d)", seq, kind, app, w.q.AcknowledgedSeq())
	w.dropHeld("setAppendedSeq")
	w.q.SetAppendedSeq(seq)
	w.modelReset(seq, app)
	w.classes["reset"]++
	w.classes["reset-"+kind]++
	w.checkReset(seq, seq, "after setAppendedSeq")
	w.check("after setAppendedSeq")
	switch rapid.IntRange(0, 5).Draw(w.t, "afterReset") {
	case 0:
		// the process restarts right after the handshake
		w.opReopen()
		w.checkReset(seq, seq, "after setAppendedSeq and reopen")
		w.classes["reset-then-reopen"]++
	case 1:
		w.opGC()
		w.classes["reset-then-gc"]++
	case 2:
		return
	}
	w.opPut()
	if got := w.q.AppendedSeq(); got != seq+1 {
		w.fatalf("first append after setAppendedSeq(%d) got sequence %d", seq, got)
	}
	w.check("after the first append behind a reset")
}

// reachBackSize: size of an append that follows a reset, relative to the offset x at which the
// message appended around the reset lies in its data page: the following appends together are as
// long as the way from the start of the page to that message (-+ a few bytes).
func (w *world) reachBackSize(x int) (int, bool) {
	delta := rapid.SampledFrom([]int{-100, -8, -1, 0, 1, 8, 100, 1000}).Draw(w.t, "reachDelta")
	size := x + delta
	if size < 0 {
		size = 0
	}
	switch {
	case size <= 3<<20:
		return size, true
	case w.fills < maxFills && size <= dataPageSize:
		w.fills++ // one big mostly-zero message
		return size, true
	}
	return 0, false
}

// opResetDuringPut: appender A has reserved its space and not yet published its sequence (seam:
// before / after its store into the data page) when a reset runs. Afterwards further appends
// follow, sized so that they would run over A's bytes if the write cursor had moved backwards.
func (w *world) opResetDuringPut() {
	t := w.t
	app := w.q.AppendedSeq()
	seq, kind := w.genResetTarget(app)
	a := w.newMsg(genSize(t))
	if rapid.IntRange(0, 3).Draw(t, "inflightNonEmpty") > 0 && a.size < 8 {
		a = w.newMsg(rapid.IntRange(8, 4096).Draw(t, "inflightSize"))
	}
	afterStore := rapid.IntRange(0, 1).Draw(t, "resetAfterStore") == 1
	x := w.off
	if w.room() < a.size {
		x = 0
	}
	w.logf("resetDuringPut A=%d(%dB at offset ~%d) setAppendedSeq %d (%s; appended %d) %s A's store into the data page",
		a.id, a.size, x, seq, kind, app, map[bool]string{false: "before", true: "after"}[afterStore])
	w.dropHeld("setAppendedSeq")
	var once sync.Once
	done := make(chan struct{}, 1)
	started, inside := false, false
	qsim.SetHook(func(op, path string, before bool) {
		if op != "writeBytes" || before == afterStore || !strings.Contains(path, "/data/") {
			return
		}
		once.Do(func() {
			started = true
			go func() {
				w.q.SetAppendedSeq(seq)
				done <- struct{}{}
			}()
			select {
			case <-done:
				done <- struct{}{}
				inside = true
			case <-time.After(50 * time.Millisecond):
				// the reset waits for the appender (not the case on today's code)
			}
		})
	})
	errA := w.q.Put(a.bytes())
	qsim.SetHook(nil)
	if !started {
		w.fatalf("harness: seam not reached")
	}
	<-done
	if errA != nil {
		w.fatalf("append overlapped by setAppendedSeq failed: %v", errA)
	}
	w.modelReset(seq, app)
	w.resetNoPut = false
	gotApp := w.q.AppendedSeq()
	switch {
	case gotApp == seq+1:
		// A published after the reset: it is the first message behind the reset
		w.assigned[seq+1] = a.id
		w.pageOf[seq+1] = w.maxData
		w.okPuts = int(seq) + 2
		w.classes["reset-during-append:append-published-after-reset"]++
	case gotApp == seq && !inside:
		// the reset ran after A had finished: A had sequence app+1, acknowledged now or cut off
		w.classes["reset-during-append:reset-waited-for-the-append"]++
	default:
		w.fatalf("append A overlapped by setAppendedSeq(%d) (reset completed inside the append: %v): appended sequence is %d afterwards, want %d", seq, inside, gotApp, seq+1)
	}
	w.advance(a.size)
	w.noteSize(a.size)
	w.classes["reset-during-append"]++
	w.classes["reset-during-append-"+kind]++
	if afterStore {
		w.classes["reset-during-append:after-the-data-store"]++
	} else {
		w.classes["reset-during-append:before-the-data-store"]++
	}
	w.checkReset(seq, gotApp, "after an append overlapped by setAppendedSeq")
	w.check("after an append overlapped by setAppendedSeq")
	if rapid.IntRange(0, 4).Draw(t, "reopenAfterOverlappedReset") == 0 {
		w.opReopen()
		w.check("after an append overlapped by setAppendedSeq and a reopen")
	}
	// further appends: nothing published after the reset may change
	left := x
	for i, n := 0, rapid.IntRange(1, 3).Draw(t, "afterOverlappedReset"); i < n; i++ {
		var m msg
		size, ok := 0, false
		if rapid.IntRange(0, 3).Draw(t, "reachBack") > 0 {
			size, ok = w.reachBackSize(left)
		}
		if ok {
			if i+1 < n && size > 16 && rapid.IntRange(0, 1).Draw(t, "reachInTwo") == 0 {
				size /= 2
			}
			m = w.newMsg(size)
			w.classes["reset-during-append:following-append-sized-to-reach-back"]++
			left -= size
			if left < 0 {
				left = 0
			}
		} else {
			m = w.newMsg(w.genPutSize())
		}
		w.logf("put id=%d size=%d", m.id, m.size)
		if err := w.putMsg(m); err != nil {
			w.fatalf("%v", err)
		}
		w.check(fmt.Sprintf("after append %d behind an append overlapped by setAppendedSeq", i+1))
	}
}

// noteGC: the collector ran. Index pages below the page of the acknowledged sequence are gone
// (generation only; the acknowledged position read here is >= the one GC worked with).
func (w *world) noteGC() {
	if p := w.q.AcknowledgedSeq() / indexItemsPerPage; p > w.collectedIndex {
		w.collectedIndex = p
		w.classes["gc-collected-an-index-page"]++
	}
}

func (w *world) resetTo(seq int64, kind string) {
	app := w.q.AppendedSeq()
	w.logf("setAppendedSeq %d (%s; appended %d, acknowledged %d)", seq, kind, app, w.q.AcknowledgedSeq())
	w.dropHeld("setAppendedSeq")
	w.q.SetAppendedSeq(seq)
	w.modelReset(seq, app)
	w.classes["reset"]++
	w.classes["reset-"+kind]++
	w.checkReset(seq, seq, "after setAppendedSeq")
	w.check("after setAppendedSeq")
}

// opResetBackAcrossIndexPage: the append position moves forward over an index-page boundary
// (reset to just below it, appends across it), the consumer may catch up and the collector run -
// the index page below the boundary is removed then -, and a reset takes the position back below
// the boundary (API-legal, see the assumptions): the appends that follow need the lower index page
// again, cross the boundary again and must be readable like all others, also after a reopen.
func (w *world) opResetBackAcrossIndexPage() {
	t := w.t
	if w.cursorRewound || w.indexJumps > 0 {
		t.Skip("index-page budget of the history used up")
	}
	app := w.q.AppendedSeq()
	base := app
	if w.maxEver > base {
		base = w.maxEver
	}
	boundary := int64(indexItemsPerPage)
	if base >= 0 {
		boundary = (base/indexItemsPerPage + 1) * indexItemsPerPage
	}
	w.resetTo(boundary-1-int64(rapid.IntRange(0, 2).Draw(t, "beforeBoundary")), "higher(to-index-page-boundary)")
	for past := int64(rapid.IntRange(0, 2).Draw(t, "pastBoundary")); w.q.AppendedSeq() < boundary+past; {
		w.opPut()
	}
	w.check("after the appends across the index-page boundary")
	collected := false
	switch rapid.IntRange(0, 3).Draw(t, "consumer") {
	case 0:
	case 1:
		// acknowledged up to a sequence behind the boundary, no collector yet
		if err := w.ackTo(rapid.Int64Range(boundary, w.q.AppendedSeq()).Draw(t, "ack")); err != nil {
			w.fatalf("%v", err)
		}
	default:
		to := rapid.Int64Range(boundary, w.q.AppendedSeq()).Draw(t, "ack")
		w.logf("ack %d", to)
		if err := w.ackTo(to); err != nil {
			w.fatalf("%v", err)
		}
		w.opGC()
		collected = true
	}
	w.check("before the reset back across the index-page boundary")
	w.resetTo(boundary-1-int64(rapid.IntRange(0, 3).Draw(t, "beforeBoundary")), "lower(back-across-index-page-boundary)")
	w.classes["reset-back-across-index-page-boundary"]++
	if collected {
		w.classes["reset-back-into-a-collected-index-page"]++
	}
	switch rapid.IntRange(0, 4).Draw(t, "afterReset") {
	case 0:
		w.opReopen()
		w.check("after the reset back across the index-page boundary and a reopen")
	case 1:
		w.opGC()
	}
	for n := boundary + int64(rapid.IntRange(0, 2).Draw(t, "pastBoundary")); w.q.AppendedSeq() < n; {
		w.opPut()
		w.check("after an append behind the reset back across the index-page boundary")
	}
	if rapid.IntRange(0, 2).Draw(t, "reopenAtTheEnd") == 0 {
		w.opReopen()
		w.check("after the appends behind the reset back across the index-page boundary and a reopen")
	}
}
