package c08

// Page-store faults of the logs under replication, at index page boundaries.
//
// Everything a log stores goes through page.Factory / page.MappedPage (pkg/queue/page). An append
// (leader: Partition.WriteLog, follower: Partition.ReplicaLog, both -> Queue.Put) creates a page
// FILE at two places only: the next data page at a roll-over (128 MiB of messages: out of reach of
// a quick history) and the next INDEX page when the sequence to publish is the first one of an
// index page (position k*262144) - or lies in an index page the queue does not stand on because a
// handshake has reset the log position (Partition.ResetReplicaIndex -> FanOutQueue.SetAppendedSeq)
// into another page. Creating a page file can fail: open (EMFILE/ENOSPC: no file), ftruncate
// (ENOSPC: an empty file stays behind), mmap (ENOMEM / vm.max_map_count: a zero file of the page
// size stays behind). Put returns the error; what follows is the replication layer's own business:
//
//   - follower: ReplicaLog answers (-1, err), the rpc handler passes the refusal on, the leader
//     marks the channel failed, the next step does the handshake (GetReplicaAckIndex, index
//     comparison, reset) and offers the position again over a new stream;
//   - leader: WriteLog returns the error to the producer, which writes again (here: the next
//     append of the history).
//
// The histories of this file run at positions just below an index page boundary: the world starts
// with a leader log whose append position is base = k*262144-d (k 1..3, d 1..9; the position is
// set with FanOutQueue.SetAppendedSeq on the fresh log, which is what the handshake of a leader
// that lost its whole log does with a follower that is ahead, then the log is re-opened: it stands
// on index page k-1 as a log that really holds base messages). The followers are fresh; the first
// handshake of each resets it to the leader's position by the production path (case 'remote ack <
// leader ack': Reset), so a follower's log stands on index page 0 and - for k >= 2 - its first
// append already creates an index page (k-1), the boundary k*262144 the next one.
//
// Operations (besides all plain operations and the follower's log life cycle): 'the next 1..2
// creations of an index page file on node X fail' (X = a follower or the leader; residue none /
// empty file / zero file of the page size; the fault stays armed until a creation happens, i.e. it
// fires exactly at a boundary / first append after a reset), 'to the boundary' (leader appends up
// to 0..3 messages over the next boundary of a follower, that follower is stepped 0..n times).
//
// Oracle: unchanged (world.checkFollower after every operation + convergence), plus
//   - an answer 'appended position i' of a follower is checked against its log at that moment
//     (appended sequence >= i), not taken on trust (serverStream.Send);
//   - a failed leader append consumes no position (appended sequence unchanged);
//   - every position the current leader log stored and has not collected is readable on the leader
//     with the bytes that were appended (checkLeader) - otherwise replication cannot go on and the
//     byte comparison with the followers would compare nothing.

import (
	"bytes"
	"fmt"
	"os"
	"path/filepath"
	"sort"
	"strings"
	"sync"
	"sync/atomic"
	"syscall"
	"testing"

	"pgregory.net/rapid"

	"github.com/lindb/lindb/pkg/queue"
	"github.com/lindb/lindb/pkg/queue/page"
	"github.com/lindb/lindb/verifharness/sim/ev"
)

const (
	groupPageFault    = "TestReplicationPageFaults"
	indexItemsPerPage = 262144
)

// ---- the fault table behind queue.VerifSetPageFactory -------------------------------------------

type pfArm struct {
	dir     string // directory of the node's log(s)
	kind    string // "index" (base name of the factory directory)
	n       int    // creations that still fail
	residue string
}

type pfEvent struct {
	dir, kind, residue string
	index              int64
}

var pfTable struct {
	mu    sync.Mutex
	arms  []*pfArm
	fired []pfEvent
}

var pfResidues = []string{"none", "none", "empty-file", "full-file"}

func pfArmFault(dir, kind string, n int, residue string) {
	pfTable.mu.Lock()
	defer pfTable.mu.Unlock()
	for _, a := range pfTable.arms {
		if a.dir == dir && a.kind == kind {
			a.n, a.residue = n, residue
			return
		}
	}
	pfTable.arms = append(pfTable.arms, &pfArm{dir: dir, kind: kind, n: n, residue: residue})
}

// pfDisarm removes every armed fault below root and returns (and forgets) what fired there.
func pfDisarm(root string, keepArms bool) []pfEvent {
	pfTable.mu.Lock()
	defer pfTable.mu.Unlock()
	if !keepArms {
		arms := pfTable.arms[:0]
		for _, a := range pfTable.arms {
			if !strings.HasPrefix(a.dir, root) {
				arms = append(arms, a)
			}
		}
		pfTable.arms = arms
	}
	var out []pfEvent
	rest := pfTable.fired[:0]
	for _, e := range pfTable.fired {
		if strings.HasPrefix(e.dir, root) {
			out = append(out, e)
		} else {
			rest = append(rest, e)
		}
	}
	pfTable.fired = rest
	return out
}

func pfArmed(dir, kind string) int {
	pfTable.mu.Lock()
	defer pfTable.mu.Unlock()
	for _, a := range pfTable.arms {
		if a.dir == dir && a.kind == kind {
			return a.n
		}
	}
	return 0
}

// pfCreate: the creation of page file index in the factory directory path fails.
func pfCreate(path string, pageSize int, index int64) error {
	pfTable.mu.Lock()
	defer pfTable.mu.Unlock()
	if len(pfTable.arms) == 0 {
		return nil
	}
	kind := filepath.Base(path)
	for _, a := range pfTable.arms {
		if a.n == 0 || a.kind != kind || !strings.HasPrefix(path, a.dir+string(filepath.Separator)) {
			continue
		}
		a.n--
		pfTable.fired = append(pfTable.fired, pfEvent{dir: a.dir, kind: kind, residue: a.residue, index: index})
		name := filepath.Join(path, fmt.Sprintf("%d.bat", index))
		switch a.residue {
		case "empty-file", "full-file":
			fh, err := os.OpenFile(name, os.O_CREATE|os.O_RDWR, 0o644)
			if err != nil {
				panic(fmt.Sprintf("harness: residue file: %v", err))
			}
			if a.residue == "full-file" {
				if err := fh.Truncate(int64(pageSize)); err != nil {
					panic(fmt.Sprintf("harness: residue file: %v", err))
				}
			}
			_ = fh.Close()
			if a.residue == "empty-file" {
				return &os.PathError{Op: "truncate", Path: name, Err: syscall.ENOSPC}
			}
			return syscall.ENOMEM // mmap
		}
		return &os.PathError{Op: "open", Path: name, Err: syscall.EMFILE}
	}
	return nil
}

// faultyFactory is the production page factory; the creation of a page file (AcquirePage of a page
// the factory does not hold) can be made to fail. The first acquisition of a factory never fails:
// it belongs to the open of the log, not to an append (a log that cannot be opened is a node that
// does not start; not generated here).
type faultyFactory struct {
	page.Factory
	path     string
	pageSize int
	served   atomic.Int64
}

func (f *faultyFactory) AcquirePage(index int64) (page.MappedPage, error) {
	if _, held := f.Factory.GetPage(index); !held && f.served.Load() > 0 {
		if err := pfCreate(f.path, f.pageSize, index); err != nil {
			return nil, err
		}
	}
	p, err := f.Factory.AcquirePage(index)
	if err == nil {
		f.served.Add(1)
	}
	return p, err
}

func init() {
	queue.VerifSetPageFactory(func(path string, pageSize int) (page.Factory, error) {
		f, err := page.NewFactory(path, pageSize)
		if err != nil {
			return nil, err
		}
		return &faultyFactory{Factory: f, path: path, pageSize: pageSize}, nil
	})
}

// ---- world at a position just below an index page boundary ---------------------------------------

// startAt: the leader log of a fresh world (partition open, consumer groups of the followers built)
// is moved to append position base by FanOutQueue.SetAppendedSeq (what the handshake of a leader
// that lost its whole log does with a follower that is ahead: remoteReplicator.ResetAppendIndex);
// restart: the leader restarts afterwards, so that its log stands on the index page of base-1 as a
// log that really holds base messages (otherwise it stands on index page 0 and its first append
// already creates an index page when base lies in a later one).
func (w *world) startAt(base int64, restart bool) {
	w.base = base
	if base <= 0 {
		return
	}
	w.leader.fq.SetAppendedSeq(base - 1)
	if restart {
		w.leader.part.Stop()
		_ = w.leader.part.Close()
		w.openLeader()
	}
	for _, f := range w.fols {
		f.lastAck = base - 1
	}
}

func nextBoundary(app int64) int64 {
	return ((app+1)/indexItemsPerPage + 1) * indexItemsPerPage
}

// collectFired: bookkeeping of the faults that fired since the last call.
func (w *world) collectFired() {
	if !w.pf {
		return
	}
	for _, e := range pfDisarm(w.root, true) {
		node := "leader"
		if e.dir != w.leader.dir {
			node = "follower"
		}
		at := "first-append-after-a-position-reset(into-another-index-page)"
		if seq := e.index * indexItemsPerPage; seq > w.base {
			at = "append-crosses-index-page-boundary"
		}
		w.logf("  (FAULT fired: creation of %s page file %d on the %s %s failed, residue %s)", e.kind, e.index, node, filepath.Base(e.dir), e.residue)
		w.class("page-fault-fired")
		w.class("page-fault-fired:" + node + ":" + e.kind + ":" + at)
		w.class("page-fault-fired:residue:" + e.residue)
		w.shape("page-fault-fired:" + node)
		w.faultHit++
	}
}

// checkLeader: every position the current leader log stored and has not collected is readable on
// the leader with the bytes that were appended.
func (w *world) checkLeader(where string) {
	if !w.pf || w.destroyed || w.step != nil {
		return
	}
	lq := w.leader.fq.Queue()
	lApp, lAck := lq.AppendedSeq(), lq.AcknowledgedSeq()
	for i := lAck + 1; i <= lApp; i++ {
		id, stored := w.atPos[i]
		if !stored {
			continue // (a position the leader took over from a follower that was ahead: never stored here)
		}
		data, err := lq.Get(i)
		if err != nil {
			w.fatalf("%s: leader: position %d, which it stored (message %d) and has not collected (ack=%d appended=%d), cannot be read: %v", where, i, id, lAck, lApp, err)
		}
		if !bytes.Equal(data, w.idBytes[id]) {
			w.fatalf("%s: leader: position %d holds %d bytes that differ from the message %d (%d bytes) it stored there", where, i, len(data), id, len(w.idBytes[id]))
		}
	}
	for _, f := range w.fols {
		if f.noPart || f.partClosed || f.crashed {
			continue
		}
		if b := nextBoundary(w.base); f.app() >= b && !f.crossed {
			f.crossed = true
			w.class("follower-log-crossed-an-index-page-boundary")
			w.shape("follower-log-crossed-an-index-page-boundary")
		}
	}
	if b := nextBoundary(w.base); lApp >= b && !w.leaderCrossed {
		w.leaderCrossed = true
		w.class("leader-log-crossed-an-index-page-boundary")
	}
}

// opPageFault: the next creations of an index page file on one node fail.
func (w *world) opPageFault() {
	onLeader := rapid.IntRange(0, 3).Draw(w.t, "onLeader") == 0
	n := rapid.SampledFrom([]int{1, 1, 2}).Draw(w.t, "failures")
	residue := rapid.SampledFrom(pfResidues).Draw(w.t, "residue")
	dir, name := w.leader.dir, "the leader"
	var f *follower
	if !onLeader {
		f = w.pick()
		dir, name = f.dir, fmt.Sprintf("follower %d", f.id)
	}
	if pfArmed(dir, "index") > 0 {
		w.t.Skip("already armed")
	}
	w.logf("fault: the next %d creations of an index page file on %s fail (residue: %s)", n, name, residue)
	pfArmFault(dir, "index", n, residue)
	if onLeader {
		w.class("page-fault-armed:leader")
	} else {
		w.class("page-fault-armed:follower")
	}
}

// opToBoundary: the leader appends up to 0..3 messages over the next index page boundary of one
// follower's log, then that follower is stepped a generated number of times (which may or may not
// take it over the boundary).
func (w *world) opToBoundary() {
	if w.windowPassed || w.appendExcluded() {
		w.t.Skip("no writes")
	}
	f := w.pick()
	if f.noPart || f.crashed {
		w.t.Skip("no partition object / dead")
	}
	b := nextBoundary(f.app())
	over := int64(rapid.IntRange(0, 3).Draw(w.t, "overTheBoundary"))
	lApp := w.leader.fq.Queue().AppendedSeq()
	need := b + over - 1 - lApp // appended position b+over-1 = 'over' messages in the next page
	if need > 16 {
		w.t.Skip("the boundary is far away")
	}
	w.logf("to the boundary %d of follower %d (+%d)", b, f.id, over)
	for i := int64(0); i < need+2 && w.leader.fq.Queue().AppendedSeq() < b+over-1; i++ {
		w.leaderPut(rapid.SampledFrom([]int{8, 24, 300}).Draw(w.t, "size"))
	}
	if w.step == nil {
		w.wakeLoop()
	}
	w.check("to the boundary")
	steps := rapid.IntRange(0, int(b-f.app())+4).Draw(w.t, "steps")
	for i := 0; i < steps && !w.busy() && w.needsStep(f) && f.online; i++ {
		if w.excludedStep(f) {
			w.class("excluded_known:step-resets-append-index-under-other-followers")
			break
		}
		w.stepFor(f)
		w.check("to the boundary")
	}
	w.class("to-the-boundary")
}

func (w *world) pageFaultOps(ops map[string]func(*rapid.T)) {
	ops["pageFault"] = func(t *rapid.T) { w.t = t; w.opPageFault() }
	ops["pageFault2"] = func(t *rapid.T) { w.t = t; w.opPageFault() }
	ops["toBoundary"] = func(t *rapid.T) { w.t = t; w.opToBoundary() }
	ops["toBoundary2"] = func(t *rapid.T) { w.t = t; w.opToBoundary() }
	ops["toBoundary3"] = func(t *rapid.T) { w.t = t; w.opToBoundary() }
	ops["stepManyP"] = func(t *rapid.T) { w.t = t; w.opStepMany() }
	ops["leaderRestart"] = func(t *rapid.T) { w.t = t; w.opLeaderRestart() }
}

// runPageFaults: histories around an index page boundary with page creation faults.
func runPageFaults(t *rapid.T) {
	n := rapid.SampledFrom([]int{1, 1, 1, 2, 2, 3}).Draw(t, "followers")
	k := rapid.SampledFrom([]int64{1, 1, 2, 3}).Draw(t, "indexPage")
	d := rapid.SampledFrom([]int64{1, 2, 2, 3, 3, 4, 5, 9}).Draw(t, "belowBoundary")
	w := newWorldAt(t, n, 0, true)
	w.startAt(k*indexItemsPerPage-d, rapid.IntRange(0, 2).Draw(t, "leaderRestartsAtBase") != 0)
	defer w.close()

	ops := map[string]func(*rapid.T){
		"append":                  func(t *rapid.T) { w.t = t; w.opAppend() },
		"append2":                 func(t *rapid.T) { w.t = t; w.opAppend() },
		"step":                    func(t *rapid.T) { w.t = t; w.opStep() },
		"step2":                   func(t *rapid.T) { w.t = t; w.opStep() },
		"step3":                   func(t *rapid.T) { w.t = t; w.opStep() },
		"failSend":                func(t *rapid.T) { w.t = t; w.opFailSend() },
		"failRecv":                func(t *rapid.T) { w.t = t; w.opFailRecv() },
		"followerRestart":         func(t *rapid.T) { w.t = t; w.opFollowerRestart() },
		"followerLosesLog":        func(t *rapid.T) { w.t = t; w.opFollowerLosesLog() },
		"followerClosesPartition": func(t *rapid.T) { w.t = t; w.opFollowerClosesPartition() },
		"followerAppendFails":     func(t *rapid.T) { w.t = t; w.opFollowerAppendFails() },
		"followerOffline":         func(t *rapid.T) { w.t = t; w.opFollowerOffline() },
		"followerOnline":          func(t *rapid.T) { w.t = t; w.opFollowerOnline() },
		"leaderGC":                func(t *rapid.T) { w.t = t; w.opLeaderGC() },
		"snapshotLeader":          func(t *rapid.T) { w.t = t; w.opSnapshotLeader() },
		"leaderLosesTail":         func(t *rapid.T) { w.t = t; w.opLeaderLosesTail() },
		"loseLastK":               func(t *rapid.T) { w.t = t; w.opLoseLastK() },
		"":                        func(t *rapid.T) { w.t = t; w.check("after step") },
	}
	w.followerLogOps(ops, 1)
	w.pageFaultOps(ops)
	t.Repeat(ops)
	w.t = t
	w.converge()
	w.collectFired()
	for c, cnt := range w.classes {
		ev.Class(groupPageFault, c, cnt)
	}
	shapes := []string{fmt.Sprintf("followers=%d", n), fmt.Sprintf("start-below-boundary-of-index-page=%d", k)}
	for s := range w.shapes {
		shapes = append(shapes, "case-with:"+s)
	}
	sort.Strings(shapes)
	nonTrivial := w.faultHit > 0 || w.offersAfterDestroy > 0
	ev.Case(groupPageFault, strings.Join(w.ops, ";"), nonTrivial, shapes,
		map[string]any{"history": w.ops, "faults_with_backlog": w.faultHit, "followers": n, "base": w.base})
}

// TestReplicationPageFaults: replication histories just below an index page boundary of the logs,
// with failing page file creations on the follower's and the leader's log.
func TestReplicationPageFaults(t *testing.T) {
	rapid.Check(t, runPageFaults)
}
