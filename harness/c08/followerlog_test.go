package c08

// The follower's own log life cycle while its process stays up and the leader's stream stays open
// (generator TestReplicationHistory/followerLog; the two operations are also part of the plain and
// the extended generator).
//
// The follower side of every history is the production replica.WriteAheadLogManager ->
// writeAheadLog -> Partition (c08_test.go openFollower): app/storage/rpc.ReplicaHandler looks the
// partition up in the write ahead log at every unary call (GetReplicaAckIndex, Reset) and once
// per stream (Replica: when the stream is created; the handler keeps that object as long as the
// stream lives). Operations:
//
//   - 'follower applies': 1..n steps of the follower's local replication loop (the local replicator
//     consumes its log and hands the messages to the storage engine; the harness' messages are not
//     decodable, so each one is acknowledged the way the production code acknowledges a message it
//     has to drop (IgnoreMessage) - a log whose consumer group is acknowledged up to its appended
//     position is "without data left");
//   - 'follower wal task': one pass of the periodic housekeeping of the follower's write ahead log
//     manager (garbageCollect -> writeAheadLog.destroy -> Partition.IsExpire: sync + gc of the log;
//     when the write window of the family has passed by the FOLLOWER's clock and the local
//     consumer group has nothing left, the partition is taken out of the write ahead log, stopped,
//     closed and its directory removed - or not removed: the removal can fail, production only
//     logs that). It runs with and without data left, with the stream open and idle, open in the
//     middle of a backlog, open right after a refused offer, or without a stream. The next lookup
//     (handshake or new stream) creates a NEW partition object for the same (shard, family,
//     leader) with an empty log, or re-opens the log that could not be removed; streams created
//     earlier still hold the closed object. Late leader appends for the family follow (the
//     follower's clock may be ahead of the broker's; a backlog is late by definition).
//
// Oracle: unchanged (checkFollower after every operation, converge at the end).

import (
	"errors"
	"fmt"
	"os"
	"sync/atomic"

	"github.com/lindb/common/pkg/fileutil"
	"pgregory.net/rapid"

	"github.com/lindb/lindb/replica"
)

const groupFlog = "TestReplicationHistory/followerLog"

// failRemove: the write ahead log cannot remove directories at present (see removeDir).
var failRemove atomic.Bool

// removeDir is installed as the directory removal of package replica (VerifSetRemoveDirFn).
func removeDir(path string) error {
	if failRemove.Load() {
		return errors.New("injected: directory not removed")
	}
	return fileutil.RemoveDir(path)
}

// followerLogOps adds the operations of the follower's log life cycle (weight = copies of each).
func (w *world) followerLogOps(ops map[string]func(*rapid.T), weight int) {
	for i := 0; i < weight; i++ {
		sfx := ""
		if i > 0 {
			sfx = fmt.Sprint(i + 1)
		}
		ops["followerWalTask"+sfx] = func(t *rapid.T) { w.t = t; w.opFollowerWalTask() }
		ops["followerApplies"+sfx] = func(t *rapid.T) { w.t = t; w.opFollowerApplies() }
	}
	if weight > 1 {
		if _, ok := ops["stepMany"]; !ok {
			ops["stepMany"] = func(t *rapid.T) { w.t = t; w.opStepMany() }
		}
		ops["stepManyF"] = func(t *rapid.T) { w.t = t; w.opStepMany() }
		ops["replicateThenWalTask"] = func(t *rapid.T) { w.t = t; w.opReplicateThenWalTask() }
		ops["replicateThenWalTask2"] = func(t *rapid.T) { w.t = t; w.opReplicateThenWalTask() }
	}
}

// localAck: the position up to which the follower's local replicator has acknowledged its log
// (ok = the replica relation of the current partition object is built).
func (w *world) localAck(f *follower) (ack int64, ok bool) {
	if f.noPart {
		return -1, false
	}
	r := replica.VerifReplicator(f.part, f.id)
	if r == nil {
		return -1, false
	}
	return r.AckIndex(), true
}

func (w *world) opFollowerApplies() {
	f := w.pick()
	if f.noPart || f.partClosed || f.crashed || !w.quietFor(f) {
		w.t.Skip("no open partition object / step in flight")
	}
	n := rapid.SampledFrom([]int{1, 2, 3, 6, 1000}).Draw(w.t, "localSteps")
	k := w.followerApplies(f, n)
	if k == 0 {
		w.t.Skip("nothing to apply")
	}
}

// followerApplies runs up to n steps of the follower's local replication loop.
//
// Oracle of the local loop (what the follower's log life cycle of this generator rests on; callers
// guarantee an open partition object of a live follower and no step in flight):
//   - the local replicator is "always ready" (replicator_local.go State): with >= 1 unconsumed
//     message in the log the step runs, it never reports not-ready / waits-for-data;
//   - every step consumes exactly the next position; the consumed and the acknowledged position
//     never pass the appended position of the log and the acknowledged never passes the consumed;
//   - a message the local replicator has to drop (the harness' messages are not decodable) is
//     acknowledged at once when it is the next one after the acknowledged position
//     (replicator.IgnoreMessage: "if it has error after replica msg, need try ack sequence"), so a
//     loop that started with acknowledged == consumed ends with acknowledged == consumed ==
//     start+k - neither behind (the log would never become "without data left", the follower's
//     wal task could never destroy it) nor anywhere else.
func (w *world) followerApplies(f *follower, n int) int {
	if w.pf && n > 12 {
		// page fault histories start at a position base > 0: a brand-new local consumer group starts at
		// -1 (production) and would walk over base positions it cannot read, one step each
		n = 12
	}
	r := replica.VerifReplicator(f.part, f.id)
	var ack0, cons0, pend0 int64
	if r != nil {
		ack0, cons0, pend0 = r.AckIndex(), r.ReplicaIndex()-1, r.Pending()
	}
	k := 0
	for ; k < n; k++ {
		res := replica.VerifReplicaStepNoWait(f.part, f.id)
		if res != replica.VerifStepDone {
			if r != nil && int64(k) < pend0 {
				w.fatalf("follower %d: the local replication loop does not run (step result %d: 1=not ready, 2=waits for data) though %d of the %d unconsumed messages of its log are left (consumed=%d acknowledged=%d appended=%d before the loop)",
					f.id, res, pend0-int64(k), pend0, cons0, ack0, f.app())
			}
			break
		}
		if r != nil {
			cons, ack, app := r.ReplicaIndex()-1, r.AckIndex(), f.app()
			if cons != cons0+int64(k)+1 {
				w.fatalf("follower %d: local step %d consumed up to %d, expected exactly the next position %d", f.id, k+1, cons, cons0+int64(k)+1)
			}
			if ack > cons || cons > app {
				w.fatalf("follower %d: after local step %d acknowledged=%d consumed=%d appended=%d (must be acknowledged <= consumed <= appended)", f.id, k+1, ack, cons, app)
			}
		}
	}
	if r != nil {
		switch {
		case pend0 <= 0:
			w.class("local-apply:nothing-unconsumed")
		case ack0 == cons0:
			w.class("local-apply:backlog:acknowledged==consumed-before")
		default:
			w.class("local-apply:backlog:acknowledged<consumed-before")
		}
	}
	if k > 0 {
		ack, _ := w.localAck(f)
		if r != nil && ack0 == cons0 {
			if ack != cons0+int64(k) {
				w.fatalf("follower %d: %d undecodable messages dropped by the local replicator from position %d on (acknowledged == consumed == %d before), acknowledged position is %d afterwards, expected %d: a dropped message next to the acknowledged position is acknowledged at once",
					f.id, k, cons0+1, cons0, ack, cons0+int64(k))
			}
			w.class(fmt.Sprintf("local-apply:dropped-messages-acknowledged:%s", bucketSteps(k)))
		}
		w.logf("follower %d applies %d messages of its log to its storage engine (log appended=%d, applied+acknowledged up to %d)", f.id, k, f.app(), ack)
		w.class("follower-applies-log-locally")
	}
	return k
}

func bucketSteps(k int) string {
	switch {
	case k == 1:
		return "1"
	case k <= 3:
		return "2-3"
	case k <= 10:
		return "4-10"
	}
	return ">10"
}

// opReplicateThenWalTask: replication to one follower goes on for a while over its stream (1..8
// steps), then the follower's wal task runs: the stream is usually open, idle or mid-backlog.
func (w *world) opReplicateThenWalTask() {
	if w.busy() {
		w.t.Skip("the loop is blocked")
	}
	f := w.pick()
	if !f.online || f.partClosed || f.crashed {
		w.t.Skip("offline / shutting down / dead")
	}
	n := rapid.IntRange(1, 8).Draw(w.t, "steps")
	refuse := rapid.IntRange(0, 3).Draw(w.t, "oneAppendOfTheFollowerFails") == 0
	if refuse {
		// one append to the follower's log fails: the offer is refused, the replication stops there
		w.logf("fault: the next append to the log of follower %d fails", f.id)
		w.mu.Lock()
		f.putFail = 1
		w.mu.Unlock()
		w.class("fault-follower-append-fails")
	}
	for i := 0; i < n && !w.busy() && w.needsStep(f); i++ {
		if w.excludedStep(f) {
			w.class("excluded_known:step-resets-append-index-under-other-followers")
			break
		}
		w.stepFor(f)
		w.check("after step")
		w.mu.Lock()
		refused := f.refused
		w.mu.Unlock()
		if refuse && refused && !w.busy() && !w.ready(f) {
			break
		}
	}
	if !w.quietFor(f) || f.partClosed || f.crashed || f.noPart {
		return
	}
	w.walTaskOf(f)
}

func (w *world) opFollowerWalTask() {
	f := w.pick()
	if !w.quietFor(f) {
		w.t.Skip("step in flight")
	}
	if f.partClosed || f.crashed {
		w.t.Skip("the follower is shutting down / dead: no housekeeping")
	}
	if f.noPart {
		w.t.Skip("no partition object at present: nothing to look at")
	}
	w.walTaskOf(f)
}

func (w *world) walTaskOf(f *follower) {
	if !f.clockPassed && rapid.IntRange(0, 2).Draw(w.t, "followerClockPasses") != 0 {
		f.clockPassed = true
		w.logf("by the clock of follower %d the write window of the family has passed", f.id)
		w.class("follower-clock-passes-the-write-window")
	}
	if !f.noPart && rapid.IntRange(0, 2).Draw(w.t, "appliesEverythingFirst") != 0 {
		w.followerApplies(f, 1<<20)
	}
	removalFails := rapid.IntRange(0, 5).Draw(w.t, "directoryRemovalFails") == 5
	w.followerWalTask(f, removalFails)
}

// followerWalTask runs one pass of the housekeeping of the follower's write ahead log manager.
func (w *world) followerWalTask(f *follower, removalFails bool) {
	w.check("before the follower wal task")
	w.mu.Lock()
	p := f.pipe
	w.mu.Unlock()
	streamOpen := p != nil && p.open() && p.gen == f.gen && !f.noPart
	backlog := w.backlog(f)
	at := "no-open-stream"
	switch {
	case !streamOpen:
	case !w.ready(f):
		at = "stream-open:right-after-a-refused-offer"
	case backlog > 0:
		at = "stream-open:mid-backlog"
	default:
		at = "stream-open:idle"
	}
	had, wp, appBefore := !f.noPart, f.wp, f.app()
	ack, built := w.localAck(f)
	dataLeft := built && appBefore > ack
	path := ""
	if had {
		path = wp.Path()
		wp.expired = false
	}
	w.logf("follower %d wal task (window passed by its clock: %v; partition object: %v, log appended=%d, local replica built=%v acknowledged=%d; %s; leader backlog for it=%d; directory removal fails: %v)",
		f.id, f.clockPassed, had, appBefore, built, ack, at, backlog, removalFails)
	failRemove.Store(removalFails)
	ok := replica.VerifWalGarbageCollect(f.mgr)
	failRemove.Store(false)
	if !ok {
		w.fatalf("harness: not the production write ahead log manager")
	}
	w.class("follower-wal-task")
	switch {
	case !had:
		w.class("follower-wal-task:no-partition-object-at-present")
	case wp.expired && !f.clockPassed:
		w.fatalf("follower %d: the wal task found the partition expired although the write window of the family has not passed by the follower's clock", f.id)
	case !f.clockPassed:
		w.class("follower-wal-task:window-open(sync+gc-only)")
	case !wp.closed:
		if !dataLeft {
			w.class("follower-wal-task:partition-kept(nothing-left-but-kept)")
		} else {
			w.class("follower-wal-task:partition-kept(data-left)")
		}
	default:
		// writeAheadLog.destroy took the partition out of the log, stopped and closed it
		f.noPart, f.lazy = true, true
		f.destroys++
		if backlog > 0 {
			w.faultHit++
		}
		state := "empty-log"
		if appBefore >= 0 {
			state = "log-with-data"
		}
		if _, err := os.Stat(path); err == nil {
			f.goneApp = appBefore
			w.class("follower-partition-destroyed:directory-not-removed")
			w.logf("  (expired: partition stopped and closed; its directory could not be removed)")
		} else {
			f.goneApp = -1
			w.mu.Lock()
			f.has = map[int64]bool{}
			w.mu.Unlock()
			w.logf("  (expired: partition stopped and closed, directory removed)")
		}
		if dataLeft {
			w.class("follower-partition-destroyed:with-unapplied-data")
		}
		w.class("follower-partition-destroyed")
		w.class("follower-partition-destroyed:" + state)
		w.shape("follower-partition-destroyed:" + at)
	}
	w.check("after the follower wal task")
}

// runFollowerLog: histories in which the follower's log life cycle is frequent.
func runFollowerLog(t *rapid.T) {
	ext := rapid.IntRange(0, 2).Draw(t, "extendedOperations") == 0
	runHistoryGen(t, groupFlog, ext, 3)
}
