package c08

// Extended histories of C08 (TestReplicationHistoryExt, TestOnlineNotificationRacesSuspension).
//
// Operations beyond those of TestReplicationHistory:
//
//   - 'the write window of the family passes': from then on nothing is written to the leader's log
//     (the broker's family channel expires by the same rule as the log: end of the family + ahead +
//     15 minutes), what is in the log still has to reach every follower.
//   - 'expiry check': what the leader's periodic wal task (writeAheadLog.destroy) does with the
//     partition: Partition.IsExpire (sync of the read barrier, gc, and - after the window passed -
//     stopping the channel of every follower that acknowledged everything); an expired partition is
//     stopped, closed and its directory removed. Safety implied by the property (the leader never
//     treats a position as acknowledged by a follower that has not appended it; it resumes from the
//     first position the follower lacks and the leader still holds): the log of a family whose
//     window is open is never expired; a log is only destroyed, and the channel to a follower only
//     stopped, when that follower has appended every position the leader stored. The verdict of
//     IsExpire depends on the iteration order of a Go map: the task is periodic, the histories run
//     it several times with leader restarts (log kept) in between.
//   - 'leader restart (log kept)'.
//   - 'replication step with the online notification racing the suspension': the follower is
//     offline and its channel not ready, so the step suspends itself inside IsReady; the follower's
//     online notification is delivered by another goroutine as soon as the suspension is observable
//     (after a generated number of further spins), i.e. between the moment the loop marks itself
//     suspended and the moment it waits for the notification - or later. Whatever the interleaving,
//     the step must go on (bounded progress) and the histories must converge.

import (
	"fmt"
	"os"
	"path/filepath"
	"sort"
	"strings"
	"time"

	"pgregory.net/rapid"

	"github.com/lindb/lindb/models"
	"github.com/lindb/lindb/replica"
	"github.com/lindb/lindb/verifharness/sim/crash"
	"github.com/lindb/lindb/verifharness/sim/ev"
)

// stepDeadline bounds a replication step whose follower is a live node and whose online
// notification has been handed to the replicator (everything runs in this process, no I/O but tmpfs).
const stepDeadline = 10 * time.Second

func (w *world) extOps(ops map[string]func(*rapid.T)) {
	for name, fn := range ops {
		if name == "" {
			continue
		}
		name, fn := name, fn
		ops[name] = func(t *rapid.T) {
			w.t = t
			w.afterDestroy()
			if w.windowPassed && (name == "leaderLosesTail" || name == "snapshotLeader") {
				t.Skip("not combined: leader log loss after the write window passed")
			}
			fn(t)
		}
	}
	guard := func(fn func()) func(*rapid.T) {
		return func(t *rapid.T) {
			w.t = t
			w.afterDestroy()
			fn()
		}
	}
	ops["windowPasses"] = guard(w.opWindowPasses)
	ops["expiryCheck"] = guard(w.opExpiryCheck)
	ops["expiryCheck2"] = guard(w.opExpiryCheck)
	ops["leaderRestart"] = guard(w.opLeaderRestart)
	ops["stepMany"] = guard(w.opStepMany)
	ops["stepMany2"] = guard(w.opStepMany)
	ops["stepRacingOnline"] = guard(w.opStepRacingOnline)
	ops["stepRacingOnline2"] = guard(w.opStepRacingOnline)
}

// afterDestroy ends the history once the log is destroyed (a skip after a draw rejects the action;
// the repetition stops after some rejections).
func (w *world) afterDestroy() {
	if w.destroyed {
		rapid.Bool().Draw(w.t, "logDestroyed")
		w.t.Skip("the log of the expired family was destroyed")
	}
}

// ---- the write window / the wal task -------------------------------------------------------------------

// opStepMany: replication to one follower goes on for a while (2..10 steps of its channel).
func (w *world) opStepMany() {
	if w.busy() {
		w.t.Skip("the loop is blocked")
	}
	f := w.pick()
	if !f.online || !w.needsStep(f) {
		w.t.Skip("nothing to do for this follower / offline")
	}
	n := rapid.IntRange(2, 10).Draw(w.t, "steps")
	for i := 0; i < n && !w.busy() && w.needsStep(f); i++ {
		if w.excludedStep(f) {
			w.class("excluded_known:step-resets-append-index-under-other-followers")
			break
		}
		w.stepFor(f)
		w.check("after step")
	}
}

func (w *world) opWindowPasses() {
	if w.windowPassed {
		w.t.Skip("already passed")
	}
	if w.leader.fq.Queue().AppendedSeq() < 0 && rapid.IntRange(0, 7).Draw(w.t, "windowPassesOnEmptyLog") != 0 {
		w.t.Skip("empty log")
	}
	for _, f := range w.fols {
		if f.resyncPending {
			w.t.Skip("not combined: resynchronisation after a leader log loss pending")
		}
	}
	w.windowPassed = true
	w.logf("the write window of the family passes: no more writes")
	w.shape("write-window-passed")
}

func (w *world) opExpiryCheck() {
	if w.step != nil {
		// (the task stops consumer groups; one that runs while the loop is inside a step of that
		// very channel is not modelled)
		w.t.Skip("a replication step is in flight")
	}
	w.expiryCheck("history")
	if !w.destroyed && rapid.IntRange(0, 3).Draw(w.t, "restartAfterExpiryCheck") == 0 {
		w.leaderRestart()
	}
}

// holdsAll: the follower has appended every position the leader's log stored (as far as the harness
// has seen it happen: lastAck is the leader's acknowledged position for it, checked against the
// follower's appends whenever it moved; or its present log reaches the leader's last position).
func (w *world) holdsAll(f *follower, lApp int64) bool {
	return f.lastAck >= lApp || (!f.partClosed && !f.crashed && f.app() >= lApp)
}

// expiryCheck runs the leader's wal task on the partition.
func (w *world) expiryCheck(where string) {
	if w.step != nil {
		w.fatalf("harness: expiry check while a replication step is in flight")
	}
	w.check("before the expiry check (" + where + ")")
	lApp := w.leader.fq.Queue().AppendedSeq()
	type before struct{ had, holds bool }
	st := map[*follower]before{}
	up, lag := 0, 0
	for _, f := range w.fols {
		b := before{had: w.replicator(f) != nil, holds: w.holdsAll(f, lApp)}
		st[f] = b
		if b.had {
			if b.holds {
				up++
			} else {
				lag++
			}
		}
	}
	describe := func(f *follower) string {
		return fmt.Sprintf("follower %d has appended up to %d and the highest position the leader saw acknowledged by it is %d, the leader's log stores up to %d", f.id, f.app(), f.lastAck, lApp)
	}
	state := ""
	for _, f := range w.fols {
		if r := w.replicator(f); r != nil {
			state += fmt.Sprintf(" [follower %d: appended=%d, leader's ack for it=%d, next index=%d]", f.id, f.app(), r.AckIndex(), r.ReplicaIndex())
		} else {
			state += fmt.Sprintf(" [follower %d: appended=%d, channel stopped]", f.id, f.app())
		}
	}
	w.logf("leader wal task: expiry check (%s; leader appended=%d; followers that hold everything: %d, that lack positions: %d;%s)", where, lApp, up, lag, state)
	w.expiryVerdictAfterRestart(where, lApp, describe)
	expired := w.leader.part.IsExpire()
	switch {
	case !w.windowPassed:
		w.class("expiry-check:write-window-open")
	case lApp < 0:
		w.class("expiry-check:window-passed:empty-log")
	case up > 0 && lag > 0:
		w.shape("expiry-check:followers-of-different-progress")
		w.class(fmt.Sprintf("expiry-check:followers-of-different-progress:%d-hold-all,%d-lack-positions", up, lag))
	case lag > 0:
		w.class("expiry-check:window-passed:every-follower-lacks-positions")
	default:
		w.class("expiry-check:window-passed:every-follower-holds-all")
	}
	if expired && !w.windowPassed {
		w.fatalf("%s: the wal task found the partition expired although the write window of its family has not passed", where)
	}
	if expired {
		for _, f := range w.fols {
			if st[f].had && !st[f].holds {
				w.fatalf("%s: the leader's wal task destroys the log of the expired family although a follower has not appended everything it stores: %s", where, describe(f))
			}
		}
		// writeAheadLog.destroy
		w.logf("  (expired: partition stopped and closed, log directory removed)")
		w.waitData = nil
		w.leader.part.Stop()
		_ = w.leader.part.Close()
		if err := os.RemoveAll(w.leader.dir); err != nil {
			w.fatalf("harness: %v", err)
		}
		w.destroyed = true
		w.shape("expiry-check:log-destroyed")
		return
	}
	w.class("expiry-check:log-kept")
	for _, f := range w.fols {
		if !st[f].had || w.replicator(f) != nil {
			continue
		}
		// the task stopped the channel of this follower
		if !w.windowPassed {
			w.fatalf("%s: the wal task stopped the replication channel of follower %d although the write window of the family has not passed", where, f.id)
		}
		if !st[f].holds {
			w.fatalf("%s: the leader's wal task stopped the replication channel of a follower that has not appended everything the leader stores: %s", where, describe(f))
		}
		w.class("expiry-check:channel-of-a-follower-that-holds-all-stopped")
		w.breakStreamRecord(f)
		if w.waitData == f {
			// closing the consumer group releases the loop that waited for data on it
			w.logf("  (the loop waited for data for follower %d: released)", f.id)
			w.waitData = nil
		}
	}
}

// expiryCopies: how often the verdict is evaluated on copies of the log.
const expiryCopies = 6

// expiryVerdictAfterRestart: the verdict of the wal task is computed in the iteration order of a
// Go map (the consumer groups of the log), which differs from run to run; it can only matter when
// the followers differ in progress. In that case the history 'the leader restarts (log kept), then
// the wal task runs' is played on expiryCopies copies of the leader's log first (a restarted
// leader has the consumer groups of all followers again): none of them may find the partition
// expired while a follower lacks positions.
func (w *world) expiryVerdictAfterRestart(where string, lApp int64, describe func(*follower) string) {
	if !w.windowPassed || lApp < 0 {
		return
	}
	var lacks *follower
	holds := 0
	for _, f := range w.fols {
		if w.holdsAll(f, lApp) {
			holds++
		} else if lacks == nil {
			lacks = f
		}
	}
	if lacks == nil || holds == 0 {
		return
	}
	ids := make([]models.NodeID, 0, len(w.fols))
	saved := map[*follower][]func(models.NodeStateType){}
	for _, f := range w.fols {
		ids = append(ids, f.id)
		saved[f] = f.watchers
	}
	defer func() {
		for _, f := range w.fols {
			f.watchers = saved[f] // the replicators of the copies are gone
		}
	}()
	for i := 0; i < expiryCopies; i++ {
		dir := filepath.Join(w.root, "leader-copy")
		if err := crash.CopyTree(w.leader.dir, dir); err != nil {
			w.fatalf("harness: copy: %v", err)
		}
		c := w.newPartition(dir, leaderID)
		if err := c.part.BuildReplicaForLeader(leaderID, ids); err != nil {
			w.fatalf("harness: build replica on the copy: %v", err)
		}
		expired := c.part.IsExpire()
		c.part.Stop()
		_ = c.part.Close()
		_ = os.RemoveAll(dir)
		w.class("expiry-check:verdict-on-a-copy-of-the-log(leader-restarted)")
		if expired {
			w.fatalf("%s: after a leader restart (log kept; copy %d of %d of the log) the leader's wal task destroys the log of the expired family although a follower has not appended everything it stores: %s",
				where, i+1, expiryCopies, describe(lacks))
		}
	}
}

// breakStreamRecord: the replicator closed its stream itself; forget the pipe.
func (w *world) breakStreamRecord(f *follower) { w.breakStream(f) }

func (w *world) opLeaderRestart() {
	if w.step != nil {
		w.t.Skip("a replication step is in flight")
	}
	w.leaderRestart()
}

// leaderRestart: the leader restarts, its log is kept.
func (w *world) leaderRestart() {
	w.noteFault(nil)
	w.waitData = nil // the loop dies with the process
	for _, f := range w.fols {
		w.breakStream(f)
	}
	before := w.leader.fq.Queue().AppendedSeq()
	w.leader.part.Stop()
	_ = w.leader.part.Close()
	w.openLeader()
	w.logf("fault: leader restarts (log kept; appended=%d, before the restart %d)", w.leader.fq.Queue().AppendedSeq(), before)
	w.class("fault-leader-restart")
}

// convergeNoWrites: convergence after the write window passed: no probe can be written. The
// channels are stepped; a loop that waits for data on the channel of a follower that has
// everything is released by the periodic wal task (it stops that channel). Every follower the
// leader still replicates to must end up with every position the leader stores; then the wal task
// runs once more (it may now destroy the log).
func (w *world) convergeNoWrites() {
	if w.step != nil {
		w.fatalf("harness: a step is in flight although every follower is online")
	}
	app := func() int64 { return w.leader.fq.Queue().AppendedSeq() }
	budget := (int(app()+1) + 8) * len(w.fols)
	done := func(f *follower) bool {
		r := w.replicator(f)
		// (a follower that lost its log after it had acknowledged everything: nothing the leader could resume from)
		return r == nil || ((f.app() >= app() || f.lastAck >= app()) && r.Pending() == 0)
	}
	tasks := 0
	for i := 0; i < budget && !w.destroyed; i++ {
		if w.waitData != nil {
			all := true
			for _, f := range w.fols {
				all = all && done(f)
			}
			if all || tasks > 2*len(w.fols)+2 {
				break
			}
			tasks++
			w.expiryCheck("during convergence")
			if w.waitData != nil && !w.destroyed {
				w.shape("not-judged(loop-waits-for-data-after-the-window-passed)")
				w.logf("(not judged: the loop waits for data on a channel the wal task keeps, nothing is written any more)")
				return
			}
			continue
		}
		var f *follower
		for n := range w.fols {
			g := w.fols[(i+n)%len(w.fols)]
			if !done(g) && w.needsStep(g) {
				f = g
				break
			}
		}
		if f == nil {
			break
		}
		if !w.convergeStepAllowed(f) {
			return
		}
		w.stepFor(f)
		w.check("during convergence")
	}
	if !w.destroyed {
		lApp := app()
		for _, f := range w.fols {
			r := w.replicator(f)
			if r == nil {
				continue // stopped by the wal task (checked there: the follower had acknowledged everything)
			}
			if fApp := f.app(); fApp < lApp && f.lastAck < lApp {
				w.fatalf("no resynchronisation: after the faults stopped and %d steps (write window passed, no more writes) follower %d has appended up to %d, the leader up to %d (acknowledged by the follower: %d; leader next index for it: %d, channel ready: %v)",
					budget, f.id, fApp, lApp, r.AckIndex(), r.ReplicaIndex(), replica.VerifReplicatorReady(r))
			}
		}
		w.check("after convergence")
		w.expiryCheck("after convergence")
	}
	w.check("after convergence and the last expiry check")
}

// ---- the online notification racing the suspension ---------------------------------------------------

var (
	racingSpins = []int{0, 0, 0, 0, 1, 4, 16, 64, 256, 4096, 100000}
	racingFlaps = []int{0, 0, 1, 2, 3, 5, 10, 20}
)

func (w *world) opStepRacingOnline() {
	if w.busy() {
		w.t.Skip("the loop is blocked")
	}
	f := w.pick()
	if f.online || w.replicator(f) == nil || w.ready(f) {
		w.t.Skip("the step would not suspend itself")
	}
	if w.excludedStep(f) {
		w.class("excluded_known:step-resets-append-index-under-other-followers")
		w.t.Skip("excluded: known finding")
	}
	spins := rapid.SampledFrom(racingSpins).Draw(w.t, "spinsBeforeNotification")
	flaps := rapid.SampledFrom(racingFlaps).Draw(w.t, "flaps")
	w.stepRacingOnline(f, spins, flaps)
}

// stepRacingOnline runs one replication step for the offline follower f (its channel is not ready:
// the step suspends itself inside IsReady) while another goroutine - the state manager's event
// goroutine - makes the follower a live node and delivers its online notification as soon as the
// suspension is observable (+ spins further looks at the flag). The follower flaps: the next
// `flaps` times the woken loop looks at the live nodes the follower is gone again, the loop
// suspends itself again and the next online notification races that suspension. When the follower
// stays, the step must go on.
func (w *world) stepRacingOnline(f *follower, spins, flaps int) {
	r := w.replicator(f)
	watchers := append([]func(models.NodeStateType){}, f.watchers...)
	stop := make(chan struct{})
	res := make(chan int, 1)
	f.flaps.Store(int32(flaps))
	go func() {
		n := 0
		for {
			for !replica.VerifReplicatorSuspended(r) {
				select {
				case <-stop:
					res <- n
					return
				default:
				}
			}
			for i := 0; i < spins; i++ {
				_ = replica.VerifReplicatorSuspended(r)
			}
			if n == 0 {
				// (ordered after the loop's look at the live nodes by the suspension flag, and before
				// its next look by the notification)
				f.online = true
			}
			for _, fn := range watchers {
				fn(models.NodeOnline)
			}
			n++
		}
	}()
	w.logf("replicaStep follower=%d, its online notification is delivered as soon as the loop has marked the channel suspended (+%d spins); the follower goes away again %d times before the loop looks at the live nodes again",
		f.id, spins, flaps)
	part, id := w.leader.part, f.id
	run := &stepRun{done: make(chan struct{})}
	w.step, w.stepFol, w.suspended = run, f, false
	go func() {
		defer close(run.done)
		run.res = replica.VerifReplicaStepNoWait(part, id)
	}()
	timer := time.NewTimer(stepDeadline)
	defer timer.Stop()
	select {
	case <-run.done:
	case <-timer.C:
		w.stuck = true
		close(stop)
		delivered := "is being delivered (the handler has not returned)"
		select {
		case n := <-res:
			delivered = fmt.Sprintf("was delivered (%d notifications in this step, every handler returned)", n)
		case <-time.After(time.Second):
		}
		lq := w.leader.fq.Queue()
		w.fatalf("the replication step for follower %d stays blocked (%v): the follower is a live node again and its online notification %s right after the loop had marked the channel suspended; suspended flag now %v; leader appended=%d, acknowledged by the follower=%d, follower appended=%d. The partition has one loop: no follower of it is served any more",
			f.id, stepDeadline, delivered, replica.VerifReplicatorSuspended(r), lq.AppendedSeq(), r.AckIndex(), f.app())
	}
	close(stop)
	n := <-res
	f.flaps.Store(0)
	if n > 0 {
		w.raced += n
		w.mu.Lock()
		w.classes["online-notification-races-suspension"] += n
		w.classes[fmt.Sprintf("online-notification-races-suspension:spins=%d", spins)] += n
		w.shapes["online-notification-races-suspension"] = true
		w.mu.Unlock()
		w.class(fmt.Sprintf("step-with-racing-online-notifications:flaps=%d", flaps))
	} else {
		w.class("online-notification-races-suspension:step-did-not-suspend")
	}
	w.stepDone()
}

// ---- tests ---------------------------------------------------------------------------------------------------

const (
	groupExt  = "TestReplicationHistory/extended"
	groupRace = "TestReplicationHistory/onlineRace"
)

func runHistoryExt(t *rapid.T) { runHistoryOf(t, groupExt, true) }

// runOnlineRace: generated offline/online cycles of generated followers (1..3) under appends; every
// online notification races the suspension of the loop (see stepRacingOnline); between the cycles
// the other channels are stepped a generated number of times.
func runOnlineRace(t *rapid.T) {
	const group = groupRace
	n := rapid.SampledFrom([]int{1, 1, 2, 2, 3}).Draw(t, "followers")
	w := newWorld(t, n)
	w.ext = true
	defer w.close()
	cycles := rapid.IntRange(2, 10).Draw(t, "cycles")
	for c := 0; c < cycles; c++ {
		f := w.pick()
		// the follower goes away
		w.logf("fault: follower %d offline", f.id)
		f.online = false
		w.breakStream(f)
		w.class("fault-follower-offline")
		k := rapid.IntRange(1, 2).Draw(t, "appends")
		for i := 0; i < k; i++ {
			w.leaderPut(rapid.SampledFrom([]int{8, 64, 5000}).Draw(t, "size"))
		}
		w.noteFault(f)
		w.wakeLoop()
		// the leader notices: a send over the broken stream fails
		for i := 0; i < 3 && !w.busy() && w.ready(f) && w.needsStep(f); i++ {
			w.stepFor(f)
		}
		if rapid.IntRange(0, 3).Draw(t, "stepOthersWhileOffline") == 0 {
			w.stepOthers(f, rapid.IntRange(1, 3).Draw(t, "steps"))
		}
		if !w.busy() && !w.ready(f) {
			w.stepRacingOnline(f, rapid.SampledFrom(racingSpins).Draw(t, "spinsBeforeNotification"), rapid.SampledFrom(racingFlaps).Draw(t, "flaps"))
		} else {
			w.class("cycle-without-race")
			w.followerOnline(f)
		}
		w.check("after the follower is back")
		// replication goes on
		for _, g := range w.fols {
			steps := rapid.IntRange(0, 4).Draw(t, "stepsAfter")
			for i := 0; i < steps && !w.busy() && w.needsStep(g); i++ {
				w.stepFor(g)
			}
		}
		w.check("after the cycle")
	}
	w.converge()
	for c, k := range w.classes {
		ev.Class(group, c, k)
	}
	shapes := []string{fmt.Sprintf("followers=%d", n)}
	for s := range w.shapes {
		shapes = append(shapes, "case-with:"+s)
	}
	sort.Strings(shapes)
	ev.Case(group, strings.Join(w.ops, ";"), w.raced > 0, shapes,
		map[string]any{"history": w.ops, "raced": w.raced, "followers": n})
}

// stepOthers steps the channels of the followers other than f.
func (w *world) stepOthers(f *follower, steps int) {
	for _, g := range w.fols {
		if g == f {
			continue
		}
		for i := 0; i < steps && !w.busy() && g.online && w.needsStep(g); i++ {
			w.stepFor(g)
		}
	}
}
