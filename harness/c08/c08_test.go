// Package c08 checks property C08: a follower's log is a gap-free, byte-identical copy of the
// leader's; the leader never regards a position as acknowledged that the follower has not
// appended; after any fault the channel resynchronises by itself.
//
// Leader side: the production replica.Partition + remote replicator over a real FanOutQueue.
// Follower side: the production app/storage/rpc.ReplicaHandler + replica.Partition over its own
// real FanOutQueue. Between them an in-memory bidirectional stream and a direct-call unary
// client, both owned by the harness, so that faults are injected at generated points.
package c08

import (
	"bytes"
	"context"
	"encoding/binary"
	"errors"
	"fmt"
	"io"
	"os"
	"path/filepath"
	"runtime"
	"strings"
	"sync"
	"testing"
	"time"

	"github.com/lindb/common/pkg/logger"
	"google.golang.org/grpc"
	"google.golang.org/grpc/metadata"
	"pgregory.net/rapid"

	storagerpc "github.com/lindb/lindb/app/storage/rpc"
	"github.com/lindb/lindb/coordinator/storage"
	"github.com/lindb/lindb/models"
	"github.com/lindb/lindb/pkg/option"
	"github.com/lindb/lindb/pkg/queue"
	"github.com/lindb/lindb/pkg/timeutil"
	protoReplicaV1 "github.com/lindb/lindb/proto/gen/v1/replica"
	"github.com/lindb/lindb/replica"
	"github.com/lindb/lindb/rpc"
	"github.com/lindb/lindb/tsdb"
	"github.com/lindb/lindb/verifharness/sim/crash"
	"github.com/lindb/lindb/verifharness/sim/ev"
)

func TestMain(m *testing.M) { ev.Main(m) }

func init() {
	_ = logger.RunningAtomicLevel.UnmarshalText([]byte("fatal"))
}

const (
	leaderID   = models.NodeID(1)
	followerID = models.NodeID(2)
	dbName     = "db"
	familyTime = int64(1700000000000)
)

// ---- light fakes for what a partition needs from the engine ----------------------------------------

type fakeDB struct {
	tsdb.Database
	opt *option.DatabaseOption
}

func (d *fakeDB) Name() string                      { return dbName }
func (d *fakeDB) GetOption() *option.DatabaseOption { return d.opt }

type fakeShard struct {
	tsdb.Shard
	db *fakeDB
}

func (s *fakeShard) Database() tsdb.Database { return s.db }
func (s *fakeShard) ShardID() models.ShardID { return 0 }

type fakeFamily struct {
	tsdb.DataFamily
}

func (f *fakeFamily) TimeRange() timeutil.TimeRange {
	return timeutil.TimeRange{Start: familyTime, End: familyTime + 3600_000 - 1}
}
func (f *fakeFamily) FamilyTime() int64                      { return familyTime }
func (f *fakeFamily) AckSequence(_ int32, _ func(seq int64)) {}
func (f *fakeFamily) Retain()                                {}
func (f *fakeFamily) Release()                               {}
func (f *fakeFamily) ValidateSequence(_ int32, _ int64) bool { return true }
func (f *fakeFamily) CommitSequence(_ int32, _ int64)        {}

// ---- world -----------------------------------------------------------------------------------------------

type side struct {
	dir  string
	fq   queue.FanOutQueue
	part replica.Partition
}

type world struct {
	t      *rapid.T
	root   string
	leader side
	fol    side

	folOnline bool
	watchers  []func(models.NodeStateType)
	handler   *storagerpc.ReplicaHandler

	mu           sync.Mutex
	pipe         *pipe
	failNextSend bool
	failNextRecv bool

	step *stepRun // replication step in flight (parked waiting for data / for the follower)

	nextID   uint64
	posOf    map[uint64]int64 // message id -> position the leader stored it at
	idBytes  map[uint64][]byte
	ops      []string
	classes  map[string]int
	faultHit int // faults injected while >= 1 message was un-replicated and replication continued afterwards
	images   []string
	// positions at which the follower may legitimately hold bytes of a leader incarnation that
	// lost its tail (the leader no longer holds them when they were resynchronised)
	leaderLostTail bool
	resyncPending  bool // the leader lost its tail and has not completed a resynchronising step yet
	parked         bool
	parkedOffline  bool // the parked step waits for the follower (else: for data)
	lastAck        int64
	folHas         map[int64]bool // positions the follower appended in its current log incarnation
}

type stepRun struct {
	done chan struct{}
}

func (w *world) logf(format string, args ...any) { w.ops = append(w.ops, fmt.Sprintf(format, args...)) }

func (w *world) fatalf(format string, args ...any) {
	w.t.Helper()
	w.t.Fatalf(format+"\nhistory:\n  %s", append(args, strings.Join(w.ops, "\n  "))...)
}

// ---- state manager / client factory fakes ---------------------------------------------------------------

type stateMgr struct {
	storage.StateManager
	w *world
}

func (s *stateMgr) GetLiveNode(id models.NodeID) (models.StatefulNode, bool) {
	if id == followerID && s.w.folOnline {
		return models.StatefulNode{ID: followerID, StatelessNode: models.StatelessNode{HostIP: "follower", GRPCPort: 2}}, true
	}
	return models.StatefulNode{}, false
}

func (s *stateMgr) WatchNodeStateChangeEvent(id models.NodeID, fn func(models.NodeStateType)) {
	if id == followerID {
		s.w.watchers = append(s.w.watchers, fn)
	}
}

type cliFct struct {
	rpc.ClientStreamFactory
	w *world
}

func (c *cliFct) CreateReplicaServiceClient(_ models.Node) (protoReplicaV1.ReplicaServiceClient, error) {
	if !c.w.folOnline {
		return nil, errors.New("connection refused")
	}
	return &client{w: c.w, handler: c.w.handler}, nil
}

type client struct {
	w       *world
	handler *storagerpc.ReplicaHandler // the follower incarnation this client was created for
}

func (c *client) alive() bool { return c.w.folOnline && c.w.handler == c.handler }

func (c *client) Reset(ctx context.Context, in *protoReplicaV1.ResetIndexRequest, _ ...grpc.CallOption) (*protoReplicaV1.ResetIndexResponse, error) {
	if !c.alive() {
		return nil, errors.New("transport is closing")
	}
	c.w.classes["follower-reset-by-leader"]++
	return c.handler.Reset(ctx, in)
}

func (c *client) GetReplicaAckIndex(ctx context.Context, in *protoReplicaV1.GetReplicaAckIndexRequest, _ ...grpc.CallOption) (*protoReplicaV1.GetReplicaAckIndexResponse, error) {
	if !c.alive() {
		return nil, errors.New("transport is closing")
	}
	return c.handler.GetReplicaAckIndex(ctx, in)
}

func (c *client) Replica(ctx context.Context, _ ...grpc.CallOption) (protoReplicaV1.ReplicaService_ReplicaClient, error) {
	if !c.alive() {
		return nil, errors.New("transport is closing")
	}
	md, _ := metadata.FromOutgoingContext(ctx)
	sctx, cancel := context.WithCancel(metadata.NewIncomingContext(context.Background(), md))
	p := &pipe{w: c.w, ctx: sctx, cancel: cancel, reqCh: make(chan *protoReplicaV1.ReplicaRequest), respCh: make(chan *protoReplicaV1.ReplicaResponse, 1), served: make(chan struct{})}
	h := c.handler
	go func() {
		defer close(p.served)
		_ = h.Replica(&serverStream{p: p})
	}()
	c.w.mu.Lock()
	c.w.pipe = p
	c.w.mu.Unlock()
	return &clientStream{p: p}, nil
}

// pipe is the in-memory bidirectional stream.
type pipe struct {
	w      *world
	ctx    context.Context
	cancel context.CancelFunc
	reqCh  chan *protoReplicaV1.ReplicaRequest
	respCh chan *protoReplicaV1.ReplicaResponse
	served chan struct{} // closed when the server side handler returned
}

func (p *pipe) breakNow() {
	p.cancel()
	<-p.served
}

type clientStream struct {
	grpc.ClientStream
	p *pipe
}

func (c *clientStream) Send(req *protoReplicaV1.ReplicaRequest) error {
	w := c.p.w
	w.mu.Lock()
	fail := w.failNextSend
	w.failNextSend = false
	w.mu.Unlock()
	if fail {
		w.classes["fault-send-failed"]++
		c.p.breakNow()
		return errors.New("injected: send failed")
	}
	select {
	case c.p.reqCh <- req:
		return nil
	case <-c.p.ctx.Done():
		return io.EOF
	}
}

func (c *clientStream) Recv() (*protoReplicaV1.ReplicaResponse, error) {
	w := c.p.w
	select {
	case resp := <-c.p.respCh:
		w.mu.Lock()
		fail := w.failNextRecv
		w.failNextRecv = false
		w.mu.Unlock()
		if fail {
			// the follower has processed the request (and possibly appended), the answer is lost
			w.classes["fault-ack-lost"]++
			c.p.breakNow()
			return nil, errors.New("injected: recv failed")
		}
		return resp, nil
	case <-c.p.ctx.Done():
		return nil, io.EOF
	}
}

func (c *clientStream) CloseSend() error {
	c.p.breakNow()
	return nil
}

type serverStream struct {
	grpc.ServerStream
	p *pipe
}

func (s *serverStream) Context() context.Context { return s.p.ctx }

func (s *serverStream) Recv() (*protoReplicaV1.ReplicaRequest, error) {
	select {
	case req := <-s.p.reqCh:
		return req, nil
	case <-s.p.ctx.Done():
		return nil, io.EOF
	}
}

func (s *serverStream) Send(resp *protoReplicaV1.ReplicaResponse) error {
	if resp.Err == "" && resp.AckIndex == resp.ReplicaIndex {
		// the follower appended this position (whether or not the answer reaches the leader)
		s.p.w.mu.Lock()
		s.p.w.folHas[resp.ReplicaIndex] = true
		s.p.w.mu.Unlock()
	}
	select {
	case s.p.respCh <- resp:
		return nil
	case <-s.p.ctx.Done():
		return io.EOF
	}
}

// follower side WAL manager: hands the handler the follower's current partition.
type walMgr struct {
	replica.WriteAheadLogManager
	w *world
}

func (m *walMgr) GetOrCreateLog(_ string) replica.WriteAheadLog { return &wal{w: m.w} }

type wal struct {
	replica.WriteAheadLog
	w *world
}

func (l *wal) GetOrCreatePartition(_ models.ShardID, _ int64, _ models.NodeID) (replica.Partition, error) {
	return l.w.fol.part, nil
}

// ---- building both sides ---------------------------------------------------------------------------------

func (w *world) newPartition(dir string, current models.NodeID) side {
	fq, err := queue.NewFanOutQueue(dir, 0)
	if err != nil {
		w.fatalf("open log %s: %v", dir, err)
	}
	db := &fakeDB{opt: &option.DatabaseOption{}}
	p := replica.NewPartition(context.Background(), &fakeShard{db: db}, &fakeFamily{}, current, fq, &cliFct{w: w}, &stateMgr{w: w})
	return side{dir: dir, fq: fq, part: p}
}

func (w *world) openLeader() {
	w.watchers = nil
	w.leader = w.newPartition(w.leader.dir, leaderID)
	if err := w.leader.part.BuildReplicaForLeader(leaderID, []models.NodeID{followerID}); err != nil {
		w.fatalf("build replica: %v", err)
	}
}

func (w *world) openFollower() {
	w.fol = w.newPartition(w.fol.dir, followerID)
	w.handler = storagerpc.NewReplicaHandler(&walMgr{w: w})
}

func (w *world) breakStream() {
	w.mu.Lock()
	p := w.pipe
	w.pipe = nil
	w.mu.Unlock()
	if p != nil {
		p.breakNow()
	}
}

// ---- messages ---------------------------------------------------------------------------------------------

func (w *world) newMessage(size int) []byte {
	w.nextID++
	b := make([]byte, size)
	binary.LittleEndian.PutUint64(b, w.nextID)
	x := w.nextID*0x9E3779B97F4A7C15 + 7
	for i := 8; i < size; i++ {
		x ^= x << 13
		x ^= x >> 7
		x ^= x << 17
		b[i] = byte(x)
	}
	w.idBytes[w.nextID] = b
	return b
}

// ---- steps ---------------------------------------------------------------------------------------------------

// settle waits for a replication step in flight; parked steps (waiting for data or for the
// follower to come back) stay in flight.
func (w *world) settle(d time.Duration) bool {
	if w.step == nil {
		return true
	}
	if w.parked {
		// known to be blocked inside production code (waiting for data / for the follower):
		// only look whether something released it meanwhile
		d = 0
	}
	select {
	case <-w.step.done:
		w.step, w.parked = nil, false
		return true
	case <-time.After(d):
		return false
	}
}

// settleWake waits for a parked step after an event that releases it.
func (w *world) settleWake(d time.Duration) bool {
	w.parked = false
	return w.settle(d)
}

func (w *world) opStep() {
	if !w.settle(50 * time.Millisecond) {
		w.classes["step-skipped-previous-parked"]++
		return
	}
	if !w.needsStep() {
		w.t.Skip("no backlog and the channel is ready: the production loop would wait for data")
	}
	if !w.folOnline && rapid.IntRange(0, 3).Draw(w.t, "stepWhileOffline") != 0 {
		w.t.Skip("follower offline")
	}
	w.logf("replicaStep")
	part := w.leader.part
	run := &stepRun{done: make(chan struct{})}
	w.step = run
	go func() {
		defer close(run.done)
		replica.VerifReplicaStep(part, followerID)
	}()
	if !w.settle(50 * time.Millisecond) {
		w.logf("  (step parked: waits for data or for the follower)")
		w.classes["step-parked"]++
		w.parked = true
		w.parkedOffline = !w.folOnline
	} else if w.resyncPending && w.folOnline {
		if r := replica.VerifReplicator(w.leader.part, followerID); r != nil && r.State() != nil && replica.VerifReplicatorReady(r) {
			w.resyncPending = false
		}
	}
}

const sigLostTail = "C08/leader-lost-tail-appends-before-resync"

func (w *world) opAppend() {
	if w.resyncPending && ev.Known(sigLostTail) {
		// known finding: a leader that lost its log tail and accepts writes before the channel has
		// resynchronised re-uses positions the follower still holds with the old bytes
		w.classes["excluded_known"]++
		w.t.Skip("excluded: known finding " + sigLostTail)
	}
	n := rapid.IntRange(1, 3).Draw(w.t, "appendCount")
	for i := 0; i < n; i++ {
		size := rapid.SampledFrom([]int{8, 9, 64, 500, 5000}).Draw(w.t, "size")
		m := w.newMessage(size)
		if err := w.leader.part.WriteLog(m); err != nil {
			w.fatalf("leader append: %v", err)
		}
		pos := w.leader.fq.Queue().AppendedSeq()
		w.posOf[w.nextID] = pos
		w.logf("leaderAppend id=%d size=%d -> position %d", w.nextID, size, pos)
	}
	// a parked step may have been waiting for data
	if w.step != nil && !w.parkedOffline {
		w.settleWake(200 * time.Millisecond)
	}
}

func (w *world) backlog() int64 {
	r := replica.VerifReplicator(w.leader.part, followerID)
	if r == nil {
		return 0
	}
	return r.Pending()
}

// needsStep: the production loop has something to do without new data: unconsumed messages, or a
// channel that is not ready (it resynchronises and may re-send consumed but unacknowledged ones).
func (w *world) needsStep() bool {
	r := replica.VerifReplicator(w.leader.part, followerID)
	if r == nil {
		return false
	}
	return r.Pending() > 0 || !replica.VerifReplicatorReady(r)
}

func (w *world) noteFault() {
	if w.backlog() > 0 {
		w.faultHit++
	}
}

func (w *world) opFailSend() {
	w.logf("fault: next stream send fails")
	w.mu.Lock()
	w.failNextSend = true
	w.mu.Unlock()
	w.noteFault()
}

func (w *world) opFailRecv() {
	w.logf("fault: next stream receive fails (ack lost)")
	w.mu.Lock()
	w.failNextRecv = true
	w.mu.Unlock()
	w.noteFault()
}

func (w *world) closeFollower() {
	w.breakStream()
	_ = w.fol.part.Close()
}

func (w *world) opFollowerRestart() {
	if !w.settle(300 * time.Millisecond) {
		w.t.Skip("step parked")
	}
	w.logf("fault: follower restarts (log kept)")
	w.noteFault()
	w.closeFollower()
	w.openFollower()
	w.classes["fault-follower-restart"]++
}

func (w *world) opFollowerLosesLog() {
	if !w.settle(300 * time.Millisecond) {
		w.t.Skip("step parked")
	}
	w.logf("fault: follower loses its log")
	w.noteFault()
	w.closeFollower()
	_ = os.RemoveAll(w.fol.dir)
	w.mu.Lock()
	w.folHas = map[int64]bool{}
	w.mu.Unlock()
	w.openFollower()
	w.classes["fault-follower-lost-log"]++
}

func (w *world) opFollowerOffline() {
	if !w.folOnline {
		w.t.Skip("already offline")
	}
	w.logf("fault: follower offline")
	w.noteFault()
	w.folOnline = false
	w.breakStream()
	w.classes["fault-follower-offline"]++
}

func (w *world) opFollowerOnline() {
	if w.folOnline {
		w.t.Skip("already online")
	}
	w.logf("follower online (notification delivered)")
	w.folOnline = true
	for _, fn := range w.watchers {
		done := make(chan struct{})
		go func(fn func(models.NodeStateType)) { fn(models.NodeOnline); close(done) }(fn)
		select {
		case <-done:
		case <-time.After(2 * time.Second):
			w.fatalf("online notification is not consumed by the suspended replicator")
		}
	}
	if w.step != nil && w.parkedOffline {
		// the suspended step continues; it may park again waiting for data
		w.settleWake(100 * time.Millisecond)
		if w.step != nil {
			w.parked, w.parkedOffline = true, false
		}
	}
}

func (w *world) opLeaderGC() {
	w.logf("leader sync+gc")
	w.leader.fq.Sync()
	w.leader.fq.Queue().GC()
}

func (w *world) opSnapshotLeader() {
	if len(w.images) >= 2 || !w.settle(300*time.Millisecond) {
		w.t.Skip("enough images / step parked")
	}
	dir := filepath.Join(w.root, fmt.Sprintf("leader-image-%d", len(w.images)))
	if err := crash.CopyTree(w.leader.dir, dir); err != nil {
		w.fatalf("harness: copy: %v", err)
	}
	w.images = append(w.images, dir)
	w.logf("(image of the leader log taken: appended=%d)", w.leader.fq.Queue().AppendedSeq())
}

// opLeaderLosesTail: the leader restarts from an earlier image of its log.
func (w *world) opLeaderLosesTail() {
	if len(w.images) == 0 || !w.settle(300*time.Millisecond) {
		w.t.Skip("no image / step parked")
	}
	img := w.images[len(w.images)-1]
	w.images = w.images[:len(w.images)-1]
	w.noteFault()
	w.breakStream()
	w.leader.part.Stop()
	_ = w.leader.part.Close()
	_ = os.RemoveAll(w.leader.dir)
	if err := crash.CopyTree(img, w.leader.dir); err != nil {
		w.fatalf("harness: restore: %v", err)
	}
	w.openLeader()
	app := w.leader.fq.Queue().AppendedSeq()
	w.logf("fault: leader restarts with a log that lost its tail (appended=%d)", app)
	// messages above the restored position are no longer stored by the leader
	for id, pos := range w.posOf {
		if pos > app {
			delete(w.posOf, id)
		}
	}
	w.leaderLostTail = true
	w.resyncPending = true
	w.classes["fault-leader-lost-tail"]++
}

// opLoseLastK: image, k appends that are replicated, then the leader falls back to the image:
// the leader is exactly k messages behind its follower.
func (w *world) opLoseLastK() {
	if !w.folOnline || !w.settle(0) || (w.resyncPending && ev.Known(sigLostTail)) {
		w.t.Skip("follower offline / step parked / resync pending")
	}
	k := rapid.IntRange(1, 2).Draw(w.t, "lostMessages")
	if len(w.images) >= 2 {
		w.images = w.images[1:]
	}
	w.opSnapshotLeader()
	for i := 0; i < k; i++ {
		m := w.newMessage(16)
		if err := w.leader.part.WriteLog(m); err != nil {
			w.fatalf("leader append: %v", err)
		}
		w.posOf[w.nextID] = w.leader.fq.Queue().AppendedSeq()
		w.logf("leaderAppend id=%d size=16 -> position %d", w.nextID, w.posOf[w.nextID])
	}
	for i := 0; i < 2*k+2 && w.needsStep(); i++ {
		w.opStep()
		if w.step != nil {
			break
		}
	}
	w.check("before tail loss")
	w.opLeaderLosesTail()
	w.classes["lose-last-k"]++
}

// ---- oracle -------------------------------------------------------------------------------------------------

func (w *world) check(where string) {
	if w.step != nil {
		select {
		case <-w.step.done:
			w.step = nil
		default:
			return // a step is parked inside production code; check again when it finished
		}
	}
	lq, fq := w.leader.fq.Queue(), w.fol.fq.Queue()
	lApp, lAck := lq.AppendedSeq(), lq.AcknowledgedSeq()
	fApp, fAck := fq.AppendedSeq(), fq.AcknowledgedSeq()
	// follower: gap free, each position holds a message the leader stored at that very position
	for i := fAck + 1; i <= fApp; i++ {
		data, err := fq.Get(i)
		if err != nil {
			w.fatalf("%s: follower log has a hole at position %d (ack=%d appended=%d): %v", where, i, fAck, fApp, err)
		}
		if len(data) < 8 {
			w.fatalf("%s: follower position %d holds %d bytes", where, i, len(data))
		}
		id := binary.LittleEndian.Uint64(data)
		orig, ok := w.idBytes[id]
		if !ok || !bytes.Equal(orig, data) {
			w.fatalf("%s: follower position %d holds bytes the leader never appended (id %d, %d bytes)", where, i, id, len(data))
		}
		if pos, ok := w.posOf[id]; ok && pos != i {
			w.fatalf("%s: message %d is stored by the leader at position %d but by the follower at position %d", where, id, pos, i)
		}
		// same position still held by the leader: identical bytes
		if i > lAck && i <= lApp {
			ld, err := lq.Get(i)
			if err == nil && !bytes.Equal(ld, data) {
				lid := uint64(0)
				if len(ld) >= 8 {
					lid = binary.LittleEndian.Uint64(ld)
				}
				w.fatalf("%s: position %d differs: leader holds message %d (%d bytes), follower holds message %d (%d bytes)", where, i, lid, len(ld), id, len(data))
			}
		}
	}
	// the leader never moves its acknowledged position for the follower to a position the
	// follower has not appended (a stale position after the follower lost its log is no violation:
	// it was true when it was recorded)
	if r := replica.VerifReplicator(w.leader.part, followerID); r != nil {
		ack := r.AckIndex()
		if ack > w.lastAck && ack > fApp {
			w.fatalf("%s: leader moved the position acknowledged by the follower from %d to %d, follower has appended up to %d", where, w.lastAck, ack, fApp)
		}
		if ack > w.lastAck {
			// every position the leader newly regards as acknowledged must have been appended by the
			// follower (in its current log) or still be readable there
			w.mu.Lock()
			for i := w.lastAck + 1; i <= ack; i++ {
				if i < 0 || w.folHas[i] {
					continue
				}
				if _, err := fq.Get(i); err == nil {
					continue
				}
				w.mu.Unlock()
				w.fatalf("%s: leader moved the position acknowledged by the follower from %d to %d, but the follower never appended position %d (follower ack=%d appended=%d)", where, w.lastAck, ack, i, fAck, fApp)
			}
			w.mu.Unlock()
		}
		w.lastAck = ack
	}
}

// converge: no more faults; within backlog+8 steps the follower must hold every position the
// leader still holds for it.
func (w *world) converge() {
	if !w.folOnline {
		w.opFollowerOnline()
	}
	w.mu.Lock()
	w.failNextSend, w.failNextRecv = false, false
	w.mu.Unlock()
	if !w.settleWake(time.Second) {
		// parked waiting for data: give it one message
		w.resyncPending = false
		w.opAppend()
		if !w.settleWake(2 * time.Second) {
			buf := make([]byte, 1<<20)
			n := runtime.Stack(buf, true)
			w.fatalf("replication step does not finish although data is available and the follower is online\n%s", buf[:n])
		}
	}
	budget := int(w.leader.fq.Queue().AppendedSeq()+1) + 8
	for i := 0; i < budget; i++ {
		lApp := w.leader.fq.Queue().AppendedSeq()
		fApp := w.fol.fq.Queue().AppendedSeq()
		r := replica.VerifReplicator(w.leader.part, followerID)
		if fApp >= lApp && r.Pending() == 0 {
			break
		}
		if !w.needsStep() {
			break
		}
		w.opStep()
		if w.step != nil {
			// parked for data: nothing more to send
			break
		}
		w.check("during convergence")
	}
	lApp := w.leader.fq.Queue().AppendedSeq()
	fApp := w.fol.fq.Queue().AppendedSeq()
	ack := replica.VerifReplicator(w.leader.part, followerID).AckIndex()
	// positions at or below the position the follower acknowledged are not held for it any more
	// (a follower that lost its log afterwards is reset to ack+1 with the next message)
	if fApp < lApp && ack < lApp {
		w.fatalf("no resynchronisation: after the faults stopped and %d steps the follower has appended up to %d, the leader up to %d (acknowledged by the follower: %d)", budget, fApp, lApp, ack)
	}
	w.check("after convergence")
}

func runHistory(t *rapid.T) {
	root, err := os.MkdirTemp("", "c08-")
	if err != nil {
		t.Fatalf("harness: %v", err)
	}
	w := &world{t: t, root: root, posOf: map[uint64]int64{}, idBytes: map[uint64][]byte{}, classes: map[string]int{}, folOnline: true, lastAck: -1, folHas: map[int64]bool{}}
	w.leader.dir = filepath.Join(root, "leader")
	w.fol.dir = filepath.Join(root, "follower")
	defer func() {
		w.breakStream()
		if w.step != nil {
			// release a parked step: closing the log wakes it
			_ = w.leader.part.Close()
			if w.watchers != nil && !w.folOnline {
				w.folOnline = true
				for _, fn := range w.watchers {
					go fn(models.NodeOnline)
				}
			}
			select {
			case <-w.step.done:
			case <-time.After(2 * time.Second):
			}
		}
		w.leader.part.Stop()
		_ = w.leader.part.Close()
		_ = w.fol.part.Close()
		_ = os.RemoveAll(root)
	}()
	w.openFollower()
	w.openLeader()

	t.Repeat(map[string]func(*rapid.T){
		"append":           func(t *rapid.T) { w.t = t; w.opAppend() },
		"append2":          func(t *rapid.T) { w.t = t; w.opAppend() },
		"step":             func(t *rapid.T) { w.t = t; w.opStep() },
		"step2":            func(t *rapid.T) { w.t = t; w.opStep() },
		"step3":            func(t *rapid.T) { w.t = t; w.opStep() },
		"failSend":         func(t *rapid.T) { w.t = t; w.opFailSend() },
		"failRecv":         func(t *rapid.T) { w.t = t; w.opFailRecv() },
		"followerRestart":  func(t *rapid.T) { w.t = t; w.opFollowerRestart() },
		"followerLosesLog": func(t *rapid.T) { w.t = t; w.opFollowerLosesLog() },
		"followerOffline":  func(t *rapid.T) { w.t = t; w.opFollowerOffline() },
		"followerOnline":   func(t *rapid.T) { w.t = t; w.opFollowerOnline() },
		"leaderGC":         func(t *rapid.T) { w.t = t; w.opLeaderGC() },
		"snapshotLeader":   func(t *rapid.T) { w.t = t; w.opSnapshotLeader() },
		"leaderLosesTail":  func(t *rapid.T) { w.t = t; w.opLeaderLosesTail() },
		"loseLastK":        func(t *rapid.T) { w.t = t; w.opLoseLastK() },
		"":                 func(t *rapid.T) { w.t = t; w.check("after step") },
	})
	w.t = t
	w.converge()
	for c, n := range w.classes {
		ev.Class("TestReplicationHistory", c, n)
	}
	ev.Case("TestReplicationHistory", strings.Join(w.ops, ";"), w.faultHit > 0, nil,
		map[string]any{"history": w.ops, "faults_with_backlog": w.faultHit})
}

func TestReplicationHistory(t *testing.T) {
	rapid.Check(t, runHistory)
}

// TestKnown_LeaderLostTailDiverges is the plain reproduction of the known finding
// C08/leader-lost-tail-appends-before-resync: a leader that lost the tail of its log and accepts
// writes before the channel has resynchronised stores new messages at positions at which the
// follower still holds the old ones; the resynchronisation (index comparison only) cannot notice.
func TestKnown_LeaderLostTailDiverges(t *testing.T) {
	ran := false
	rapid.Check(t, func(t *rapid.T) {
		if ran {
			return // one deterministic scenario; rapid only provides the *rapid.T the world needs
		}
		ran = true
		root, err := os.MkdirTemp("", "c08k-")
		if err != nil {
			t.Fatalf("harness: %v", err)
		}
		w := &world{t: t, root: root, posOf: map[uint64]int64{}, idBytes: map[uint64][]byte{}, classes: map[string]int{}, folOnline: true, lastAck: -1, folHas: map[int64]bool{}}
		w.leader.dir = filepath.Join(root, "leader")
		w.fol.dir = filepath.Join(root, "follower")
		defer func() {
			w.breakStream()
			w.leader.part.Stop()
			_ = w.leader.part.Close()
			_ = w.fol.part.Close()
			_ = os.RemoveAll(root)
		}()
		w.openFollower()
		w.openLeader()
		put := func() {
			m := w.newMessage(16)
			if err := w.leader.part.WriteLog(m); err != nil {
				t.Fatalf("append: %v", err)
			}
			w.posOf[w.nextID] = w.leader.fq.Queue().AppendedSeq()
		}
		// a step is only taken when there is a backlog (otherwise the production loop waits for data)
		stepAll := func() {
			for i := 0; i < 6 && w.backlog() > 0; i++ {
				replica.VerifReplicaStep(w.leader.part, followerID)
			}
		}
		put()
		img := filepath.Join(root, "img")
		if err := crash.CopyTree(w.leader.dir, img); err != nil {
			t.Fatalf("harness: %v", err)
		}
		put()
		stepAll()
		// leader restarts from the image (position 1 lost) and takes two writes before replication runs
		w.breakStream()
		w.leader.part.Stop()
		_ = w.leader.part.Close()
		_ = os.RemoveAll(w.leader.dir)
		if err := crash.CopyTree(img, w.leader.dir); err != nil {
			t.Fatalf("harness: %v", err)
		}
		w.openLeader()
		put()
		put()
		stepAll()
		l, _ := w.leader.fq.Queue().Get(1)
		f, errF := w.fol.fq.Queue().Get(1)
		diverged := errF == nil && l != nil && !bytes.Equal(l, f)
		if diverged {
			if ev.Known(sigLostTail) {
				ev.KnownFinding("C08", sigLostTail+": leader log reverted to position 0, two writes before the next replication step: position 1 holds different bytes on leader and follower and replication continues at position 2")
				return
			}
			t.Fatalf("%s: position 1 holds different bytes on leader and follower after resynchronisation", sigLostTail)
		}
	})
}
