// Package c08 checks property C08: a follower's log is a gap-free, byte-identical copy of the
// leader's; the leader never regards a position as acknowledged that the follower has not
// appended; after any fault the channel resynchronises by itself.
//
// Leader side: the production replica.Partition + one remote replicator per follower over a real
// FanOutQueue. Follower side (1..3 followers): the production app/storage/rpc.ReplicaHandler +
// replica.Partition over its own real FanOutQueue (wrapped only so that an append can be made to
// fail). Between them an in-memory bidirectional stream and a direct-call unary client per
// follower, both owned by the harness, so that faults are injected at generated points.
//
// The partition's replication loop is ONE goroutine that serves the replicators of all followers:
// the harness runs one step of one (generated) follower at a time through the verif seam
// replica.VerifReplicaStepNoWait; a loop that would wait for data (ready channel, nothing to
// consume) or is suspended for an offline follower serves no other follower until the next append /
// the online notification. Nothing in the harness depends on timing: a step either finishes or is
// observably suspended (replica.VerifReplicatorSuspended).
//
// Fault classes beyond stream send/receive failures, follower restart / log loss / offline and
// leader gc / tail loss:
//
//   - several followers that hold different amounts of the log when the leader loses its log tail
//     (or its whole log), resynchronised in a generated order;
//
//   - a follower that cannot append while the stream stays open: its wal partition is closed
//     (shutting down; the shutdown ends with a restart) or the next appends to its log fail.
//
//   - the follower's own log life cycle under an open stream (followerlog_test.go): the follower
//     side is the production WriteAheadLogManager + writeAheadLog (fake engine behind it), so the
//     partition object that serves the unary calls (GetReplicaAckIndex / Reset: looked up in the
//     write ahead log at every call) and the one that serves an open stream (resolved by
//     ReplicaHandler.Replica when the stream was created, and kept) are whatever production makes
//     them; the periodic wal housekeeping (writeAheadLog.destroy) is an operation of the history.
//
// After the generated history faults stop, a probe message is written and every follower must
// end up with every position the leader holds, the probe included.
package c08

import (
	"bytes"
	"context"
	"encoding/binary"
	"errors"
	"fmt"
	"io"
	"os"
	"path/filepath"
	"runtime"
	"sort"
	"strings"
	"sync"
	"sync/atomic"
	"testing"
	"time"

	"github.com/lindb/common/pkg/logger"
	"github.com/lindb/common/pkg/ltoml"
	"google.golang.org/grpc"
	"google.golang.org/grpc/metadata"
	"pgregory.net/rapid"

	storagerpc "github.com/lindb/lindb/app/storage/rpc"
	"github.com/lindb/lindb/config"
	"github.com/lindb/lindb/coordinator/storage"
	"github.com/lindb/lindb/models"
	"github.com/lindb/lindb/pkg/option"
	"github.com/lindb/lindb/pkg/queue"
	"github.com/lindb/lindb/pkg/timeutil"
	protoReplicaV1 "github.com/lindb/lindb/proto/gen/v1/replica"
	"github.com/lindb/lindb/replica"
	"github.com/lindb/lindb/rpc"
	"github.com/lindb/lindb/tsdb"
	"github.com/lindb/lindb/verifharness/sim/crash"
	"github.com/lindb/lindb/verifharness/sim/ev"
)

func TestMain(m *testing.M) { ev.Main(m) }

func init() {
	_ = logger.RunningAtomicLevel.UnmarshalText([]byte("fatal"))
}

const (
	leaderID      = models.NodeID(1)
	firstFollower = models.NodeID(2) // followers are nodes 2, 3, 4
	dbName        = "db"
	familyTime    = int64(1700000000000)
	farFuture     = int64(7258118400000) // 2200-01-01
)

// ---- light fakes for what a partition needs from the engine ----------------------------------------

type fakeDB struct {
	tsdb.Database
	opt *option.DatabaseOption
}

func (d *fakeDB) Name() string                      { return dbName }
func (d *fakeDB) GetOption() *option.DatabaseOption { return d.opt }

type fakeShard struct {
	tsdb.Shard
	db *fakeDB
	f  *follower // the node this shard lives on (nil: the leader)
}

func (s *fakeShard) Database() tsdb.Database { return s.db }
func (s *fakeShard) ShardID() models.ShardID { return 0 }

// GetOrCrateDataFamily: what the follower's write ahead log asks the engine for when it creates a partition.
func (s *fakeShard) GetOrCrateDataFamily(_ int64) (tsdb.DataFamily, error) {
	if s.f == nil {
		return nil, errors.New("harness: the leader's partition is not created through a write ahead log")
	}
	return s.f.family, nil
}

// fakeEngine is the engine behind the write ahead log of a follower.
type fakeEngine struct {
	tsdb.Engine
	f *follower
}

func (e *fakeEngine) GetShard(db string, id models.ShardID) (tsdb.Shard, bool) {
	if db != dbName || id != 0 {
		return nil, false
	}
	return e.f.shard, true
}

type fakeFamily struct {
	tsdb.DataFamily
	w *world
	f *follower // the node this family lives on (nil: the leader)
}

// TimeRange: the harness owns the family's time range (no clock seam): in the extended histories
// the family's write window is open (its end lies in the far future) until the generated
// operation 'the write window passes'; from then on - and in the plain histories, where nobody
// asks - the family lies in the far past (2023).
func (f *fakeFamily) TimeRange() timeutil.TimeRange {
	if f.f != nil {
		// a follower judges the write window by its own clock (see opFollowerWalTask)
		if !f.f.clockPassed {
			return timeutil.TimeRange{Start: familyTime, End: farFuture}
		}
		return timeutil.TimeRange{Start: familyTime, End: familyTime + 3600_000 - 1}
	}
	if f.w != nil && f.w.ext && !f.w.windowPassed {
		return timeutil.TimeRange{Start: familyTime, End: farFuture}
	}
	return timeutil.TimeRange{Start: familyTime, End: familyTime + 3600_000 - 1}
}
func (f *fakeFamily) FamilyTime() int64                      { return familyTime }
func (f *fakeFamily) AckSequence(_ int32, _ func(seq int64)) {}
func (f *fakeFamily) Retain()                                {}
func (f *fakeFamily) Release()                               {}
func (f *fakeFamily) ValidateSequence(_ int32, _ int64) bool { return true }
func (f *fakeFamily) CommitSequence(_ int32, _ int64)        {}

// ---- world -----------------------------------------------------------------------------------------------

type side struct {
	dir  string
	fq   queue.FanOutQueue
	part replica.Partition
}

// follower is one remote follower node: its log, its rpc handler and the harness-owned transport
// between the leader's replicator for it and that handler.
type follower struct {
	w  *world
	id models.NodeID
	side

	online     bool
	flaps      atomic.Int32 // the next lookups of the live node by the leader do not find it (flapping follower, see stepRacingOnline)
	crashed    bool         // the process died (see client.Reset); it answers nothing until it is restarted
	partClosed bool         // its wal partition is closed (shutting down) while its rpc server still answers
	watchers   []func(models.NodeStateType)
	handler    *storagerpc.ReplicaHandler

	// the follower's write ahead log (production manager + log over a fake engine). side.fq/side.part
	// are the log and the partition object the write ahead log created last for the family (see
	// newWalPartition); side.dir is the wal directory of the node.
	mgr         replica.WriteAheadLogManager
	cancel      context.CancelFunc
	shard       *fakeShard
	family      *fakeFamily
	wp          *walPartition // the object registered in the write ahead log
	noPart      bool          // the wal task destroyed the partition: the next lookup creates a new one
	goneApp     int64         // what a partition created now would report as appended (noPart only)
	gen         int           // incarnations of the partition object
	destroys    int           // destructions by the wal task in this process incarnation
	lazy        bool          // the next partition object is created lazily after a destruction
	clockPassed bool          // by this follower's clock the write window of the family has passed

	// guarded by world.mu
	pipe         *pipe
	pipes        []*pipe // every stream ever opened to this follower incarnation (all are cancelled at the end)
	failNextSend bool
	failNextRecv bool
	putFail      int            // the next putFail appends to the follower's log fail
	has          map[int64]bool // positions the follower appended in its current log incarnation
	refused      bool           // an offer was refused with an append error since the last handshake (later offers on that stream are refused too)

	crossed bool  // (page fault histories) its log has appended a position of the next index page
	lastAck int64 // highest position the leader regarded as acknowledged by this follower (checked when it moved there)
	// the leader lost its log tail and the channel to this follower has not completed a
	// resynchronising step since
	resyncPending bool
}

func (f *follower) app() int64 {
	if f.noPart {
		return f.goneApp
	}
	return f.fq.Queue().AppendedSeq()
}

// handsOutDestroyed: the follower's write ahead log would serve the call with a partition object
// that its own wal task has stopped and closed (writeAheadLog.destroy takes an expired partition
// out of the log before it closes it, so a lookup never returns one). Writing through such an object
// (ResetReplicaIndex, NewLocalReplicator) goes into unmapped pages: the follower process - here: the
// test process - would die. Reported by the test goroutine (world.check).
func (f *follower) handsOutDestroyed(call string) bool {
	if f.partClosed || f.crashed {
		return false
	}
	p, err := f.mgr.GetOrCreateLog(dbName).GetOrCreatePartition(0, familyTime, leaderID)
	if err != nil {
		return false // (the handler reports the error to the leader)
	}
	wp, ok := p.(*walPartition)
	if !ok || !wp.closed {
		return false
	}
	w := f.w
	w.mu.Lock()
	if w.asyncErr == "" {
		w.asyncErr = fmt.Sprintf("follower %d: %s of the leader is served with the partition object that the follower's wal task destroyed (stopped and closed): the write ahead log still hands it out; a write through it kills the follower process", f.id, call)
	}
	w.mu.Unlock()
	f.crashed = true
	return true
}

// built: the replica relation of the current partition object is built (by a stream, or by the
// recovery of a restarted follower that found the consumer group on disk).
func (f *follower) built() bool {
	return !f.noPart && replica.VerifReplicator(f.part, f.id) != nil
}

type world struct {
	t      *rapid.T
	root   string
	leader side
	fols   []*follower

	mu sync.Mutex

	// the replication step in flight (the production loop is ONE goroutine that serves all
	// replicators of the partition: at most one step is in flight; a loop that waits inside
	// production code - for data / for an offline follower - does not serve the other followers)
	step      *stepRun
	stepFol   *follower
	suspended bool      // the step in flight is suspended inside IsReady: it waits for its offline follower
	waitData  *follower // the loop waits (in Consume) for new data for the ready channel of this follower

	nextID   uint64
	posOf    map[uint64]int64  // message id -> position the leader stored it at
	atPos    map[int64]uint64  // position -> message the current leader log stored there
	idBytes  map[uint64][]byte // every message ever appended
	ops      []string
	classes  map[string]int
	shapes   map[string]bool
	faultHit int // faults injected while >= 1 message was un-replicated and replication continued afterwards
	images   []string

	// extended histories (see ext.go)
	ext                bool   // the extended operation set is generated
	windowPassed       bool   // the write window of the family has passed: no more writes
	asyncErr           string // a violation seen by a transport goroutine (reported by check)
	offersAfterDestroy int    // offers answered by a stream handler whose partition the follower's wal task had destroyed
	destroyed          bool   // the leader's wal task found the partition expired and removed its log
	stuck              bool   // a replication step stays blocked (reported): do not wait for it again
	raced              int    // online notifications delivered while the loop marked itself suspended

	// page fault histories (see pagefault_test.go)
	pf            bool  // page file creations can fail; a failed leader append is part of the history
	base          int64 // append position the world started at (0, or just below an index page boundary)
	leaderCrossed bool
}

type stepRun struct {
	done chan struct{}
	res  int
}

func (w *world) logf(format string, args ...any) { w.ops = append(w.ops, fmt.Sprintf(format, args...)) }

func (w *world) fatalf(format string, args ...any) {
	w.t.Helper()
	w.t.Fatalf(format+"\nhistory:\n  %s", append(args, strings.Join(w.ops, "\n  "))...)
}

// class counts an event (callable from the transport goroutines).
func (w *world) class(name string) {
	w.mu.Lock()
	w.classes[name]++
	if strings.Contains(name, "excluded_known:") {
		w.classes["excluded_known"]++ // all exclusions for known findings
	}
	w.mu.Unlock()
}

// shape counts an event and marks the case as one that contains it.
func (w *world) shape(name string) {
	w.mu.Lock()
	w.shapes[name] = true
	w.mu.Unlock()
	w.class(name)
}

func (w *world) fol(id models.NodeID) *follower {
	for _, f := range w.fols {
		if f.id == id {
			return f
		}
	}
	return nil
}

func (w *world) pick() *follower {
	if len(w.fols) == 1 {
		return w.fols[0]
	}
	return w.fols[rapid.IntRange(0, len(w.fols)-1).Draw(w.t, "follower")]
}

// ---- state manager / client factory fakes ---------------------------------------------------------------

type stateMgr struct {
	storage.StateManager
	w *world
}

func (s *stateMgr) GetLiveNode(id models.NodeID) (models.StatefulNode, bool) {
	f := s.w.fol(id)
	if f != nil && f.flaps.Load() > 0 {
		// the follower went away again right after its online notification (see stepRacingOnline)
		f.flaps.Add(-1)
		return models.StatefulNode{}, false
	}
	if f != nil && f.online {
		return models.StatefulNode{ID: id, StatelessNode: models.StatelessNode{HostIP: fmt.Sprintf("follower-%d", id), GRPCPort: uint16(id)}}, true
	}
	return models.StatefulNode{}, false
}

func (s *stateMgr) WatchNodeStateChangeEvent(id models.NodeID, fn func(models.NodeStateType)) {
	if f := s.w.fol(id); f != nil {
		f.watchers = append(f.watchers, fn)
	}
}

type cliFct struct {
	rpc.ClientStreamFactory
	w *world
}

func (c *cliFct) CreateReplicaServiceClient(n models.Node) (protoReplicaV1.ReplicaServiceClient, error) {
	sn, ok := n.(*models.StatefulNode)
	if !ok {
		return nil, errors.New("harness: unexpected node type")
	}
	f := c.w.fol(sn.ID)
	if f == nil || !f.online || f.crashed {
		return nil, errors.New("connection refused")
	}
	return &client{f: f, handler: f.handler}, nil
}

type client struct {
	f       *follower
	handler *storagerpc.ReplicaHandler // the follower incarnation this client was created for
}

func (c *client) alive() bool { return c.f.online && !c.f.crashed && c.f.handler == c.handler }

func (c *client) Reset(ctx context.Context, in *protoReplicaV1.ResetIndexRequest, _ ...grpc.CallOption) (*protoReplicaV1.ResetIndexResponse, error) {
	if !c.alive() {
		return nil, errors.New("transport is closing")
	}
	if c.f.handsOutDestroyed("Reset") {
		return nil, errors.New("transport is closing")
	}
	if c.f.partClosed {
		// Partition.ResetReplicaIndex has no closed check: it would write the sequences into the
		// unmapped meta page of the closed log, i.e. kill the follower process (and this test
		// process). Modelled as what the leader sees: the follower dies inside the call and stays
		// dead until it is restarted.
		c.f.crashed = true
		c.f.w.class("follower-dies-in-reset-on-closed-partition")
		return nil, errors.New("transport is closing")
	}
	c.f.w.class("follower-reset-by-leader")
	return c.handler.Reset(ctx, in)
}

func (c *client) GetReplicaAckIndex(ctx context.Context, in *protoReplicaV1.GetReplicaAckIndexRequest, _ ...grpc.CallOption) (*protoReplicaV1.GetReplicaAckIndexResponse, error) {
	if !c.alive() {
		return nil, errors.New("transport is closing")
	}
	w := c.f.w
	w.mu.Lock()
	c.f.refused = false // a handshake starts
	w.mu.Unlock()
	return c.handler.GetReplicaAckIndex(ctx, in)
}

func (c *client) Replica(ctx context.Context, _ ...grpc.CallOption) (protoReplicaV1.ReplicaService_ReplicaClient, error) {
	if !c.alive() {
		return nil, errors.New("transport is closing")
	}
	w := c.f.w
	if c.f.handsOutDestroyed("Replica (new stream)") {
		return nil, errors.New("transport is closing")
	}
	if c.f.partClosed && !c.f.built() {
		// the handler would build the replica relation of the closed partition:
		// NewLocalReplicator writes the consumed sequence into the unmapped meta page of the
		// closed consumer group, i.e. the follower process dies (as in client.Reset)
		c.f.crashed = true
		w.class("follower-dies-building-replica-on-closed-partition")
		return nil, errors.New("transport is closing")
	}
	md, _ := metadata.FromOutgoingContext(ctx)
	sctx, cancel := context.WithCancel(metadata.NewIncomingContext(context.Background(), md))
	p := &pipe{f: c.f, ctx: sctx, cancel: cancel, reqCh: make(chan *protoReplicaV1.ReplicaRequest), respCh: make(chan *protoReplicaV1.ReplicaResponse, 1),
		served: make(chan struct{}), started: make(chan struct{})}
	h := c.handler
	go func() {
		defer close(p.served)
		_ = h.Replica(&serverStream{p: p})
	}()
	// the handler has built its side of the channel (it waits for the first request) or has given
	// up: what follows in the history does not race with that
	select {
	case <-p.started:
	case <-p.served:
	}
	w.mu.Lock()
	c.f.pipe = p
	c.f.pipes = append(c.f.pipes, p)
	p.gen = c.f.gen // (the handler has resolved its partition: created now if there was none)
	p.afterDestroy = c.f.destroys > 0
	w.mu.Unlock()
	return &clientStream{p: p}, nil
}

// pipe is the in-memory bidirectional stream.
type pipe struct {
	f      *follower
	ctx    context.Context
	cancel context.CancelFunc
	reqCh  chan *protoReplicaV1.ReplicaRequest
	respCh chan *protoReplicaV1.ReplicaResponse
	served chan struct{} // closed when the server side handler returned
	// closed when the handler waits for its first request
	started     chan struct{}
	startedOnce sync.Once
	gen         int // incarnation of the follower's partition object the handler of this stream resolved
	// that object was created after the wal task had destroyed an earlier one (same process)
	afterDestroy bool
}

// open: the server side handler of the stream is still serving it.
func (p *pipe) open() bool {
	select {
	case <-p.served:
		return false
	default:
		return p.ctx.Err() == nil
	}
}

func (p *pipe) breakNow() {
	p.cancel()
	<-p.served
}

type clientStream struct {
	grpc.ClientStream
	p *pipe
}

func (c *clientStream) Send(req *protoReplicaV1.ReplicaRequest) error {
	f := c.p.f
	w := f.w
	w.mu.Lock()
	fail := f.failNextSend
	f.failNextSend = false
	w.mu.Unlock()
	if fail {
		w.class("fault-send-failed")
		c.p.breakNow()
		return errors.New("injected: send failed")
	}
	select {
	case c.p.reqCh <- req:
		return nil
	case <-c.p.ctx.Done():
		return io.EOF
	case <-c.p.served:
		return io.EOF // the handler returned: the stream is over
	}
}

func (c *clientStream) Recv() (*protoReplicaV1.ReplicaResponse, error) {
	f := c.p.f
	w := f.w
	select {
	case resp := <-c.p.respCh:
		w.mu.Lock()
		fail := f.failNextRecv
		f.failNextRecv = false
		w.mu.Unlock()
		if fail {
			// the follower has processed the request (and possibly appended), the answer is lost
			w.class("fault-ack-lost")
			c.p.breakNow()
			return nil, errors.New("injected: recv failed")
		}
		return resp, nil
	case <-c.p.ctx.Done():
		return nil, io.EOF
	case <-c.p.served:
		return nil, io.EOF
	}
}

func (c *clientStream) CloseSend() error {
	c.p.breakNow()
	return nil
}

type serverStream struct {
	grpc.ServerStream
	p *pipe
}

func (s *serverStream) Context() context.Context { return s.p.ctx }

func (s *serverStream) Recv() (*protoReplicaV1.ReplicaRequest, error) {
	s.p.startedOnce.Do(func() { close(s.p.started) })
	select {
	case req := <-s.p.reqCh:
		return req, nil
	case <-s.p.ctx.Done():
		return nil, io.EOF
	}
}

func (s *serverStream) Send(resp *protoReplicaV1.ReplicaResponse) error {
	f := s.p.f
	w := f.w
	w.mu.Lock()
	switch {
	case resp.Err != "":
		// the follower could not append the offered message (partition closed / append error)
		f.refused = true
		if strings.Contains(resp.Err, "closed") && !f.partClosed {
			// the stream's handler still holds a partition object the follower's wal task destroyed
			w.classes["offer-refused:partition-destroyed-by-the-follower-wal-task(stream-older-than-the-destruction)"]++
			w.shapes["offer-over-a-stream-whose-partition-was-destroyed"] = true
			w.offersAfterDestroy++
		} else if strings.Contains(resp.Err, "closed") {
			w.classes["offer-refused:partition-closed"]++
			w.shapes["offer-to-follower-that-cannot-append"] = true
		} else {
			w.classes["offer-refused:append-error"]++
			w.shapes["offer-to-follower-that-cannot-append"] = true
		}
	case resp.AckIndex == resp.ReplicaIndex:
		// the follower appended this position (whether or not the answer reaches the leader)
		if w.pf && s.p.gen == f.gen && !f.noPart && f.fq != nil {
			// (page fault histories: not taken on trust)
			if app := f.fq.Queue().AppendedSeq(); app < resp.ReplicaIndex && w.asyncErr == "" {
				w.asyncErr = fmt.Sprintf("follower %d answers that it appended position %d, the appended position of its log is %d: the leader acknowledges a position the follower has not appended", f.id, resp.ReplicaIndex, app)
			}
		}
		f.has[resp.ReplicaIndex] = true
		if s.p.afterDestroy {
			w.classes["append-to-a-partition-object-created-after-a-destruction"]++
			w.shapes["append-to-a-partition-object-created-after-a-destruction"] = true
		}
	default:
		if f.refused {
			w.classes["offer-refused:other-index-expected(after-append-error)"]++
		} else {
			w.classes["offer-refused:other-index-expected"]++
		}
	}
	w.mu.Unlock()
	select {
	case s.p.respCh <- resp:
		return nil
	case <-s.p.ctx.Done():
		return io.EOF
	}
}

// failingLog is the follower's FanOutQueue; only Queue().Put is intercepted so that an append can
// be made to fail (disk full, no new page) before it touches the log.
type failingLog struct {
	queue.FanOutQueue
	q *failingQueue
}

func (l *failingLog) Queue() queue.Queue { return l.q }

type failingQueue struct {
	queue.Queue
	f  *follower
	wp *walPartition // the partition object this log belongs to
}

func (q *failingQueue) Put(m []byte) error {
	w := q.f.w
	w.mu.Lock()
	if q.wp != nil && (q.wp.closed || q.wp.shutdown) {
		// (Partition.ReplicaLog refuses on a closed partition before it touches the log: the pages
		// of a closed log are unmapped, the append would kill the process)
		if w.asyncErr == "" {
			w.asyncErr = fmt.Sprintf("follower %d: a message is appended through a closed partition object (destroyed by the follower's wal task: %v; closed by the shutdown: %v): the append goes into the unmapped pages of the closed log and kills the follower process", q.f.id, q.wp.closed, q.wp.shutdown)
		}
		w.mu.Unlock()
		return errors.New("harness: append to a closed log")
	}
	fail := q.f.putFail > 0
	if fail {
		q.f.putFail--
	}
	w.mu.Unlock()
	if fail {
		return errors.New("injected: cannot acquire a new page")
	}
	return q.Queue.Put(m)
}

// ---- building both sides ---------------------------------------------------------------------------------

// newPartition opens a leader partition (the leader's log is written by the harness directly).
func (w *world) newPartition(dir string, current models.NodeID) side {
	fq, err := queue.NewFanOutQueue(dir, 0)
	if err != nil {
		w.fatalf("open log %s: %v", dir, err)
	}
	db := &fakeDB{opt: &option.DatabaseOption{}}
	p := replica.NewPartition(context.Background(), &fakeShard{db: db}, &fakeFamily{w: w}, current, fq, &cliFct{w: w}, &stateMgr{w: w})
	return side{dir: dir, fq: fq, part: p}
}

func (w *world) openLeader() {
	ids := make([]models.NodeID, 0, len(w.fols))
	for _, f := range w.fols {
		f.watchers = nil
		ids = append(ids, f.id)
	}
	w.leader = w.newPartition(w.leader.dir, leaderID)
	if err := w.leader.part.BuildReplicaForLeader(leaderID, ids); err != nil {
		w.fatalf("build replica: %v", err)
	}
}

// openFollower starts a follower process: the production write ahead log manager over the wal
// directory of the node, its recovery (partitions found on disk are opened, their replica
// relations rebuilt from the consumer groups found), the rpc handler. The partition of the family
// is created right away (as the first unary call of the leader would do).
func (w *world) openFollower(f *follower) {
	ctx, cancel := context.WithCancel(context.Background())
	f.cancel = cancel
	f.shard = &fakeShard{db: &fakeDB{opt: &option.DatabaseOption{}}, f: f}
	f.family = &fakeFamily{w: w, f: f}
	f.noPart, f.goneApp, f.wp = true, -1, nil
	f.destroys, f.lazy = 0, false
	f.partClosed, f.crashed = false, false
	w.mu.Lock()
	f.putFail = 0
	f.pipes = nil
	w.mu.Unlock()
	cfg := config.WAL{Dir: f.dir, RemoveTaskInterval: ltoml.Duration(10000 * time.Hour)} // (the housekeeping is an operation of the history)
	f.mgr = replica.NewWriteAheadLogManager(ctx, cfg, f.id, &fakeEngine{f: f}, &cliFct{w: w}, &stateMgr{w: w})
	if err := f.mgr.Recovery(); err != nil {
		w.fatalf("follower %d: wal recovery: %v", f.id, err)
	}
	if _, err := f.mgr.GetOrCreateLog(dbName).GetOrCreatePartition(0, familyTime, leaderID); err != nil {
		w.fatalf("follower %d: create partition: %v", f.id, err)
	}
	f.handler = storagerpc.NewReplicaHandler(f.mgr)
}

// walPartition is what the follower's write ahead log registers for the family: the production
// partition, except that its replication loop (the follower's local replicator applying the log to
// the storage engine) is not free-running: the harness runs its steps (opFollowerApplies).
type walPartition struct {
	replica.Partition
	f        *follower
	expired  bool // verdict of the last IsExpire
	closed   bool // closed through the write ahead log (wal task, or the end of the process)
	shutdown bool // closed by opFollowerClosesPartition
}

func (p *walPartition) StartReplica() {}

func (p *walPartition) IsExpire() bool {
	p.expired = p.Partition.IsExpire()
	return p.expired
}

func (p *walPartition) Close() error {
	p.closed = true
	return p.Partition.Close()
}

// newWalPartition is installed as replica.NewPartitionFn: the follower's write ahead log creates
// the partition object of the family (at start, by recovery, or lazily at the next lookup after the
// wal task destroyed the previous one).
func (f *follower) newWalPartition(ctx context.Context, shard tsdb.Shard, family tsdb.DataFamily, current models.NodeID,
	fq queue.FanOutQueue, cf rpc.ClientStreamFactory, sm storage.StateManager) replica.Partition {
	fl := &failingQueue{Queue: fq.Queue(), f: f}
	log := &failingLog{FanOutQueue: fq, q: fl}
	p := replica.NewPartition(ctx, shard, family, current, log, cf, sm)
	w := f.w
	w.mu.Lock()
	f.fq, f.part = fq, p
	f.wp = &walPartition{Partition: p, f: f}
	fl.wp = f.wp
	lazily := f.lazy
	f.noPart = false
	f.gen++
	if lazily {
		w.classes["follower-partition-created-lazily-after-destruction"]++
		if fq.Queue().AppendedSeq() >= 0 {
			w.classes["follower-partition-created-lazily-after-destruction:log-reopened(directory-was-not-removed)"]++
		} else {
			w.classes["follower-partition-created-lazily-after-destruction:empty-log"]++
		}
		f.lazy = false
	}
	wp := f.wp
	w.mu.Unlock()
	return wp
}

func init() {
	replica.NewPartitionFn = func(ctx context.Context, shard tsdb.Shard, family tsdb.DataFamily, current models.NodeID,
		fq queue.FanOutQueue, cf rpc.ClientStreamFactory, sm storage.StateManager) replica.Partition {
		if fs, ok := shard.(*fakeShard); ok && fs.f != nil {
			return fs.f.newWalPartition(ctx, shard, family, current, fq, cf, sm)
		}
		return replica.NewPartition(ctx, shard, family, current, fq, cf, sm)
	}
	replica.VerifSetRemoveDirFn(removeDir)
}

func (w *world) breakStream(f *follower) {
	w.mu.Lock()
	p := f.pipe
	f.pipe = nil
	w.mu.Unlock()
	if p != nil {
		p.breakNow()
	}
}

func (w *world) replicator(f *follower) replica.Replicator {
	return replica.VerifReplicator(w.leader.part, f.id)
}

// ---- messages ---------------------------------------------------------------------------------------------

func (w *world) newMessage(size int) []byte {
	w.nextID++
	b := make([]byte, size)
	binary.LittleEndian.PutUint64(b, w.nextID)
	x := w.nextID*0x9E3779B97F4A7C15 + 7
	for i := 8; i < size; i++ {
		x ^= x << 13
		x ^= x >> 7
		x ^= x << 17
		b[i] = byte(x)
	}
	w.idBytes[w.nextID] = b
	return b
}

func (w *world) leaderPut(size int) {
	before := w.leader.fq.Queue().AppendedSeq()
	m := w.newMessage(size)
	if err := w.leader.part.WriteLog(m); err != nil {
		if !w.pf {
			w.fatalf("leader append: %v", err)
		}
		// page fault histories: the producer gets the error (and writes again later); the message is
		// stored nowhere and the failed append has consumed no position
		delete(w.idBytes, w.nextID)
		w.logf("leaderAppend id=%d size=%d FAILED: %v", w.nextID, size, err)
		w.class("leader-append-failed(page-fault)")
		if app := w.leader.fq.Queue().AppendedSeq(); app != before {
			w.fatalf("leader: a failed append (%v) moved the appended position of the log from %d to %d", err, before, app)
		}
		w.collectFired()
		return
	}
	pos := w.leader.fq.Queue().AppendedSeq()
	w.posOf[w.nextID] = pos
	w.atPos[pos] = w.nextID
	w.logf("leaderAppend id=%d size=%d -> position %d", w.nextID, size, pos)
}

// ---- steps ---------------------------------------------------------------------------------------------------

// await waits until the step in flight has finished or is suspended inside production code
// (IsReady waits for the online notification of an offline follower). A step never waits for
// data: VerifReplicaStepNoWait reports that the production loop would do so (see waitData).
func (w *world) await() bool {
	if w.step == nil {
		return true
	}
	deadline := time.Now().Add(30 * time.Second)
	for n := 0; ; n++ {
		select {
		case <-w.step.done:
			w.stepDone()
			return true
		default:
		}
		if w.suspended {
			return false
		}
		if r := w.replicator(w.stepFol); r != nil && replica.VerifReplicatorSuspended(r) {
			w.suspended = true
			return false
		}
		if n < 100 {
			runtime.Gosched()
		} else {
			time.Sleep(50 * time.Microsecond)
		}
		if time.Now().After(deadline) {
			buf := make([]byte, 1<<20)
			k := runtime.Stack(buf, true)
			w.fatalf("replication step does not finish and is not suspended for an offline follower\n%s", buf[:k])
		}
	}
}

func (w *world) stepDone() {
	f, res := w.stepFol, w.step.res
	w.step, w.stepFol, w.suspended = nil, nil, false
	if res == replica.VerifStepWaitsForData {
		w.logf("  (channel ready, nothing to consume: the loop waits for data)")
		w.class("step-parked")
		w.waitData = f
	}
	w.noteResync(f)
}

// noteResync: the channel of f is ready again after a leader tail loss.
func (w *world) noteResync(f *follower) {
	if f == nil || !f.resyncPending || !f.online {
		return
	}
	if r := w.replicator(f); r != nil && replica.VerifReplicatorReady(r) {
		f.resyncPending = false
	}
}

// busy: the single replication loop of the partition is blocked (suspended for an offline
// follower, or waiting for data): no step of any follower runs.
func (w *world) busy() bool { return w.step != nil || w.waitData != nil }

// quietFor: no step in flight that works on the channel of f.
func (w *world) quietFor(f *follower) bool { return w.step == nil || w.stepFol != f }

func (w *world) opStep() {
	if w.busy() {
		w.class("step-skipped-previous-parked")
		return
	}
	f := w.pick()
	if !w.needsStep(f) {
		w.t.Skip("no backlog and the channel is ready: the production loop would wait for data")
	}
	if !f.online && rapid.IntRange(0, 3).Draw(w.t, "stepWhileOffline") != 0 {
		w.t.Skip("follower offline")
	}
	if w.excludedStep(f) {
		w.class("excluded_known:step-resets-append-index-under-other-followers")
		w.t.Skip("excluded: known finding")
	}
	w.stepFor(f)
}

func (w *world) stepFor(f *follower) {
	if f.resyncPending {
		ahead := true
		for _, g := range w.fols {
			if g != f && g.resyncPending && g.app() > f.app() {
				ahead = false
			}
		}
		if len(w.fols) > 1 {
			if ahead {
				w.class("resync-after-leader-loss:most-ahead-follower-first")
			} else {
				w.class("resync-after-leader-loss:a-follower-behind-first")
			}
		}
	}
	w.logf("replicaStep follower=%d", f.id)
	w.runStep(f)
}

func (w *world) runStep(f *follower) {
	part := w.leader.part
	run := &stepRun{done: make(chan struct{})}
	w.step, w.stepFol, w.suspended = run, f, false
	id := f.id
	go func() {
		defer close(run.done)
		run.res = replica.VerifReplicaStepNoWait(part, id)
	}()
	if !w.await() {
		w.logf("  (step suspended: waits for the follower to come back)")
		w.class("step-suspended-follower-offline")
	}
}

// wakeLoop: new data arrived while the loop waited for data: it goes on with that replicator.
func (w *world) wakeLoop() {
	f := w.waitData
	if f == nil {
		return
	}
	w.waitData = nil
	w.logf("  (the loop goes on: follower=%d)", f.id)
	w.runStep(f)
}

const (
	sigLostTail = "C08/leader-lost-tail-appends-before-resync"
	// a follower that refuses an offer (append error, or it waits for another index) over a stream
	// that stays open: the leader ignores the answer, the channel stays ready, every later offer is
	// refused too; nothing resynchronises until the stream breaks for another reason
	sigRefused = "C08/refused-offer-leaves-channel-ready"
	// the closed partition of a follower answers (0, error); the leader does not look at the
	// error, so an offer of position 0 counts as acknowledged
	sigZero = "C08/closed-partition-refusal-acks-position-0"
	// the handshake with a follower that is ahead of a leader that lost its log tail moves the
	// append index with FanOutQueue.SetAppendedSeq: read barrier and every consumer group jump
	// there, so positions the leader still holds and ANOTHER follower lacks are never sent to it
	sigDrop = "C08/append-index-reset-drops-backlog-of-other-followers"
)

// excludedStep: shapes of replication steps not generated while a known finding is listed.
func (w *world) excludedStep(f *follower) bool {
	if ev.Known(sigDrop) && w.resetsAppendIndex(f) {
		for _, g := range w.fols {
			if g != f && (w.lacksHeld(g) || w.ready(g)) {
				return true
			}
		}
	}
	return false
}

func (w *world) ready(f *follower) bool {
	r := w.replicator(f)
	return r != nil && replica.VerifReplicatorReady(r)
}

// resetsAppendIndex: the next step of f does a handshake with a follower that is ahead of the leader.
func (w *world) resetsAppendIndex(f *follower) bool {
	// (a step for an offline follower is suspended and does the handshake when the follower is back)
	return !f.crashed && !w.ready(f) && f.app() > w.leader.fq.Queue().AppendedSeq()
}

// lacksHeld: the leader still holds positions for g which g has not appended.
func (w *world) lacksHeld(g *follower) bool {
	held := g.app()
	if rg := w.replicator(g); rg != nil && rg.AckIndex() > held {
		held = rg.AckIndex()
	}
	return held < w.leader.fq.Queue().AppendedSeq()
}

// appendExcluded: known finding sigLostTail: a leader that lost its log tail and accepts writes
// before the channel to a follower that is ahead of it has resynchronised re-uses positions that
// follower still holds with the old bytes.
func (w *world) appendExcluded() bool {
	if !ev.Known(sigLostTail) {
		return false
	}
	lApp := w.leader.fq.Queue().AppendedSeq()
	for _, f := range w.fols {
		if f.resyncPending && f.app() > lApp {
			return true
		}
	}
	return false
}

func (w *world) opAppend() {
	if w.windowPassed {
		w.t.Skip("the write window of the family has passed: no writes")
	}
	if w.appendExcluded() {
		w.class("excluded_known:append-before-resync-of-follower-ahead")
		w.t.Skip("excluded: known finding " + sigLostTail)
	}
	n := rapid.IntRange(1, 3).Draw(w.t, "appendCount")
	for i := 0; i < n; i++ {
		size := rapid.SampledFrom([]int{8, 9, 64, 500, 5000}).Draw(w.t, "size")
		w.leaderPut(size)
	}
	// the loop may have been waiting for data
	if w.step == nil {
		w.wakeLoop()
	}
}

func (w *world) backlog(f *follower) int64 {
	r := w.replicator(f)
	if r == nil {
		return 0
	}
	return r.Pending()
}

// needsStep: the production loop has something to do without new data: unconsumed messages, or a
// channel that is not ready (it resynchronises and may re-send consumed but unacknowledged ones).
func (w *world) needsStep(f *follower) bool {
	r := w.replicator(f)
	if r == nil {
		return false
	}
	return r.Pending() > 0 || !replica.VerifReplicatorReady(r)
}

func (w *world) noteFault(f *follower) {
	if f == nil {
		for _, g := range w.fols {
			if w.backlog(g) > 0 {
				w.faultHit++
				return
			}
		}
		return
	}
	if w.backlog(f) > 0 {
		w.faultHit++
	}
}

func (w *world) opFailSend() {
	f := w.pick()
	w.logf("fault: next stream send to follower %d fails", f.id)
	w.mu.Lock()
	f.failNextSend = true
	w.mu.Unlock()
	w.noteFault(f)
}

func (w *world) opFailRecv() {
	f := w.pick()
	w.logf("fault: next stream receive from follower %d fails (ack lost)", f.id)
	w.mu.Lock()
	f.failNextRecv = true
	w.mu.Unlock()
	w.noteFault(f)
}

// closeFollower stops a follower process (streams break; the write ahead log is stopped and closed
// in the order of the production shutdown).
func (w *world) closeFollower(f *follower) {
	w.breakStream(f)
	w.mu.Lock()
	pipes := f.pipes
	f.pipes = nil
	w.mu.Unlock()
	for _, p := range pipes {
		p.breakNow()
	}
	f.mgr.Stop()
	_ = f.mgr.Close()
	f.cancel()
}

func (w *world) opFollowerRestart() {
	f := w.pick()
	if !w.quietFor(f) {
		w.t.Skip("step suspended")
	}
	w.logf("fault: follower %d restarts (log kept)", f.id)
	w.noteFault(f)
	w.closeFollower(f)
	w.openFollower(f)
	w.class("fault-follower-restart")
}

func (w *world) opFollowerLosesLog() {
	f := w.pick()
	if !w.quietFor(f) {
		w.t.Skip("step suspended")
	}
	w.logf("fault: follower %d loses its log", f.id)
	w.noteFault(f)
	w.closeFollower(f)
	_ = os.RemoveAll(f.dir)
	w.mu.Lock()
	f.has = map[int64]bool{}
	w.mu.Unlock()
	w.openFollower(f)
	w.class("fault-follower-lost-log")
}

// opFollowerClosesPartition: the follower shuts down: its wal partition is closed while its rpc
// server still answers and the replica stream of the leader is still open. (The shutdown ends with
// a follower restart, which breaks the stream.)
func (w *world) opFollowerClosesPartition() {
	f := w.pick()
	if f.partClosed || f.noPart {
		w.t.Skip("already closed / no partition object at present")
	}
	if ev.Known(sigZero) && f.app() < 0 {
		// the only position the leader can offer to an empty follower is 0
		w.class("excluded_known:empty-follower-closes-partition")
		w.t.Skip("excluded: known finding " + sigZero)
	}
	w.logf("fault: follower %d closes its wal partition (shutting down), stream stays open", f.id)
	w.noteFault(f)
	w.mu.Lock()
	f.wp.shutdown = true
	w.mu.Unlock()
	_ = f.part.Close()
	f.partClosed = true
	w.class("fault-follower-partition-closed")
}

// opFollowerAppendFails: the next 1..3 appends to the follower's log fail (no new page / disk
// full); the stream stays open.
func (w *world) opFollowerAppendFails() {
	f := w.pick()
	n := rapid.IntRange(1, 3).Draw(w.t, "failedAppends")
	w.logf("fault: the next %d appends to the log of follower %d fail", n, f.id)
	w.noteFault(f)
	w.mu.Lock()
	f.putFail = n
	w.mu.Unlock()
	w.class("fault-follower-append-fails")
}

func (w *world) opFollowerOffline() {
	f := w.pick()
	if !f.online {
		w.t.Skip("already offline")
	}
	w.logf("fault: follower %d offline", f.id)
	w.noteFault(f)
	f.online = false
	w.breakStream(f)
	w.class("fault-follower-offline")
}

func (w *world) opFollowerOnline() {
	f := w.pick()
	if f.online {
		w.t.Skip("already online")
	}
	if w.step != nil && w.stepFol == f && w.excludedStep(f) {
		// the suspended step continues with the handshake
		w.class("excluded_known:step-resets-append-index-under-other-followers")
		w.t.Skip("excluded: known finding")
	}
	w.followerOnline(f)
}

func (w *world) followerOnline(f *follower) {
	w.logf("follower %d online (notification delivered)", f.id)
	f.online = true
	for _, fn := range f.watchers {
		done := make(chan struct{})
		go func(fn func(models.NodeStateType)) { fn(models.NodeOnline); close(done) }(fn)
		select {
		case <-done:
		case <-time.After(2 * time.Second):
			w.fatalf("online notification is not consumed by the suspended replicator")
		}
	}
	if w.step != nil && w.stepFol == f {
		// the suspended step continues
		w.suspended = false
		w.await()
	}
}

func (w *world) opLeaderGC() {
	w.logf("leader sync+gc")
	w.leader.fq.Sync()
	w.leader.fq.Queue().GC()
}

func (w *world) opSnapshotLeader() {
	if len(w.images) >= 2 || w.step != nil {
		w.t.Skip("enough images / step suspended")
	}
	dir := filepath.Join(w.root, fmt.Sprintf("leader-image-%d", w.nextID*10+uint64(len(w.images))))
	if err := crash.CopyTree(w.leader.dir, dir); err != nil {
		w.fatalf("harness: copy: %v", err)
	}
	w.images = append(w.images, dir)
	w.logf("(image of the leader log taken: appended=%d)", w.leader.fq.Queue().AppendedSeq())
}

// opLeaderLosesTail: the leader restarts from an earlier image of its log (or, whole = true, with
// an empty log: everything is the lost tail).
func (w *world) opLeaderLosesTail() {
	whole := rapid.IntRange(0, 4).Draw(w.t, "loseWholeLog") == 0
	w.leaderLosesTail(whole)
}

func (w *world) leaderLosesTail(whole bool) {
	if (!whole && len(w.images) == 0) || w.step != nil {
		w.t.Skip("no image / step suspended")
	}
	w.waitData = nil // the loop dies with the process
	w.noteFault(nil)
	for _, f := range w.fols {
		w.breakStream(f)
	}
	w.leader.part.Stop()
	_ = w.leader.part.Close()
	_ = os.RemoveAll(w.leader.dir)
	if whole {
		w.images = nil // earlier images are no prefix of the log that starts now
	} else {
		img := w.images[len(w.images)-1]
		w.images = w.images[:len(w.images)-1]
		if err := crash.CopyTree(img, w.leader.dir); err != nil {
			w.fatalf("harness: restore: %v", err)
		}
	}
	w.openLeader()
	app := w.leader.fq.Queue().AppendedSeq()
	w.logf("fault: leader restarts with a log that lost its tail (appended=%d)", app)
	// messages above the restored position are no longer stored by the leader
	for id, pos := range w.posOf {
		if pos > app {
			delete(w.posOf, id)
			delete(w.atPos, pos)
		}
	}
	distinct := map[int64]bool{}
	ahead := 0
	for _, f := range w.fols {
		if f.lastAck > app {
			f.lastAck = app // positions above are lost; what is stored there later is new
		}
		f.resyncPending = true
		distinct[f.app()] = true
		if f.app() > app {
			ahead++
		}
	}
	w.class("fault-leader-lost-tail")
	if whole {
		w.class("fault-leader-lost-whole-log")
	}
	if len(distinct) > 1 && ahead > 0 {
		w.shape("leader-lost-tail:followers-hold-different-amounts")
	}
}

// opLoseLastK: image, k appends that are replicated (completely to one follower, the others get
// a generated number of steps), then the leader falls back to the image: the leader is exactly k
// messages behind a follower.
func (w *world) opLoseLastK() {
	if w.windowPassed {
		w.t.Skip("the write window of the family has passed: no writes")
	}
	if w.busy() || w.appendExcluded() {
		w.t.Skip("loop blocked / resync pending")
	}
	for _, f := range w.fols {
		if !f.online {
			w.t.Skip("a follower is offline")
		}
	}
	k := rapid.IntRange(1, 2).Draw(w.t, "lostMessages")
	if len(w.images) >= 2 {
		w.images = w.images[1:]
	}
	w.opSnapshotLeader()
	for i := 0; i < k; i++ {
		w.leaderPut(16)
	}
	first := w.pick()
	order := []*follower{first}
	for _, f := range w.fols {
		if f != first {
			order = append(order, f)
		}
	}
	for n, f := range order {
		steps := 2*k + 2
		if n > 0 {
			steps = rapid.IntRange(0, 2*k+2).Draw(w.t, "stepsOfOtherFollower")
		}
		for i := 0; i < steps && !w.busy() && w.needsStep(f) && !w.excludedStep(f); i++ {
			w.stepFor(f)
		}
	}
	w.check("before tail loss")
	w.leaderLosesTail(false)
	w.class("lose-last-k")
}

// ---- oracle -------------------------------------------------------------------------------------------------

func (w *world) check(where string) {
	w.mu.Lock()
	asyncErr := w.asyncErr
	w.mu.Unlock()
	if asyncErr != "" {
		w.fatalf("%s: %s", where, asyncErr)
	}
	w.collectFired()
	if w.step != nil {
		return // a step is suspended inside production code; check again when it finished
	}
	w.checkLeader(where)
	for _, f := range w.fols {
		w.checkFollower(where, f)
	}
}

func (w *world) checkFollower(where string, f *follower) {
	where = fmt.Sprintf("%s: follower %d", where, f.id)
	lq, fq := w.leader.fq.Queue(), f.fq.Queue()
	lApp, lAck := int64(-1), int64(-1)
	if !w.destroyed { // (a destroyed log holds nothing)
		lApp, lAck = lq.AppendedSeq(), lq.AcknowledgedSeq()
	}
	fApp, fAck := fq.AppendedSeq(), fq.AcknowledgedSeq()
	readable := !f.partClosed // the pages of a closed log are unmapped
	if f.noPart {
		// the follower's wal task destroyed the partition, no new one has been created yet
		readable, fApp, fAck = false, f.goneApp, f.goneApp
	}
	// follower: gap free, each position holds a message the leader stored at that very position
	for i := fAck + 1; readable && i <= fApp; i++ {
		data, err := fq.Get(i)
		if err != nil {
			w.fatalf("%s: log has a hole at position %d (ack=%d appended=%d): %v", where, i, fAck, fApp, err)
		}
		if len(data) < 8 {
			w.fatalf("%s: position %d holds %d bytes", where, i, len(data))
		}
		id := binary.LittleEndian.Uint64(data)
		orig, ok := w.idBytes[id]
		if !ok || !bytes.Equal(orig, data) {
			w.fatalf("%s: position %d holds bytes the leader never appended (id %d, %d bytes)", where, i, id, len(data))
		}
		if pos, ok := w.posOf[id]; ok && pos != i {
			w.fatalf("%s: message %d is stored by the leader at position %d but by the follower at position %d", where, id, pos, i)
		}
		// same position still held by the leader: identical bytes
		if i > lAck && i <= lApp {
			ld, err := lq.Get(i)
			if err == nil && !bytes.Equal(ld, data) {
				lid := uint64(0)
				if len(ld) >= 8 {
					lid = binary.LittleEndian.Uint64(ld)
				}
				w.fatalf("%s: position %d differs: leader holds message %d (%d bytes), follower holds message %d (%d bytes)", where, i, lid, len(ld), id, len(data))
			}
		}
	}
	// the leader never moves its acknowledged position for the follower over a position it stored
	// and the follower has not appended. (A stale position after the follower lost its log is no
	// violation: it was true when it was recorded. Positions the leader's log never stored - the
	// tail it lost - are not held for anybody: after the handshake with a follower that is ahead
	// FanOutQueue.SetAppendedSeq moves every consumer group over them, as documented.)
	if w.destroyed {
		return
	}
	r := w.replicator(f)
	if r == nil {
		return
	}
	ack := r.AckIndex()
	if ack > f.lastAck {
		w.mu.Lock()
		has := f.has
		w.mu.Unlock()
		first := f.lastAck + 1
		if first < w.base && ack >= w.base {
			// (a world that started at position base: positions below it were stored only if the
			// leader fell back below base and wrote there)
			var low []int64
			for i := range w.atPos {
				if i >= first && i < w.base {
					low = append(low, i)
				}
			}
			sort.Slice(low, func(a, b int) bool { return low[a] < low[b] })
			for _, i := range low {
				if !has[i] && !(readable && i > fAck && i <= fApp) {
					w.fatalf("%s: leader moved the position acknowledged by the follower from %d to %d, but the follower never appended position %d which the leader stored (follower ack=%d appended=%d)", where, f.lastAck, ack, i, fAck, fApp)
				}
			}
			w.class("ack-moved-over-position-the-leader-lost")
			first = w.base
		}
		for i := first; i <= ack; i++ {
			if i < 0 || has[i] {
				continue
			}
			if readable && i > fAck && i <= fApp {
				continue
			}
			if _, stored := w.atPos[i]; !stored {
				w.class("ack-moved-over-position-the-leader-lost")
				continue
			}
			w.fatalf("%s: leader moved the position acknowledged by the follower from %d to %d, but the follower never appended position %d which the leader stored (follower ack=%d appended=%d)", where, f.lastAck, ack, i, fAck, fApp)
		}
		// high-water mark: a leader that restarts from an earlier image of its log learns the
		// positions again which the follower had appended (and may have lost since)
		f.lastAck = ack
	}
}

// convergeStepAllowed: known finding sigDrop during convergence: a handshake that resets the
// leader's append index is only taken when no other follower lacks positions the leader holds
// (else: not judged), and the connections of the other ready channels are reset with it.
func (w *world) convergeStepAllowed(f *follower) bool {
	if !ev.Known(sigDrop) || !w.resetsAppendIndex(f) {
		return true
	}
	for _, g := range w.fols {
		if g != f && w.lacksHeld(g) {
			w.shape("not-judged(excluded_known:append-index-reset)")
			w.logf("(not judged: known finding %s)", sigDrop)
			return false
		}
	}
	for _, g := range w.fols {
		if g != f && w.ready(g) {
			w.class("excluded_known:connection-reset-with-append-index-reset")
			w.logf("(connection to follower %d reset: known finding %s)", g.id, sigDrop)
			w.breakStream(g)
		}
	}
	return true
}

// converge: no more faults (a follower that was shutting down has restarted); a probe message is
// written and within a bounded number of steps every follower must hold every position the leader
// still holds for it, the probe included.
func (w *world) converge() {
	w.collectFired()
	pfDisarm(w.root, false) // no more page faults
	for _, f := range w.fols {
		w.mu.Lock()
		f.failNextSend, f.failNextRecv, f.putFail = false, false, 0
		w.mu.Unlock()
	}
	for _, f := range w.fols {
		if !f.online {
			if w.step != nil && w.stepFol == f && !w.convergeStepAllowed(f) {
				return
			}
			w.followerOnline(f)
		}
	}
	for _, f := range w.fols {
		if f.partClosed || f.crashed {
			w.logf("follower %d restarts (end of its shutdown, log kept)", f.id)
			w.closeFollower(f)
			w.openFollower(f)
		}
	}
	if w.destroyed {
		w.check("after the log of the expired family was destroyed")
		return
	}
	if w.windowPassed {
		w.convergeNoWrites()
		return
	}
	// known finding sigRefused: a channel on which an append error was answered only
	// resynchronises after the stream broke: while the finding is listed the connection of such a
	// channel is reset
	resetRefused := func() {
		if !ev.Known(sigRefused) || w.step != nil {
			return
		}
		for _, f := range w.fols {
			w.mu.Lock()
			refused := f.refused
			f.refused = false
			w.mu.Unlock()
			if refused {
				w.class("excluded_known:connection-reset-after-refused-offer")
				w.logf("(connection to follower %d reset: known finding %s)", f.id, sigRefused)
				w.breakStream(f)
			}
		}
	}
	appends := 0
	// write: one more message (it also releases a loop that waits for data)
	write := func() bool {
		if w.appendExcluded() {
			// the channel to a follower that is ahead of the leader has not resynchronised (and the
			// loop waits for data on another channel): any write is the known finding
			w.shape("not-judged(excluded_known:append-before-resync)")
			w.logf("(not judged: known finding %s)", sigLostTail)
			return false
		}
		appends++
		w.leaderPut(16)
		w.wakeLoop()
		w.check("during convergence")
		resetRefused()
		return true
	}
	resetRefused()
	// channels that have not resynchronised since a leader tail loss do so before the next write
	// (known finding sigLostTail): first the followers that lack positions the leader still holds
	// catch up (known finding sigDrop), then the followers ahead of the leader, furthest first
	pend := []*follower{}
	for _, f := range w.fols {
		if f.resyncPending {
			pend = append(pend, f)
		}
	}
	if len(pend) > 0 {
		lApp := w.leader.fq.Queue().AppendedSeq()
		key := func(f *follower) int64 {
			if a := f.app(); a >= lApp {
				return a
			}
			return int64(1) << 40 // behind the leader: first
		}
		sort.SliceStable(pend, func(i, j int) bool { return key(pend[i]) > key(pend[j]) })
		for _, f := range pend {
			for i := 0; i < w.span(lApp)+5 && !w.busy() && (f.resyncPending || (f.app() < lApp && w.needsStep(f))); i++ {
				if !w.convergeStepAllowed(f) {
					return
				}
				w.stepFor(f)
				w.check("during convergence")
				resetRefused()
			}
		}
	}
	// the probe
	if !write() {
		return
	}
	budget := (w.span(w.leader.fq.Queue().AppendedSeq()) + 8) * len(w.fols)
	done := func(f *follower) bool {
		r := w.replicator(f)
		return r == nil || (f.app() >= w.leader.fq.Queue().AppendedSeq() && r.Pending() == 0)
	}
	for i := 0; i < budget; i++ {
		if w.waitData != nil {
			// the loop waits for data on a ready channel: the other channels only go on after the next write
			if appends > 2*len(w.fols)+2 {
				break
			}
			if !write() {
				return
			}
			continue
		}
		var f *follower
		for n := range w.fols {
			g := w.fols[(i+n)%len(w.fols)]
			if !done(g) && w.needsStep(g) {
				f = g
				break
			}
		}
		if f == nil {
			break
		}
		if !w.convergeStepAllowed(f) {
			return
		}
		w.stepFor(f)
		w.check("during convergence")
		resetRefused()
	}
	lApp := w.leader.fq.Queue().AppendedSeq()
	for _, f := range w.fols {
		if w.replicator(f) == nil {
			// the wal task stopped the channel (checked there: the follower had acknowledged everything)
			continue
		}
		fApp := f.app()
		ack := w.replicator(f).AckIndex()
		if fApp < lApp {
			w.fatalf("no resynchronisation: after the faults stopped and %d steps follower %d has appended up to %d, the leader up to %d (acknowledged by the follower: %d; leader next index for it: %d, channel ready: %v)",
				budget, f.id, fApp, lApp, ack, w.replicator(f).ReplicaIndex(), replica.VerifReplicatorReady(w.replicator(f)))
		}
	}
	w.check("after convergence")
}

// span: number of positions up to lApp a follower may have to be sent (a world that started at
// position base holds nothing below it).
func (w *world) span(lApp int64) int {
	if lApp >= w.base {
		return int(lApp - w.base + 1)
	}
	return int(lApp + 1)
}

func newWorld(t *rapid.T, followers int) *world { return newWorldAt(t, followers, 0, false) }

// newWorldAt: base > 0: the logs start at append position base (pagefault_test.go); pf: page file
// creations can fail.
func newWorldAt(t *rapid.T, followers int, base int64, pf bool) *world {
	root, err := os.MkdirTemp("", "c08-")
	if err != nil {
		t.Fatalf("harness: %v", err)
	}
	w := &world{t: t, root: root, posOf: map[uint64]int64{}, atPos: map[int64]uint64{}, idBytes: map[uint64][]byte{},
		classes: map[string]int{}, shapes: map[string]bool{}}
	w.leader.dir = filepath.Join(root, "leader")
	for i := 0; i < followers; i++ {
		f := &follower{w: w, id: firstFollower + models.NodeID(i), online: true, lastAck: -1, has: map[int64]bool{}}
		f.dir = filepath.Join(root, fmt.Sprintf("follower-%d", f.id))
		w.fols = append(w.fols, f)
	}
	w.pf = pf
	for _, f := range w.fols {
		w.openFollower(f)
	}
	w.openLeader()
	w.startAt(base, true)
	return w
}

func (w *world) close() {
	for _, f := range w.fols {
		w.breakStream(f)
	}
	if w.step != nil && !w.stuck {
		// release a suspended step while the leader log is still open: the follower is "online" but
		// refuses connections, so the step ends without a handshake
		for _, f := range w.fols {
			f.crashed = true
			if !f.online {
				f.online = true
				for _, fn := range f.watchers {
					go fn(models.NodeOnline)
				}
			}
		}
		select {
		case <-w.step.done:
		case <-time.After(10 * time.Second):
		}
	}
	w.leader.part.Stop()
	_ = w.leader.part.Close()
	for _, f := range w.fols {
		w.closeFollower(f)
	}
	pfDisarm(w.root, false)
	_ = os.RemoveAll(w.root)
}

func runHistory(t *rapid.T) { runHistoryOf(t, "TestReplicationHistory", false) }

func runHistoryOf(t *rapid.T, group string, ext bool) { runHistoryGen(t, group, ext, 1) }

// runHistoryGen: flog = weight of the operations of the follower's log life cycle (followerlog_test.go).
func runHistoryGen(t *rapid.T, group string, ext bool, flog int) {
	// 1 follower: 3/8, 2 followers: 3/8, 3 followers: 2/8
	dist := []int{1, 1, 1, 2, 2, 2, 3, 3}
	if ext {
		dist = []int{1, 2, 2, 2, 3, 3}
	}
	if flog > 1 {
		dist = []int{1, 1, 1, 2, 2, 3}
	}
	n := rapid.SampledFrom(dist).Draw(t, "followers")
	w := newWorld(t, n)
	w.ext = ext
	defer w.close()

	ops := map[string]func(*rapid.T){
		"append":                  func(t *rapid.T) { w.t = t; w.opAppend() },
		"append2":                 func(t *rapid.T) { w.t = t; w.opAppend() },
		"step":                    func(t *rapid.T) { w.t = t; w.opStep() },
		"step2":                   func(t *rapid.T) { w.t = t; w.opStep() },
		"step3":                   func(t *rapid.T) { w.t = t; w.opStep() },
		"failSend":                func(t *rapid.T) { w.t = t; w.opFailSend() },
		"failRecv":                func(t *rapid.T) { w.t = t; w.opFailRecv() },
		"followerRestart":         func(t *rapid.T) { w.t = t; w.opFollowerRestart() },
		"followerLosesLog":        func(t *rapid.T) { w.t = t; w.opFollowerLosesLog() },
		"followerClosesPartition": func(t *rapid.T) { w.t = t; w.opFollowerClosesPartition() },
		"followerAppendFails":     func(t *rapid.T) { w.t = t; w.opFollowerAppendFails() },
		"followerOffline":         func(t *rapid.T) { w.t = t; w.opFollowerOffline() },
		"followerOnline":          func(t *rapid.T) { w.t = t; w.opFollowerOnline() },
		"leaderGC":                func(t *rapid.T) { w.t = t; w.opLeaderGC() },
		"snapshotLeader":          func(t *rapid.T) { w.t = t; w.opSnapshotLeader() },
		"leaderLosesTail":         func(t *rapid.T) { w.t = t; w.opLeaderLosesTail() },
		"loseLastK":               func(t *rapid.T) { w.t = t; w.opLoseLastK() },
		"":                        func(t *rapid.T) { w.t = t; w.check("after step") },
	}
	w.followerLogOps(ops, flog)
	if ext {
		w.extOps(ops)
	}
	t.Repeat(ops)
	w.t = t
	w.converge()
	for c, k := range w.classes {
		ev.Class(group, c, k)
	}
	shapes := []string{fmt.Sprintf("followers=%d", n)}
	for s := range w.shapes {
		shapes = append(shapes, "case-with:"+s)
	}
	sort.Strings(shapes)
	nonTrivial := w.faultHit > 0 || w.raced > 0 || w.shapes["expiry-check:followers-of-different-progress"] || w.offersAfterDestroy > 0
	ev.Case(group, strings.Join(w.ops, ";"), nonTrivial, shapes,
		map[string]any{"history": w.ops, "faults_with_backlog": w.faultHit, "followers": n})
}

// TestReplicationHistory: the three generators of histories, each with the full budget.
func TestReplicationHistory(t *testing.T) {
	t.Run("plain", func(t *testing.T) { rapid.Check(t, runHistory) })
	// + write window / wal expiry task / leader restart / racing online notification (ext_test.go)
	t.Run("extended", func(t *testing.T) { rapid.Check(t, runHistoryExt) })
	// offline/online cycles whose online notification races the suspension of the loop (ext_test.go)
	t.Run("onlineRace", func(t *testing.T) { rapid.Check(t, runOnlineRace) })
	// the follower's own log life cycle under an open stream: its wal task expires and destroys the
	// partition, a new partition object is created lazily by the next lookup (followerlog_test.go)
	t.Run("followerLog", func(t *testing.T) { rapid.Check(t, runFollowerLog) })
}

// once runs one deterministic scenario; rapid only provides the *rapid.T the world needs.
func once(t *testing.T, followers int, scenario func(t *rapid.T, w *world)) {
	ran, failed := false, false
	rapid.Check(t, func(t *rapid.T) {
		if ran && !failed {
			return // (a failed scenario is run again so that rapid can reproduce the failure)
		}
		ran, failed = true, true
		w := newWorld(t, followers)
		defer w.close()
		scenario(t, w)
		failed = false
	})
}

// stepAll steps the channel of f while there is a backlog (otherwise the production loop waits for data).
func (w *world) stepAll(f *follower) {
	for i := 0; i < 40 && w.backlog(f) > 0; i++ {
		replica.VerifReplicaStep(w.leader.part, f.id)
	}
}

// TestKnown_LeaderLostTailDiverges is the plain reproduction of the known finding
// C08/leader-lost-tail-appends-before-resync: a leader that lost the tail of its log and accepts
// writes before the channel has resynchronised stores new messages at positions at which the
// follower still holds the old ones; the resynchronisation (index comparison only) cannot notice.
func TestKnown_LeaderLostTailDiverges(t *testing.T) {
	once(t, 1, func(t *rapid.T, w *world) {
		f := w.fols[0]
		w.leaderPut(16)
		img := filepath.Join(w.root, "img")
		if err := crash.CopyTree(w.leader.dir, img); err != nil {
			t.Fatalf("harness: %v", err)
		}
		w.leaderPut(16)
		w.stepAll(f)
		// leader restarts from the image (position 1 lost) and takes two writes before replication runs
		w.breakStream(f)
		w.leader.part.Stop()
		_ = w.leader.part.Close()
		_ = os.RemoveAll(w.leader.dir)
		if err := crash.CopyTree(img, w.leader.dir); err != nil {
			t.Fatalf("harness: %v", err)
		}
		w.openLeader()
		w.leaderPut(16)
		w.leaderPut(16)
		w.stepAll(f)
		l, _ := w.leader.fq.Queue().Get(1)
		fd, errF := f.fq.Queue().Get(1)
		diverged := errF == nil && l != nil && !bytes.Equal(l, fd)
		if diverged {
			if ev.Known(sigLostTail) {
				ev.KnownFinding("C08", sigLostTail+": leader log reverted to position 0, two writes before the next replication step: position 1 holds different bytes on leader and follower and replication continues at position 2")
				return
			}
			t.Fatalf("%s: position 1 holds different bytes on leader and follower after resynchronisation", sigLostTail)
		}
	})
}

// TestRegression_RefusedOfferLeavesChannelReady reproduces the finding
// C08/refused-offer-leaves-channel-ready: one append to the follower's log fails while the stream
// stays open; the leader ignores the refusal (replicator_remote.go Replica, "FIXME: need check resp
// err" / "TODO: need reset ack sequence?"), goes on with the next positions, the follower refuses
// all of them (it still waits for the failed one) and the channel stays "ready": nothing
// resynchronises until the stream breaks for another reason.
func TestRegression_RefusedOfferLeavesChannelReady(t *testing.T) {
	once(t, 1, func(t *rapid.T, w *world) {
		f := w.fols[0]
		w.leaderPut(16)
		w.stepAll(f) // follower holds position 0
		w.mu.Lock()
		f.putFail = 1
		w.mu.Unlock()
		w.leaderPut(16)
		w.leaderPut(16)
		w.leaderPut(16)
		for i := 0; i < 10 && w.needsStep(f); i++ {
			replica.VerifReplicaStep(w.leader.part, f.id)
		}
		w.check("regression")
		r := w.replicator(f)
		stuck := f.app() == 0 && !w.needsStep(f)
		if stuck {
			msg := fmt.Sprintf("%s: append of position 1 failed once on the follower (stream open); afterwards follower appended=%d, leader appended=%d, leader's next index for it=%d, ack=%d, channel ready=%v, nothing left to send",
				sigRefused, f.app(), w.leader.fq.Queue().AppendedSeq(), r.ReplicaIndex(), r.AckIndex(), w.ready(f))
			if ev.Known(sigRefused) {
				ev.KnownFinding("C08", msg)
				return
			}
			t.Fatalf("%s", msg)
		}
		if f.app() != 3 {
			t.Fatalf("follower appended up to %d, want 3", f.app())
		}
	})
}

// TestRegression_ClosedPartitionRefusalAcksPosition0 reproduces the finding
// C08/closed-partition-refusal-acks-position-0: Partition.ReplicaLog of a closed partition answers
// (0, ErrPartitionClosed); ReplicaHandler passes the 0 on as AckIndex next to resp.Err and the
// leader, which never looks at resp.Err, takes AckIndex == ReplicaIndex == 0 for an acknowledgement.
func TestRegression_ClosedPartitionRefusalAcksPosition0(t *testing.T) {
	once(t, 1, func(t *rapid.T, w *world) {
		f := w.fols[0]
		w.stepFor(f) // handshake + stream; the loop waits for data
		if w.waitData != f {
			t.Fatalf("harness: the loop does not wait for data")
		}
		f.wp.shutdown = true
		_ = f.part.Close() // the follower shuts down: partition closed, stream still open
		f.partClosed = true
		w.leaderPut(16) // position 0 is offered over the open stream
		w.wakeLoop()
		ack := w.replicator(f).AckIndex()
		if ack >= 0 {
			msg := fmt.Sprintf("%s: position 0 offered to a follower whose partition is closed: follower appended=%d, leader's acknowledged position for it=%d", sigZero, f.app(), ack)
			if ev.Known(sigZero) {
				ev.KnownFinding("C08", msg)
				return
			}
			t.Fatalf("%s", msg)
		}
	})
}

// TestRegression_AppendIndexResetDropsBacklogOfOtherFollower reproduces the finding
// C08/append-index-reset-drops-backlog-of-other-followers: the leader restarts with a log that
// lost its tail (holds 0..2); follower 2 holds 0..3, follower 3 only position 0. The handshake
// with follower 2 moves the append index to 4 with FanOutQueue.SetAppendedSeq(3): the read
// barrier of the log and the consumer group of follower 3 jump to 3 as well, so positions 1 and 2,
// which the leader holds and follower 3 lacks, count as acknowledged by it and are never sent.
func TestRegression_AppendIndexResetDropsBacklogOfOtherFollower(t *testing.T) {
	once(t, 2, func(t *rapid.T, w *world) {
		a, b := w.fols[0], w.fols[1]
		w.leaderPut(16)
		w.leaderPut(16)
		w.leaderPut(16)
		w.opSnapshotLeader()
		w.leaderPut(16)
		w.stepAll(a)                                  // follower 2: 0..3
		replica.VerifReplicaStep(w.leader.part, b.id) // follower 3: 0
		w.check("setup")
		if a.app() != 3 || b.app() != 0 {
			t.Fatalf("harness: setup: follower 2 appended %d, follower 3 appended %d", a.app(), b.app())
		}
		w.leaderLosesTail(false) // leader: 0..2
		w.stepFor(a)             // handshake; then the loop waits for data
		w.leaderPut(16)          // position 4
		w.wakeLoop()
		ackB := w.replicator(b).AckIndex()
		for i := 0; i < 10 && w.needsStep(b); i++ {
			replica.VerifReplicaStep(w.leader.part, b.id)
		}
		_, err1 := b.fq.Queue().Get(1)
		_, err4 := b.fq.Queue().Get(4)
		if ackB > 0 && err1 != nil {
			msg := fmt.Sprintf("%s: after the handshake with follower 2 the leader's acknowledged position for follower 3 is %d (follower 3 appended 0 only, the leader holds 0..2); after replication follower 3 holds position 4 (%v) but not position 1 (%v)", sigDrop, ackB, err4 == nil, err1)
			if ev.Known(sigDrop) {
				ev.KnownFinding("C08", msg)
				return
			}
			t.Fatalf("%s", msg)
		}
		w.check("regression")
	})
}
