// Package c04 checks property C04: rollup writes the right aggregate into the right coarse
// slot, once.
//
// A complete storage engine runs in the test process (sim/node), so store naming, segment and
// family arithmetic, the flush path (memdb -> metricsdata.Flusher -> kv flusher, which registers
// every new file for every configured rollup interval) and the rollup path
// (kv family.rollup -> target family.doRollupWork -> metricsdata merger with the rollup
// context) are production code.
//
// Generator (genPlan): database intervals = (source, month-type target and/or year-type target)
// with source in {1..60 s} dividing 5 min (hence 1 h and every target), targets {5,10,15,30 min}
// and {1,2,3,4,6 h}; 1-3 source families (hours) around boundary dates (month ends, leap day,
// year end/start, last hour of a day + first hour of the next day); 1-3 metrics with 1-5 fields
// of type sum/min/max/last/first, 1-5 series, values k/8; a history of write / flush (all or
// some families) / rollup (kv.VerifRollup per family, or Store.ForceRollup) / reopen steps,
// optionally 1-2 harness-owned interleavings (a write + flush of a source family runs on the
// rollup job's goroutine at the moment the job has created an output table in the target family,
// so the new source file is not an input of the running job and must keep waiting), and up to 3
// queries `select f from m ... group by host,time(<target>)`.
// Crashes: a rollup step may carry a crash point (crashKinds: before the first target commit,
// between the two target commits, before the source commit, before the first / between the
// reference clean-ups of ONE job). The node directory is copied there - the process dies - and
// THE HISTORY CONTINUES ON THE RECOVERED IMAGE (1-3 restarts) with the full menu of steps: new
// flushes into the SAME source family (a new file next to the half-rolled-up ones), flushes into
// other source families of the same target family, rollup jobs that are asked for {already merged,
// new} files, further crashes inside the retried job (up to 3 per history), plain restarts,
// eviction of target segments, compaction of the target families, readers. More than half of the
// crash points lie in the window "target commit done, source commit not": there exactly-once
// hangs on the reference records of the target family alone. After a crash the generator mostly
// continues with a recovery episode (new files into the same / another family, optional restart /
// evict / compaction, the retry - which may die again -, compaction, second round); a history with
// a crash always ends with two complete rollups of everything.
// I/O faults: instead of dying, ONE manifest write of a job may fail (faultKinds: first / second
// target commit, source commit, first / second reference clean-up); the record is not written,
// the process lives on, the job is retried by the following rollup steps (same episodes).
// Compaction of the target: compactTarget steps run the level-0 compaction of the families of the
// open target segments (the job of Family.Compact), also while reference records of an
// interrupted job are held.
// Target segments that are not open: a rollup job merges into a target interval only if the kv
// store of the target segment is known to the store manager, otherwise it skips that interval
// and the files keep waiting for it. Histories therefore also contain evict steps
// (Engine.EvictSegment, the storage node's periodic task: every segment without a loaded tsdb
// data family is closed - that is every target segment no query has looked at), query lookups
// (Shard.GetDataFamilies on a target interval; reopens the segment) and writes that go either
// through the data family the writer already holds (an existing write-ahead-log partition; the
// target segments stay closed) or through the writer's family lookup (Shard.GetOrCrateDataFamily,
// a new partition; reopens the target segments). A job may so complete one interval and skip the
// other, skip all, and later catch up, while newer files wait for both intervals.
// Readers: histories also contain snap / release steps. A reader (a query, a data load) takes a
// kv snapshot (Family.GetSnapshot) of a source family - or, found the way a query finds it, of the
// target family that holds that hour - reads the table readers through it and keeps it over the
// following steps: the pinned old version of a source family keeps listing the files that waited
// for rollup when it was taken, while rollup jobs roll them up and rollup is triggered again and
// again (single jobs, Store.ForceRollup, with or without new files, with closed target segments).
// A reader may also start inside a running job (at the table-create seam, before the job's
// source commit), is dropped by a restart, and on a crash image a reader may pin the recovered
// versions of the source families across the repeated rollups.
// Not generated (unsound input): targets that are not a whole multiple of the source or that
// neither divide 1 h nor are a multiple of it (DatabaseOption.Validate accepts them, nothing
// documents them as supported; the rollup arithmetic base slot + source slot / ratio cannot be
// right for them), month-type sources, histogram fields, time zones other than UTC.
//
// Oracle: the model is the list of written points. After every step the metric blocks of all
// families of all segments of every target interval are read directly from the kv files
// (metricsdata reader) and must hold, per segment / family / metric / series / field / slot,
// exactly the field-type aggregate of the points of the source files rolled up so far
// (sum/min/max exact; first/last: one of the contributed values), nothing else and nothing
// missing ("rolled up so far" is kept per target interval: a file is rolled up into an interval
// when a job of its family ran while it waited for that interval and the interval's segment was
// open; in cases with evict steps the segments that are closed at a step are read when they are
// open again, at the latest at the end of the history, where all are opened through the shard);
// the location (segment name, family name, slot) is computed with Go's calendar, not
// with lindb's calculators. After a rollup job the source families list exactly the files not
// yet rolled up, each for exactly the intervals it has not been rolled up into, and no target
// family keeps a reference file. On a crash image (and after a failed manifest write) the model
// knows, from the commits the harness saw before the copy, which (file, interval) pairs are merged
// in the target but still listed by the source ("merged, not acknowledged") and which reference
// records exist: the same oracle - target == aggregate of the merged files, source lists ==
// model, reference records == model - is evaluated right after the restart and after every
// following step; a retried job must merge exactly the files the target does not hold yet.
// Exactly once is also counted, so that a repetition which the aggregate hides (min, max, first,
// last, sums of zeros) is seen: a rollup job writes what it merges into a target family into one
// new file, hence every cell is stored in exactly as many files of its target family as rollup
// jobs merged a source file with a point for it; a level-0 compaction of a target family merges
// all its files, the jobs up to then count as one file of that family. What a reader sees through a held snapshot of a target family is, when it is taken
// and when it is released, exactly the aggregate of the files rolled up when it was taken.
//
// Non-trivial case: some target slot is fed by >= 2 source slots and >= 2 source files were
// rolled up.
package c04

import (
	"encoding/json"
	"errors"
	"fmt"
	"math"
	"os"
	"path/filepath"
	"runtime"
	"sort"
	"strconv"
	"strings"
	"sync"
	"testing"
	"time"

	"github.com/lindb/common/pkg/fasttime"
	"github.com/lindb/common/pkg/logger"
	protoMetricsV1 "github.com/lindb/common/proto/gen/v1/linmetrics"
	"pgregory.net/rapid"

	commonconstants "github.com/lindb/common/constants"
	"github.com/lindb/lindb/flow"
	"github.com/lindb/lindb/kv"
	"github.com/lindb/lindb/kv/table"
	"github.com/lindb/lindb/kv/version"
	"github.com/lindb/lindb/models"
	"github.com/lindb/lindb/pkg/encoding"
	"github.com/lindb/lindb/pkg/timeutil"
	"github.com/lindb/lindb/series/field"
	"github.com/lindb/lindb/series/metric"
	"github.com/lindb/lindb/sql/stmt"
	"github.com/lindb/lindb/tsdb"
	"github.com/lindb/lindb/tsdb/tblstore/metricsdata"
	"github.com/lindb/lindb/verifharness/sim/crash"
	"github.com/lindb/lindb/verifharness/sim/ev"
	"github.com/lindb/lindb/verifharness/sim/node"
)

func TestMain(m *testing.M) { ev.Main(m) }

func init() {
	time.Local = time.UTC // the driver exports TZ=UTC; self-contained for `go test` by hand
	lvl := "error"
	if v := os.Getenv("C04_LOG"); v != "" {
		lvl = v
	}
	_ = logger.RunningAtomicLevel.UnmarshalText([]byte(lvl))
}

const (
	sec    = int64(1000)
	minute = 60 * sec
	hour   = 60 * minute

	dbName = "db"
)

// Restrictions that were needed while defects outside C04 were unrepaired. All of them were
// found or hit by this check, are repaired in /repo by now, and are therefore switched off
// (kept as switches so that a regression of one of those defects can be told from a rollup defect):
//
//   - spaceMemDBCreation: wait for a tick of lindb's coarse clock before a write that creates a
//     memory database (two memory databases of a shard created within one 5 ms tick shared their key
//     in the time series index, the one flushed second lost its rows; fixed by 035c997).
//   - preRegisterNames: create metric name, tag key and fields through the meta database before
//     the first row (meta worker and index worker raced in GenMetricID / genFieldID / genTagKeyID
//     for a new metric; D2 of DESIGN.md, fixed by 7b804d6).
//   - primeSeries: write one point of every (metric, series) in the first step (a metadata / index
//     flush with nothing new wedged the dictionary stores, names created later were lost by a
//     restart; fixed by 3940569).
//   - monotoneSlots: never write an earlier slot of a series/field after a later one into the
//     same memory database (the later slot was lost at flush; fixed by b1a5d12).
const (
	spaceMemDBCreation = false
	preRegisterNames   = false
	primeSeries        = false
	monotoneSlots      = false
)

// Failed manifest writes inside a rollup job (step.Fault). Two genuine defects were found by this
// class (regression_test.go) and are repaired in /repo (cf89614, 36e355d); their signatures are
// kept so that a shape can be taken out of the generator again should a finding ever be LISTED in
// known_findings.json (ev.Known; "fixed" entries suppress nothing): the full fault menu is generated.
const (
	sigTargetCommitErrorIgnored = "C04/rollup-target-commit-error-ignored-files-marked-rolled-up"
	sigSourceCommitErrorIgnored = "C04/rollup-source-commit-error-ignored-references-cleaned"
)

func faultSignature(kind string) string {
	switch kind {
	case "target1", "target2":
		return sigTargetCommitErrorIgnored
	case "source":
		return sigSourceCommitErrorIgnored
	}
	return ""
}

func excluded(sig string) bool { return sig != "" && ev.Known(sig) }

// ---- plan (the generated case) ---------------------------------------------------------------

// source intervals: day type, divide 1h and divide every generated target (all divide 5 min).
var sourceSecs = []int{1, 2, 3, 4, 5, 6, 10, 12, 15, 20, 25, 30, 50, 60}
var monthMins = []int{5, 10, 15, 30}
var yearHours = []int{1, 2, 3, 4, 6}

type fieldDef struct {
	Name  string
	Type  string
	Proto protoMetricsV1.SimpleFieldType
	FType field.Type
}

var fieldDefs = []fieldDef{
	{"fsum", "sum", protoMetricsV1.SimpleFieldType_DELTA_SUM, field.SumField},
	{"fmin", "min", protoMetricsV1.SimpleFieldType_Min, field.MinField},
	{"fmax", "max", protoMetricsV1.SimpleFieldType_Max, field.MaxField},
	{"flast", "last", protoMetricsV1.SimpleFieldType_LAST, field.LastField},
	{"ffirst", "first", protoMetricsV1.SimpleFieldType_FIRST, field.FirstField},
}

type fv struct {
	F int `json:"f"` // index into fieldDefs
	K int `json:"k"` // value = K/8
}

type point struct {
	Fam    int   `json:"fam"` // index into plan.Families
	Metric int   `json:"m"`
	Series int   `json:"s"`
	TS     int64 `json:"ts"`
	Vals   []fv  `json:"v"`
}

type famPos struct {
	Date string `json:"date"` // yyyy-mm-dd
	Hour int    `json:"hour"`
	Time int64  `json:"familyTime"`
}

type step struct {
	Kind   string  `json:"kind"` // write | flush | rollup | reopen | evict | touch | snap | release | compactTarget
	Points []point `json:"points,omitempty"`
	// write: the rows go straight into the data families the writer already holds (an existing
	// write-ahead-log partition keeps its tsdb.DataFamily); otherwise the writer looks the family
	// up with Shard.GetOrCrateDataFamily (a new partition), which also (re)opens the target
	// segments of that family time.
	Direct bool `json:"direct,omitempty"`
	// evict: Engine.EvictSegment() (the storage node's periodic task) closes every segment - kv
	// store - that has no loaded tsdb data family, i.e. every target segment that no query has
	// looked at since it was opened. Keep = targets (indexes into targets()) that a query looks up
	// right after the eviction (Shard.GetDataFamilies over every source family's hour): their
	// segments are open again when the next rollup job runs, the others are not.
	Keep []int `json:"keep,omitempty"`
	// touch: the lookup of a query on target interval Target over the hour of source family
	// TouchFam (Shard.GetDataFamilies); opens the segment if it is closed.
	Target   int   `json:"target,omitempty"`
	TouchFam int   `json:"touchFam,omitempty"`
	Families []int `json:"families,omitempty"` // flush/rollup: family indexes; empty = all
	Force    bool  `json:"force,omitempty"`    // rollup through Store.ForceRollup (all families of the store, concurrently)
	// rollup (one job after the other): the process dies at this point of a job of the step (see
	// crashKinds): the node directory is copied there ("crash image"), the rest of the step is
	// forgotten, the engine is restarted Restarts (1-3) times on the image and THE HISTORY CONTINUES
	// ON THE RECOVERED IMAGE with whatever steps follow. If no job of the step reaches the point,
	// nothing dies and the step is an ordinary rollup step.
	Crash    string `json:"crash,omitempty"`
	Restarts int    `json:"restarts,omitempty"`
	// crash: right after the restart(s) a reader (the first query) takes a snapshot of every source
	// family - the recovered versions, which list whatever the interrupted job left registered -
	// and holds it until the next restart or the end of the history
	CrashReader bool `json:"crashReader,omitempty"`
	// rollup (one job after the other): the manifest write of this commit of a job of the step
	// fails with an I/O error (the record is not written, see faultKinds); the process lives on
	// and the job is retried by a later rollup step
	Fault string `json:"fault,omitempty"`
	// compactTarget: level-0 compaction (kv.VerifCompactSync, the job of Family.Compact) of every
	// family of the open segments of target interval Target; Target == number of targets: of all.
	// rollup (one job after the other): source-side steps that run while a job is merging into the
	// target (harness-owned interleaving, see inject)
	Inject []inject `json:"inject,omitempty"`
	// snap: a reader (a query, a data load) takes a kv snapshot (Family.GetSnapshot) and keeps it;
	// release: the reader with that id closes its snapshot(s). A restart drops every reader.
	Reader *readerOp `json:"reader,omitempty"`
	// rollup (one job after the other): the step is the periodic store job (store.compact): a family's
	// job is started only if the production gate family.needRollup() says so (commit_window_test.go)
	Periodic bool `json:"periodic,omitempty"`
	// flush: a rollup job is triggered inside the commit(s) of the flush (commit_window_test.go)
	RollAt *commitRoll `json:"rollAt,omitempty"`
}

// readerOp: reader ID holds a snapshot of source family Fam (Target == 0) or of the family of
// target interval Target-1 that holds the hour of source family Fam (found the way a query
// finds it, Shard.GetDataFamilies; nothing to hold if no rollup has created that family yet).
// The snapshot pins the version that is current when it is taken: for a source family that
// version keeps listing the files that wait for rollup at that moment, whatever later jobs commit.
type readerOp struct {
	ID     int `json:"id"`
	Fam    int `json:"fam"`
	Target int `json:"target,omitempty"`
}

// inject: while the rollup job of source family JobFam runs, at the moment its At-th output
// table in a target family has been created, write Points into source family Fam and flush
// that family (metadata, index, data) on the job's goroutine. The new source file is not an
// input of the running job.
type inject struct {
	JobFam int     `json:"jobFam"`
	At     int     `json:"at"`
	Fam    int     `json:"fam"`
	Points []point `json:"points"`
	// after the write + flush (or alone, Points empty): a reader takes a snapshot of the job's
	// source family at that moment (the source commit of the job has not happened yet)
	Reader *readerOp `json:"reader,omitempty"`
}

type plan struct {
	Source   int64    `json:"source"`
	Month    int64    `json:"month,omitempty"`
	Year     int64    `json:"year,omitempty"`
	Families []famPos `json:"families"`
	Metrics  [][]int  `json:"metrics"` // per metric: indexes into fieldDefs
	NSeries  int      `json:"nSeries"`
	Steps    []step   `json:"steps"`
	Queries  []qspec  `json:"queries,omitempty"`
}

// qspec: one `select <field> from <metric> where time in <hour of the family> group by host, time(<target>)`.
type qspec struct {
	Target int `json:"target"` // index into targets()
	Metric int `json:"m"`
	Field  int `json:"f"` // index into fieldDefs
	Fam    int `json:"fam"`
}

func (p *plan) targets() []int64 {
	var rs []int64
	if p.Month > 0 {
		rs = append(rs, p.Month)
	}
	if p.Year > 0 {
		rs = append(rs, p.Year)
	}
	return rs
}

var anchors = []string{
	"2023-05-17", // ordinary day
	"2024-02-29", // leap day (next day = month start)
	"2024-02-28", // day before the leap day
	"2023-02-28", // month end, non leap year
	"2023-12-31", // year end (next day = next year segment)
	"2024-12-31", // year end of a leap year
	"2023-04-30", // end of a 30-day month
	"2023-07-31", // end of a 31-day month
	"2023-06-01", // first day of a month
	"2024-01-01", // first day of a year
	"2020-02-29",
}

func genPlan(t *rapid.T) *plan {
	p := &plan{}
	p.Source = int64(rapid.SampledFrom(sourceSecs).Draw(t, "sourceSec")) * sec
	switch rapid.SampledFrom([]int{0, 1, 2, 2}).Draw(t, "targets") {
	case 0:
		p.Month = int64(rapid.SampledFrom(monthMins).Draw(t, "monthMin")) * minute
	case 1:
		p.Year = int64(rapid.SampledFrom(yearHours).Draw(t, "yearHour")) * hour
	default:
		p.Month = int64(rapid.SampledFrom(monthMins).Draw(t, "monthMin")) * minute
		p.Year = int64(rapid.SampledFrom(yearHours).Draw(t, "yearHour")) * hour
	}
	// source families: 1-3 hours around an anchor date
	var anchor time.Time
	if rapid.IntRange(0, 5).Draw(t, "anchorKind") == 0 {
		y := rapid.IntRange(2015, 2035).Draw(t, "y")
		m := rapid.IntRange(1, 12).Draw(t, "mo")
		d := rapid.IntRange(1, 28).Draw(t, "d")
		anchor = time.Date(y, time.Month(m), d, 0, 0, 0, 0, time.UTC)
	} else {
		anchor, _ = time.Parse("2006-01-02", rapid.SampledFrom(anchors).Draw(t, "anchor"))
	}
	nFam := rapid.SampledFrom([]int{1, 2, 2, 3, 3}).Draw(t, "nFamilies")
	seen := map[int64]bool{}
	if nFam >= 2 && rapid.Bool().Draw(t, "acrossMidnight") {
		// last hour of the anchor day and first hour of the next day: next target family / segment
		for _, ft := range []time.Time{anchor.Add(23 * time.Hour), anchor.AddDate(0, 0, 1)} {
			seen[ft.UnixMilli()] = true
			p.Families = append(p.Families, famPos{Date: ft.Format("2006-01-02"), Hour: ft.Hour(), Time: ft.UnixMilli()})
		}
	}
	for len(p.Families) < nFam {
		dayOff := rapid.SampledFrom([]int{0, 0, 1}).Draw(t, "dayOff")
		h := rapid.SampledFrom([]int{0, 23, 0, 23, 1, 22, 11, 12, -1}).Draw(t, "hour")
		if h < 0 {
			h = rapid.IntRange(0, 23).Draw(t, "anyHour")
		}
		ft := anchor.AddDate(0, 0, dayOff).Add(time.Duration(h) * time.Hour)
		if seen[ft.UnixMilli()] {
			continue
		}
		seen[ft.UnixMilli()] = true
		p.Families = append(p.Families, famPos{Date: ft.Format("2006-01-02"), Hour: h, Time: ft.UnixMilli()})
	}
	sort.Slice(p.Families, func(i, j int) bool { return p.Families[i].Time < p.Families[j].Time })
	// metrics and their fields
	nMetrics := rapid.SampledFrom([]int{1, 1, 2, 3}).Draw(t, "nMetrics")
	for m := 0; m < nMetrics; m++ {
		nf := rapid.SampledFrom([]int{1, 2, 2, 3, 5}).Draw(t, "nFields")
		perm := rapid.Permutation([]int{0, 1, 2, 3, 4}).Draw(t, "fieldPerm")
		fs := append([]int(nil), perm[:nf]...)
		sort.Ints(fs)
		p.Metrics = append(p.Metrics, fs)
	}
	p.NSeries = rapid.IntRange(1, 5).Draw(t, "nSeries")

	// steps
	g := &stepGen{t: t, p: p, last: map[string]int{}, mem: map[int]bool{}, pend: map[int]bool{}, onlyFam: -1, closed: map[int]bool{}, crashFam: -1}
	nSteps := rapid.IntRange(3, 10).Draw(t, "nSteps")
	first := step{Kind: "write"}
	if primeSeries {
		first = g.prime()
	}
	first.Points = append(first.Points, g.write().Points...)
	p.Steps = append(p.Steps, g.commit(first))
	// one rollup step, optionally with a crash (the history continues on the recovered image), a
	// failed manifest write, or harness-owned interleavings
	const maxCrashes, maxFaults = 3, 2
	var mkRollup func(must int) step
	mkRollup = func(must int) step {
		s := g.rollup(must)
		canBreak := !s.Force && g.hasPending(s.Families)
		switch {
		case canBreak && g.crashes < maxCrashes && rapid.IntRange(0, 2+2*g.crashes).Draw(t, "crashHere") > 2*g.crashes:
			// first crash: 2 of 3 eligible rollup steps; later ones rarer - except right after a
			// crash, where the retry itself is interrupted (see recovery)
			g.crash(&s)
		case canBreak && g.faults < maxFaults && rapid.IntRange(0, 3).Draw(t, "faultHere") == 0:
			g.fault(&s)
		}
		jobs := g.pendingOf(s.Families)
		if s.Crash == "" && s.Fault == "" {
			g.rolled(s.Families)
		}
		if !s.Force && len(jobs) > 0 && rapid.IntRange(0, 2).Draw(t, "injectHere") == 0 {
			s.Inject = g.injections(jobs)
		}
		return s
	}
	// recover: after a crash step the history continues on the image; mostly with the shapes
	// that matter there (new files next to the half-rolled-up ones, then the retry)
	recover := func() {
		for g.crashFam >= 0 {
			fam := g.crashFam
			g.crashFam = -1
			if rapid.IntRange(0, 5).Draw(t, "recoveryEpisode") > 0 {
				p.Steps = append(p.Steps, g.recovery(fam, mkRollup)...)
			}
		}
	}
	recover()
	for i := 1; i < nSteps; i++ {
		switch k := rapid.IntRange(0, 139).Draw(t, "stepKind"); {
		case k >= 134:
			// the periodic store job with its own gate (threshold of waiting files)
			p.Steps = append(p.Steps, g.periodicEpisode(mkRollup)...)
		case k >= 120:
			// rollup jobs triggered inside the commit of a source flush
			p.Steps = append(p.Steps, g.commitWindowEpisode(mkRollup)...)
		case k >= 112:
			p.Steps = append(p.Steps, g.compactTarget())
		case k >= 100:
			// readers: an episode (snapshot, rollup, rollup again ...), a single snapshot or a release
			switch r := rapid.IntRange(0, 9).Draw(t, "readerKind"); {
			case r < 6:
				p.Steps = append(p.Steps, g.readerEpisode(mkRollup)...)
			case r < 8 || len(g.held) == 0:
				p.Steps = append(p.Steps, g.snap(rapid.IntRange(0, len(p.Families)-1).Draw(t, "readerFam"), true))
			default:
				p.Steps = append(p.Steps, g.release())
			}
		case k < 30:
			p.Steps = append(p.Steps, g.writeStep())
		case k < 52:
			p.Steps = append(p.Steps, g.flush())
		case k < 77:
			p.Steps = append(p.Steps, mkRollup(-1))
		case k < 85:
			g.reopened()
			p.Steps = append(p.Steps, step{Kind: "reopen"})
		default:
			// segment eviction: a single evict / query lookup, or an episode (evict, then rounds
			// of write, flush, rollup while target segments are closed or being reopened)
			switch e := rapid.IntRange(0, 9).Draw(t, "evictKind"); {
			case e < 6:
				p.Steps = append(p.Steps, g.evictEpisode(mkRollup)...)
			case e < 8 || len(g.closed) == 0:
				p.Steps = append(p.Steps, g.evict())
			default:
				p.Steps = append(p.Steps, g.touch())
			}
		}
		recover()
	}
	broken := g.crashes+g.faults > 0
	if broken || rapid.IntRange(0, 9).Draw(t, "finalRollup") < 8 {
		// (always after a crash or a fault: whatever the interrupted jobs left is retried at the end)
		final := step{Kind: "rollup"}
		p.Steps = append(p.Steps, g.flush())
		if len(g.closed) > 0 && (broken || rapid.IntRange(0, 2).Draw(t, "lookupBeforeFinal") > 0) {
			// queries look every closed target up again before the last rollup
			for _, k := range g.closedList() {
				for f := range p.Families {
					p.Steps = append(p.Steps, step{Kind: "touch", Target: k, TouchFam: f})
				}
				delete(g.closed, k)
			}
		}
		if g.crashes < maxCrashes && g.hasPending(nil) && rapid.IntRange(0, 1+2*g.crashes).Draw(t, "crashAtFinal") == 0 {
			g.crash(&final)
			g.crashFam = -1
			p.Steps = append(p.Steps, final)
			final = step{Kind: "rollup"}
		}
		if jobs := g.pendingOf(nil); len(jobs) > 0 && rapid.IntRange(0, 3).Draw(t, "injectAtFinal") == 0 {
			g.rolled(nil)
			final.Inject = g.injections(jobs)
		}
		p.Steps = append(p.Steps, final)
		if broken || rapid.Bool().Draw(t, "finalAgain") {
			p.Steps = append(p.Steps, step{Kind: "rollup"})
		}
	}
	for i, n := 0, rapid.IntRange(0, 3).Draw(t, "nQueries"); i < n; i++ {
		m := rapid.IntRange(0, len(p.Metrics)-1).Draw(t, "qMetric")
		p.Queries = append(p.Queries, qspec{
			Target: rapid.IntRange(0, len(p.targets())-1).Draw(t, "qTarget"),
			Metric: m,
			Field:  rapid.SampledFrom(p.Metrics[m]).Draw(t, "qField"),
			Fam:    rapid.IntRange(0, len(p.Families)-1).Draw(t, "qFam"),
		})
	}
	return p
}

type stepGen struct {
	t *rapid.T
	p *plan
	// last source slot written since the family's last flush, per family/metric/series/field
	// (only used by the monotoneSlots restriction)
	last map[string]int
	// families with rows in memory / with flushed files that wait for rollup (to place the crash image)
	mem, pend map[int]bool
	onlyFam   int          // >= 0: write() puts every cluster into this family
	closed    map[int]bool // see closedList
	// readers that hold a snapshot (ids), last id given out
	held       []int
	nextReader int
	// crashes / failed manifest writes planned so far; crashFam >= 0: a crash step was just
	// generated inside a job of that family and no recovery episode has followed yet
	crashes, faults int
	crashFam        int
	periodicNext    bool // the next rollup step is a periodic one
}

// crash turns a rollup step into one inside which the process dies. The window between the
// target commit and the source commit is the one where "exactly once" hangs on the reference
// records alone: more than half of the crashes lie there (beforeSourceCommit; betweenTargets is
// inside it for the first interval).
func (g *stepGen) crash(s *step) {
	t := g.t
	kinds := []string{"beforeSourceCommit", "beforeSourceCommit", "beforeSourceCommit", "beforeSourceCommit", "beforeFirstClean", "beforeFirstTarget"}
	if g.p.Month > 0 && g.p.Year > 0 {
		kinds = []string{"beforeSourceCommit", "beforeSourceCommit", "beforeSourceCommit", "beforeSourceCommit", "betweenTargets", "betweenTargets", "beforeFirstClean", "betweenCleans", "beforeFirstTarget"}
	}
	s.Crash = rapid.SampledFrom(kinds).Draw(t, "crashKind")
	s.Restarts = rapid.SampledFrom([]int{1, 1, 1, 2, 2, 3}).Draw(t, "crashRestarts")
	s.CrashReader = rapid.IntRange(0, 3).Draw(t, "crashReader") == 0
	g.crashes++
	// the job that is interrupted: the first selected family with files waiting (estimate)
	jobs := g.pendingOf(s.Families)
	g.crashFam = jobs[0]
	g.mem = map[int]bool{}    // rows in memory are lost
	g.held = nil              // the readers die with the process
	g.closed = map[int]bool{} // the restart reopens the source families: all target segments open
	g.last = map[string]int{}
}

func (g *stepGen) fault(s *step) {
	kinds := []string{"source", "source", "target1", "target1", "clean1"}
	if g.p.Month > 0 && g.p.Year > 0 {
		kinds = []string{"source", "source", "source", "target1", "target1", "target2", "clean1", "clean2"}
	}
	var allowed []string
	for _, k := range kinds {
		if !excluded(faultSignature(k)) {
			allowed = append(allowed, k)
		}
	}
	if len(allowed) == 0 {
		return
	}
	s.Fault = rapid.SampledFrom(allowed).Draw(g.t, "faultKind")
	g.faults++
	g.crashFam = g.pendingOf(s.Families)[0] // followed by the same episodes as a crash (new files, retry)
}

// recovery: the steps right after a crash inside a job of family fam. New files next to the
// half-rolled-up ones (same family: the retried job gets {merged, new} files; another family of
// the same day: another job merges into the same target family first), optionally one more
// restart, an eviction, a compaction of the target; then the retry - which may die again - and
// mostly a second round.
func (g *stepGen) recovery(fam int, mkRollup func(must int) step) (rs []step) {
	t := g.t
	write := func(f int) {
		g.onlyFam = f
		rs = append(rs, g.writeStep())
		g.onlyFam = -1
		rs = append(rs, g.flushWith(f))
	}
	for round, n := 0, rapid.SampledFrom([]int{1, 1, 2, 2, 3}).Draw(t, "recoveryRounds"); round < n; round++ {
		switch k := rapid.IntRange(0, 9).Draw(t, "recoveryFiles"); {
		case k < 6:
			write(fam)
		case k < 8 && len(g.p.Families) > 1:
			write(rapid.IntRange(0, len(g.p.Families)-1).Draw(t, "recoveryOtherFam"))
			if rapid.Bool().Draw(t, "recoveryBoth") {
				write(fam)
			}
		}
		switch k := rapid.IntRange(0, 11).Draw(t, "recoveryExtra"); k {
		case 0:
			g.reopened()
			rs = append(rs, step{Kind: "reopen"})
		case 1:
			rs = append(rs, g.evict())
		case 2, 3:
			rs = append(rs, g.compactTarget())
		}
		before := g.crashes
		rs = append(rs, mkRollup(fam))
		if g.crashes > before {
			// died again inside the retry: carry on from there
			fam = g.crashFam
			g.crashFam = -1
			continue
		}
		if rapid.IntRange(0, 3).Draw(t, "recoveryCompactAfter") == 0 {
			rs = append(rs, g.compactTarget())
		}
	}
	return rs
}

func (g *stepGen) compactTarget() step {
	return step{Kind: "compactTarget", Target: rapid.IntRange(0, len(g.p.targets())).Draw(g.t, "compactTarget")}
}

// snap: a new reader takes a snapshot of source family fam, or (orTarget, 1 in 4) of the target
// family that holds that hour.
func (g *stepGen) snap(fam int, orTarget bool) step { return g.snapOf(fam, orTarget, false) }

func (g *stepGen) snapOf(fam int, orTarget, onlyTarget bool) step {
	g.nextReader++
	op := &readerOp{ID: g.nextReader, Fam: fam}
	if onlyTarget || (orTarget && rapid.IntRange(0, 3).Draw(g.t, "readerOfTarget") == 0) {
		k := rapid.IntRange(0, len(g.p.targets())-1).Draw(g.t, "readerTarget")
		op.Target = k + 1
		if len(g.p.Families) == 1 {
			delete(g.closed, k) // the reader's family lookup opens the segment, like touch
		}
	}
	g.held = append(g.held, op.ID)
	return step{Kind: "snap", Reader: op}
}

// release: one of the readers closes its snapshot.
func (g *stepGen) release() step {
	i := rapid.IntRange(0, len(g.held)-1).Draw(g.t, "releaseReader")
	id := g.held[i]
	g.held = append(append([]int(nil), g.held[:i]...), g.held[i+1:]...)
	return step{Kind: "release", Reader: &readerOp{ID: id}}
}

// readerEpisode: a file of the focus family waits for rollup (written and flushed now if there
// is none), a reader takes a snapshot of the focus family (sometimes a second reader, sometimes of
// the target family), then 1-3 rollup steps that include the focus family - with or without new
// files in between - run while the snapshot is held: the pinned old version of the source family
// still lists the files that the first of those jobs rolls up. Then the reader may close.
func (g *stepGen) readerEpisode(mkRollup func(must int) step) (rs []step) {
	t := g.t
	focus := rapid.IntRange(0, len(g.p.Families)-1).Draw(t, "readerFocus")
	write := func() {
		g.onlyFam = focus
		rs = append(rs, g.writeStep())
		g.onlyFam = -1
		rs = append(rs, g.flushWith(focus))
	}
	if !g.pend[focus] && rapid.IntRange(0, 4).Draw(t, "readerFilesBefore") > 0 {
		write()
	}
	rs = append(rs, g.snap(focus, true))
	if rapid.IntRange(0, 3).Draw(t, "secondReader") == 0 {
		rs = append(rs, g.snap(focus, true))
	}
	for r, n := 0, rapid.SampledFrom([]int{1, 2, 2, 3}).Draw(t, "readerRounds"); r < n; r++ {
		if r > 0 && rapid.Bool().Draw(t, "readerNewFiles") {
			write()
		}
		rs = append(rs, mkRollup(focus))
		if r == 0 && rapid.IntRange(0, 2).Draw(t, "readerOfTargetAfterRollup") == 0 {
			// another reader looks at the target family the job has just merged into
			rs = append(rs, g.snapOf(focus, true, true))
		}
	}
	if len(g.held) > 0 && rapid.Bool().Draw(t, "readerCloses") {
		rs = append(rs, g.release())
	}
	return rs
}

func (g *stepGen) hasPending(fams []int) bool {
	if len(fams) == 0 {
		return len(g.pend) > 0
	}
	for _, f := range fams {
		if g.pend[f] {
			return true
		}
	}
	return false
}

// pendingOf lists the selected families that have files waiting for rollup (their jobs will merge).
func (g *stepGen) pendingOf(fams []int) (rs []int) {
	for f := range g.p.Families {
		sel := len(fams) == 0
		for _, x := range fams {
			sel = sel || x == f
		}
		if sel && g.pend[f] {
			rs = append(rs, f)
		}
	}
	return rs
}

// injections draws 1-2 source-side steps that run inside the rollup jobs of the given families.
func (g *stepGen) injections(jobs []int) (rs []inject) {
	t := g.t
	n := 1
	if g.p.Month > 0 && g.p.Year > 0 && rapid.IntRange(0, 2).Draw(t, "secondInjection") == 0 {
		n = 2 // a job with two targets creates two output tables
	}
	job := rapid.SampledFrom(jobs).Draw(t, "injectJob")
	for at := 0; at < n; at++ {
		in := inject{JobFam: job, At: at, Fam: job}
		if n == 1 && g.p.Month > 0 && g.p.Year > 0 && rapid.Bool().Draw(t, "injectAtSecondTable") {
			in.At = 1
		}
		if rapid.IntRange(0, 3).Draw(t, "injectOtherFamily") == 0 {
			in.Fam = rapid.IntRange(0, len(g.p.Families)-1).Draw(t, "injectFam")
		}
		readerOnly := false
		if rapid.IntRange(0, 3).Draw(t, "injectReader") == 0 {
			// a reader starts while the job is merging (alone, or after the write + flush)
			g.nextReader++
			in.Reader = &readerOp{ID: g.nextReader, Fam: job}
			g.held = append(g.held, in.Reader.ID)
			readerOnly = rapid.Bool().Draw(t, "injectReaderOnly")
		}
		if readerOnly {
			in.Fam = job
			rs = append(rs, in)
			continue
		}
		g.onlyFam = in.Fam
		w := g.commit(g.write())
		g.onlyFam = -1
		if len(w.Points) == 0 && in.Reader == nil {
			continue
		}
		if len(w.Points) > 0 {
			in.Points = w.Points
			g.flushed([]int{in.Fam})
		}
		rs = append(rs, in)
	}
	return rs
}

func (g *stepGen) rolled(fams []int) {
	if len(fams) == 0 {
		g.pend = map[int]bool{}
		return
	}
	for _, f := range fams {
		delete(g.pend, f)
	}
}

// subset draws the families of a flush / rollup step (nil = all); must >= 0 is always one of them.
func (g *stepGen) subset(label string, must int) []int {
	n := len(g.p.Families)
	if n == 1 || rapid.IntRange(0, 2).Draw(g.t, label+"All") > 0 {
		return nil
	}
	var rs []int
	for i := 0; i < n; i++ {
		if rapid.Bool().Draw(g.t, label+"Pick") || i == must {
			rs = append(rs, i)
		}
	}
	if len(rs) == 0 {
		rs = []int{rapid.IntRange(0, n-1).Draw(g.t, label+"One")}
	}
	return rs
}

func (g *stepGen) flushed(fams []int) {
	for f := range g.p.Families {
		sel := len(fams) == 0
		for _, x := range fams {
			sel = sel || x == f
		}
		if sel && g.mem[f] {
			g.pend[f] = true
			delete(g.mem, f)
		}
	}
	for key := range g.last {
		if len(fams) == 0 {
			delete(g.last, key)
			continue
		}
		for _, f := range fams {
			if strings.HasPrefix(key, fmt.Sprintf("%d/", f)) {
				delete(g.last, key)
			}
		}
	}
}

func (g *stepGen) reopened() {
	g.flushed(nil)
	g.held = nil              // the readers die with the process
	g.closed = map[int]bool{} // the harness reopens the source families the way a writer does: all target segments open
}

// closed is the generator's estimate (only used to place steps where they matter; the executor
// reads the real state from the store manager): target indexes whose segments an eviction closed
// and nothing has reopened since.
func (g *stepGen) closedList() (rs []int) {
	for k := range g.p.targets() {
		if g.closed[k] {
			rs = append(rs, k)
		}
	}
	return rs
}

// writeStep: a write step; while target segments are (believed) closed the rows mostly go through
// the data family the writer already holds, otherwise the writer's family lookup reopens them.
func (g *stepGen) writeStep() step {
	w := g.commit(g.write())
	if len(g.closed) > 0 && rapid.IntRange(0, 3).Draw(g.t, "heldFamily") > 0 {
		w.Direct = true
	} else {
		g.closed = map[int]bool{}
	}
	return w
}

// evict: Engine.EvictSegment, then a query looks some of the targets up again (Keep).
func (g *stepGen) evict() step {
	s := step{Kind: "evict"}
	n := len(g.p.targets())
	if n == 2 {
		s.Keep = rapid.SampledFrom([][]int{nil, {0}, {1}, {0}, {1}, {0}, {1}}).Draw(g.t, "keep")
	} else if rapid.IntRange(0, 3).Draw(g.t, "keepOnly") == 0 {
		s.Keep = []int{0}
	}
	for k := 0; k < n; k++ {
		g.closed[k] = true
	}
	for _, k := range s.Keep {
		delete(g.closed, k)
	}
	return s
}

// touch: a query looks a (preferably closed) target up over the hour of one source family.
func (g *stepGen) touch() step {
	s := step{Kind: "touch"}
	if cl := g.closedList(); len(cl) > 0 && rapid.IntRange(0, 3).Draw(g.t, "touchClosed") > 0 {
		s.Target = rapid.SampledFrom(cl).Draw(g.t, "touchTarget")
	} else {
		s.Target = rapid.IntRange(0, len(g.p.targets())-1).Draw(g.t, "touchAnyTarget")
	}
	s.TouchFam = rapid.IntRange(0, len(g.p.Families)-1).Draw(g.t, "touchFam")
	if len(g.p.Families) == 1 {
		delete(g.closed, s.Target)
	}
	return s
}

// evictEpisode: optionally some files (rolled up or not) first, the eviction, then 1-3 rounds
// of write (mostly into one focus family; through the held data family or through the writer's
// family lookup, which reopens the target segments), flush, optionally a query lookup, rollup.
func (g *stepGen) evictEpisode(mkRollup func(must int) step) (rs []step) {
	t := g.t
	focus := rapid.IntRange(0, len(g.p.Families)-1).Draw(t, "episodeFamily")
	write := func() {
		if rapid.IntRange(0, 3).Draw(t, "episodeFocus") > 0 {
			g.onlyFam = focus
		}
		rs = append(rs, g.writeStep())
		g.onlyFam = -1
	}
	if rapid.Bool().Draw(t, "episodeFilesBefore") {
		write()
		rs = append(rs, g.flush())
		if rapid.Bool().Draw(t, "episodeRollupBefore") {
			rs = append(rs, mkRollup(-1))
		}
	}
	rs = append(rs, g.evict())
	for r, n := 0, rapid.SampledFrom([]int{1, 2, 2, 3}).Draw(t, "episodeRounds"); r < n; r++ {
		write()
		rs = append(rs, g.flush())
		if len(g.closed) > 0 && rapid.IntRange(0, 4).Draw(t, "episodeLookup") == 0 {
			rs = append(rs, g.touch())
		}
		rs = append(rs, mkRollup(-1))
		if rapid.IntRange(0, 5).Draw(t, "episodeEvictAgain") == 0 {
			rs = append(rs, g.evict())
		}
	}
	return rs
}

func (g *stepGen) flush() step { return g.flushWith(-1) }

func (g *stepGen) flushWith(must int) step {
	s := step{Kind: "flush", Families: g.subset("flush", must)}
	g.flushed(s.Families)
	return s
}

func (g *stepGen) rollup(must int) step {
	s := step{Kind: "rollup", Families: g.subset("rollup", must)}
	if len(s.Families) == 0 && rapid.IntRange(0, 3).Draw(g.t, "force") == 0 {
		s.Force = true
	}
	if !s.Force && (g.periodicNext || rapid.IntRange(0, 7).Draw(g.t, "periodic") == 0) {
		s.Periodic = true
	}
	g.periodicNext = false
	return s
}

// commit orders the points of a write step by time (so slots never go backwards inside the
// step) and remembers the last slot per family/metric/series/field.
func (g *stepGen) commit(s step) step {
	if monotoneSlots {
		sort.SliceStable(s.Points, func(i, j int) bool { return s.Points[i].TS < s.Points[j].TS })
	}
	for _, pt := range s.Points {
		g.mem[pt.Fam] = true
		slot := int((pt.TS - g.p.Families[pt.Fam].Time) / g.p.Source)
		for _, v := range pt.Vals {
			g.last[fmt.Sprintf("%d/%d/%d/%d", pt.Fam, pt.Metric, pt.Series, v.F)] = slot
		}
	}
	return s
}

// prime writes one point of every (metric, series) in the first step, so that every name (tag
// value, series) exists before the first metadata / index flush. Reason (side_test.go, second
// side finding, outside C04): a metadata or index flush cycle with nothing new wedges the
// dictionary stores, names created afterwards are never persisted and are lost by a restart;
// the data files would then hold ids that no dictionary resolves. With all names created up
// front (and flushed by the first flush or by the first shutdown) the ids are stable for the
// whole case.
func (g *stepGen) prime() step {
	t, p := g.t, g.p
	s := step{Kind: "write"}
	slotsPerHour := int(hour / p.Source)
	for m := range p.Metrics {
		for series := 0; series < p.NSeries; series++ {
			fam := rapid.IntRange(0, len(p.Families)-1).Draw(t, "primeFam")
			slot := rapid.IntRange(0, slotsPerHour-1).Draw(t, "primeSlot")
			fields := p.Metrics[m]
			keep := rapid.IntRange(0, len(fields)-1).Draw(t, "primeField") // at least this one
			var vals []fv
			for i, f := range fields {
				if i != keep && rapid.Bool().Draw(t, "primeSkipField") {
					continue
				}
				vals = append(vals, fv{F: f, K: rapid.IntRange(-64, 64).Draw(t, "k")})
			}
			s.Points = append(s.Points, point{Fam: fam, Metric: m, Series: series, TS: p.Families[fam].Time + int64(slot)*p.Source, Vals: vals})
		}
	}
	return s
}

// write generates 1-3 clusters of points; a cluster lies around one window of the coarsest
// month-type granularity (5 min if none) of one source family so that several source slots
// fold into one target slot and the slots next to the window boundary are hit.
func (g *stepGen) write() step {
	t, p := g.t, g.p
	s := step{Kind: "write"}
	window := p.Month
	if window == 0 {
		window = 5 * minute
	}
	perWindow := int(window / p.Source) // source slots per window (>= 5)
	windows := int(hour / window)
	slotsPerHour := int(hour / p.Source)
	nClusters := rapid.IntRange(1, 3).Draw(t, "nClusters")
	for c := 0; c < nClusters; c++ {
		fam := g.onlyFam
		if fam < 0 {
			fam = rapid.IntRange(0, len(p.Families)-1).Draw(t, "fam")
		}
		w := rapid.SampledFrom([]int{0, windows - 1, -1}).Draw(t, "window")
		if w < 0 {
			w = rapid.IntRange(0, windows-1).Draw(t, "anyWindow")
		}
		first := w * perWindow
		var slots []int
		switch rapid.IntRange(0, 3).Draw(t, "shape") {
		case 0: // dense run crossing the window start
			n := rapid.IntRange(2, 8).Draw(t, "runLen")
			for i := 0; i < n; i++ {
				slots = append(slots, first-1+i)
			}
		case 1: // dense run crossing the window end
			n := rapid.IntRange(2, 8).Draw(t, "runLen")
			for i := 0; i < n; i++ {
				slots = append(slots, first+perWindow-n+1+i)
			}
		default: // sparse: boundary slots and random slots of the window
			n := rapid.IntRange(1, 5).Draw(t, "nSlots")
			for i := 0; i < n; i++ {
				switch rapid.IntRange(0, 4).Draw(t, "slotKind") {
				case 0:
					slots = append(slots, first)
				case 1:
					slots = append(slots, first+perWindow-1)
				case 2:
					slots = append(slots, first+perWindow)
				default:
					slots = append(slots, first+rapid.IntRange(0, perWindow-1).Draw(t, "slotInWindow"))
				}
			}
		}
		sort.Ints(slots)
		if !monotoneSlots && rapid.IntRange(0, 3).Draw(t, "backwards") == 0 {
			for i, j := 0, len(slots)-1; i < j; i, j = i+1, j-1 { // rows arrive out of order
				slots[i], slots[j] = slots[j], slots[i]
			}
		}
		metric := rapid.IntRange(0, len(p.Metrics)-1).Draw(t, "metric")
		oneSeries := rapid.Bool().Draw(t, "oneSeries")
		series := rapid.IntRange(0, p.NSeries-1).Draw(t, "series")
		for _, slot := range slots {
			if slot < 0 || slot >= slotsPerHour {
				continue
			}
			if !oneSeries {
				series = rapid.IntRange(0, p.NSeries-1).Draw(t, "series")
			}
			var vals []fv
			for _, f := range p.Metrics[metric] {
				if rapid.IntRange(0, 3).Draw(t, "hasField") == 0 {
					continue // field missing in this point
				}
				key := fmt.Sprintf("%d/%d/%d/%d", fam, metric, series, f)
				if last, ok := g.last[key]; ok && slot < last && monotoneSlots {
					continue // would go backwards relative to an earlier step of the same memory database
				}
				vals = append(vals, fv{F: f, K: rapid.IntRange(-64, 64).Draw(t, "k")})
			}
			if len(vals) == 0 {
				continue
			}
			jitter := rapid.SampledFrom([]int64{0, 0, p.Source - 1, -1}).Draw(t, "jitter")
			if jitter < 0 {
				jitter = rapid.Int64Range(0, p.Source-1).Draw(t, "anyJitter")
			}
			s.Points = append(s.Points, point{
				Fam: fam, Metric: metric, Series: series,
				TS:   p.Families[fam].Time + int64(slot)*p.Source + jitter,
				Vals: vals,
			})
		}
	}
	return s
}

// ---- model -------------------------------------------------------------------------------------

// cell identifies one stored value of a target interval.
type cell struct {
	Segment string // kv store (segment) name the value must live in
	Family  string // kv family name
	Metric  int
	Series  int
	Field   int // index into fieldDefs
	Slot    int
}

func (c cell) String() string {
	return fmt.Sprintf("segment=%s family=%s metric=m%d series=h%d field=%s slot=%d", c.Segment, c.Family, c.Metric, c.Series, fieldDefs[c.Field].Name, c.Slot)
}

type contrib struct {
	TS   int64
	Slot int64 // absolute source slot (TS / source)
	File int   // id of the source file (flush) that carries the point
	Job  int   // id of the rollup job that merged that file into this target interval
	V    float64
}

// targetPos is the documented layout, written with the calendar of Go's time package:
// month-type interval: segment = yyyyMM, family = day of month, slot counted from the start of the day;
// year-type interval: segment = yyyy, family = month, slot counted from the start of the month.
func targetPos(target int64, ts int64) (segment, family string, slot int) {
	tm := time.UnixMilli(ts).UTC()
	if target >= hour {
		start := time.Date(tm.Year(), tm.Month(), 1, 0, 0, 0, 0, time.UTC)
		return tm.Format("2006"), strconv.Itoa(int(tm.Month())), int((ts - start.UnixMilli()) / target)
	}
	start := time.Date(tm.Year(), tm.Month(), tm.Day(), 0, 0, 0, 0, time.UTC)
	return tm.Format("200601"), strconv.Itoa(tm.Day()), int((ts - start.UnixMilli()) / target)
}

func typeDir(target int64) string {
	if target >= hour {
		return "year"
	}
	return "month"
}

type filePoints struct {
	ID     int
	Points []point
	jobs   map[int64]int // target interval -> id of the rollup job that merged the file into it
}

// srcFile is one flushed source file and, per target interval, how far its rollup has got.
// A rollup job commits three times: (1) in the target family the rolled-up output together with
// a reference record "source file F is merged in"; (2) in the source family "F no longer waits
// for this interval"; (3) in the target family "forget the reference to F". A crash (or a failed
// manifest write) between those commits leaves the states in between.
type srcFile struct {
	filePoints
	done map[int64]bool // target interval -> the target family holds the file's points (commit 1 happened)
	// commit 1 happened, commit 2 did not: the source family still lists the file as waiting for
	// the interval; the next job of the family is asked for the file again and must not merge it
	unacked map[int64]bool
	// the target family holds a reference record for the file (commit 1 happened, commit 3 did not)
	ref map[int64]bool
	// whether the reference record still exists is not determined by the property (after a failed
	// source commit): the reference check accepts both
	refLoose map[int64]bool
	number   int64 // kv file number in the source store (read back from the source family)
}

func newSrcFile(id int, pts []point) *srcFile {
	return &srcFile{filePoints: filePoints{ID: id, Points: pts, jobs: map[int64]int{}},
		done: map[int64]bool{}, unacked: map[int64]bool{}, ref: map[int64]bool{}, refLoose: map[int64]bool{}}
}

type famState struct {
	pos     famPos
	df      tsdb.DataFamily
	mem     []point
	files   []*srcFile // flushed source files in flush order
	rollups int        // rollup jobs run on this family
	idx     int        // index into plan.Families
}

// waitingFor lists the files of the family that the source family lists as waiting for the
// target: not rolled up into it yet, or rolled up but not yet acknowledged on the source side.
func (f *famState) waitingFor(target int64) (rs []*srcFile) {
	for _, sf := range f.files {
		if !sf.done[target] || sf.unacked[target] {
			rs = append(rs, sf)
		}
	}
	return rs
}

// rolledInto lists the files of the family that were rolled up into the target.
func (f *famState) rolledInto(target int64) (rs []filePoints) {
	for _, sf := range f.files {
		if sf.done[target] {
			rs = append(rs, sf.filePoints)
		}
	}
	return rs
}

// waiting lists the files that still wait for at least one of the targets, in flush order, with
// the targets they wait for (ascending, as the configured intervals are sorted).
func (f *famState) waiting(targets []int64) (rs []*srcFile, ivs [][]int64) {
	for _, sf := range f.files {
		var w []int64
		for _, tg := range targets {
			if !sf.done[tg] || sf.unacked[tg] {
				w = append(w, tg)
			}
		}
		if len(w) > 0 {
			rs = append(rs, sf)
			ivs = append(ivs, w)
		}
	}
	return rs, ivs
}

// rolledAny: files rolled up into at least one target.
func (f *famState) rolledAny() (rs []filePoints) {
	for _, sf := range f.files {
		if len(sf.done) > 0 {
			rs = append(rs, sf.filePoints)
		}
	}
	return rs
}

// expected computes the expected cells of one target from the given source files.
func expected(p *plan, target int64, files []filePoints) map[cell][]contrib {
	out := map[cell][]contrib{}
	for _, f := range files {
		for _, pt := range f.Points {
			seg, fam, slot := targetPos(target, pt.TS)
			for _, v := range pt.Vals {
				c := cell{seg, fam, pt.Metric, pt.Series, v.F, slot}
				out[c] = append(out[c], contrib{TS: pt.TS, Slot: pt.TS / p.Source, File: f.ID, Job: f.jobs[target], V: float64(v.K) / 8})
			}
		}
	}
	return out
}

// ---- environment ---------------------------------------------------------------------------------

// tb is what the executor needs from *rapid.T / *testing.T.
type tb interface {
	Helper()
	Fatalf(format string, args ...any)
	Logf(format string, args ...any)
}

// Every case uses its own database name: lindb's worker pools count their live workers in a
// metrics gauge that is shared by all pools of the same name, and Database.Close does not stop
// the database's query pools; with one name for all cases the stale count of earlier engines
// makes later queries wait for the 5 s idle timeout of a forgotten pool.
var caseCounter int

type env struct {
	db     string
	t      tb
	p      *plan
	dir    string
	n      *node.Node
	shard  tsdb.Shard
	fams   []*famState
	nextID int

	reopened bool
	kvOnly   bool // see targetFamilies
	classes  map[string]bool

	readers    map[int]*heldReader // readers that hold snapshots, by id
	extraSnaps []version.Snapshot  // snapshots held on the crash image
	jobSeq     int                 // rollup jobs run so far (job ids)
	// every rollup job writes what it merges into a target family into one new file and the
	// history contains no compaction of target families: a cell is stored in exactly as many
	// files as jobs contributed to it (switched off where the model does not know the jobs)
	countFiles bool

	dirs    []string     // every directory of the case (removed at the end)
	dead    map[int]bool // readers that died with a crashed process
	crashes int          // crashes so far (the history runs on the image of the last one)
	faults  int          // failed manifest writes so far
	// the last crash: kind, family of the interrupted job, and the files of that family that were
	// merged into some target while the source family still lists them
	lastCrash *crashInfo
	// level-0 compaction of a target family merges every file of the family into one: all rollup
	// jobs up to that number count as one file of that family from then on (key target/segment/family)
	compacted map[string]int
}

type crashInfo struct {
	kind      string
	fam       int
	inWindow  bool         // >= 1 (file, interval) merged in the target and still listed by the source
	files     map[int]bool // ids of the files of fam that existed at the crash
	newSame   bool         // a file was flushed into fam since
	newOther  bool         // a file was flushed into another source family of the same target family since
	restarted int
}

func (e *env) class(c string) { e.classes[c] = true }

func (e *env) fatalf(format string, args ...any) {
	e.t.Helper()
	e.t.Fatalf(format, args...)
}

func intervals(p *plan) []timeutil.Interval {
	rs := []timeutil.Interval{timeutil.Interval(p.Source)}
	for _, tg := range p.targets() {
		rs = append(rs, timeutil.Interval(tg))
	}
	return rs
}

func (e *env) start(dir string) {
	n, err := node.Start(dir)
	if err != nil {
		e.fatalf("start engine on %s: %v", dir, err)
	}
	e.n = n
}

// closeNode shuts the engine down (Engine.Close flushes every memory database) and stops the
// query pools of the database, which Database.Close leaves running.
func (e *env) closeNode() {
	if db, ok := e.n.Engine.GetDatabase(e.db); ok {
		pools := db.ExecutorPool()
		defer func() {
			pools.Filtering.Stop()
			pools.Grouping.Stop()
			pools.Scanner.Stop()
		}()
	}
	e.n.Close()
}

// openFamilies (re)opens the source data families the way the next write into each hour does
// (Shard.GetOrCrateDataFamily also opens the target segments of that time).
func (e *env) openFamilies() {
	shard, err := e.n.Shard(e.db, 0)
	if err != nil {
		e.fatalf("shard: %v", err)
	}
	e.shard = shard
	for _, f := range e.fams {
		df, err := shard.GetOrCrateDataFamily(f.pos.Time)
		if err != nil {
			e.fatalf("open family %v: %v", f.pos, err)
		}
		if df.FamilyTime() != f.pos.Time || df.Interval().Int64() != e.p.Source {
			e.fatalf("family for %v: got family time %d interval %s", f.pos, df.FamilyTime(), df.Interval())
		}
		f.df = df
	}
}

func (e *env) selected(idx []int) []*famState {
	if len(idx) == 0 {
		return e.fams
	}
	var rs []*famState
	for _, i := range idx {
		rs = append(rs, e.fams[i])
	}
	return rs
}

// targetStoreName is the name production gives the kv store of the target interval's segment
// that holds ts (the segment name is computed with Go's calendar, see targetPos).
func (e *env) targetStoreName(target int64, ts int64) string {
	seg, _, _ := targetPos(target, ts)
	return filepath.Join(e.n.Dir, "data", e.db, "shard", "0", "segment", typeDir(target), seg)
}

// targetOpen: is the target interval's segment for ts open (known to the store manager)? This is
// the condition under which a rollup job of a source family at ts merges into that target;
// otherwise the job skips the interval and the files keep waiting for it.
func (e *env) targetOpen(target int64, ts int64) bool {
	_, ok := kv.GetStoreManager().GetStoreByName(e.targetStoreName(target, ts))
	return ok
}

// closedTargets lists (sorted) the target segments of the case's source families that are not open.
func (e *env) closedTargets() (rs []string) {
	seen := map[string]bool{}
	for _, target := range e.p.targets() {
		for _, f := range e.fams {
			name := e.targetStoreName(target, f.pos.Time)
			if !seen[name] && !e.targetOpen(target, f.pos.Time) {
				rs = append(rs, name)
			}
			seen[name] = true
		}
	}
	sort.Strings(rs)
	return rs
}

// writeDirect writes the rows into the data family the harness holds, the way an existing
// write-ahead-log partition does (replica.Partition keeps the tsdb.DataFamily it was created
// with; Shard.GetOrCrateDataFamily is only called when a partition is created).
func (e *env) writeDirect(f *famState, ms []*protoMetricsV1.Metric) error {
	block, err := node.Block(ms)
	if err != nil {
		return err
	}
	rows := metric.NewStorageBatchRows()
	rows.UnmarshalRows(block)
	if rows.Len() != len(ms) {
		return fmt.Errorf("harness: %d rows decoded from %d metrics", rows.Len(), len(ms))
	}
	return f.df.WriteRows(rows.Rows())
}

// evict runs the segment eviction of the storage node's periodic task (Engine.EvictSegment):
// every segment without a loaded tsdb data family is closed, its kv store leaves the store
// manager. Source segments always have their data families loaded here. Then a query looks the
// kept targets up again.
func (e *env) evict(s step) {
	before := e.closedTargets()
	e.n.Engine.EvictSegment()
	for _, f := range e.fams {
		name := filepath.Join(e.n.Dir, "data", e.db, "shard", "0", "segment", "day", time.UnixMilli(f.pos.Time).UTC().Format("20060102"))
		if _, ok := kv.GetStoreManager().GetStoreByName(name); !ok {
			e.fatalf("harness: source store %s was closed by Engine.EvictSegment although its data family is loaded", name)
		}
	}
	e.class("evict")
	if len(e.closedTargets()) > len(before) {
		e.class("evict: target segment closed")
	}
	for _, k := range s.Keep {
		for _, f := range e.fams {
			e.touch(k, f.idx)
		}
	}
	closed := e.closedTargets()
	switch {
	case len(closed) == 0:
	case len(e.p.targets()) >= 2 && len(s.Keep) > 0:
		e.class("evict: one target interval closed, the other looked up again")
	default:
		e.class("evict: every target interval closed")
	}
}

// touch is the family lookup of a query on the target interval over the hour of a source family.
func (e *env) touch(targetIdx, fam int) []tsdb.DataFamily {
	target := e.p.targets()[targetIdx]
	ft := e.fams[fam].pos.Time
	wasOpen := e.targetOpen(target, ft)
	dfs := e.shard.GetDataFamilies(timeutil.Interval(target).Type(), timeutil.TimeRange{Start: ft, End: ft + hour - 1})
	if !e.targetOpen(target, ft) {
		e.fatalf("query lookup on %s over %s %02d:00 did not open the target segment %s", timeutil.Interval(target), e.fams[fam].pos.Date, e.fams[fam].pos.Hour, e.targetStoreName(target, ft))
	}
	for _, df := range dfs {
		if df.Interval().Int64() != target {
			e.fatalf("query lookup on %s returned family %s with interval %s", timeutil.Interval(target), df.Indicator(), df.Interval())
		}
	}
	if !wasOpen {
		e.class("query lookup reopened a closed target segment")
	}
	return dfs
}

// ---- readers: held kv snapshots ----------------------------------------------------------------------

// heldReader is a reader (query, data load) that took kv snapshots and has not closed them.
type heldReader struct {
	op    readerOp
	since string
	snaps []heldSnap
	// source reader: the (file, target interval) pairs that wait for rollup in the pinned version
	listed map[*srcFile][]int64
	midJob bool
}

type heldSnap struct {
	snap version.Snapshot
	// target reader: the family and what the pinned version must read (the aggregate of the
	// files rolled up into that family when the snapshot was taken)
	tf     targetFamily
	target int64
	want   map[cell][]contrib
	// the compactions of target families that had happened when the snapshot was taken
	compacted map[string]int
}

func (e *env) readerIDs() (rs []int) {
	for id := range e.readers {
		rs = append(rs, id)
	}
	sort.Ints(rs)
	return rs
}

// takeReader: the reader takes its snapshot(s) the way a query does: the family's current
// version is retained (Family.GetSnapshot) and the table readers of its files are fetched
// through the snapshot.
func (e *env) takeReader(op readerOp, when string, midJob bool) {
	if e.readers == nil {
		e.readers = map[int]*heldReader{}
	}
	r := &heldReader{op: op, since: when, midJob: midJob}
	e.readers[op.ID] = r // registered first: whatever fails below, the cleanup closes the snapshots
	if op.Target == 0 {
		f := e.fams[op.Fam]
		snap := f.df.Family().GetSnapshot()
		r.snaps = append(r.snaps, heldSnap{snap: snap})
		for _, fm := range snap.GetCurrent().GetAllFiles() {
			if _, err := snap.GetReader(fm.GetFileNumber()); err != nil {
				e.fatalf("%s: reader %d: source family %s %02d:00 file %d: %v", when, op.ID, f.pos.Date, f.pos.Hour, fm.GetFileNumber(), err)
			}
		}
		r.listed = map[*srcFile][]int64{}
		waiting, ivs := f.waiting(e.p.targets())
		for i, sf := range waiting {
			r.listed[sf] = ivs[i]
		}
		e.class("reader: snapshot of a source family")
		if len(waiting) > 0 {
			e.class("reader: snapshot of a source family whose version lists files waiting for rollup")
		}
		if midJob {
			e.class("reader: snapshot of the source family taken while its rollup job was merging")
		}
		return
	}
	target := e.p.targets()[op.Target-1]
	ft := e.fams[op.Fam].pos.Time
	seg, _, _ := targetPos(target, ft)
	dfs := e.touch(op.Target-1, op.Fam)
	if len(dfs) == 0 {
		e.class("reader: lookup of a target family that no rollup has created yet (nothing to hold)")
	}
	id := e.resolveIDs()
	for _, df := range dfs {
		tf := targetFamily{Segment: seg, Family: df.Family().Name(), kvFamily: df.Family()}
		want := map[cell][]contrib{}
		for c, cs := range expected(e.p, target, e.rolledFiles(target)) {
			if c.Segment == tf.Segment && c.Family == tf.Family {
				want[c] = cs
			}
		}
		compacted := map[string]int{}
		for k, v := range e.compacted {
			compacted[k] = v
		}
		hs := heldSnap{snap: tf.kvFamily.GetSnapshot(), tf: tf, target: target, want: want, compacted: compacted}
		r.snaps = append(r.snaps, hs)
		e.class("reader: snapshot of a target family")
		e.readHeld(fmt.Sprintf("%s: reader %d takes a snapshot of the target family", when, op.ID), hs, id)
	}
}

// readHeld: what a reader sees through its snapshot of a target family is the aggregate of the
// files that were rolled up into the family when the snapshot was taken, whatever was rolled up since.
func (e *env) readHeld(when string, hs heldSnap, id *ids) {
	got := map[cell][]stored{}
	if msg := e.readFamily(hs.tf, hs.snap, id, got); msg != "" {
		e.fatalf("%s: %s", when, msg)
	}
	e.compare(when, hs.target, hs.want, got, nil, hs.compacted)
}

// releaseReader: the reader reads once more through its target snapshots, then closes.
func (e *env) releaseReader(id int, when string, check bool) {
	r, ok := e.readers[id]
	if !ok {
		// a reader that was to start inside a rollup job never started if the job did not
		// create that output table (nothing to merge, target segment closed)
		for _, s := range e.p.Steps {
			for _, in := range s.Inject {
				if in.Reader != nil && in.Reader.ID == id {
					return
				}
			}
		}
		e.fatalf("harness: release of reader %d which holds nothing", id)
	}
	delete(e.readers, id)
	defer func() {
		for _, hs := range r.snaps {
			hs.snap.Close()
		}
	}()
	if !check {
		return
	}
	var names *ids
	for _, hs := range r.snaps {
		if hs.want == nil {
			continue
		}
		if names == nil {
			names = e.resolveIDs()
		}
		e.readHeld(fmt.Sprintf("%s: reader %d reads through the snapshot of the target family it holds since %s", when, id, r.since), hs, names)
		rolled := 0
		for c := range expected(e.p, hs.target, e.rolledFiles(hs.target)) {
			if c.Segment == hs.tf.Segment && c.Family == hs.tf.Family {
				rolled++
			}
		}
		if rolled > len(hs.want) {
			e.class("reader: old snapshot of a target family read after later rollups added cells to the family")
		}
	}
}

func (e *env) releaseAll(when string, check bool) {
	for _, id := range e.readerIDs() {
		e.releaseReader(id, when, check)
	}
}

func (e *env) write(pts []point, direct bool) {
	// rows keep their order per family; one Write call per family (see tickGuard)
	var order []int
	byFam := map[int][]*protoMetricsV1.Metric{}
	for _, pt := range pts {
		m := &protoMetricsV1.Metric{
			Name: fmt.Sprintf("m%d", pt.Metric), Timestamp: pt.TS,
			Tags: []*protoMetricsV1.KeyValue{{Key: "host", Value: fmt.Sprintf("h%d", pt.Series)}},
		}
		for _, v := range pt.Vals {
			fd := fieldDefs[v.F]
			m.SimpleFields = append(m.SimpleFields, &protoMetricsV1.SimpleField{Name: fd.Name, Type: fd.Proto, Value: float64(v.K) / 8})
		}
		if _, ok := byFam[pt.Fam]; !ok {
			order = append(order, pt.Fam)
		}
		byFam[pt.Fam] = append(byFam[pt.Fam], m)
	}
	for _, fam := range order {
		f := e.fams[fam]
		createsMemDB := spaceMemDBCreation && len(f.mem) == 0
		if createsMemDB {
			tickGuard.wait()
		}
		closedBefore := len(e.closedTargets())
		if direct {
			if err := e.writeDirect(f, byFam[fam]); err != nil {
				e.fatalf("write (held data family): %v", err)
			}
			if closedBefore > 0 {
				e.class("write through the held data family while a target segment is closed")
			}
		} else {
			if err := e.n.Write(e.db, 0, byFam[fam]); err != nil {
				e.fatalf("write: %v", err)
			}
			if len(e.closedTargets()) < closedBefore {
				e.class("write (family looked up by the writer) reopened a closed target segment")
			}
		}
		if createsMemDB {
			tickGuard.created()
		}
	}
	for _, pt := range pts {
		e.fams[pt.Fam].mem = append(e.fams[pt.Fam].mem, pt)
	}
}

// registerMetrics makes the metric names, their tag key and their fields known to the database
// before the first row arrives (as if another shard had written the same metrics earlier).
// Reason: for a NEW metric the metadata worker (GenMetricID, GenFieldID) and the shard's index
// worker (GenMetricID, GenTagKeyID) run concurrently, and the unrepaired defect D2 of DESIGN.md
// (property C09) lets them disagree: indexKVStore.getOrCreateValue creates without re-checking
// under the lock (two ids for one metric name: rows stored under one id, indexed under the
// other), and metricSchemaStore.genFieldID / genTagKeyID read the schema before taking the lock
// (both create an empty schema for a new metric, the update of the second one is lost). Whether
// that happens depends on the scheduler, not on the seed, and it is C09's subject, so the
// harness keeps it out of this check.
func (e *env) registerMetrics() {
	if !preRegisterNames {
		return
	}
	db, _ := e.n.Engine.GetDatabase(e.db)
	meta := db.MetaDB()
	for m, fields := range e.p.Metrics {
		mid, err := meta.GenMetricID([]byte(commonconstants.DefaultNamespace), []byte(fmt.Sprintf("m%d", m)))
		if err != nil {
			e.fatalf("register metric m%d: %v", m, err)
		}
		if _, err := meta.GenTagKeyID(mid, []byte("host")); err != nil {
			e.fatalf("register tag key of m%d: %v", m, err)
		}
		for _, f := range fields {
			if _, err := meta.GenFieldID(mid, field.Meta{Name: field.Name(fieldDefs[f].Name), Type: fieldDefs[f].FType}); err != nil {
				e.fatalf("register field %s of m%d: %v", fieldDefs[f].Name, m, err)
			}
		}
	}
}

// tickGuard keeps the creation of two memory databases apart by one tick of lindb's coarse
// clock. Side finding (side_test.go, outside C04): a memory database is keyed by
// fasttime.UnixNano() of its creation (5 ms resolution) in the shard's time series index; two
// memory databases created within one tick share the key and the one flushed second silently
// loses its rows, so no source file would exist for them. Whether that happens depends on the
// wall clock, not on the seed, so the harness never lets it happen.
type tickGuardT struct{ last int64 }

var tickGuard = &tickGuardT{}

func (g *tickGuardT) wait() {
	for fasttime.UnixNano() <= g.last {
		time.Sleep(200 * time.Microsecond)
	}
}

func (g *tickGuardT) created() { g.last = fasttime.UnixNano() }

// memToFile: the memory points of the family became one source file.
func (e *env) memToFile(f *famState) {
	if len(f.mem) == 0 {
		return
	}
	e.nextID++
	f.files = append(f.files, newSrcFile(e.nextID, f.mem))
	f.mem = nil
	// a new source file while files of an interrupted job are merged but not acknowledged
	for _, x := range e.fams {
		if !x.hasUnacked() {
			continue
		}
		how := "a crash"
		if e.crashes == 0 {
			how = "a failed source commit"
		}
		switch {
		case x == f:
			e.class("after " + how + " in the window: new file flushed into the SAME source family before the retry")
		case e.sharesTargetFamily(x.idx, f.idx):
			e.class("after " + how + " in the window: new file flushed into another source family of the same target family before the retry")
		}
	}
}

func (f *famState) hasUnacked() bool {
	for _, sf := range f.files {
		for _, v := range sf.unacked {
			if v {
				return true
			}
		}
	}
	return false
}

// flush follows the production flush order: metadata, index, then the data families.
func (e *env) flush(idx []int) { e.flushStep(idx, nil, "") }

func (e *env) flushStep(idx []int, cr *commitRoll, when string) {
	db, ok := e.n.Engine.GetDatabase(e.db)
	if !ok {
		e.fatalf("database not found")
	}
	// Metadata: PrepareFlush + Flush of the metric meta database on this goroutine. Database.FlushMeta
	// does the same through the metadata worker and then runs metadataDatabase.gc in the
	// background; that gc removes a metric store that a concurrent first write of the metric has
	// just created (third side finding, proposed_fix_memdb_new_metric_store_gc.diff), which would
	// make the next write step depend on the scheduler.
	meta := db.MetaDB()
	meta.PrepareFlush()
	if err := meta.Flush(); err != nil {
		e.fatalf("flush meta: %v", err)
	}
	if err := e.shard.FlushIndex(); err != nil {
		e.fatalf("flush index: %v", err)
	}
	for _, f := range e.selected(idx) {
		var err error
		if cr != nil {
			err = e.flushFamilyInsideWindow(f, cr, when)
		} else {
			err = f.df.Flush()
		}
		if err != nil {
			e.fatalf("flush family %v: %v", f.pos, err)
		}
		e.memToFile(f)
	}
}

// ---- crash imager and fault injector ---------------------------------------------------------------

// The version-set seam reports every manifest append (= every commit of an edit log). While
// armed, the imager follows the commits of one rollup job of source family F:
//
//	target commits   in each open target interval with files to merge: output file + reference records
//	source commit    in F: DeleteRollupFile for every (file, interval) handled
//	clean commits    in each of those target families: delete the reference records
//
// and either copies the node directory just before the commit the case asked for ("the process
// dies here"; crashKinds) or lets that manifest write fail (faultKinds). What had been committed
// by then is recorded, so that the model knows the state on the image without looking into it.
var crashKinds = map[string]bool{
	"beforeFirstTarget":  true, // output table of the first interval written, nothing committed
	"betweenTargets":     true, // first interval committed (output + reference), second not
	"beforeSourceCommit": true, // every interval committed in the target, the source still lists the files
	"beforeFirstClean":   true, // source commit done, every reference still there
	"betweenCleans":      true, // one reference clean-up done, the other not
}

var faultKinds = map[string]bool{
	"target1": true, "target2": true, // the first / second target commit of the job fails
	"source": true,                 // the source commit fails
	"clean1": true, "clean2": true, // the first / second reference clean-up fails
}

// jobRecord: the commits of the job seen so far, target intervals by their directory type.
type jobRecord struct {
	Targets []string // "month" / "year": target commits done (in order)
	Source  bool     // source commit done
	Cleans  []string // reference clean-ups done
	Failed  string   // "", "target:<type>", "source", "clean:<type>": the commit whose manifest write failed
}

type imager struct {
	mu       sync.Mutex
	armed    bool
	kind     string // crash kind, or
	fault    string // fault kind
	root     string
	dst      string
	taken    bool
	faulted  bool
	failNext string // path of the manifest whose next write fails
	paused   bool   // an injected source-side step is running on the job's goroutine: its commits are not the job's
	err      error
	rec      jobRecord // current job
	seenT    int       // target commits attempted before the source commit (incl. a failed one)
	seenC    int       // clean commits attempted
	atEvent  jobRecord // the record when the image was taken / the write failed
}

var theImager = &imager{}

func (im *imager) hook(op, path string, before bool) {
	if op != "manifestWrite" || !before {
		return
	}
	im.mu.Lock()
	defer im.mu.Unlock()
	if !im.armed || im.paused || im.taken || !strings.HasPrefix(path, im.root) {
		return
	}
	typ := ""
	switch {
	case strings.Contains(path, "/segment/day/"):
	case strings.Contains(path, "/segment/month/"):
		typ = "month"
	case strings.Contains(path, "/segment/year/"):
		typ = "year"
	default:
		return
	}
	take, fail := false, false
	event := ""
	switch {
	case typ == "":
		event = "source"
		take = im.kind == "beforeSourceCommit"
		fail = im.fault == "source"
	case !im.rec.Source:
		im.seenT++
		event = "target:" + typ
		take = (im.kind == "beforeFirstTarget" && im.seenT == 1) || (im.kind == "betweenTargets" && im.seenT == 2)
		fail = (im.fault == "target1" && im.seenT == 1) || (im.fault == "target2" && im.seenT == 2)
	default:
		im.seenC++
		event = "clean:" + typ
		take = (im.kind == "beforeFirstClean" && im.seenC == 1) || (im.kind == "betweenCleans" && im.seenC == 2)
		fail = (im.fault == "clean1" && im.seenC == 1) || (im.fault == "clean2" && im.seenC == 2)
	}
	if take {
		im.taken = true
		im.atEvent = im.rec.clone()
		im.err = crash.CopyTree(im.root, im.dst)
		return
	}
	if fail && !im.faulted {
		im.faulted, im.failNext = true, path
		im.rec.Failed = event
		im.atEvent = im.rec.clone()
		return
	}
	switch {
	case typ == "":
		im.rec.Source = true
	case !im.rec.Source:
		im.rec.Targets = append(im.rec.Targets, typ)
	default:
		im.rec.Cleans = append(im.rec.Cleans, typ)
	}
}

func (r jobRecord) clone() jobRecord {
	r.Targets = append([]string(nil), r.Targets...)
	r.Cleans = append([]string(nil), r.Cleans...)
	return r
}

func (r jobRecord) has(list []string, typ string) bool {
	for _, x := range list {
		if x == typ {
			return true
		}
	}
	return false
}

// faultFn is asked by the seam right after the before-call of the hook: a non-nil error makes
// the manifest write fail without a byte written.
func (im *imager) faultFn(op, path string) error {
	im.mu.Lock()
	defer im.mu.Unlock()
	if op == "manifestWrite" && im.failNext != "" && path == im.failNext {
		im.failNext = ""
		return errors.New("harness: injected I/O error (manifest record not written)")
	}
	return nil
}

func (im *imager) arm(kind, fault, root, dst string) {
	im.mu.Lock()
	defer im.mu.Unlock()
	im.armed, im.kind, im.fault, im.root, im.dst = true, kind, fault, root, dst
	im.taken, im.faulted, im.failNext, im.paused, im.err = false, false, "", false, nil
	im.rec, im.seenT, im.seenC, im.atEvent = jobRecord{}, 0, 0, jobRecord{}
}

// nextJob resets the per-job record (a new source family starts its rollup job).
func (im *imager) nextJob() {
	im.mu.Lock()
	defer im.mu.Unlock()
	im.rec, im.seenT, im.seenC = jobRecord{}, 0, 0
}

func (im *imager) pause(on bool) {
	im.mu.Lock()
	defer im.mu.Unlock()
	im.paused = on
}

// state: has the image been taken / the write failed in the job that just ran, and what had the
// job committed by then.
func (im *imager) state() (taken, faulted bool, at jobRecord) {
	im.mu.Lock()
	defer im.mu.Unlock()
	return im.taken, im.faulted, im.atEvent
}

func (im *imager) disarm() (taken bool, err error) {
	im.mu.Lock()
	defer im.mu.Unlock()
	im.armed, im.failNext = false, ""
	return im.taken, im.err
}

// waitRollup waits until the background rollup job of the source family is finished and no
// longer marked as running (the flag is cleared just after the wait group is released; a
// rollup triggered in that window would be a silent no-op).
func waitRollup(f kv.Family) {
	kv.VerifWaitIdle(f)
	for !kv.VerifRollupIdle(f) {
		runtime.Gosched()
	}
}

// ---- harness-owned interleaving: source write + flush inside a running rollup job -----------------

// The table seam reports every table file that is created. While armed, the injector counts
// the output tables that the running rollup job creates in TARGET families and hands the count
// to the case. At that seam the job's goroutine holds no lock (family.newTableBuilder has
// returned the file number and registered the pending output; the version set mutex of the
// target store is only taken later, for the commit) and nothing of the source store at all:
// doRollupWork only keeps a snapshot (a retained version) of the source family. A source-side
// write + flush (memdb, metadata and index stores, source kv store) therefore cannot block on
// anything the job holds.
type injector struct {
	mu    sync.Mutex
	armed bool
	root  string
	count int
	fire  func(n int)
}

var theInjector = &injector{}

func (in *injector) hook(op, path string, before bool) {
	if op != "tableCreate" || before {
		return
	}
	in.mu.Lock()
	if !in.armed || !strings.HasPrefix(path, in.root) ||
		!(strings.Contains(path, "/segment/month/") || strings.Contains(path, "/segment/year/")) {
		in.mu.Unlock()
		return
	}
	n, fire := in.count, in.fire
	in.count++
	in.mu.Unlock()
	fire(n) // the injected flush creates tables itself (source, metadata, index): not held under the mutex
}

func (in *injector) arm(root string, fire func(n int)) {
	in.mu.Lock()
	defer in.mu.Unlock()
	in.armed, in.root, in.count, in.fire = true, root, 0, fire
}

func (in *injector) disarm() {
	in.mu.Lock()
	defer in.mu.Unlock()
	in.armed, in.fire = false, nil
}

// recTB records the first failure instead of failing: the injected step runs on the rollup
// job's goroutine, where a test failure (a panic of the test library) would kill the process.
type recTB struct {
	inner tb
	msg   string
}

func (r *recTB) Helper()                         {}
func (r *recTB) Logf(format string, args ...any) { r.inner.Logf(format, args...) }
func (r *recTB) Fatalf(format string, args ...any) {
	if r.msg == "" {
		r.msg = fmt.Sprintf(format, args...)
	}
	panic(softAbort{})
}

// inject runs the source-side step; the main goroutine is blocked in waitRollup meanwhile.
func (e *env) inject(in inject) (failure string) {
	rec := &recTB{inner: e.t}
	old := e.t
	e.t = rec
	defer func() {
		e.t = old
		if r := recover(); r != nil {
			if _, ok := r.(softAbort); ok {
				failure = rec.msg
			} else {
				failure = fmt.Sprintf("panic in the injected step: %v", r)
			}
		}
	}()
	// through the held data family: the lookup of a new writer would reopen closed target
	// segments in the middle of the job, and whether the job has already passed that interval
	// depends on a map iteration order
	if len(in.Points) > 0 {
		e.write(in.Points, true)
		e.flush([]int{in.Fam})
		e.class("source flush committed while a rollup job was merging")
		if in.Fam == in.JobFam {
			e.class("source flush of the SAME family committed while its rollup job was merging")
		}
		if in.At > 0 {
			e.class("source flush committed between the two target merges of a rollup job")
		}
	}
	if in.Reader != nil {
		// the job has not committed on the source family yet: the version the reader pins lists
		// the job's input files as waiting
		e.takeReader(*in.Reader, fmt.Sprintf("inside the rollup job of family %d (output table %d created)", in.JobFam, in.At), true)
	}
	return ""
}

// ---- rollup step -----------------------------------------------------------------------------------

func (e *env) allFiles() (rs []filePoints) {
	for _, f := range e.fams {
		for _, sf := range f.files {
			rs = append(rs, sf.filePoints)
		}
	}
	return rs
}

// rolledFiles: the source files rolled up into the target so far.
func (e *env) rolledFiles(target int64) (rs []filePoints) {
	for _, f := range e.fams {
		rs = append(rs, f.rolledInto(target)...)
	}
	return rs
}

// rolledAnywhere: the source files rolled up into at least one target.
func (e *env) rolledAnywhere() (rs []filePoints) {
	for _, f := range e.fams {
		rs = append(rs, f.rolledAny()...)
	}
	return rs
}

// jobInputs: what the rollup job of a source family must do if it started now. Per target
// interval: the files the source family lists for it (byTarget: still waiting, or merged by an
// interrupted job and not acknowledged) - if the target segment of the family's time is open; an
// interval whose segment is not open is skipped by the job and its files keep waiting for it.
// Of the listed files only those that the target does not hold yet are merged (merge).
type jobInputs struct {
	byTarget map[int64][]*srcFile
	merge    map[int64][]*srcFile
	skipped  []int64
	files    map[*srcFile]bool // merged into at least one interval
	live     map[*srcFile]bool // files of the family listed for at least one interval when the job starts
}

func (e *env) jobInputs(f *famState) *jobInputs {
	in := &jobInputs{byTarget: map[int64][]*srcFile{}, merge: map[int64][]*srcFile{}, files: map[*srcFile]bool{}, live: map[*srcFile]bool{}}
	for _, target := range e.p.targets() {
		w := f.waitingFor(target)
		for _, sf := range w {
			in.live[sf] = true
		}
		if !e.targetOpen(target, f.pos.Time) {
			if len(w) > 0 {
				in.skipped = append(in.skipped, target)
			}
			continue
		}
		in.byTarget[target] = w
		for _, sf := range w {
			if !sf.done[target] {
				in.merge[target] = append(in.merge[target], sf)
				in.files[sf] = true
			}
		}
	}
	return in
}

// complete: the job ran to its end: every listed file of every handled interval is in the
// target (the new ones merged by this job), acknowledged on the source side, reference forgotten.
func (in *jobInputs) complete(job int) {
	for target, files := range in.byTarget {
		for _, sf := range files {
			if !sf.done[target] {
				sf.done[target] = true
				sf.jobs[target] = job
			}
			sf.unacked[target], sf.ref[target] = false, false
		}
	}
}

// partial: the process died when the job had got as far as rec says (crash image).
func (in *jobInputs) partial(job int, rec jobRecord) {
	for target, files := range in.byTarget {
		typ := typeDir(target)
		for _, sf := range files {
			if rec.has(rec.Targets, typ) && !sf.done[target] {
				sf.done[target] = true
				sf.jobs[target] = job
				sf.unacked[target], sf.ref[target] = true, true
			}
			if rec.Source && sf.done[target] {
				sf.unacked[target] = false // the source commit acknowledges every interval the job handled
			}
			if rec.has(rec.Cleans, typ) {
				sf.ref[target] = false
			}
		}
	}
}

// faulted: one manifest write of the job failed (failed = "target:<type>", "source",
// "clean:<type>"), the job went on. What the property requires of the job then:
//   - target commit of an interval failed: nothing of the job's files is in that interval, they keep
//     waiting for it; the other interval is handled normally;
//   - source commit failed: the files are merged and the source family still lists them: they are
//     "merged, not acknowledged" exactly as after a crash in that window - the next job must not
//     merge them again (whether the job still cleans the references is its own business: refLoose);
//   - a reference clean-up failed: the reference stays, nothing else.
func (in *jobInputs) faulted(job int, failed string) {
	for target, files := range in.byTarget {
		typ := typeDir(target)
		if failed == "target:"+typ {
			continue
		}
		for _, sf := range files {
			if !sf.done[target] {
				sf.done[target] = true
				sf.jobs[target] = job
				sf.unacked[target], sf.ref[target] = true, true
			}
			switch failed {
			case "source":
				if sf.unacked[target] {
					sf.refLoose[target] = true
				}
			case "clean:" + typ:
				sf.unacked[target] = false
			default:
				sf.unacked[target], sf.ref[target] = false, false
			}
		}
	}
}

// concurrentJobsShareTargetFamily: two of the families belong to the same source store (day) and
// both have files to merge into the same target interval (hence into the same target family).
func (e *env) concurrentJobsShareTargetFamily(sel []*famState, jobs map[*famState]*jobInputs) bool {
	seen := map[string]bool{}
	for _, f := range sel {
		for _, target := range e.p.targets() {
			if len(jobs[f].byTarget[target]) == 0 {
				continue
			}
			key := fmt.Sprintf("%s/%d", f.pos.Date, target)
			if seen[key] {
				return true
			}
			seen[key] = true
		}
	}
	return false
}

func (e *env) rollup(s step, when string) {
	sel := e.selected(s.Families)
	jobs := map[*famState]*jobInputs{}
	if s.Crash != "" && !crashKinds[s.Crash] || s.Fault != "" && !faultKinds[s.Fault] || s.Crash != "" && s.Fault != "" {
		e.fatalf("harness: rollup step with crash %q fault %q", s.Crash, s.Fault)
	}
	imageDir := ""
	if s.Crash != "" || s.Fault != "" {
		if s.Force {
			e.fatalf("harness: crash / fault in a Store.ForceRollup step")
		}
		if s.Crash != "" {
			imageDir = fmt.Sprintf("%s-i%d", e.dirs[0], len(e.dirs))
			e.dirs = append(e.dirs, imageDir)
		}
	}
	theImager.arm(s.Crash, s.Fault, e.dir, imageDir) // (also resets what the previous step left)
	ran := sel
	var crashedIn, faultIn *famState
	var eventRec jobRecord
	if s.Force {
		// Store.ForceRollup: every family of the source store starts its job (concurrently);
		// no job opens or closes a store, so the inputs of all jobs are fixed now
		stores := map[string]kv.Store{}
		var names []string
		for _, f := range sel {
			jobs[f] = e.jobInputs(f)
			name := filepath.Join(e.n.Dir, "data", e.db, "shard", "0", "segment", "day", time.UnixMilli(f.pos.Time).UTC().Format("20060102"))
			st, ok := kv.GetStoreManager().GetStoreByName(name)
			if !ok {
				e.fatalf("harness: source store %s not in the store manager", name)
			}
			if _, ok := stores[name]; !ok {
				names = append(names, name)
			}
			stores[name] = st
		}
		if ev.Known(sigCloneSharesReferences) && e.concurrentJobsShareTargetFamily(sel, jobs) {
			// known finding (regression_test.go): two jobs of one source store that merge into the
			// same target family at the same time can stop the process; while it is listed the
			// jobs of such a step run one after the other
			e.class("Store.ForceRollup replaced by one job after the other (known finding " + sigCloneSharesReferences + ")")
			for _, f := range sel {
				kv.VerifRollup(f.df.Family())
				waitRollup(f.df.Family())
			}
		} else {
			if e.concurrentJobsShareTargetFamily(sel, jobs) {
				e.class("Store.ForceRollup: >= 2 jobs of one source store merge into the same target family concurrently")
			}
			for _, name := range names {
				stores[name].ForceRollup()
			}
			for _, f := range sel {
				waitRollup(f.df.Family())
			}
		}
	} else {
		ran = nil
		for _, f := range sel {
			if s.Periodic && !e.periodicGate(f, when) {
				continue // the periodic job does not start a rollup job for this family now
			}
			theImager.nextJob()
			// the job takes the files waiting now; files flushed while it runs are not its inputs
			jobs[f] = e.jobInputs(f)
			var failure string
			job := f.idx
			theInjector.arm(e.dir, func(n int) {
				if taken, _, _ := theImager.state(); taken {
					return // the process died before this point
				}
				for _, in := range s.Inject {
					if in.JobFam == job && in.At == n && failure == "" {
						theImager.pause(true)
						failure = e.inject(in)
						theImager.pause(false)
					}
				}
			})
			kv.VerifRollup(f.df.Family())
			waitRollup(f.df.Family())
			theInjector.disarm()
			if failure != "" {
				e.fatalf("source-side step inside the rollup job of family %s %02d:00: %s", f.pos.Date, f.pos.Hour, failure)
			}
			ran = append(ran, f)
			taken, faulted, at := theImager.state()
			if taken {
				crashedIn, eventRec = f, at
				break // the process died inside this job: the jobs of the other families never started
			}
			if faulted && faultIn == nil {
				faultIn, eventRec = f, at
			}
		}
	}
	if _, err := theImager.disarm(); err != nil {
		e.fatalf("harness: crash image: %v", err)
	}
	if s.Crash != "" || s.Fault != "" {
		if crashedIn == nil && s.Crash != "" {
			e.class("crash point " + s.Crash + " not reached by any job of the step (nothing dies)")
		}
		if faultIn == nil && s.Fault != "" {
			e.class("fault point " + s.Fault + " not reached by any job of the step")
		}
	}
	targets := e.p.targets()
	for _, f := range ran {
		in := jobs[f]
		e.classesAfterCrash(f, in, crashedIn == f)
		rolledBefore := len(f.rolledAny())
		if len(in.files) == 0 && len(in.skipped) == 0 && f.rollups > 0 {
			e.class("rollup repeated (no new source file)")
			if e.reopened {
				e.class("rollup repeated after reopen")
			}
		}
		if len(in.files) > 0 && rolledBefore > 0 {
			e.class("more flushes then rollup")
		}
		if len(in.files) > 0 && e.reopened {
			e.class("rollup after reopen with new files")
		}
		if len(in.skipped) > 0 {
			switch {
			case len(in.files) > 0:
				e.class("rollup job: one target interval skipped (segment not open), the other completed")
			case len(in.skipped) == len(targets):
				e.class("rollup job: every target interval skipped (segment not open)")
			default:
				e.class("rollup job: one target interval skipped (segment not open), nothing waits for the other")
			}
		}
		for target, files := range in.merge {
			if len(files) == 0 {
				continue
			}
			// a live file of the family that is NOT an input of this interval: it was merged into
			// this interval by an earlier job that skipped another interval
			for sf := range in.live {
				if sf.done[target] && !sf.unacked[target] {
					e.class("rollup job: an interval merges new files while an older file waits only for the other interval (left over by a skip)")
				}
			}
			for _, sf := range files {
				if len(sf.done) > 0 {
					e.class("rollup job: a previously skipped interval catches up (its segment is open again)")
				}
			}
		}
		// readers that hold a snapshot while this job runs
		for _, id := range e.readerIDs() {
			r := e.readers[id]
			if r.op.Fam != f.idx {
				continue
			}
			if r.op.Target > 0 {
				if tg := targets[r.op.Target-1]; len(in.byTarget[tg]) > 0 && len(r.snaps) > 0 {
					e.class("reader: snapshot of a target family held while a rollup job merges into that family")
				}
				continue
			}
			if r.midJob {
				r.midJob = false // this is the job the reader started in
				continue
			}
			if len(in.files) > 0 {
				e.class("reader: snapshot of a source family held across a rollup job that merges files")
			}
			pinned := false
			for sf, ivs := range r.listed {
				for _, tg := range ivs {
					pinned = pinned || sf.done[tg]
				}
			}
			if pinned {
				// the hinted shape: the version the reader pins still lists files (for intervals)
				// that an earlier job has rolled up, and rollup is triggered again
				e.class("reader: rollup triggered again while a held source snapshot pins a version that still lists rolled-up files")
				if s.Force {
					e.class("reader: ... triggered again through Store.ForceRollup")
				}
				if len(in.files) > 0 {
					e.class("reader: ... triggered again with new files to merge")
				}
				if len(in.skipped) > 0 {
					e.class("reader: ... triggered again while a target segment is closed")
				}
				if e.reopened {
					e.class("reader: ... triggered again after a restart (new readers)")
				}
			}
		}
		e.jobSeq++
		switch f {
		case crashedIn:
			in.partial(e.jobSeq, eventRec)
		case faultIn:
			in.faulted(e.jobSeq, eventRec.Failed)
			e.faults++
			e.class("fault: manifest write of the " + strings.SplitN(eventRec.Failed, ":", 2)[0] + " commit of a rollup job failed")
			for target, files := range in.byTarget {
				for _, sf := range files {
					if sf.unacked[target] {
						e.class("fault: files merged into the target, source commit failed (merged, not acknowledged)")
					}
				}
			}
		default:
			in.complete(e.jobSeq)
		}
		f.rollups++
	}
	if crashedIn != nil {
		e.die(s, crashedIn, eventRec, when)
	}
}

// classesAfterCrash counts what the continuation of a crashed history does with the files the
// interrupted job left "merged, not acknowledged".
func (e *env) classesAfterCrash(f *famState, in *jobInputs, crashesNow bool) {
	mixed, onlyMerged := false, false
	for target, files := range in.byTarget {
		old := 0
		for _, sf := range files {
			if sf.unacked[target] {
				old++
			}
		}
		if old > 0 && len(in.merge[target]) > 0 {
			mixed = true
		}
		if old > 0 && len(in.merge[target]) == 0 {
			onlyMerged = true
		}
	}
	if mixed {
		e.class("retry: a job is asked for {already merged, new} files of one interval (must merge only the new ones)")
		if e.faults > 0 && e.crashes == 0 {
			e.class("retry: ... after a failed source commit (no crash)")
		}
		if crashesNow {
			e.class("retry: ... and the process dies again inside that job")
		}
		if e.lastCrash != nil && e.lastCrash.restarted >= 2 {
			e.class("retry: ... after >= 2 restarts")
		}
		if len(e.compacted) > 0 {
			e.class("retry: ... after a compaction of a target family")
		}
	}
	if onlyMerged {
		e.class("retry: a job is asked only for already merged files of an interval (must merge nothing)")
		if crashesNow {
			e.class("retry: ... and the process dies again inside that job")
		}
	}
	if (mixed || onlyMerged) && len(in.skipped) > 0 {
		e.class("retry: ... while the other target segment is closed")
	}
	if lc := e.lastCrash; lc != nil && lc.inWindow && lc.fam != f.idx && len(in.files) > 0 && e.sharesTargetFamily(lc.fam, f.idx) {
		e.class("after a crash in the window: a job of ANOTHER source family merges into the same target family before/after the retry")
	}
}

// sharesTargetFamily: the two source families roll up into the same family of some target interval.
func (e *env) sharesTargetFamily(a, b int) bool {
	for _, target := range e.p.targets() {
		s1, f1, _ := targetPos(target, e.fams[a].pos.Time)
		s2, f2, _ := targetPos(target, e.fams[b].pos.Time)
		if s1 == s2 && f1 == f2 {
			return true
		}
	}
	return false
}

// die: the process died where the image was taken. The engine that is still running (the job
// went on after the copy) is shut down and its directory forgotten; the engine is started on the
// image (Restarts times), the source families are reopened, and the history continues there.
func (e *env) die(s step, f *famState, rec jobRecord, when string) {
	e.crashes++
	e.class("crash image: " + s.Crash)
	lc := &crashInfo{kind: s.Crash, fam: f.idx, files: map[int]bool{}}
	for _, sf := range f.files {
		lc.files[sf.ID] = true
		for _, target := range e.p.targets() {
			lc.inWindow = lc.inWindow || sf.unacked[target]
		}
	}
	e.lastCrash = lc
	if lc.inWindow {
		e.class("crash image in the window target commit .. source commit (files merged, still listed by the source)")
	}
	if e.crashes >= 2 {
		e.class("crash image: >= 2 crashes in one history")
	}
	if e.faults > 0 {
		e.class("crash image after a failed manifest write in the same history")
	}
	if len(e.closedTargets()) > 0 {
		e.class("crash image taken while a target segment is closed")
	}
	// readers die with the process, rows in memory are lost
	if e.dead == nil {
		e.dead = map[int]bool{}
	}
	for _, id := range e.readerIDs() {
		e.dead[id] = true
		e.releaseReader(id, when, false)
	}
	for _, snap := range e.extraSnaps {
		snap.Close()
	}
	e.extraSnaps = nil
	lost := false
	for _, x := range e.fams {
		lost = lost || len(x.mem) > 0
		x.mem, x.df = nil, nil
	}
	if lost {
		e.class("crash image: rows in memory lost")
	}
	old := e.dir
	e.closeNode()
	e.n = nil
	_ = os.RemoveAll(old)
	e.dir = e.dirs[len(e.dirs)-1]
	restarts := s.Restarts
	if restarts < 1 {
		restarts = 1
	}
	for i := 0; i < restarts; i++ {
		if i > 0 {
			e.closeNode()
			e.n = nil
		}
		e.start(e.dir)
		e.openFamilies()
		lc.restarted++
	}
	if restarts >= 2 {
		e.class("crash image: >= 2 restarts before the history continues")
	}
	e.reopened = true
	if s.CrashReader {
		for _, x := range e.fams {
			e.extraSnaps = append(e.extraSnaps, x.df.Family().GetSnapshot())
		}
		e.class("crash image: a reader holds the recovered source versions across the following steps")
	}
}

// ---- reading what is stored -------------------------------------------------------------------------

type ids struct {
	metricOf map[uint32]int         // metric id -> model metric
	fieldOf  map[int]map[uint8]int  // model metric -> field id -> fieldDefs index
	seriesOf map[int]map[uint32]int // model metric -> series id -> model series
}

// resolveIDs maps the ids found in blocks back to the model through the metadata and index
// databases (the path queries use): namespace/metric name -> id, schema -> field ids, tag
// value -> series id.
func (e *env) resolveIDs() *ids {
	db, _ := e.n.Engine.GetDatabase(e.db)
	meta := db.MetaDB()
	rs := &ids{metricOf: map[uint32]int{}, fieldOf: map[int]map[uint8]int{}, seriesOf: map[int]map[uint32]int{}}
	for m := range e.p.Metrics {
		mid, err := meta.GetMetricID(commonconstants.DefaultNamespace, fmt.Sprintf("m%d", m))
		if err != nil {
			if os.Getenv("C04_DEBUG") != "" {
				e.t.Logf("GetMetricID(m%d): %v", m, err)
			}
			continue // never written
		}
		rs.metricOf[uint32(mid)] = m
		if os.Getenv("C04_DEBUG") != "" {
			e.t.Logf("m%d -> metric id %d", m, mid)
		}
		schema, err := meta.GetSchema(mid)
		if err != nil {
			e.fatalf("schema of m%d: %v", m, err)
		}
		rs.fieldOf[m] = map[uint8]int{}
		rs.seriesOf[m] = map[uint32]int{}
		if schema == nil {
			continue // registered, no row written yet
		}
		for _, fm := range schema.Fields {
			for i, fd := range fieldDefs {
				if fd.Name == string(fm.Name) {
					if fm.Type != fd.FType {
						e.fatalf("schema of m%d: field %s has type %s", m, fm.Name, fm.Type)
					}
					rs.fieldOf[m][uint8(fm.ID)] = i
				}
			}
		}
		tk, ok := schema.TagKeys.Find("host")
		if !ok {
			e.fatalf("schema of m%d has no tag key host", m)
		}
		for s := 0; s < e.p.NSeries; s++ {
			tvs, err := meta.FindTagValueDsByExpr(tk.ID, &stmt.EqualsExpr{Key: "host", Value: fmt.Sprintf("h%d", s)})
			if err != nil || tvs == nil || tvs.IsEmpty() {
				if os.Getenv("C04_DEBUG") != "" {
					e.t.Logf("m%d host=h%d: tag value lookup: %v %v", m, s, tvs, err)
				}
				continue // series never written for this metric
			}
			sids, err := e.shard.IndexDB().GetSeriesIDsByTagValueIDs(tk.ID, tvs)
			if err != nil || sids == nil {
				if os.Getenv("C04_DEBUG") != "" {
					e.t.Logf("m%d host=h%d: series lookup for tag value ids %v: %v %v", m, s, tvs.ToArray(), sids, err)
				}
				continue
			}
			if sids.GetCardinality() != 1 {
				e.fatalf("index: m%d host=h%d resolves to series %v", m, s, sids.ToArray())
			}
			rs.seriesOf[m][sids.Minimum()] = s
		}
	}
	return rs
}

// decodeBlock reads every value of a metric block with the production reader (the block's own
// field list is the query, every series of the block is selected).
func decodeBlock(path string, block []byte, emit func(seriesID uint32, f field.Meta, slot uint16, v float64)) (err error) {
	r, err := metricsdata.NewReader(path, block)
	if err != nil {
		return err
	}
	fields := r.GetFields()
	seriesIDs := r.GetSeriesIDs()
	shardCtx := flow.NewShardExecuteContext(&flow.StorageExecuteContext{Fields: fields})
	shardCtx.SeriesIDsAfterFiltering.Or(seriesIDs)
	tr := r.GetTimeRange()
	// the slot range of the block (what Reader.GetTimeRange reports to queries and to later merges)
	// is the range of the slots the block stores: a rollup maps the first and the last source slot
	// of its inputs, a compaction takes the union of its inputs (C03 asserts that a compaction keeps
	// the range; this is the same for the blocks a rollup job writes)
	minSlot, maxSlot := -1, -1
	inner := emit
	emit = func(seriesID uint32, f field.Meta, slot uint16, v float64) {
		if minSlot < 0 || int(slot) < minSlot {
			minSlot = int(slot)
		}
		if int(slot) > maxSlot {
			maxSlot = int(slot)
		}
		inner(seriesID, f, slot, v)
	}
	defer func() {
		if err == nil && minSlot >= 0 && (minSlot != int(tr.Start) || maxSlot != int(tr.End)) {
			err = fmt.Errorf("the block reports the slot range %v, the slots it stores range from %d to %d", tr, minSlot, maxSlot)
		}
	}()
	for idx, hk := range seriesIDs.GetHighKeys() {
		ctx := &flow.DataLoadContext{
			ShardExecuteCtx:       shardCtx,
			LowSeriesIDsContainer: seriesIDs.GetContainerAtIndex(idx),
			SeriesIDHighKey:       hk,
			IsMultiField:          len(fields) > 1,
		}
		ctx.Grouping()
		loader := r.Load(ctx)
		if loader == nil {
			return fmt.Errorf("container %d of the block cannot be loaded", hk)
		}
		var cbErr error
		high := uint32(hk) << 16
		ctx.Decoder = encoding.GetTSDDecoder()
		ctx.DownSampling = func(slotRange timeutil.SlotRange, lowSeriesIdx uint16, fieldIdx int, getter encoding.TSDValueGetter) {
			if fieldIdx < 0 || fieldIdx >= len(fields) {
				cbErr = fmt.Errorf("callback with field index %d of %d", fieldIdx, len(fields))
				return
			}
			if slotRange != tr {
				cbErr = fmt.Errorf("series slot range %v != block time range %v", slotRange, tr)
			}
			for slot := int(slotRange.Start); slot <= int(slotRange.End); slot++ {
				if v, ok := getter.GetValue(uint16(slot)); ok {
					emit(high|uint32(ctx.MinSeriesID+lowSeriesIdx), fields[fieldIdx], uint16(slot), v)
				}
			}
		}
		loader.Load(ctx)
		encoding.ReleaseTSDDecoder(ctx.Decoder)
		if cbErr != nil {
			return cbErr
		}
	}
	return nil
}

type stored struct {
	File string
	V    float64
}

type targetFamily struct {
	Segment, Family string
	kvFamily        kv.Family
}

// targetFamilies lists every family of every segment directory of the target interval type on
// disk and opens it through the shard (the path a query uses).
//
// Cases with evict steps (e.kvOnly): during the history the observation must not change which
// segments are open, nor load tsdb data families into them (a loaded family keeps its segment
// from being evicted). There the families of the OPEN stores are taken from the store manager,
// the segments that are not open are reported in closed (nothing can change in them while they
// are closed; they are read when they are open again, at the latest at the end of the history,
// where everything is opened through the shard as before).
func (e *env) targetFamilies(target int64) (rs []targetFamily, closed map[string]bool) {
	dirType := typeDir(target)
	dir := filepath.Join(e.n.Dir, "data", e.db, "shard", "0", "segment", dirType)
	entries, err := os.ReadDir(dir)
	if err != nil {
		e.fatalf("list %s: %v", dir, err)
	}
	closed = map[string]bool{}
	for _, ent := range entries {
		seg := ent.Name()
		if e.kvOnly {
			st, ok := kv.GetStoreManager().GetStoreByName(filepath.Join(dir, seg))
			if !ok {
				closed[seg] = true
				e.class("check while a target segment is closed")
				continue
			}
			names := st.ListFamilyNames()
			sort.Strings(names)
			for _, name := range names {
				rs = append(rs, targetFamily{Segment: seg, Family: name, kvFamily: st.GetFamily(name)})
			}
			continue
		}
		var start, end time.Time
		if dirType == "year" {
			start, err = time.Parse("2006", seg)
			end = start.AddDate(1, 0, 0)
		} else {
			start, err = time.Parse("200601", seg)
			end = start.AddDate(0, 1, 0)
		}
		if err != nil {
			e.fatalf("unexpected entry %s in %s", seg, dir)
		}
		dfs := e.shard.GetDataFamilies(timeutil.Interval(target).Type(), timeutil.TimeRange{Start: start.UnixMilli(), End: end.UnixMilli() - 1})
		storeName := filepath.Join(dir, seg)
		st, ok := kv.GetStoreManager().GetStoreByName(storeName)
		if !ok {
			e.fatalf("target store %s is not open after GetDataFamilies", storeName)
		}
		names := st.ListFamilyNames()
		sort.Strings(names)
		byName := map[string]tsdb.DataFamily{}
		for _, df := range dfs {
			if st.GetFamily(df.Family().Name()) != df.Family() {
				e.fatalf("GetDataFamilies(%s) returned family %s (%s) that is not a family of store %s", seg, df.Family().Name(), df.Indicator(), storeName)
			}
			byName[df.Family().Name()] = df
		}
		for _, name := range names {
			df, ok := byName[name]
			if !ok {
				e.fatalf("segment %s/%s: kv family %s is not returned by GetDataFamilies over the whole segment", dirType, seg, name)
			}
			if df.Interval().Int64() != target {
				e.fatalf("segment %s/%s family %s has interval %s", dirType, seg, name, df.Interval())
			}
			rs = append(rs, targetFamily{Segment: seg, Family: name, kvFamily: df.Family()})
		}
	}
	return rs, closed
}

// readTarget reads every stored value of the target interval: cell -> one value per file.
func (e *env) readTarget(target int64, id *ids) (map[cell][]stored, map[string]bool) {
	out := map[cell][]stored{}
	tfs, closed := e.targetFamilies(target)
	for _, tf := range tfs {
		snap := tf.kvFamily.GetSnapshot()
		msg := e.readFamily(tf, snap, id, out)
		snap.Close()
		if msg != "" {
			e.fatalf("%s", msg)
		}
	}
	return out, closed
}

// readFamily reads every stored value of the files of the snapshot's version of one target
// family into out; it returns a description of what is wrong with the stored blocks, if anything.
func (e *env) readFamily(tf targetFamily, snap version.Snapshot, id *ids, out map[cell][]stored) string {
	v := snap.GetCurrent()
	files := v.GetAllFiles()
	sort.Slice(files, func(i, j int) bool { return files[i].GetFileNumber() < files[j].GetFileNumber() })
	for _, fm := range files {
		reader, err := snap.GetReader(fm.GetFileNumber())
		if err != nil {
			return fmt.Sprintf("target %s/%s file %d: %v", tf.Segment, tf.Family, fm.GetFileNumber(), err)
		}
		fileName := fmt.Sprintf("%s/%s/%s", tf.Segment, tf.Family, reader.FileName())
		it := reader.Iterator()
		for it.HasNext() {
			metricID := it.Key()
			m, ok := id.metricOf[metricID]
			if !ok {
				return fmt.Sprintf("target %s holds metric id %d that no written metric has", fileName, metricID)
			}
			seen := map[cell]bool{}
			var bad string
			err := decodeBlock(fileName, it.Value(), func(seriesID uint32, f field.Meta, slot uint16, val float64) {
				fi, ok := id.fieldOf[m][uint8(f.ID)]
				if !ok {
					bad = fmt.Sprintf("field id %d unknown for metric m%d", f.ID, m)
					return
				}
				if f.Type != fieldDefs[fi].FType {
					bad = fmt.Sprintf("field %s stored with type %s", fieldDefs[fi].Name, f.Type)
					return
				}
				si, ok := id.seriesOf[m][seriesID]
				if !ok {
					bad = fmt.Sprintf("series id %d unknown for metric m%d", seriesID, m)
					return
				}
				c := cell{tf.Segment, tf.Family, m, si, fi, int(slot)}
				if seen[c] {
					bad = fmt.Sprintf("%s delivered twice", c)
				}
				seen[c] = true
				out[c] = append(out[c], stored{File: fileName, V: val})
			})
			if err != nil {
				return fmt.Sprintf("target %s metric m%d: %v", fileName, m, err)
			}
			if bad != "" {
				return fmt.Sprintf("target %s metric m%d: %s", fileName, m, bad)
			}
		}
	}
	return ""
}

// ---- oracle -------------------------------------------------------------------------------------------

func sortedCells[V any](m map[cell]V) []cell {
	rs := make([]cell, 0, len(m))
	for c := range m {
		rs = append(rs, c)
	}
	sort.Slice(rs, func(i, j int) bool { return rs[i].String() < rs[j].String() })
	return rs
}

// compare: stored cells of the target == aggregate of the model points of the given source files.
func (e *env) compare(when string, target int64, want map[cell][]contrib, got map[cell][]stored, closed map[string]bool, compacted map[string]int) {
	iv := timeutil.Interval(target).String()
	for _, c := range sortedCells(want) {
		if closed[c.Segment] {
			continue // not readable now; checked when the segment is open again
		}
		cs := want[c]
		st, ok := got[c]
		if !ok {
			if os.Getenv("C04_DEBUG") != "" {
				for _, k := range sortedCells(got) {
					e.t.Logf("stored %s = %+v", k, got[k])
				}
			}
			e.fatalf("%s: target %s misses %s; contributed source points %+v%s", when, iv, c, cs, e.diagnose())
		}
		typ := fieldDefs[c.Field].Type
		switch typ {
		case "sum", "min", "max":
			exp := cs[0].V
			for _, x := range cs[1:] {
				switch typ {
				case "sum":
					exp += x.V
				case "min":
					exp = math.Min(exp, x.V)
				default:
					exp = math.Max(exp, x.V)
				}
			}
			act := st[0].V
			for _, x := range st[1:] {
				switch typ {
				case "sum":
					act += x.V
				case "min":
					act = math.Min(act, x.V)
				default:
					act = math.Max(act, x.V)
				}
			}
			if act != exp {
				e.fatalf("%s: target %s %s: stored %v (per file %+v), %s of the source points is %v; source points %+v", when, iv, c, act, st, typ, exp, cs)
			}
		default: // first / last: one of the contributed values, exact with one candidate
			cands := map[float64]bool{}
			for _, x := range cs {
				cands[x.V] = true
			}
			for _, x := range st {
				if !cands[x.V] {
					e.fatalf("%s: target %s %s: stored %v in %s is none of the contributed values; source points %+v", when, iv, c, x.V, x.File, cs)
				}
			}
			if len(st) == 1 && len(cands) > 1 {
				// informational: winner by time (latest / earliest source slot), only meaningful when unique
				best := cs[0]
				ambiguous := false
				for _, x := range cs[1:] {
					switch {
					case x.Slot == best.Slot && x.V != best.V:
						ambiguous = true
					case typ == "last" && x.Slot > best.Slot, typ == "first" && x.Slot < best.Slot:
						best, ambiguous = x, false
					}
				}
				if !ambiguous {
					if st[0].V == best.V {
						e.class("info: first/last equals the value of the earliest/latest source slot")
					} else {
						e.class("info: first/last differs from the value of the earliest/latest source slot")
					}
				}
			}
		}
	}
	for _, c := range sortedCells(got) {
		if _, ok := want[c]; !ok {
			e.fatalf("%s: target %s holds %s = %+v, no rolled-up source point falls into it", when, iv, c, got[c])
		}
	}
	if !e.countFiles {
		return
	}
	// exactly once, also for aggregates that hide a repetition (min, max, first, last, sum of
	// zeros): a job writes everything it merges into a target family into one new file, so a cell
	// is stored once per job that merged a source file with a point for it; a level-0 compaction
	// of the target family merges all its files: the jobs up to then count as one
	for _, c := range sortedCells(want) {
		if closed[c.Segment] {
			continue
		}
		upTo := compacted[familyKey(target, c.Segment, c.Family)]
		jobs := map[int]bool{}
		for _, x := range want[c] {
			if x.Job <= upTo {
				jobs[0] = true
			} else {
				jobs[x.Job] = true
			}
		}
		if st := got[c]; len(st) != len(jobs) {
			e.fatalf("%s: target %s %s is stored in %d files %+v, but %d rollup job(s) merged a source file with a point for it (a source file contributed more or less than once); source points %+v",
				when, iv, c, len(st), st, len(jobs), want[c])
		}
	}
}

func familyKey(target int64, segment, family string) string {
	return fmt.Sprintf("%d/%s/%s", target, segment, family)
}

// compactTarget: level-0 compaction of the target families (the job Family.Compact starts when a
// family has more than one level-0 file), run synchronously. Only families of open segments (as
// production: the store's periodic check walks the families of open stores).
func (e *env) compactTarget(s step, when string) {
	targets := e.p.targets()
	for k, target := range targets {
		if s.Target != k && s.Target < len(targets) {
			continue
		}
		saved := e.kvOnly
		e.kvOnly = true // list through the store manager: the step must not open or load anything
		tfs, _ := e.targetFamilies(target)
		e.kvOnly = saved
		for _, tf := range tfs {
			snap := tf.kvFamily.GetSnapshot()
			refs := 0
			for _, byFam := range snap.GetCurrent().GetAllReferenceFiles() {
				for _, files := range byFam {
					refs += len(files)
				}
			}
			snap.Close()
			ran, err := kv.VerifCompactSync(tf.kvFamily, true)
			if err != nil {
				e.fatalf("%s: compaction of target family %s/%s/%s: %v", when, typeDir(target), tf.Segment, tf.Family, err)
			}
			if !ran {
				continue
			}
			e.compacted[familyKey(target, tf.Segment, tf.Family)] = e.jobSeq
			e.class("target family compacted (level 0 -> 1)")
			if refs > 0 {
				e.class("target family compacted while it holds reference records (interrupted job not yet retried)")
			}
			if e.crashes > 0 {
				e.class("target family compacted on a recovered image")
			}
		}
	}
}

// diagnose renders what the source families hold on disk (every value of every file) next to
// the model's bookkeeping; appended to "misses" failures so that a lost flush can be told from
// a lost rollup.
func (e *env) diagnose() string {
	var b strings.Builder
	for _, f := range e.fams {
		if f.df == nil {
			continue
		}
		snap := f.df.Family().GetSnapshot()
		v := snap.GetCurrent()
		fmt.Fprintf(&b, "\n  source family %s %02d:00 on disk: rollup files %v;", f.pos.Date, f.pos.Hour, v.GetRollupFiles())
		for _, fm := range v.GetAllFiles() {
			fmt.Fprintf(&b, " file %d {", fm.GetFileNumber().Int64())
			reader, err := snap.GetReader(fm.GetFileNumber())
			if err != nil {
				fmt.Fprintf(&b, "unreadable: %v}", err)
				continue
			}
			it := reader.Iterator()
			for it.HasNext() {
				metricID := it.Key()
				if err := decodeBlock("diagnose", it.Value(), func(seriesID uint32, fm field.Meta, slot uint16, val float64) {
					fmt.Fprintf(&b, " metric%d/series%d/field%d(%s)@%d=%v", metricID, seriesID, fm.ID, fm.Type, slot, val)
				}); err != nil {
					fmt.Fprintf(&b, " metric%d: %v", metricID, err)
				}
			}
			b.WriteString(" }")
		}
		snap.Close()
		var files []string
		for _, x := range f.files {
			var done []string
			for _, tg := range e.p.targets() {
				if x.done[tg] {
					done = append(done, timeutil.Interval(tg).String())
				}
			}
			files = append(files, fmt.Sprintf("%d(%d points, rolled up into %v)", x.ID, len(x.Points), done))
		}
		fmt.Fprintf(&b, "\n    model: %d points in memory, flushed files %v, rollup jobs %d", len(f.mem), files, f.rollups)
	}
	return b.String()
}

// bookkeeping: source families list exactly the files the model says they list (not yet rolled
// up, or merged by an interrupted job and not acknowledged), each for exactly those target
// intervals (file numbers grow in flush order); every (open) target family holds exactly the
// reference records the model says it holds: none after a complete job, those of the merged files
// between commit 1 and commit 3 of an interrupted one.
func (e *env) checkBookkeeping(when string, fams []*famState, checkRefs bool) {
	targets := e.p.targets()
	for _, f := range fams {
		snap := f.df.Family().GetSnapshot()
		rf := snap.GetCurrent().GetRollupFiles()
		all := snap.GetCurrent().GetAllFiles()
		snap.Close()
		// the kv file numbers of the model's files: the source family is never compacted, its
		// files are the flushed files in flush order
		sort.Slice(all, func(i, j int) bool { return all[i].GetFileNumber() < all[j].GetFileNumber() })
		if len(all) != len(f.files) {
			e.fatalf("%s: source family %s %02d:00 holds %d files, %d were flushed%s", when, f.pos.Date, f.pos.Hour, len(all), len(f.files), e.diagnose())
		}
		for i, fm := range all {
			f.files[i].number = fm.GetFileNumber().Int64()
		}
		waiting, ivs := f.waiting(targets)
		if len(rf) != len(waiting) {
			e.fatalf("%s: source family %s %02d:00 lists %d rollup files %v, %d flushed files wait for rollup (for %v)", when, f.pos.Date, f.pos.Hour, len(rf), rf, len(waiting), ivs)
		}
		var numbers []table.FileNumber
		for file := range rf {
			numbers = append(numbers, file)
		}
		sort.Slice(numbers, func(i, j int) bool { return numbers[i] < numbers[j] })
		for i, file := range numbers {
			var got []int64
			for _, iv := range rf[file] {
				got = append(got, iv.Int64())
			}
			sort.Slice(got, func(a, b int) bool { return got[a] < got[b] })
			if fmt.Sprint(got) != fmt.Sprint(ivs[i]) || file.Int64() != waiting[i].number {
				e.fatalf("%s: source family %s %02d:00: file %d (the %d. waiting file in flush order, file %d) waits for target intervals %v, the model says %v (configured targets %v)",
					when, f.pos.Date, f.pos.Hour, file, i+1, waiting[i].number, got, ivs[i], targets)
			}
		}
	}
	if !checkRefs || os.Getenv("C04_NO_REFCHECK") != "" { // (by hand: sensitivity of the data oracle alone)
		return
	}
	for _, target := range targets {
		tfs, _ := e.targetFamilies(target)
		for _, tf := range tfs {
			snap := tf.kvFamily.GetSnapshot()
			refs := snap.GetCurrent().GetAllReferenceFiles()
			snap.Close()
			got := map[string]bool{}
			for store, byFam := range refs {
				for _, files := range byFam {
					for _, file := range files {
						got[fmt.Sprintf("%s/%d", store, file.Int64())] = true
					}
				}
			}
			want, loose := map[string]bool{}, map[string]bool{}
			for _, f := range e.fams {
				if seg, fam, _ := targetPos(target, f.pos.Time); seg != tf.Segment || fam != tf.Family {
					continue
				}
				store := time.UnixMilli(f.pos.Time).UTC().Format("20060102")
				for _, sf := range f.files {
					key := fmt.Sprintf("%s/%d", store, sf.number)
					switch {
					case sf.refLoose[target]:
						loose[key] = true
					case sf.ref[target]:
						want[key] = true
					}
				}
			}
			for key := range got {
				if !want[key] && !loose[key] {
					e.fatalf("%s: target family %s/%s/%s holds a reference record for source file %s (all: %v); the model expects %v", when, typeDir(target), tf.Segment, tf.Family, key, refs, want)
				}
			}
			for key := range want {
				if !got[key] {
					e.fatalf("%s: target family %s/%s/%s holds no reference record for source file %s although that file is merged and the job has not cleaned up (references: %v)", when, typeDir(target), tf.Segment, tf.Family, key, refs)
				}
				e.class("check: a target family holds reference records (between commit 1 and 3 of an interrupted job)")
			}
		}
	}
}

// checkTargets: every target interval holds exactly the source files filesOf(target).
func (e *env) checkTargets(when string, filesOf func(target int64) []filePoints) {
	id := e.resolveIDs()
	for _, target := range e.p.targets() {
		got, closed := e.readTarget(target, id)
		e.compare(when, target, expected(e.p, target, filesOf(target)), got, closed, e.compacted)
	}
}

// ---- query-level cross-check ------------------------------------------------------------------------

// runQueries: a query over one source hour (< 1 h, so the planner keeps the requested interval)
// grouped by time(<target interval>) must be answered from the target interval's families and
// equal the aggregate of the rolled-up points per target slot.
func (e *env) runQueries() {
	if len(e.p.Queries) == 0 {
		return
	}
	c := node.NewCluster()
	defer c.Close()
	c.AddLeaf("leaf0:1", e.n.Engine, "")
	c.SetLayout(e.db, node.DBOption(intervals(e.p)...), map[string][]models.ShardID{"leaf0:1": {0}})
	const layout = "2006-01-02 15:04:05"
	for _, q := range e.p.Queries {
		target := e.p.targets()[q.Target]
		rolled := e.rolledFiles(target)
		fd := fieldDefs[q.Field]
		ft := e.p.Families[q.Fam].Time
		start, end := ft, ft+hour-sec
		lo, hi := start/target*target, end/target*target // the planner truncates the range to the storage interval
		sqlText := fmt.Sprintf("select %s from m%d where time>='%s' and time<='%s' group by host,time(%s)",
			fd.Name, q.Metric, time.UnixMilli(start).UTC().Format(layout), time.UnixMilli(end).UTC().Format(layout), timeutil.Interval(target))
		want := map[string]map[int64][]float64{} // host -> slot start -> contributed values
		for _, f := range rolled {
			for _, pt := range f.Points {
				slotStart := pt.TS / target * target
				if pt.Metric != q.Metric || slotStart < lo || slotStart > hi {
					continue
				}
				for _, v := range pt.Vals {
					if v.F == q.Field {
						host := fmt.Sprintf("host=h%d", pt.Series)
						if want[host] == nil {
							want[host] = map[int64][]float64{}
						}
						want[host][slotStart] = append(want[host][slotStart], float64(v.K)/8)
					}
				}
			}
		}
		t0 := time.Now()
		rs, err := c.Query(e.db, sqlText)
		if os.Getenv("C04_DEBUG") != "" {
			fmt.Printf("query %s: %v err=%v want=%d series\n", sqlText, time.Since(t0), err, len(want))
		}
		got := node.Result{}
		if err != nil {
			if len(want) > 0 {
				e.fatalf("query %q: %v; rolled-up points of the range: %v", sqlText, err, want)
			}
		} else {
			got = node.Canon(rs)
		}
		e.class("query group by time(target)")
		for _, f := range e.fams {
			var unrolled []point
			unrolled = append(unrolled, f.mem...)
			for _, pf := range f.waitingFor(target) {
				unrolled = append(unrolled, pf.Points...)
			}
			for _, pt := range unrolled {
				if s := pt.TS / target * target; pt.Metric == q.Metric && s >= lo && s <= hi {
					e.class("query group by time(target): range also holds source points not rolled up yet")
				}
			}
		}
		for host, slots := range want {
			for ts, cands := range slots {
				v, ok := got[host][fd.Name][ts]
				if !ok {
					e.fatalf("query %q: no value for %s at %d; rolled-up source values %v; answer:\n%s", sqlText, host, ts, cands, got)
				}
				exp, member := cands[0], false
				for _, x := range cands {
					member = member || x == v
				}
				for _, x := range cands[1:] {
					switch fd.Type {
					case "sum":
						exp += x
					case "min":
						exp = math.Min(exp, x)
					case "max":
						exp = math.Max(exp, x)
					}
				}
				switch fd.Type {
				case "sum", "min", "max":
					if v != exp {
						e.fatalf("query %q: %s at %d = %v, %s of the rolled-up source values %v is %v", sqlText, host, ts, v, fd.Type, cands, exp)
					}
				default:
					if !member {
						e.fatalf("query %q: %s at %d = %v is none of the rolled-up source values %v", sqlText, host, ts, v, cands)
					}
				}
			}
		}
		for host, fields := range got {
			for name, pts := range fields {
				for ts, v := range pts {
					if name != fd.Name || len(want[host][ts]) == 0 {
						e.fatalf("query %q: answer holds %s %s at %d = %v, no rolled-up source point falls into it", sqlText, host, name, ts, v)
					}
				}
			}
		}
	}
}

// ---- the property -------------------------------------------------------------------------------------

func runPlan(t tb, p *plan) (classes []string, nontrivial bool) {
	version.VerifSetFSHookWithFaults(func(op, path string, before bool) {
		theImager.hook(op, path, before)
		theCommitWindow.hook(op, path, before)
	}, theImager.faultFn)
	defer version.VerifSetFSHook(nil)
	defer theCommitWindow.disarm()
	table.VerifSetFSHook(theInjector.hook)
	defer table.VerifSetFSHook(nil)
	defer theInjector.disarm()
	dir, err := os.MkdirTemp("", "c04-")
	if err != nil {
		t.Fatalf("tempdir: %v", err)
	}
	caseCounter++
	e := &env{t: t, p: p, dir: dir, dirs: []string{dir}, classes: map[string]bool{}, db: fmt.Sprintf("%s%d", dbName, caseCounter), countFiles: true, compacted: map[string]int{}}
	defer func() {
		_, _ = theImager.disarm()
		for _, r := range e.readers {
			for _, hs := range r.snaps {
				hs.snap.Close()
			}
		}
		for _, snap := range e.extraSnaps {
			snap.Close()
		}
		if e.n != nil {
			e.closeNode()
		}
		for _, d := range e.dirs {
			_ = os.RemoveAll(d)
		}
	}()
	e.start(dir)
	if err := e.n.CreateDB(e.db, node.DBOption(intervals(p)...), models.ShardID(0)); err != nil {
		t.Fatalf("create database: %v", err)
	}
	for _, fp := range p.Families {
		e.fams = append(e.fams, &famState{pos: fp, idx: len(e.fams)})
	}
	e.openFamilies()
	e.registerMetrics()
	for _, s := range p.Steps {
		e.kvOnly = e.kvOnly || s.Kind == "evict"
	}

	for i, s := range p.Steps {
		when := fmt.Sprintf("step %d (%s)", i, s.Kind)
		switch s.Kind {
		case "write":
			e.write(s.Points, s.Direct)
		case "flush":
			e.flushStep(s.Families, s.RollAt, when)
			if s.RollAt != nil {
				// the job inside the commit acknowledged exactly what it merged; the file of the
				// flush is listed for every interval
				e.checkBookkeeping(when, e.fams, true)
			}
		case "rollup":
			e.rollup(s, when)
			// after a rollup job (or on the image of an interrupted one) the source families list
			// exactly what the model says, the target families hold exactly the model's references
			e.checkBookkeeping(when, e.fams, true)
		case "compactTarget":
			e.compactTarget(s, when)
		case "evict":
			e.evict(s)
			e.checkBookkeeping(when, e.fams, false)
		case "touch":
			e.touch(s.Target, s.TouchFam)
		case "snap":
			e.takeReader(*s.Reader, when, false)
		case "release":
			if e.dead[s.Reader.ID] {
				break // died with a crashed process
			}
			e.releaseReader(s.Reader.ID, when, true)
			e.class("reader: closed by a step of the history")
		case "reopen":
			if len(e.readers) > 0 {
				e.class("reader: dropped by a restart")
			}
			e.releaseAll(when, true) // the readers die with the process
			for _, snap := range e.extraSnaps {
				snap.Close()
			}
			e.extraSnaps = nil
			if e.lastCrash != nil {
				e.lastCrash.restarted++
			}
			e.closeNode() // production shutdown flushes the memory databases
			for _, f := range e.fams {
				e.memToFile(f)
			}
			e.start(e.dir)
			e.openFamilies()
			e.reopened = true
			e.class("reopen")
			e.checkBookkeeping(when, e.fams, true)
		}
		// the target holds exactly the rolled-up files after every step
		e.checkTargets(when, e.rolledFiles)
	}

	if e.kvOnly {
		// end of the history: every target segment is opened through the shard (the path a query
		// uses) and read completely
		e.kvOnly = false
		e.checkTargets("end of the history (all target segments opened through the shard)", e.rolledFiles)
		e.checkBookkeeping("end of the history", e.fams, true)
	}

	e.runQueries()
	if len(e.readers) > 0 {
		e.class("reader: snapshot held to the end of the history")
	}
	e.releaseAll("end of the history", true)

	// classes and the non-trivial rule
	for _, target := range p.targets() {
		rolled := e.rolledFiles(target)
		pair := "pair day->" + typeDir(target)
		if len(rolled) > 0 {
			e.class(pair)
		}
		segs, fams := map[string]bool{}, map[string]bool{}
		for c, cs := range expected(p, target, rolled) {
			segs[c.Segment] = true
			fams[c.Segment+"/"+c.Family] = true
			slots, files := map[int64]bool{}, map[int]bool{}
			for _, x := range cs {
				slots[x.Slot] = true
				files[x.File] = true
			}
			if len(slots) >= 2 {
				e.class("target slot fed by >= 2 source slots")
				if len(rolled) >= 2 {
					nontrivial = true
				}
			}
			if len(files) >= 2 {
				e.class("target slot fed by >= 2 source files")
			}
			if len(slots) >= 2 && len(files) >= 2 {
				e.class(pair + ": slot fed by >= 2 slots and >= 2 files")
			}
		}
		if len(segs) >= 2 {
			e.class(pair + ": >= 2 target segments")
		}
		if len(fams) >= 2 {
			e.class(pair + ": >= 2 target families")
		}
	}
	if p.Month > 0 && p.Year > 0 {
		e.class("two targets")
	}
	for _, f := range e.fams {
		if len(f.rolledAny()) == 0 {
			continue
		}
		tm := time.UnixMilli(f.pos.Time).UTC()
		next := tm.AddDate(0, 0, 1)
		switch {
		case tm.Month() == time.February && tm.Day() == 29:
			e.class("position: leap day")
		case next.Year() != tm.Year():
			e.class("position: last day of year")
		case next.Month() != tm.Month():
			e.class("position: last day of month")
		case tm.Day() == 1:
			e.class("position: first day of month")
		}
		if f.pos.Hour == 0 {
			e.class("position: first hour of day")
		}
		if f.pos.Hour == 23 {
			e.class("position: last hour of day")
		}
		if len(f.rolledAny()) >= 2 {
			e.class(">= 2 source files of one source family")
		}
	}
	for _, s := range p.Steps {
		if s.Kind == "rollup" && s.Force {
			e.class("Store.ForceRollup")
		}
	}
	for c := range e.classes {
		classes = append(classes, c)
	}
	sort.Strings(classes)
	return classes, nontrivial
}

func TestRollup(t *testing.T) {
	rapid.Check(t, func(t *rapid.T) {
		p := genPlan(t)
		canon, _ := json.Marshal(p)
		t.Logf("plan: %s", canon)
		classes, nontrivial := runPlan(t, p)
		ev.Case("TestRollup", string(canon), nontrivial, classes, p)
	})
}

// TestReplay runs the plan given as JSON in $C04_PLAN (the "plan:" line of a failing case).
func TestReplay(t *testing.T) {
	text := os.Getenv("C04_PLAN")
	if text == "" {
		t.Skip("set C04_PLAN to the JSON plan of a case")
	}
	p := &plan{}
	if err := json.Unmarshal([]byte(text), p); err != nil {
		t.Fatal(err)
	}
	classes, nontrivial := runPlan(t, p)
	t.Logf("held; non-trivial=%v classes=%v", nontrivial, classes)
}

// ---- observation outside the property's quantifier (informational, never fails) -----------------------

type softAbort struct{}

// softTB records the first failure message instead of failing the test.
type softTB struct {
	t   *rapid.T
	msg string
}

func (s *softTB) Helper() {}
func (s *softTB) Logf(format string, args ...any) {
	s.t.Logf(format, args...)
}
func (s *softTB) Fatalf(format string, args ...any) {
	if s.msg == "" {
		s.msg = fmt.Sprintf(format, args...)
	}
	panic(softAbort{})
}

// TestObservation_CompactedSourceFile: the source family is compacted (level 0 -> level 1)
// while its files still wait for rollup. DESIGN.md lists this outside the property's quantifier
// (flush / rollup / reopen only): doRollupWork looks the waiting files up in level 0 of the
// current version (GetFile(0, n)), does not find them any more, merges nothing, and the source
// family nevertheless marks them as rolled up. The outcome is only counted.
func TestObservation_CompactedSourceFile(t *testing.T) {
	const group = "TestObservation_CompactedSourceFile"
	rapid.Check(t, func(t *rapid.T) {
		p := genPlan(t)
		// keep the configuration, the families, the schema and the first (priming) write; then a second write
		g := &stepGen{t: t, p: p, last: map[string]int{}, mem: map[int]bool{}, pend: map[int]bool{}, onlyFam: -1, closed: map[int]bool{}, crashFam: -1}
		second := g.commit(g.write())
		p.Steps = []step{p.Steps[0], {Kind: "flush"}, second, {Kind: "flush"}, {Kind: "compact"}, {Kind: "rollup"}}
		p.Queries = nil
		canon, _ := json.Marshal(p)
		t.Logf("plan: %s", canon)

		soft := &softTB{t: t}
		outcome := "harness error"
		compacted := 0
		func() {
			dir, err := os.MkdirTemp("", "c04obs-")
			if err != nil {
				t.Fatalf("tempdir: %v", err)
			}
			caseCounter++
			e := &env{t: soft, p: p, dir: dir, classes: map[string]bool{}, db: fmt.Sprintf("%s%d", dbName, caseCounter)}
			defer func() {
				if e.n != nil {
					e.closeNode()
				}
				_ = os.RemoveAll(dir)
				if r := recover(); r != nil {
					if _, ok := r.(softAbort); !ok {
						panic(r)
					}
				}
			}()
			e.start(dir)
			if err := e.n.CreateDB(e.db, node.DBOption(intervals(p)...), models.ShardID(0)); err != nil {
				t.Fatalf("create database: %v", err)
			}
			for _, fp := range p.Families {
				e.fams = append(e.fams, &famState{pos: fp, idx: len(e.fams)})
			}
			e.openFamilies()
			e.registerMetrics()
			for _, s := range p.Steps {
				switch s.Kind {
				case "write":
					e.write(s.Points, false)
				case "flush":
					e.flush(nil)
				case "compact":
					for _, f := range e.fams {
						ran, err := kv.VerifCompactSync(f.df.Family(), true)
						if err != nil {
							t.Fatalf("compaction of source family %v: %v", f.pos, err)
						}
						if ran {
							compacted++
						}
					}
				case "rollup":
					e.rollup(s, "rollup")
				}
			}
			if soft.msg != "" {
				return
			}
			outcome = "every point reached the target"
			e.checkTargets("after compaction of the source family and rollup", e.rolledFiles)
		}()
		switch {
		case soft.msg != "" && strings.Contains(soft.msg, "misses"):
			outcome = "points of compacted source files are missing in the target although the files are marked as rolled up"
		case soft.msg != "":
			outcome = "other difference: " + strings.SplitN(soft.msg, ";", 2)[0]
		}
		classes := []string{"info: " + outcome}
		if compacted == 0 {
			classes = []string{"info: no source family had >= 2 level-0 files (nothing compacted)"}
		}
		ev.Case(group, string(canon), compacted > 0, classes, nil)
	})
	ev.Note("C04/compacted-source-file", "informational only: source files compacted to level 1 before the rollup ran are skipped by doRollupWork (GetFile(0, n)) yet marked as rolled up; see the class histogram of "+group)
}
