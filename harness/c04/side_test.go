package c04

// Side findings, outside property C04 (found while building this check; reported so they are
// not lost). They run only with VERIF_SIDE=1. The first two are repaired in /repo by now
// (035c997 and 3940569) and pass; the third one is open (proposed_fix_memdb_new_metric_store_gc.diff).
//
// First side finding:
// tsdb/memdb/database.go NewMemoryDatabase stamps a memory database with
// `createdTime: fasttime.UnixNano()` and uses that value as the KEY of the per-metric slot range
// kept in the shard-wide time series index (timeSeriesIndex.StoreTimeRange / GetTimeRange /
// ClearTimeRange). fasttime only advances every 5 ms. Two memory databases of one shard that
// are created within one tick (the two data families of a write batch that spans an hour
// boundary, e.g. the first batch after a restart or after both families were flushed) share the
// key: closing the first one after its flush (memoryDatabase.Close -> indexDB.Cleanup ->
// ClearTimeRange) deletes the entry, FlushFamilyTo of the second one then skips every metric
// ("flush next metric if not time range"), the flush reports success, the memory database is
// closed and its rows are gone (the replica sequence is acknowledged all the same).

import (
	"fmt"
	"os"
	"testing"
	"time"

	"github.com/lindb/common/pkg/fasttime"
	protoMetricsV1 "github.com/lindb/common/proto/gen/v1/linmetrics"

	"github.com/lindb/lindb/models"
	"github.com/lindb/lindb/pkg/timeutil"
	"github.com/lindb/lindb/series/metric"
	"github.com/lindb/lindb/verifharness/sim/node"
)

func TestSideFinding_MemdbCreatedInSameTickLosesFlush(t *testing.T) {
	if os.Getenv("VERIF_SIDE") == "" {
		t.Skip("side finding outside property C04; set VERIF_SIDE=1 to run")
	}
	dir, err := os.MkdirTemp("", "c04side-")
	if err != nil {
		t.Fatal(err)
	}
	defer os.RemoveAll(dir)
	n, err := node.Start(dir)
	if err != nil {
		t.Fatal(err)
	}
	defer n.Close()
	if err := n.CreateDB(dbName, node.DBOption(timeutil.Interval(10*sec)), models.ShardID(0)); err != nil {
		t.Fatal(err)
	}
	shard, _ := n.Shard(dbName, 0)
	db, _ := n.Engine.GetDatabase(dbName)
	h10 := time.Date(2023, 5, 17, 10, 0, 0, 0, time.UTC).UnixMilli()
	h11 := h10 + hour
	row := func(ts int64, v float64) *protoMetricsV1.Metric {
		return &protoMetricsV1.Metric{
			Name: "m", Timestamp: ts,
			Tags:         []*protoMetricsV1.KeyValue{{Key: "host", Value: "a"}},
			SimpleFields: []*protoMetricsV1.SimpleField{{Name: "f", Type: protoMetricsV1.SimpleFieldType_DELTA_SUM, Value: v}},
		}
	}
	f10, err := shard.GetOrCrateDataFamily(h10)
	if err != nil {
		t.Fatal(err)
	}
	f11, err := shard.GetOrCrateDataFamily(h11)
	if err != nil {
		t.Fatal(err)
	}
	countFiles := func() (int, int) {
		s10, s11 := f10.Family().GetSnapshot(), f11.Family().GetSnapshot()
		defer s10.Close()
		defer s11.Close()
		return len(s10.GetCurrent().GetAllFiles()), len(s11.GetCurrent().GetAllFiles())
	}
	for round := 1; round <= 200; round++ {
		// one batch with a row of 10:59:50 and a row of 11:00:00: both families create their memory database
		before := fasttime.UnixNano()
		if err := n.Write(dbName, 0, []*protoMetricsV1.Metric{row(h11-10*sec, 1), row(h11, 2)}); err != nil {
			t.Fatal(err)
		}
		sameTick := fasttime.UnixNano() == before
		a0, b0 := countFiles()
		if err := db.FlushMeta(); err != nil {
			t.Fatal(err)
		}
		if err := shard.FlushIndex(); err != nil {
			t.Fatal(err)
		}
		if err := f10.Flush(); err != nil {
			t.Fatal(err)
		}
		if err := f11.Flush(); err != nil {
			t.Fatal(err)
		}
		a1, b1 := countFiles()
		if a1 != a0+1 || b1 != b0+1 {
			t.Fatalf("round %d (both memory databases created within one fasttime tick: %v): flush of the 10:00 family wrote %d file(s), "+
				"flush of the 11:00 family wrote %d file(s); each family had one row in memory and both flushes returned nil",
				round, sameTick, a1-a0, b1-b0)
		}
		if sameTick {
			fmt.Printf("round %d: same tick, both families flushed their row\n", round)
			return
		}
	}
	t.Skip("never managed to create both memory databases within one fasttime tick")
}

// Second side finding (outside C04, subject of C09/C07): a metadata / index flush that has
// nothing new to write for one of the dictionary stores wedges that store for good.
//
// index/kv_store.go (namespace, metric name and tag value dictionaries, the shard's series
// dictionary), index/metric_schema_store.go and the forward / inverted index of
// index/metric_index_database.go share one pattern: PrepareFlush moves `mutable` to `immutable`
// only when `immutable == nil`; Flush returns early when `immutable` is empty and clears
// `immutable` only after it wrote something. A flush cycle without new entries therefore leaves
// an empty, non-nil `immutable` behind: every later PrepareFlush skips the swap, every later
// Flush sees the empty `immutable` and returns. Names created afterwards stay in `mutable`
// for ever; they resolve while the process lives and are gone after a clean shutdown
// (Database.Close flushes through the same path), while the data files keep the rows under ids
// that no dictionary knows any more.
func TestSideFinding_EmptyFlushWedgesDictionaryStores(t *testing.T) {
	if os.Getenv("VERIF_SIDE") == "" {
		t.Skip("side finding outside property C04; set VERIF_SIDE=1 to run")
	}
	dir, err := os.MkdirTemp("", "c04side-")
	if err != nil {
		t.Fatal(err)
	}
	defer os.RemoveAll(dir)
	n, err := node.Start(dir)
	if err != nil {
		t.Fatal(err)
	}
	defer func() { n.Close() }()
	opt := node.DBOption(timeutil.Interval(10 * sec))
	if err := n.CreateDB(dbName, opt, models.ShardID(0)); err != nil {
		t.Fatal(err)
	}
	h10 := time.Date(2023, 5, 17, 10, 0, 0, 0, time.UTC).UnixMilli()
	row := func(name, host string, v float64) *protoMetricsV1.Metric {
		return &protoMetricsV1.Metric{
			Name: name, Timestamp: h10,
			Tags:         []*protoMetricsV1.KeyValue{{Key: "host", Value: host}},
			SimpleFields: []*protoMetricsV1.SimpleField{{Name: "f", Type: protoMetricsV1.SimpleFieldType_DELTA_SUM, Value: v}},
		}
	}
	query := func(metricName string) string {
		c := node.NewCluster()
		defer c.Close()
		c.AddLeaf("leaf0:1", n.Engine, "")
		c.SetLayout(dbName, opt, map[string][]models.ShardID{"leaf0:1": {0}})
		rs, err := c.Query(dbName, "select f from "+metricName+" where time>='2023-05-17 10:00:00' and time<='2023-05-17 10:05:00' group by host")
		if err != nil {
			return "error: " + err.Error()
		}
		return node.Canon(rs).String()
	}
	// periodic flush #1 with data, periodic flush #2 with nothing new (the common case)
	if err := n.Write(dbName, 0, []*protoMetricsV1.Metric{row("first", "a", 1)}); err != nil {
		t.Fatal(err)
	}
	if err := n.FlushDB(dbName); err != nil {
		t.Fatal(err)
	}
	if err := n.FlushDB(dbName); err != nil {
		t.Fatal(err)
	}
	// a new metric and a new tag value arrive afterwards
	if err := n.Write(dbName, 0, []*protoMetricsV1.Metric{row("second", "b", 2)}); err != nil {
		t.Fatal(err)
	}
	before := query("second")
	if err := n.FlushDB(dbName); err != nil { // flush #3: reports success
		t.Fatal(err)
	}
	n.Close() // clean shutdown
	if n, err = node.Start(dir); err != nil {
		t.Fatal(err)
	}
	after := query("second")
	if before != after {
		t.Fatalf("metric written after an empty flush cycle is lost by flush + clean restart\nbefore restart:\n%safter restart:\n%s", before, after)
	}
}

// Third side finding (outside C04): metadataDatabase.gc removes a metric store that the write
// path has just created.
//
// tsdb/memdb/metadata_database.go handleFlush runs `mdb.gc(now - 1 day)` in the background after
// every metadata flush; gc deletes every metric store with `accessTime < now - 1 day`.
// tsdb/memdb/metric_store.go newMetricStore leaves accessTime = 0 until the first GenField call,
// and memoryDatabase.WriteRow does GetOrCreateMetricMeta(row) first and GenField per field a
// few statements later. A gc that runs in between (first row of a metric in this process right
// after a periodic metadata flush) deletes the new store from the map: the meta worker does not
// find it (`GetMetricMeta` fails, fields never become Persisted), the following rows create a
// second store, and the flush of the memory database skips the rows silently
// ("flush wrote no file": 197 of 200 rows of new metrics lost when the window is widened by a
// 2 ms sleep after GetOrCreateMetricMeta and 1 ms before gc; seen once in 16 000 cases of
// TestRollup on the loaded machine before the harness stopped using Database.FlushMeta).
// The test replays the interleaving at statement granularity: the row's store is created as
// WriteRow does, then a metadata flush runs, then the store must still be there.
func TestSideFinding_MetaGCDropsNewMetricStore(t *testing.T) {
	if os.Getenv("VERIF_SIDE") == "" {
		t.Skip("side finding outside property C04; set VERIF_SIDE=1 to run")
	}
	dir, err := os.MkdirTemp("", "c04side-")
	if err != nil {
		t.Fatal(err)
	}
	defer os.RemoveAll(dir)
	n, err := node.Start(dir)
	if err != nil {
		t.Fatal(err)
	}
	defer n.Close()
	if err := n.CreateDB(dbName, node.DBOption(timeutil.Interval(10*sec)), models.ShardID(0)); err != nil {
		t.Fatal(err)
	}
	db, _ := n.Engine.GetDatabase(dbName)
	block, err := node.Block([]*protoMetricsV1.Metric{{
		Name: "fresh", Timestamp: time.Date(2023, 5, 17, 10, 0, 0, 0, time.UTC).UnixMilli(),
		Tags:         []*protoMetricsV1.KeyValue{{Key: "host", Value: "a"}},
		SimpleFields: []*protoMetricsV1.SimpleField{{Name: "f", Type: protoMetricsV1.SimpleFieldType_DELTA_SUM, Value: 1}},
	}})
	if err != nil {
		t.Fatal(err)
	}
	rows := metric.NewStorageBatchRows()
	rows.UnmarshalRows(block)
	row := rows.Rows()[0]
	// WriteRow, first statement: the store of the new metric is created
	if _, isNew := db.MemMetaDB().GetOrCreateMetricMeta(row); !isNew {
		t.Fatal("harness: store existed")
	}
	// the periodic metadata flush (its gc runs in the background after the flush callback)
	if err := db.FlushMeta(); err != nil {
		t.Fatal(err)
	}
	deadline := time.Now().Add(500 * time.Millisecond)
	for time.Now().Before(deadline) {
		if _, ok := db.MemMetaDB().GetMetricMeta(row.NameHash()); !ok {
			t.Fatalf("the metric store created by the write path was removed by the gc of the metadata flush before its first field was registered")
		}
		time.Sleep(5 * time.Millisecond)
	}
}
