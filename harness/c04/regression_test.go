package c04

// Genuine defect found by the C04 check (Store.ForceRollup histories): kv/version/version.go
// (*version).Clone copies the OUTER map of the rollup reference files of a target family
// (source store -> source family -> files) but shares the INNER maps with the version it was
// cloned from. Versions are documented as read-only once installed ("current version is
// readonly, if modify version will clone a new one"); yet every commit that adds or deletes a
// reference (the rolled-up output of a job, the reference clean-up at its end) writes into the
// map of the installed version:
//
//   - Two source families of one day are rolled up concurrently into the same target family -
//     Store.ForceRollup and the periodic store check (store.compact) start the jobs of all families
//     of a store at once. Job A applies its reference clean-up to its clone (delete on the shared
//     inner map, not under the family version's lock, which only guards the swap) while job B reads
//     GetLiveReferenceFiles of the current version to decide what it may skip: the Go runtime stops the
//     process with "fatal error: concurrent map iteration and map write" (seen in TestRollup,
//     seed 100000000000001, stack in the report), or B reads a half-updated answer - the input of
//     the exactly-once decision of doRollupWork.
//   - The reference is visible in the CURRENT version before its edit log is persisted and
//     installed, and disappears from pinned old versions (below).
//
// The regression test shows the shared map without any concurrency: a reader takes a snapshot
// of the target family between the two last commits of a rollup job (the version then lists the
// reference to the rolled-up source file); after the job's reference clean-up the pinned,
// supposedly immutable version lists nothing any more.
//
// Proposed fix: proposed_fix_version_clone_shares_reference_maps.diff (deep copy in Clone).

import (
	"fmt"
	"os"
	"path/filepath"
	"reflect"
	"strconv"
	"strings"
	"sync"
	"testing"

	"github.com/lindb/lindb/kv"
	"github.com/lindb/lindb/kv/table"
	"github.com/lindb/lindb/kv/version"
	"github.com/lindb/lindb/models"
	"github.com/lindb/lindb/verifharness/sim/ev"
	"github.com/lindb/lindb/verifharness/sim/node"
)

const sigCloneSharesReferences = "C04/version-clone-shares-reference-file-maps"

func TestRegression_CloneSharesReferenceFileMaps(t *testing.T) {
	if ev.Known(sigCloneSharesReferences) {
		ev.KnownFinding("C04", "version.Clone shares the inner reference-file maps between versions; concurrent rollup jobs into one target family can stop the process ("+sigCloneSharesReferences+")")
		return // not skipped: the driver treats a skipped test as inconclusive
	}
	dir, err := os.MkdirTemp("", "c04reg-")
	if err != nil {
		t.Fatal(err)
	}
	ft := int64(1684317600000) // 2023-05-17 10:00 UTC
	p := &plan{Source: 10 * sec, Month: 5 * minute, Metrics: [][]int{{0}}, NSeries: 1,
		Families: []famPos{{Date: "2023-05-17", Hour: 10, Time: ft}}}
	caseCounter++
	e := &env{t: t, p: p, dir: dir, classes: map[string]bool{}, db: fmt.Sprintf("%s%d", dbName, caseCounter)}
	var snap version.Snapshot
	defer func() {
		version.VerifSetFSHook(nil)
		if snap != nil {
			snap.Close()
		}
		if e.n != nil {
			e.closeNode()
		}
		_ = os.RemoveAll(dir)
	}()
	// the reader: starts when the job commits on the SOURCE family (output and reference are
	// committed in the target family, the reference clean-up has not happened yet)
	// (the seam wraps the manifest writers when they are created: installed before the engine starts)
	var mu sync.Mutex
	armed := false
	var atTake map[string]map[version.FamilyID][]table.FileNumber
	seg, _, _ := targetPos(p.Month, ft)
	targetStore := filepath.Join(dir, "data", e.db, "shard", "0", "segment", typeDir(p.Month), seg)
	version.VerifSetFSHook(func(op, path string, before bool) {
		if op != "manifestWrite" || !before || !strings.Contains(path, "/segment/day/") || !strings.HasPrefix(path, dir) {
			return
		}
		mu.Lock()
		defer mu.Unlock()
		if !armed || snap != nil {
			return
		}
		st, ok := kv.GetStoreManager().GetStoreByName(targetStore)
		if !ok {
			return
		}
		if f := st.GetFamily("17"); f != nil {
			snap = f.GetSnapshot()
			atTake = snap.GetCurrent().GetAllReferenceFiles()
		}
	})
	e.start(dir)
	if targetStore != e.targetStoreName(p.Month, ft) {
		t.Fatalf("harness: target store name %s / %s", targetStore, e.targetStoreName(p.Month, ft))
	}
	if err := e.n.CreateDB(e.db, node.DBOption(intervals(p)...), models.ShardID(0)); err != nil {
		t.Fatal(err)
	}
	e.fams = []*famState{{pos: p.Families[0]}}
	e.openFamilies()
	e.write([]point{{Fam: 0, Metric: 0, Series: 0, TS: ft + 50*sec, Vals: []fv{{F: 0, K: 8}}}}, false)
	e.flush(nil)

	mu.Lock()
	armed = true
	mu.Unlock()
	kv.VerifRollup(e.fams[0].df.Family())
	waitRollup(e.fams[0].df.Family())
	version.VerifSetFSHook(nil)

	mu.Lock()
	defer mu.Unlock()
	if snap == nil {
		t.Fatal("harness: the rollup job did not commit on the source family / the target family 17 does not exist")
	}
	if len(atTake) != 1 {
		t.Fatalf("harness: the target version pinned before the reference clean-up lists references %v, expected the one of the rolled-up file", atTake)
	}
	if now := snap.GetCurrent().GetAllReferenceFiles(); !reflect.DeepEqual(atTake, now) {
		t.Fatalf("a pinned (read-only) version of the target family listed the reference files %v when the reader took its snapshot and lists %v after the job's reference clean-up committed a NEW version: version.Clone shares the inner maps of rollup.referenceFiles between versions",
			atTake, now)
	}
}

// TestStress_ConcurrentRollupJobsIntoOneTargetFamily (only with C04_STRESS=<rounds>; not part of
// the check: the failure is a runtime fatal error that ends the process): three hours of one day
// each get a file per round, Store.ForceRollup starts their three jobs at once, all merge into
// the same target family. Unchanged tree: "fatal error: concurrent map iteration and map write"
// (or a report of the race detector with -race) within a few hundred rounds; with the proposed
// fix it runs to the end.
func TestStress_ConcurrentRollupJobsIntoOneTargetFamily(t *testing.T) {
	rounds, _ := strconv.Atoi(os.Getenv("C04_STRESS"))
	if rounds <= 0 {
		t.Skip("set C04_STRESS=<rounds> to run")
	}
	dir, err := os.MkdirTemp("", "c04stress-")
	if err != nil {
		t.Fatal(err)
	}
	ft := int64(1684317600000) // 2023-05-17 10:00 UTC
	p := &plan{Source: 10 * sec, Month: 5 * minute, Metrics: [][]int{{0}}, NSeries: 1}
	for h := 0; h < 3; h++ {
		p.Families = append(p.Families, famPos{Date: "2023-05-17", Hour: 10 + h, Time: ft + int64(h)*hour})
	}
	caseCounter++
	e := &env{t: t, p: p, dir: dir, dirs: []string{dir}, classes: map[string]bool{}, db: fmt.Sprintf("%s%d", dbName, caseCounter), countFiles: true, compacted: map[string]int{}}
	defer func() {
		if e.n != nil {
			e.closeNode()
		}
		_ = os.RemoveAll(dir)
	}()
	e.start(dir)
	if err := e.n.CreateDB(e.db, node.DBOption(intervals(p)...), models.ShardID(0)); err != nil {
		t.Fatal(err)
	}
	for i, fp := range p.Families {
		e.fams = append(e.fams, &famState{pos: fp, idx: i})
	}
	e.openFamilies()
	for r := 0; r < rounds; r++ {
		var pts []point
		for f := range p.Families {
			pts = append(pts, point{Fam: f, Metric: 0, Series: 0, TS: p.Families[f].Time + int64(r%360)*10*sec, Vals: []fv{{F: 0, K: 8}}})
		}
		e.write(pts, false)
		e.flush(nil)
		e.rollup(step{Kind: "rollup", Force: true}, "rollup")
	}
	e.checkTargets("after the last round", e.rolledFiles)
}

// ---- failed manifest writes inside a rollup job ----------------------------------------------------
//
// Two genuine defects found by the I/O-fault class of TestRollup (step.Fault): the write of ONE
// manifest record fails (I/O error, disk full; the record is not written, the process lives on)
// and the job is retried by the next rollup. Both came from ignoring the result of
// family.commitEditLog; both are repaired in /repo (the diffs are kept next to this file).
//
//  1. Source commit (kv/family_rollup.go rollup(): `f.commitEditLog(editLog)`, result ignored):
//     the delete-rollup-file records were not committed, the source family kept listing the files,
//     but the job went on and committed the reference clean-up in the target families. Nothing then
//     said that the files were merged already: the next job merged them again, every sum doubled,
//     every cell stored twice. Fixed by cf89614 (proposed_fix_rollup_source_commit_error_ignored.diff).
//  2. Target commit (kv/compact_job.go installCompactionResults(): `c.family.commitEditLog(...)`,
//     result ignored, mergeCompaction returned nil): the rolled-up output and its reference records
//     were not committed, yet doRollupWork reported success, the source family committed "rolled up"
//     for the interval and the output table was deleted as obsolete: the points of those source files
//     never reached the target interval. Fixed by 36e355d (proposed_fix_rollup_target_commit_error_ignored.diff).
//
// The tests below fail when one of the defects is back in the tree.

// tryPlan runs a fixed plan and returns the first failure message ("" = the property held).
func tryPlan(t *testing.T, p *plan) (msg string) {
	rec := &recTB{inner: t}
	defer func() {
		if r := recover(); r != nil {
			if _, ok := r.(softAbort); !ok {
				panic(r)
			}
			msg = rec.msg
		}
	}()
	runPlan(rec, p)
	return rec.msg
}

func faultRegression(t *testing.T, sig, fault, what string) {
	ft := int64(1684317600000) // 2023-05-17 10:00 UTC
	a := point{Fam: 0, Metric: 0, Series: 0, TS: ft + 50*sec, Vals: []fv{{F: 0, K: 8}}}
	b := point{Fam: 0, Metric: 0, Series: 0, TS: ft + 70*sec, Vals: []fv{{F: 0, K: 16}}}
	p := &plan{Source: 10 * sec, Month: 5 * minute, Metrics: [][]int{{0}}, NSeries: 1,
		Families: []famPos{{Date: "2023-05-17", Hour: 10, Time: ft}},
		Steps: []step{
			{Kind: "write", Points: []point{a}}, {Kind: "flush"},
			{Kind: "rollup", Fault: fault}, // one manifest write of the job fails
			{Kind: "write", Points: []point{b}}, {Kind: "flush"},
			{Kind: "rollup"}, {Kind: "rollup"}, // the retry, and once more
		}}
	if msg := tryPlan(t, p); msg != "" {
		t.Fatalf("%s (%s): %s", what, sig, msg)
	}
}

func TestRegression_RollupSourceCommitErrorIgnored(t *testing.T) {
	faultRegression(t, sigSourceCommitErrorIgnored, "source",
		"a failed source commit of a rollup job is ignored, the references are cleaned all the same and the retried job merges the files again")
}

func TestRegression_RollupTargetCommitErrorIgnored(t *testing.T) {
	faultRegression(t, sigTargetCommitErrorIgnored, "target1",
		"a failed target commit of a rollup job is ignored, the source family marks the files as rolled up and the target never gets their points")
}

// TestRegression_CrashInWindowThenNewFileThenRetry: the shape the crash continuation of TestRollup
// is built around, as a plain test (holds on this tree): file A is merged into the target, the
// process dies before the source family acknowledged it, restart, file B is flushed into the same
// source family, the retried job is asked for {A, B}, must merge only B - and dies again in the
// same window; after the second retry (and a compaction of the target in between) every slot
// holds A and B exactly once.
func TestRegression_CrashInWindowThenNewFileThenRetry(t *testing.T) {
	ft := int64(1684317600000) // 2023-05-17 10:00 UTC
	pt := func(off int64, k int) point {
		return point{Fam: 0, Metric: 0, Series: 0, TS: ft + off*sec, Vals: []fv{{F: 0, K: k}, {F: 2, K: k}}}
	}
	p := &plan{Source: 10 * sec, Month: 5 * minute, Year: 2 * hour, Metrics: [][]int{{0, 2}}, NSeries: 1,
		Families: []famPos{{Date: "2023-05-17", Hour: 10, Time: ft}},
		Steps: []step{
			{Kind: "write", Points: []point{pt(50, 8), pt(310, 3)}}, {Kind: "flush"},
			{Kind: "rollup", Crash: "beforeSourceCommit", Restarts: 2},
			{Kind: "write", Points: []point{pt(70, 16), pt(50, 1)}}, {Kind: "flush"},
			{Kind: "rollup", Crash: "beforeSourceCommit", Restarts: 1},
			{Kind: "compactTarget", Target: 2},
			{Kind: "write", Points: []point{pt(90, 5)}}, {Kind: "flush"},
			{Kind: "rollup"}, {Kind: "rollup"},
		},
		Queries: []qspec{{Target: 0, Metric: 0, Field: 0, Fam: 0}}}
	classes, _ := runPlan(t, p)
	need := []string{
		"crash image in the window target commit .. source commit (files merged, still listed by the source)",
		"after a crash in the window: new file flushed into the SAME source family before the retry",
		"retry: a job is asked for {already merged, new} files of one interval (must merge only the new ones)",
		"retry: ... and the process dies again inside that job",
		"target family compacted while it holds reference records (interrupted job not yet retried)",
	}
	have := map[string]bool{}
	for _, c := range classes {
		have[c] = true
	}
	for _, c := range need {
		if !have[c] {
			t.Fatalf("harness: the plan did not reach the class %q; classes: %v", c, classes)
		}
	}
}
