package c04

import (
	"fmt"
	"os"
	"testing"
	"time"

	protoMetricsV1 "github.com/lindb/common/proto/gen/v1/linmetrics"

	"github.com/lindb/lindb/models"
	"github.com/lindb/lindb/pkg/timeutil"
	"github.com/lindb/lindb/tsdb"
	"github.com/lindb/lindb/verifharness/sim/node"
)

// stress: FlushMeta immediately followed by the first row of a new metric.
func TestProbeGCRace(t *testing.T) {
	dir, _ := os.MkdirTemp("", "c04p-")
	defer os.RemoveAll(dir)
	n, err := node.Start(dir)
	if err != nil {
		t.Fatal(err)
	}
	defer n.Close()
	if err := n.CreateDB("dbp", node.DBOption(timeutil.Interval(10*sec)), models.ShardID(0)); err != nil {
		t.Fatal(err)
	}
	shard, _ := n.Shard("dbp", 0)
	db, _ := n.Engine.GetDatabase("dbp")
	h0 := time.Date(2023, 6, 1, 5, 0, 0, 0, time.UTC).UnixMilli()
	fam, _ := shard.GetOrCrateDataFamily(h0)
	lost := 0
	for i := 0; i < 3000; i++ {
		if err := db.FlushMeta(); err != nil {
			t.Fatal(err)
		}
		name := fmt.Sprintf("g%d", i)
		row := &protoMetricsV1.Metric{Name: name, Timestamp: h0 + 10*sec, Tags: []*protoMetricsV1.KeyValue{{Key: "host", Value: "a"}},
			SimpleFields: []*protoMetricsV1.SimpleField{{Name: "f", Type: protoMetricsV1.SimpleFieldType_DELTA_SUM, Value: 1}}}
		if err := n.Write("dbp", 0, []*protoMetricsV1.Metric{row}); err != nil {
			t.Fatal(err)
		}
		before := fileCount(fam)
		if err := db.FlushMeta(); err != nil {
			t.Fatal(err)
		}
		if err := shard.FlushIndex(); err != nil {
			t.Fatal(err)
		}
		if err := fam.Flush(); err != nil {
			t.Fatal(err)
		}
		if fileCount(fam) != before+1 {
			lost++
			fmt.Printf("iteration %d: flush wrote no file for the row of new metric %s\n", i, name)
		}
		time.Sleep(time.Duration(i%3) * time.Millisecond)
	}
	fmt.Println("lost", lost, "of 3000")
}

func fileCount(f tsdbFamily) int {
	s := f.Family().GetSnapshot()
	defer s.Close()
	return len(s.GetCurrent().GetAllFiles())
}
type tsdbFamily = tsdb.DataFamily
