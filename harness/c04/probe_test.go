package c04

import (
	"fmt"
	"os"
	"testing"
	"time"

	protoMetricsV1 "github.com/lindb/common/proto/gen/v1/linmetrics"

	"github.com/lindb/lindb/kv"
	"github.com/lindb/lindb/pkg/timeutil"
	"github.com/lindb/lindb/verifharness/sim/node"
)

func mk(name string, ts int64, host string, v float64) *protoMetricsV1.Metric {
	return &protoMetricsV1.Metric{
		Name: name, Timestamp: ts,
		Tags:         []*protoMetricsV1.KeyValue{{Key: "host", Value: host}},
		SimpleFields: []*protoMetricsV1.SimpleField{{Name: "f", Type: protoMetricsV1.SimpleFieldType_DELTA_SUM, Value: v}},
	}
}

func TestProbe(t *testing.T) {
	time.Local = time.UTC
	dir, _ := os.MkdirTemp("", "c04p-")
	defer os.RemoveAll(dir)
	n, err := node.Start(dir)
	if err != nil {
		t.Fatal(err)
	}
	defer n.Close()
	opt := node.DBOption(timeutil.Interval(10_000), timeutil.Interval(300_000), timeutil.Interval(3_600_000))
	if err := n.CreateDB("db", opt, 0); err != nil {
		t.Fatal(err)
	}
	base := time.Date(2023, 5, 1, 10, 0, 0, 0, time.UTC).UnixMilli()
	if err := n.Write("db", 0, []*protoMetricsV1.Metric{mk("m", base, "a", 1), mk("m", base+10_000, "a", 2), mk("m", base, "b", 4)}); err != nil {
		t.Fatal(err)
	}
	if err := n.FlushDB("db"); err != nil {
		t.Fatal(err)
	}
	fams, _ := n.Families("db", 0)
	for _, f := range fams {
		fmt.Println("family", f.Indicator(), f.Interval(), f.Family().Name(), f.Family().ID())
		snap := f.Family().GetSnapshot()
		fmt.Println(" rollup files", snap.GetCurrent().GetRollupFiles())
		snap.Close()
		kv.VerifRollup(f.Family())
		kv.VerifWaitIdle(f.Family())
		snap = f.Family().GetSnapshot()
		fmt.Println(" rollup files after", snap.GetCurrent().GetRollupFiles())
		snap.Close()
	}
	for _, s := range kv.GetStoreManager().GetStores() {
		fmt.Println("store", s.Name(), s.ListFamilyNames())
		for _, fn := range s.ListFamilyNames() {
			fam := s.GetFamily(fn)
			snap := fam.GetSnapshot()
			v := snap.GetCurrent()
			fmt.Println("  family", fn, "files", len(v.GetAllFiles()), "ref", v.GetAllReferenceFiles(), "rollup", v.GetRollupFiles())
			snap.Close()
		}
	}
}
