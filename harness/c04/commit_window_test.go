package c04

// Harness-owned interleaving: a rollup job of a source family is triggered INSIDE the commit of a
// flush of that source store.
//
// A flush of a source family publishes its new file and registers it for every rollup interval
// by committing an edit log to the manifest of the source store (storeFlusher.Commit ->
// storeVersionSet.CommitFamilyEditLog). The periodic store job (store.compact: needRollup ->
// family.rollup) and Store.ForceRollup start the background rollup job of a family on another
// goroutine at any time, also while that commit is under way. The version-set seam reports the
// manifest write and the manifest sync of every commit (before / after each): at the seam events
// of the commit(s) of one flush - whichever number of records the flush writes - the case
// triggers family.rollup() of a drawn family (mostly the one being flushed) and lets the job run
// as far as it can: to its end, or until it waits for the version-set lock of the source store
// that the flush holds (its source commit). Then the flush goes on.
//
// What the property requires: the job that started inside the commit merges exactly the files
// that were waiting before the flush (the model fixes its inputs at the trigger); the file of
// the flush under way keeps waiting for every interval and is merged exactly once by a later
// job; nothing is marked as rolled up that the target does not hold (bookkeeping check after
// the step, target content check after every step).

import (
	"fmt"
	"os"
	"runtime"
	"strings"
	"sync"
	"time"

	"pgregory.net/rapid"

	"github.com/lindb/lindb/kv"
)

// commitRoll (flush step): while the flush of every family of the step commits, the rollup job of
// family Fam (-1: the family being flushed) is triggered at seam event Seam of that flush's
// manifest traffic on the source store (events counted from 0 over manifestWrite-before,
// manifestWrite-after, manifestSync-before, manifestSync-after of every record the flush
// writes); Seam == -1: at every seam event.
type commitRoll struct {
	Fam  int `json:"fam"`
	Seam int `json:"seam"`
}

// maxCommitSeam: single-seam draws range over the seam events of two manifest records; a flush
// that writes fewer records does not reach the later ones (counted as a class).
const maxCommitSeam = 7

type commitWindow struct {
	mu    sync.Mutex
	armed bool
	root  string // source store directory of the family being flushed
	gid   string // goroutine that runs the flush
	n     int
	fire  func(n int, seam string)
}

var theCommitWindow = &commitWindow{}

// goroutineID: the "goroutine N" prefix of the caller's stack header. Manifest writes of the
// source store also come from the rollup job's own goroutine (its source commit, as soon as the
// flush has released the version-set lock); only the events of the flush's goroutine are seams
// of the flush.
func goroutineID() string {
	var buf [64]byte
	s := string(buf[:runtime.Stack(buf[:], false)])
	s = strings.TrimPrefix(s, "goroutine ")
	if i := strings.IndexByte(s, ' '); i > 0 {
		return s[:i]
	}
	return s
}

func (w *commitWindow) hook(op, path string, before bool) {
	if op != "manifestWrite" && op != "manifestSync" {
		return
	}
	w.mu.Lock()
	if !w.armed || !strings.HasPrefix(path, w.root) || goroutineID() != w.gid {
		w.mu.Unlock()
		return
	}
	n, fire := w.n, w.fire
	w.n++
	w.mu.Unlock()
	seam := op + "-after"
	if before {
		seam = op + "-before"
	}
	fire(n, seam)
}

func (w *commitWindow) arm(root string, fire func(n int, seam string)) {
	w.mu.Lock()
	defer w.mu.Unlock()
	w.armed, w.root, w.gid, w.n, w.fire = true, root, goroutineID(), 0, fire
}

func (w *commitWindow) disarm() (events int) {
	w.mu.Lock()
	defer w.mu.Unlock()
	w.armed, w.fire = false, nil
	return w.n
}

// rollupJobWaitsForSourceCommit: some goroutine that runs the body of family.rollup() is parked
// on a lock inside the commit of the job's own edit log (family.commitEditLog called from the job
// body itself: the source commit; the target commits and the reference clean-ups are called from
// doRollupWork / cleanReferenceFiles and take the locks of the target store, which nobody holds).
func rollupJobWaitsForSourceCommit() bool {
	for _, g := range strings.Split(allStacks(), "\n\n") {
		if !strings.Contains(g, "kv.(*family).rollup.func") || !strings.Contains(g, "ommitFamilyEditLog") ||
			strings.Contains(g, "doRollupWork") || strings.Contains(g, "cleanReferenceFiles") {
			continue
		}
		header := g
		if i := strings.IndexByte(g, '\n'); i > 0 {
			header = g[:i]
		}
		if strings.Contains(header, "Mutex") || strings.Contains(header, "semacquire") {
			return true
		}
	}
	return false
}

// pendingJob: a job triggered inside a commit whose end the model has not booked yet.
type pendingJob struct {
	f  *famState
	in *jobInputs
}

func (e *env) bookJob(j *pendingJob) {
	e.jobSeq++
	j.in.complete(e.jobSeq)
	j.f.rollups++
}

func sourceStoreDir(e *env, f *famState) string {
	return e.n.Dir + "/data/" + e.db + "/shard/0/segment/day/" + time.UnixMilli(f.pos.Time).UTC().Format("20060102") + "/"
}

// flushFamilyInsideWindow flushes the data family of f with the commit window armed.
func (e *env) flushFamilyInsideWindow(f *famState, cr *commitRoll, when string) error {
	j := f
	if cr.Fam >= 0 {
		j = e.fams[cr.Fam]
	}
	fam := j.df.Family()
	var pending *pendingJob
	failure := ""
	fired := false
	fire := func(n int, seam string) {
		if failure != "" || (cr.Seam >= 0 && n != cr.Seam) {
			return
		}
		fired = true
		triggered := false
		deadline := time.Now().Add(watchdog) // watchdog of the harness, never reached by a healthy run
		for {
			if kv.VerifRollupIdle(fam) {
				if pending != nil {
					e.bookJob(pending) // the job ended inside the commit
					pending = nil
				}
				if triggered {
					e.class("rollup inside a flush commit: the job ended inside the commit (nothing to acknowledge on the source side)")
					return
				}
				// the job takes the files that wait NOW: the file of the flush under way is not
				// published yet (memToFile comes after the flush), so it is not an input
				in := e.jobInputs(j)
				pending = &pendingJob{f: j, in: in}
				if len(in.files) > 0 {
					e.class("rollup inside a flush commit: the job has older files to merge")
					if j == f {
						e.class("rollup inside a flush commit: older files of the SAME family merged while its next file is being committed")
					}
				}
				kv.VerifRollup(fam)
				triggered = true
				e.class("rollup inside a flush commit: triggered at " + seam)
				if n >= 4 {
					e.class("rollup inside a flush commit: triggered at a seam of a second manifest record of the flush")
				}
				continue
			}
			if rollupJobWaitsForSourceCommit() {
				if !triggered {
					// a job triggered at an earlier seam of this flush is still waiting: the trigger is a
					// no-op for the running job (family.rollup's guard), as a second ForceRollup would be
					kv.VerifRollup(fam)
					e.class("rollup inside a flush commit: triggered again while the job waits for the flush (no-op)")
				} else {
					e.class("rollup inside a flush commit: the job waits for the version-set lock held by the flush (source commit)")
				}
				return
			}
			if time.Now().After(deadline) {
				failure = fmt.Sprintf("harness: rollup job triggered at %s neither ended nor reached its source commit:\n%s", seam, kvStacks())
				return
			}
			runtime.Gosched()
			time.Sleep(20 * time.Microsecond)
		}
	}
	theCommitWindow.arm(sourceStoreDir(e, f), fire)
	err := f.df.Flush()
	events := theCommitWindow.disarm()
	waitRollup(fam)
	if pending != nil {
		e.bookJob(pending)
	}
	if failure != "" {
		e.fatalf("%s: %s", when, failure)
	}
	switch {
	case events == 0:
		e.class("rollup inside a flush commit: the flush committed nothing (no rows in memory)")
	case !fired:
		e.class(fmt.Sprintf("rollup inside a flush commit: seam not reached (the flush produced %d seam events)", events))
	}
	if j != f {
		e.class("rollup inside a flush commit: job of ANOTHER source family")
		if sourceStoreDir(e, j) == sourceStoreDir(e, f) {
			e.class("rollup inside a flush commit: job of another family of the same source store")
		}
	}
	if cr.Seam < 0 {
		e.class("rollup inside a flush commit: trigger at every seam event")
	}
	return err
}

// commitWindowEpisode: optionally older files of the focus family (flushed, mostly not rolled up
// yet), new rows, then the flush with the rollup trigger inside its commit, then 1-2 ordinary
// rollup steps that include the family (the file of that flush is merged by them, once).
func (g *stepGen) commitWindowEpisode(mkRollup func(must int) step) (rs []step) {
	t := g.t
	focus := rapid.IntRange(0, len(g.p.Families)-1).Draw(t, "windowFamily")
	write := func() {
		if rapid.IntRange(0, 4).Draw(t, "windowFocus") > 0 {
			g.onlyFam = focus
		}
		rs = append(rs, g.writeStep())
		g.onlyFam = -1
	}
	for i, n := 0, rapid.SampledFrom([]int{0, 1, 1, 1, 2}).Draw(t, "windowFilesBefore"); i < n; i++ {
		write()
		rs = append(rs, g.flushWith(focus))
		if rapid.IntRange(0, 4).Draw(t, "windowRollupBefore") == 0 {
			rs = append(rs, mkRollup(focus))
		}
	}
	write()
	rs = append(rs, g.flushInsideWindow(focus))
	for i, n := 0, rapid.IntRange(1, 2).Draw(t, "windowRollupsAfter"); i < n; i++ {
		rs = append(rs, mkRollup(focus))
	}
	return rs
}

// flushInsideWindow: a flush step (must >= 0 is one of its families) with a rollup trigger inside
// the commits.
func (g *stepGen) flushInsideWindow(must int) step {
	t := g.t
	// the job takes what waits before the flush: the generator's estimate of "pending" stays set
	// for the flushed families (their new file waits) and is cleared for a job family that is not flushed
	s := step{Kind: "flush", Families: g.subset("flush", must)}
	cr := &commitRoll{Fam: -1, Seam: -1}
	if rapid.IntRange(0, 2).Draw(t, "windowSingleSeam") == 0 {
		cr.Seam = rapid.IntRange(0, maxCommitSeam).Draw(t, "windowSeam")
	}
	if len(g.p.Families) > 1 && rapid.IntRange(0, 4).Draw(t, "windowOtherFamily") == 0 {
		cr.Fam = rapid.IntRange(0, len(g.p.Families)-1).Draw(t, "windowJobFamily")
	}
	s.RollAt = cr
	if cr.Fam >= 0 && len(g.closed) == 0 {
		flushedToo := len(s.Families) == 0
		for _, x := range s.Families {
			flushedToo = flushedToo || x == cr.Fam
		}
		if !flushedToo {
			delete(g.pend, cr.Fam)
		}
	}
	g.flushed(s.Families)
	return s
}

var watchdog = 2 * time.Minute

func init() {
	if v := os.Getenv("C04_WATCHDOG"); v != "" {
		if d, err := time.ParseDuration(v); err == nil {
			watchdog = d
		}
	}
}

// allStacks: the stacks of all goroutines (the engine leaves thousands of idle cache janitors
// behind over a run, so the buffer grows until the dump fits).
var stackBuf = make([]byte, 4<<20)

func allStacks() string {
	for {
		n := runtime.Stack(stackBuf, true)
		if n < len(stackBuf) {
			return string(stackBuf[:n])
		}
		stackBuf = make([]byte, 2*len(stackBuf))
	}
}

// kvStacks: the goroutines that are inside lindb's kv package (for the watchdog's message).
func kvStacks() string {
	var rs []string
	for _, g := range strings.Split(allStacks(), "\n\n") {
		if strings.Contains(g, "lindb/kv.") {
			rs = append(rs, g)
		}
	}
	return strings.Join(rs, "\n\n")
}

// ---- the periodic store job as the trigger ---------------------------------------------------------

// rollupThreshold: kv's default for the number of waiting files from which the periodic job
// starts a family's rollup job at once (kv.defaultRollupThreshold; tsdb sets no other value).
const rollupThreshold = 3

// periodicGate asks the production gate of the periodic store job (store.compact: needRollup,
// then rollup) for family f and checks the part of its answer that does not depend on the clock:
// nothing waits -> no job; at least rollupThreshold files wait (and no job is running) -> the
// job starts now. In between the gate compares the time since the family's last job (or its
// creation) with the smallest waiting target interval (>= 5 min) plus a random part: not asserted,
// the step does what the gate says.
func (e *env) periodicGate(f *famState, when string) bool {
	waiting, _ := f.waiting(e.p.targets())
	got := kv.VerifNeedRollup(f.df.Family())
	switch {
	case len(waiting) == 0:
		e.class("periodic rollup check: nothing waits")
		if got {
			e.fatalf("%s: source family %s %02d:00: the periodic job wants to roll up although no file of the family waits for any interval", when, f.pos.Date, f.pos.Hour)
		}
	case len(waiting) >= rollupThreshold:
		e.class(fmt.Sprintf("periodic rollup check: >= %d files wait (job must start)", rollupThreshold))
		if !got {
			e.fatalf("%s: source family %s %02d:00: %d files wait for rollup (threshold %d), no job is running, and the periodic job does not start one",
				when, f.pos.Date, f.pos.Hour, len(waiting), rollupThreshold)
		}
	case got:
		e.class("periodic rollup check: below the threshold, started by the time rule")
	default:
		e.class("periodic rollup check: below the threshold, not started (time rule)")
	}
	return got
}

// periodicEpisode: 3-4 files flushed into one focus family without a rollup in between, then the
// periodic job (must start the family's job), then optionally the periodic job again (nothing
// waits any more) or after one more file.
func (g *stepGen) periodicEpisode(mkRollup func(must int) step) (rs []step) {
	t := g.t
	focus := rapid.IntRange(0, len(g.p.Families)-1).Draw(t, "periodicFamily")
	round := func() {
		g.onlyFam = focus
		rs = append(rs, g.writeStep())
		g.onlyFam = -1
		rs = append(rs, g.flushWith(focus))
	}
	for i, n := 0, rapid.IntRange(3, 4).Draw(t, "periodicFiles"); i < n; i++ {
		round()
	}
	g.periodicNext = true
	rs = append(rs, mkRollup(focus))
	switch rapid.IntRange(0, 2).Draw(t, "periodicAgain") {
	case 1:
		g.periodicNext = true
		rs = append(rs, mkRollup(focus))
	case 2:
		round()
		g.periodicNext = true
		rs = append(rs, mkRollup(focus))
	}
	return rs
}
