package c10

import (
	"fmt"
	"os"
	"testing"
	"time"

	"github.com/lindb/common/pkg/logger"
	protoMetricsV1 "github.com/lindb/common/proto/gen/v1/linmetrics"

	"github.com/lindb/lindb/kv"
	"github.com/lindb/lindb/models"
	"github.com/lindb/lindb/pkg/timeutil"
	"github.com/lindb/lindb/sql"
	"github.com/lindb/lindb/sql/stmt"
	"github.com/lindb/lindb/verifharness/sim/node"
)

func init() {
	time.Local = time.UTC
	_ = logger.RunningAtomicLevel.UnmarshalText([]byte("error"))
}

func mk(name string, ts int64, v float64, kvs ...string) *protoMetricsV1.Metric {
	m := &protoMetricsV1.Metric{Name: name, Timestamp: ts,
		SimpleFields: []*protoMetricsV1.SimpleField{{Name: "f", Type: protoMetricsV1.SimpleFieldType_DELTA_SUM, Value: v}}}
	for i := 0; i+1 < len(kvs); i += 2 {
		m.Tags = append(m.Tags, &protoMetricsV1.KeyValue{Key: kvs[i], Value: kvs[i+1]})
	}
	return m
}

func TestProbeParse(t *testing.T) {
	for _, s := range []string{
		"select f from m where host='a' or host='b' and zone like 'x*' and time>='2023-05-01 10:00:00' and time<='2023-05-01 10:05:00' group by uid limit 100000",
		"select f from m where time>='2023-05-01 10:00:00' and time<='2023-05-01 10:05:00' and (host not in ('a',\"b'c\") or (host !~ 'x' and zone <> 'q')) group by uid,host",
		"select f from m where host like '*'",
		"select f from m where host = ''",
	} {
		st, err := sql.Parse(s)
		if err != nil {
			t.Logf("%s -> err %v", s, err)
			continue
		}
		q := st.(*stmt.Query)
		t.Logf("%s\n   cond=%#v rewrite=%s groupby=%v limit=%d", s, q.Condition, q.Condition.Rewrite(), q.GroupBy, q.Limit)
	}
}

func TestProbeWedge(t *testing.T) {
	dir, _ := os.MkdirTemp("", "c10p-")
	defer os.RemoveAll(dir)
	n, err := node.Start(dir)
	if err != nil {
		t.Fatal(err)
	}
	opt := node.DBOption(timeutil.Interval(10_000))
	if err := n.CreateDB("db", opt, 0); err != nil {
		t.Fatal(err)
	}
	base := time.Date(2023, 5, 1, 10, 0, 0, 0, time.UTC).UnixMilli()
	q := func(n *node.Node, what string) {
		c := node.NewCluster()
		defer c.Close()
		c.AddLeaf("leaf0:1", n.Engine, "")
		c.SetLayout("db", opt, map[string][]models.ShardID{"leaf0:1": {0}})
		for _, m := range []string{"m", "m2"} {
			rs, err := c.Query("db", "select f from "+m+" where time>='2023-05-01 10:00:00' and time<='2023-05-01 10:05:00' group by host limit 1000")
			t.Logf("%s: %s err=%v\n%s", what, m, err, node.Canon(rs).String())
		}
	}
	// flush with nothing written
	if err := n.FlushDB("db"); err != nil {
		t.Fatal(err)
	}
	if err := n.Write("db", 0, []*protoMetricsV1.Metric{mk("m", base, 1, "host", "a")}); err != nil {
		t.Fatal(err)
	}
	if err := n.FlushDB("db"); err != nil {
		t.Fatal(err)
	}
	if err := n.Write("db", 0, []*protoMetricsV1.Metric{mk("m2", base, 1, "host", "b")}); err != nil {
		t.Fatal(err)
	}
	if err := n.FlushDB("db"); err != nil {
		t.Fatal(err)
	}
	q(n, "before reopen")
	for _, s := range kv.GetStoreManager().GetStores() {
		for _, fn := range s.ListFamilyNames() {
			f := s.GetFamily(fn)
			snap := f.GetSnapshot()
			t.Logf("store %s family %s files=%d", s.Name(), fn, snap.GetCurrent().NumberOfFilesInLevel(0))
			snap.Close()
		}
	}
	n.Close()
	n2, err := node.Start(dir)
	if err != nil {
		t.Fatal(err)
	}
	defer n2.Close()
	q(n2, "after reopen")
}

func TestProbeBig(t *testing.T) {
	dir, _ := os.MkdirTemp("", "c10p-")
	defer os.RemoveAll(dir)
	n, err := node.Start(dir)
	if err != nil {
		t.Fatal(err)
	}
	defer n.Close()
	opt := node.DBOption(timeutil.Interval(10_000))
	if err := n.CreateDB("db", opt, 0); err != nil {
		t.Fatal(err)
	}
	base := time.Date(2023, 5, 1, 10, 0, 0, 0, time.UTC).UnixMilli()
	t0 := time.Now()
	var ms []*protoMetricsV1.Metric
	for i := 0; i < 70000; i++ {
		ms = append(ms, mk("m", base, 1, "uid", fmt.Sprintf("u%06d", i)))
	}
	if err := n.Write("db", 0, ms); err != nil {
		t.Fatal(err)
	}
	t.Logf("write 70000: %v", time.Since(t0))
	t0 = time.Now()
	if err := n.FlushDB("db"); err != nil {
		t.Fatal(err)
	}
	t.Logf("flush: %v", time.Since(t0))
}
