package c10

import (
	"fmt"
	"os"
	"path/filepath"
	"sort"
	"strings"
	"sync"
	"sync/atomic"
	"time"

	commonmodels "github.com/lindb/common/models"
	protoMetricsV1 "github.com/lindb/common/proto/gen/v1/linmetrics"

	commonconstants "github.com/lindb/common/constants"
	"github.com/lindb/lindb/kv"
	"github.com/lindb/lindb/models"
	"github.com/lindb/lindb/pkg/option"
	"github.com/lindb/lindb/pkg/timeutil"
	"github.com/lindb/lindb/tsdb"
	"github.com/lindb/lindb/verifharness/sim/ev"
	"github.com/lindb/lindb/verifharness/sim/node"
)

// failer is what rapid.T and testing.T share.
type failer interface {
	Fatalf(format string, args ...any)
	Logf(format string, args ...any)
}

const (
	timeRange = "time>='2023-05-01 10:00:00' and time<='2023-05-01 10:05:00'"
	limitText = " limit 1000000"
)

var worldSeq int

var baseTS = time.Date(2023, 5, 1, 10, 0, 0, 0, time.UTC).UnixMilli()

// seriesT is one written series of the reference model.
type seriesT struct {
	Metric string
	Shard  models.ShardID
	UID    string
	Tags   map[string]string // all tags, including uid
	Writes int               // number of points written (each has value 1 at baseTS)
	// Jump > 0: series id plan (idplan_test.go): when this series is created, the series sequence of its
	// (metric, shard) continues at this id
	Jump uint32
}

// world = one engine + cluster + the model of what was written.
type world struct {
	t      failer
	dir    string
	db     string // database name, unique per world (see newWorld)
	n      *node.Node
	c      *node.Cluster
	opt    *option.DatabaseOption
	shards []models.ShardID
	leaves int

	series []*seriesT
	byUID  map[string]*seriesT
	warmed map[string]bool // metrics the in-memory metadata knows (see warm)

	version     int  // bumped by every write
	everPrep    bool // PrepareFlush invoked directly and not yet followed by the matching flush
	compactions int  // compaction jobs that really ran
	reopened    int
	// the tag value dictionary was compacted; ...Visible: and its store has re-read the snapshot since
	dictCompactedPending, dictCompactedVisible bool
	log                                        []string
	logMu                                      sync.Mutex // operations nested inside a flush log from their own goroutine
	lastQueryNote                              atomic.Value
	bodyNotJudged                              bool // withSeams: the lookup overlapped the step nested inside it (bounded wait expired)

	// series id plans (idplan_test.go), evidence book-keeping only
	planned                    map[string]bool // (shard, metric) pairs whose sequence was moved
	idJumpsDropped             int
	lastCompacted              []string // "<store>/<family>" of the families the last compaction step merged
	fwdCompactedOverContainers bool
}

func newWorld(t failer, shards []models.ShardID, leaves int) *world {
	dir, err := os.MkdirTemp("", "c10-")
	if err != nil {
		t.Fatalf("harness: %v", err)
	}
	// lindb never stops the three query pools of a closed database, and the pools of all databases
	// with one name share the workers_alive gauge: with a fixed name the leaked idle workers of
	// earlier cases make the pools of a new case wait (5 s idle timeout) before they may start a
	// worker. A fresh name per world avoids that; the name has no influence on any answer.
	worldSeq++
	w := &world{t: t, dir: dir, db: fmt.Sprintf("db%d", worldSeq), shards: shards, leaves: leaves, byUID: map[string]*seriesT{}, warmed: map[string]bool{}}
	w.opt = node.DBOption(timeutil.Interval(10_000))
	w.start()
	if err := w.n.CreateDB(w.db, w.opt, shards...); err != nil {
		w.close()
		t.Fatalf("harness: create db: %v", err)
	}
	return w
}

func (w *world) start() {
	n, err := node.Start(w.dir)
	if err != nil {
		w.t.Fatalf("harness: start engine: %v", err)
	}
	w.n = n
	w.c = node.NewCluster()
	layout := map[string][]models.ShardID{}
	for i := 0; i < w.leaves; i++ {
		name := fmt.Sprintf("leaf%d:1", i)
		w.c.AddLeaf(name, n.Engine, "")
	}
	for i, s := range w.shards {
		name := fmt.Sprintf("leaf%d:1", i%w.leaves)
		layout[name] = append(layout[name], s)
	}
	w.c.SetLayout(w.db, w.opt, layout)
}

func (w *world) stop() {
	if w.c != nil {
		w.c.Close()
		w.c = nil
	}
	if w.n != nil {
		w.n.Close()
		w.n = nil
	}
}

func (w *world) close() {
	w.stop()
	_ = os.RemoveAll(w.dir)
}

func (w *world) logf(format string, args ...any) {
	w.logMu.Lock()
	defer w.logMu.Unlock()
	w.log = append(w.log, fmt.Sprintf(format, args...))
}

func (w *world) history() string {
	w.logMu.Lock()
	defer w.logMu.Unlock()
	return strings.Join(w.log, " ; ")
}

// ---- steps ----------------------------------------------------------------------------------------

func protoOf(s *seriesT) *protoMetricsV1.Metric {
	m := &protoMetricsV1.Metric{
		Name: s.Metric, Timestamp: baseTS,
		SimpleFields: []*protoMetricsV1.SimpleField{{Name: "f", Type: protoMetricsV1.SimpleFieldType_DELTA_SUM, Value: 1}},
	}
	keys := make([]string, 0, len(s.Tags))
	for k := range s.Tags {
		keys = append(keys, k)
	}
	sort.Strings(keys)
	for _, k := range keys {
		m.Tags = append(m.Tags, &protoMetricsV1.KeyValue{Key: k, Value: s.Tags[k]})
	}
	return m
}

// warmUID names the tag-less series of a metric in the model.
func warmUID(metric string) string { return "~warm/" + metric }

// sigC09Race is C09's finding (design defect D2, repaired in /repo by 7b804d6): the first row of a
// metric that the in-memory metadata does not know yet is handled by the metadata worker
// (GenMetricID, GenFieldID) and by the shard's index worker (GenMetricID, GenTagKeyID) concurrently;
// without the repair the two get different metric ids or lose a field / tag key of the schema,
// nondeterministically ("field not found" for good).
const sigC09Race = "C09/concurrent-get-or-create-two-ids"

// warm is only used while sigC09Race is listed as an open finding: it registers the metric id on
// this goroutine first and makes the first row of the metric a tag-less one (never reaches
// GenTagKeyID), so the race cannot happen. The tag-less series stays in the model as a series that
// lacks every key.
func (w *world) warm(metric string, shard models.ShardID) {
	s, ok := w.byUID[warmUID(metric)]
	if !ok {
		s = &seriesT{Metric: metric, Shard: shard, UID: warmUID(metric), Tags: map[string]string{}}
	}
	if _, err := w.database().MetaDB().GenMetricID([]byte(commonconstants.DefaultNamespace), []byte(metric)); err != nil {
		w.t.Fatalf("harness: GenMetricID: %v", err)
	}
	if err := w.n.Write(w.db, s.Shard, []*protoMetricsV1.Metric{protoOf(s)}); err != nil {
		w.t.Fatalf("harness: warm-up write rejected: %v", err)
	}
	if !ok {
		w.byUID[s.UID] = s
		w.series = append(w.series, s)
	}
	s.Writes++
	w.warmed[metric] = true
}

// write writes one point of each series (new or already known) in the given order.
func (w *world) write(batch []*seriesT) {
	for _, s := range batch {
		if !w.warmed[s.Metric] && ev.Known(sigC09Race) {
			w.warm(s.Metric, s.Shard)
		}
	}
	perShard := map[models.ShardID][]*seriesT{}
	var order []models.ShardID
	for _, s := range batch {
		if _, ok := perShard[s.Shard]; !ok {
			order = append(order, s.Shard)
		}
		perShard[s.Shard] = append(perShard[s.Shard], s)
	}
	for _, sh := range order {
		// one production write call per shard; a series that starts a new run of its id plan starts a new call
		// (WriteRows handles the rows one after the other and waits for the index of each: same work, more calls)
		rows := perShard[sh]
		for len(rows) > 0 {
			var jumped *seriesT
			if _, known := w.byUID[rows[0].UID]; !known && rows[0].Jump > 0 && w.applyJump(rows[0]) {
				jumped = rows[0]
			}
			n := 1
			for n < len(rows) {
				if _, known := w.byUID[rows[n].UID]; !known && rows[n].Jump > 0 {
					break
				}
				n++
			}
			ms := make([]*protoMetricsV1.Metric, 0, n)
			for _, s := range rows[:n] {
				ms = append(ms, protoOf(s))
			}
			if err := w.n.Write(w.db, sh, ms); err != nil {
				w.t.Fatalf("harness: write rejected: %v (history: %s)", err, w.history())
			}
			if jumped != nil {
				w.verifyJump(jumped)
			}
			rows = rows[n:]
		}
	}
	for _, s := range batch {
		if old, ok := w.byUID[s.UID]; ok {
			old.Writes++
			continue
		}
		s.Writes = 1
		w.byUID[s.UID] = s
		w.series = append(w.series, s)
	}
	w.version++
	w.logf("write(%d series)", len(batch))
}

func (w *world) database() tsdb.Database {
	d, ok := w.n.Engine.GetDatabase(w.db)
	if !ok {
		w.t.Fatalf("harness: database lost")
	}
	return d
}

// prepare = the first half of a flush (what the index worker does before it starts the flush
// goroutine): queries that run while a flush is in progress see this state.
func (w *world) prepare(meta bool, shards []models.ShardID) {
	d := w.database()
	if meta {
		d.MetaDB().PrepareFlush()
	}
	for _, id := range shards {
		sh, _ := d.GetShard(id)
		sh.IndexDB().PrepareFlush()
	}
	w.everPrep = true
	w.logf("prepareFlush(meta=%v shards=%v)", meta, shards)
}

type flushKind int

const (
	flushAll flushKind = iota
	flushMetaOnly
	flushIndexOnly
	flushDataOnly
	flushMetaIndex
)

func (k flushKind) String() string {
	return [...]string{"all", "meta", "index", "data", "meta+index"}[k]
}

func (w *world) flush(kind flushKind, shards []models.ShardID) {
	d := w.database()
	fail := func(err error) {
		if err != nil {
			w.t.Fatalf("flush(%s) failed: %v (history: %s)", kind, err, w.history())
		}
	}
	if kind == flushAll || kind == flushMetaOnly || kind == flushMetaIndex {
		before := w.dictFiles()
		fail(d.FlushMeta())
		if w.dictCompactedPending && w.dictFiles() != before {
			// the flush wrote new tag values: the store took a new snapshot (compacted file + new file)
			w.dictCompactedPending, w.dictCompactedVisible = false, true
		}
	}
	for _, id := range shards {
		sh, _ := d.GetShard(id)
		if kind == flushAll || kind == flushIndexOnly || kind == flushMetaIndex {
			fail(sh.FlushIndex())
		}
		if kind == flushAll || kind == flushDataOnly {
			for _, f := range tsdb.GetFamilyManager().GetFamiliesByShard(sh) {
				fail(f.Flush())
			}
		}
	}
	if (kind == flushAll || kind == flushMetaIndex) && len(shards) == len(w.shards) {
		w.everPrep = false
	}
	w.logf("flush(%s shards=%v)", kind, shards)
}

// indexFamily is one kv family that carries dictionary / index data of the database.
type indexFamily struct {
	store  string // path relative to the case directory
	name   string
	family kv.Family
}

// indexFamilies lists the kv families below the metadata and the shard index directories
// (not the data segments), sorted by path.
func (w *world) indexFamilies() []indexFamily {
	var out []indexFamily
	root := filepath.Join(w.dir, "data", w.db)
	for _, s := range kv.GetStoreManager().GetStores() {
		rel, err := filepath.Rel(root, s.Name())
		if err != nil || strings.HasPrefix(rel, "..") {
			continue
		}
		if !(strings.HasPrefix(rel, "meta") || strings.HasSuffix(rel, "index")) {
			continue
		}
		for _, fn := range s.ListFamilyNames() {
			out = append(out, indexFamily{store: rel, name: fn, family: s.GetFamily(fn)})
		}
	}
	sort.Slice(out, func(i, j int) bool {
		if out[i].store != out[j].store {
			return out[i].store < out[j].store
		}
		return out[i].name < out[j].name
	})
	return out
}

func (w *world) dictFiles() int {
	for _, f := range w.indexFamilies() {
		if strings.HasPrefix(f.store, "meta") && f.name == "tv" {
			return filesOf(f.family)
		}
	}
	return 0
}

func filesOf(f kv.Family) int {
	snap := f.GetSnapshot()
	defer snap.Close()
	n := 0
	for lvl := 0; lvl < 2; lvl++ {
		n += snap.GetCurrent().NumberOfFilesInLevel(lvl)
	}
	return n
}

// compact runs the level-0 compaction of the chosen families on this goroutine;
// pick(i) says whether the i-th family takes part.
func (w *world) compact(pick func(i int) bool, deleteObsolete bool) {
	ran := 0
	w.lastCompacted = nil
	for i, f := range w.indexFamilies() {
		if !pick(i) {
			continue
		}
		ok, err := kv.VerifCompactSync(f.family, true)
		if err != nil {
			w.t.Fatalf("compaction of %s/%s failed: %v (history: %s)", f.store, f.name, err, w.history())
		}
		if ok {
			ran++
			w.lastCompacted = append(w.lastCompacted, filepath.ToSlash(f.store)+"/"+f.name)
			if strings.HasPrefix(f.store, "meta") && f.name == "tv" {
				// the dictionary store keeps reading its old snapshot until its next flush or a restart
				w.dictCompactedPending = true
			}
			if deleteObsolete {
				kv.VerifDeleteObsoleteFiles(f.family)
			}
		}
	}
	w.compactions += ran
	w.logf("compact(ran=%d deleteObsolete=%v)", ran, deleteObsolete)
}

// reopen = graceful shutdown (Engine.Close flushes metadata and index) and restart on the same directory.
func (w *world) reopen() {
	if w.everPrep {
		// a flush that has frozen its input always runs to completion before a shutdown
		// (database.Close waits for it); the harness' bare PrepareFlush must be completed the same way
		w.flush(flushMetaIndex, w.shards)
	}
	// data points are not the subject here: persist them explicitly so that the series are still observable
	d := w.database()
	for _, id := range w.shards {
		sh, _ := d.GetShard(id)
		for _, f := range tsdb.GetFamilyManager().GetFamiliesByShard(sh) {
			if err := f.Flush(); err != nil {
				w.t.Fatalf("data flush failed: %v", err)
			}
		}
	}
	w.stop()
	w.start()
	if w.dictCompactedPending {
		w.dictCompactedPending, w.dictCompactedVisible = false, true
	}
	w.everPrep = false
	w.reopened++
	w.warmed = map[string]bool{}
	w.logf("reopen")
}

// stateInfo describes where the index lives at the moment.
type stateInfo struct {
	dictFiles, invertedFiles, forwardFiles int // max number of files over the families of that kind
	anyFile                                bool
}

func (w *world) state() stateInfo {
	var st stateInfo
	for _, f := range w.indexFamilies() {
		n := filesOf(f.family)
		if n > 0 {
			st.anyFile = true
		}
		switch {
		case strings.HasPrefix(f.store, "meta") && f.name == "tv":
			if n > st.dictFiles {
				st.dictFiles = n
			}
		case f.name == "inverted":
			if n > st.invertedFiles {
				st.invertedFiles = n
			}
		case f.name == "forward":
			if n > st.forwardFiles {
				st.forwardFiles = n
			}
		}
	}
	return st
}

// ---- queries ----------------------------------------------------------------------------------------

type row struct {
	Tags map[string]string
	Sum  float64
}

func isNotFound(err error) bool {
	return err != nil && strings.Contains(err.Error(), "not found")
}

// query runs the statement through root planner, leaf pipeline and result builder. A "not found"
// error is the empty answer.
func (w *world) query(sqlText string) ([]row, error) {
	rs, err := w.c.Query(w.db, sqlText)
	w.lastQueryNote.Store("")
	if err != nil {
		if isNotFound(err) {
			w.lastQueryNote.Store("the statement answered the not-found error: " + err.Error())
			return nil, nil
		}
		return nil, err
	}
	return rowsOf(rs), nil
}

// queryNote tells how the last statement came to an empty answer (diagnostics of failure messages only).
func (w *world) queryNote() string {
	if s, _ := w.lastQueryNote.Load().(string); s != "" {
		return "\n(" + s + ")"
	}
	return ""
}

func rowsOf(rs *commonmodels.ResultSet) []row {
	var out []row
	if rs == nil {
		return nil
	}
	for _, s := range rs.Series {
		sum, n := 0.0, 0
		for _, pts := range s.Fields {
			for _, v := range pts {
				sum += v
				n++
			}
		}
		if n == 0 {
			continue
		}
		out = append(out, row{Tags: s.Tags, Sum: sum})
	}
	return out
}

func selectSQL(metric string, c *cond, groupBy []string, condFirst bool) string {
	where := timeRange + " and " + c.sqlText()
	if condFirst {
		where = c.sqlText() + " and " + timeRange
	}
	return "select f from " + metric + " where " + where + " group by " + strings.Join(groupBy, ",") + limitText
}
