package c10

import (
	"fmt"
	"strings"

	"github.com/lindb/lindb/sql"
	"github.com/lindb/lindb/sql/stmt"
)

// ---- condition model ------------------------------------------------------------------------
//
// A condition is kept as the harness' own tree. It is rendered to SQL text, parsed by the
// production parser, and the parsed statement is converted back (mechanically, without any
// evaluation) into the same tree type; the oracle evaluates that tree on the written tags.

type opKind int

const (
	opEq opKind = iota
	opLike
	opRegex
	opIn
)

func (o opKind) String() string { return [...]string{"eq", "like", "regex", "in"}[o] }

// cond is one node: atom (Key != ""), binary (L,R != nil) or parenthesis (Inner != nil).
type cond struct {
	// atom
	Key  string
	Op   opKind
	Neg  bool     // NOT applies to atoms only (grammar)
	Val  string   // eq / like / regex operand
	Vals []string // in operands
	// how the atom is spelled
	NeqAlt bool // "<>" instead of "!="

	// binary
	And  bool
	L, R *cond

	// parenthesis
	Inner *cond
}

func (c *cond) isAtom() bool { return c.L == nil && c.Inner == nil }

// Literals: the lexer knows '...' (no escape inside); "..." lexes as a JSON string token, which
// the ident rule does not accept, and `...` keeps its back-ticks. So a literal is expressible iff it
// contains neither a single quote nor a line break.
func expressible(s string) bool {
	return !strings.ContainsAny(s, "'\r\n")
}

func lit(s string) string {
	if !expressible(s) {
		panic(fmt.Sprintf("harness: literal %q not expressible", s))
	}
	return "'" + s + "'"
}

// sqlText renders the condition. A binary child of a binary node is parenthesised unless
// `flat` allows the bare chain (then the structure is whatever the production parser says).
func (c *cond) sqlText() string {
	switch {
	case c.Inner != nil:
		return "(" + c.Inner.sqlText() + ")"
	case c.L != nil:
		op := " or "
		if c.And {
			op = " and "
		}
		return c.L.sqlText() + op + c.R.sqlText()
	}
	switch c.Op {
	case opEq:
		if c.Neg {
			if c.NeqAlt {
				return c.Key + " <> " + lit(c.Val)
			}
			return c.Key + " != " + lit(c.Val)
		}
		return c.Key + " = " + lit(c.Val)
	case opLike:
		if c.Neg {
			return c.Key + " not like " + lit(c.Val)
		}
		return c.Key + " like " + lit(c.Val)
	case opRegex:
		if c.Neg {
			return c.Key + " !~ " + lit(c.Val)
		}
		return c.Key + " =~ " + lit(c.Val)
	default:
		var parts []string
		for _, v := range c.Vals {
			parts = append(parts, lit(v))
		}
		if c.Neg {
			return c.Key + " not in (" + strings.Join(parts, ",") + ")"
		}
		return c.Key + " in (" + strings.Join(parts, ",") + ")"
	}
}

// shape renders the structure only (no spelling details): used to compare a generated tree
// with the tree the parser built.
func (c *cond) shape() string {
	switch {
	case c.Inner != nil:
		return "(" + c.Inner.shape() + ")"
	case c.L != nil:
		op := "|"
		if c.And {
			op = "&"
		}
		return "[" + c.L.shape() + op + c.R.shape() + "]"
	}
	neg := ""
	if c.Neg {
		neg = "!"
	}
	if c.Op == opIn {
		return fmt.Sprintf("%s%s:%s%q", neg, c.Op, c.Key, c.Vals)
	}
	return fmt.Sprintf("%s%s:%s%q", neg, c.Op, c.Key, c.Val)
}

func (c *cond) atoms(out []*cond) []*cond {
	switch {
	case c.Inner != nil:
		return c.Inner.atoms(out)
	case c.L != nil:
		return c.R.atoms(c.L.atoms(out))
	}
	return append(out, c)
}

func (c *cond) depth() int {
	switch {
	case c.Inner != nil:
		return c.Inner.depth()
	case c.L != nil:
		l, r := c.L.depth(), c.R.depth()
		if r > l {
			l = r
		}
		return l + 1
	}
	return 0
}

// fromStmt converts the parser's expression into the harness tree.
func fromStmt(e stmt.Expr) (*cond, error) {
	switch x := e.(type) {
	case *stmt.EqualsExpr:
		return &cond{Key: x.Key, Op: opEq, Val: x.Value}, nil
	case *stmt.LikeExpr:
		return &cond{Key: x.Key, Op: opLike, Val: x.Value}, nil
	case *stmt.RegexExpr:
		return &cond{Key: x.Key, Op: opRegex, Val: x.Regexp}, nil
	case *stmt.InExpr:
		return &cond{Key: x.Key, Op: opIn, Vals: append([]string{}, x.Values...)}, nil
	case *stmt.NotExpr:
		in, err := fromStmt(x.Expr)
		if err != nil {
			return nil, err
		}
		if !in.isAtom() || in.Neg {
			return nil, fmt.Errorf("NOT over a non-atom: %s", e.Rewrite())
		}
		in.Neg = true
		return in, nil
	case *stmt.ParenExpr:
		in, err := fromStmt(x.Expr)
		if err != nil {
			return nil, err
		}
		return &cond{Inner: in}, nil
	case *stmt.BinaryExpr:
		if x.Operator != stmt.AND && x.Operator != stmt.OR {
			return nil, fmt.Errorf("operator %v in a tag condition", x.Operator)
		}
		l, err := fromStmt(x.Left)
		if err != nil {
			return nil, err
		}
		r, err := fromStmt(x.Right)
		if err != nil {
			return nil, err
		}
		return &cond{And: x.Operator == stmt.AND, L: l, R: r}, nil
	case nil:
		return nil, fmt.Errorf("nil expression")
	}
	return nil, fmt.Errorf("unexpected expression %T", e)
}

// parseQuery runs the production parser.
func parseQuery(text string) (*stmt.Query, error) {
	st, err := sql.Parse(text)
	if err != nil {
		return nil, err
	}
	q, ok := st.(*stmt.Query)
	if !ok {
		return nil, fmt.Errorf("not a query: %T", st)
	}
	return q, nil
}

// ---- oracle -----------------------------------------------------------------------------------

// likeMatch: one leading and/or one trailing '*' are wild cards, everything else is literal
// (index/kv_store.go FindValuesByLike: `x*` prefix, `*x` suffix, `*x*` contains, `x` equals).
func likeMatch(pattern, v string) bool {
	if pattern == "" {
		return false
	}
	if pattern == "*" {
		return true
	}
	pre := strings.HasPrefix(pattern, "*")
	suf := strings.HasSuffix(pattern, "*")
	switch {
	case pre && suf:
		return strings.Contains(v, pattern[1:len(pattern)-1])
	case pre:
		return strings.HasSuffix(v, pattern[1:])
	case suf:
		return strings.HasPrefix(v, pattern[:len(pattern)-1])
	}
	return v == pattern
}

// atomMatch evaluates the positive atom on a tag value.
func atomMatch(c *cond, v string) bool {
	switch c.Op {
	case opEq:
		return v == c.Val
	case opLike:
		return likeMatch(c.Val, v)
	case opRegex:
		rp, err := compileRx(c.Val)
		if err != nil {
			panic("harness: invalid regular expression generated: " + c.Val)
		}
		return rp.MatchString(v) // Go regexp search semantics (what the memory path does with rp.Match)
	default:
		for _, x := range c.Vals {
			if x == v {
				return true
			}
		}
		return false
	}
}

// eval: a series without the key satisfies neither an atom nor its negation.
func (c *cond) eval(tags map[string]string) bool {
	switch {
	case c.Inner != nil:
		return c.Inner.eval(tags)
	case c.L != nil:
		if c.And {
			return c.L.eval(tags) && c.R.eval(tags)
		}
		return c.L.eval(tags) || c.R.eval(tags)
	}
	v, ok := tags[c.Key]
	if !ok {
		return false
	}
	m := atomMatch(c, v)
	if c.Neg {
		return !m
	}
	return m
}
