package c10

import "testing"

// The reference model on hand-written examples.
func TestOracleExamples(t *testing.T) {
	like := []struct {
		p, v string
		want bool
	}{
		{"web*", "web-1", true}, {"web*", "web", true}, {"web*", "aweb", false},
		{"*-1", "web-1", true}, {"*-1", "web-10", false},
		{"*eb*", "web-1", true}, {"*eb*", "eb", true}, {"*eb*", "e-b", false},
		{"web", "web", true}, {"web", "web-1", false},
		{"*", "anything", true}, {"**", "anything", true}, {"", "x", false},
		{"a*b", "a*b", true}, {"a*b", "axb", false}, // an inner star is a literal
		{"*日本*", "x日本語", true}, {"日*", "日本", true},
	}
	for _, c := range like {
		if got := likeMatch(c.p, c.v); got != c.want {
			t.Fatalf("likeMatch(%q, %q) = %v", c.p, c.v, got)
		}
	}
	s1 := map[string]string{"uid": "u1", "host": "web-1", "zone": "a"}
	s2 := map[string]string{"uid": "u2", "host": "db"}
	s3 := map[string]string{"uid": "u3"}
	conds := []struct {
		text           string
		w1, w2, w3     bool
		wantShapeParen bool
	}{
		{"host = 'web-1'", true, false, false, false},
		{"host != 'web-1'", false, true, false, false}, // s3 has no host: neither = nor != selects it
		{"host <> 'nope'", true, true, false, false},
		{"host like 'web*' or zone = 'a'", true, false, false, false},
		{"host not like 'web*'", false, true, false, false},
		{"host =~ 'b'", true, true, false, false}, // search semantics, unanchored
		{"host =~ '^b'", false, false, false, false},
		{"host !~ '^w'", false, true, false, false},
		{"host in ('db','x')", false, true, false, false},
		{"host not in ('db','x')", true, false, false, false},
		{"zone != 'b' and host =~ 'web'", true, false, false, false},
		{"zone != 'b' or host = 'db'", true, true, false, false},
		{"(zone = 'a' or host = 'db') and host not like '*-1'", false, true, false, false},
		{"uid like 'u*' and (host = 'db' or (zone = 'a' and host !~ 'x'))", true, true, false, false},
	}
	for _, c := range conds {
		q, err := parseQuery("select f from m where " + c.text)
		if err != nil {
			t.Fatalf("%s: %v", c.text, err)
		}
		cc, err := fromStmt(q.Condition)
		if err != nil {
			t.Fatalf("%s: %v", c.text, err)
		}
		if g1, g2, g3 := cc.eval(s1), cc.eval(s2), cc.eval(s3); g1 != c.w1 || g2 != c.w2 || g3 != c.w3 {
			t.Fatalf("%s (%s): got %v %v %v, want %v %v %v", c.text, cc.shape(), g1, g2, g3, c.w1, c.w2, c.w3)
		}
	}
	// rendering round trip of a generated tree
	g := &cond{And: true,
		L: &cond{Inner: &cond{L: &cond{Key: "host", Op: opIn, Vals: []string{"a", "b c"}, Neg: true}, R: &cond{Key: "zone", Op: opRegex, Val: `^\d+$`}}},
		R: &cond{Key: "host", Op: opLike, Val: "*x*", Neg: true}}
	q, err := parseQuery("select f from m where " + g.sqlText() + " and " + timeRange + " group by uid")
	if err != nil {
		t.Fatal(err)
	}
	back, err := fromStmt(q.Condition)
	if err != nil || back.shape() != g.shape() {
		t.Fatalf("round trip: %v\n %s\n %s", err, g.shape(), back.shape())
	}
	// forms the lexer does not take as tag values (so the generator does not use them)
	for _, bad := range []string{`select f from m where host = "a"`, "select f from m where not host = 'a'", "select f from m where not (host = 'a')"} {
		if _, err := parseQuery(bad); err == nil {
			t.Logf("note: %s is accepted by the parser", bad)
		}
	}
}
