package c10

import (
	"fmt"
	"sort"
	"strings"

	commonconstants "github.com/lindb/common/constants"
	"pgregory.net/rapid"

	"github.com/lindb/lindb/index"
	"github.com/lindb/lindb/models"
	"github.com/lindb/lindb/series/metric"
	"github.com/lindb/lindb/verifharness/sim/ev"
)

// ---- series ids across roaring containers -----------------------------------------------------------
//
// A shard's index numbers the series of a metric 0, 1, 2, ... in creation order. Posting lists
// (tag value id -> series ids), the forward index (tag key id -> series ids + one block of tag value
// ids per roaring container of the series ids), its flusher, its reader (offset table per container),
// its compaction merger and the group-by scanners all work container by container (65536 ids). The
// entry of a tag key holds only the series of the metric that carry the key, so a metric with many
// series of which few carry `zone` has a `zone` entry with ids far apart: 3, 65535, 65536, 131072, ...
//
// Class "series id plan": the series of a (metric, shard) get a strictly increasing list of ids made
// of consecutive runs; a run starts at a "jump" to a container boundary (a few ids before it, on it,
// right after it, or somewhere inside the container). The skipped ids stand for series of the metric
// created earlier in that shard which carry none of the tag keys of the generated series (not even
// `uid`) and have no point in the queried time range: no generated statement can select them (every
// statement has a tag condition, and an atom over a key, negated or not, only selects series that
// carry the key), so they are left out of the model and of the database alike. The harness moves
// the per-metric series sequence of the shard's index forward (seam index.VerifSetNextSeriesID of
// index/c11_w3_verif.go, tag verif) right before the production write call whose first row creates
// the series; id hand-out, dictionaries, posting lists, forward index, flush, compaction, restart
// and query are production code. After the call the id is read back from the index (self check).
//
// TestTagFilterManySeries (thorough tier, dense form, no seam) really creates > 65536 series.

const containerSize = 1 << 16

// maxPlannedID: models.NewDefaultLimits MaxSeriesPerMetric = 200000 (a larger id is rejected).
const maxPlannedID = 199_000

// planSeriesIDs gives the series of some (metric, shard) pairs of `all` an id plan (field Jump of the
// first series of every run). It returns the number of pairs with a plan.
func planSeriesIDs(t *rapid.T, all []*seriesT) int {
	type pair struct {
		metric string
		shard  models.ShardID
	}
	var order []pair
	byPair := map[pair][]*seriesT{}
	for _, s := range all {
		p := pair{s.Metric, s.Shard}
		if _, ok := byPair[p]; !ok {
			order = append(order, p)
		}
		byPair[p] = append(byPair[p], s)
	}
	planned := 0
	for i, p := range order {
		// the first pair always, the others two times out of three
		if i > 0 && rapid.IntRange(0, 2).Draw(t, "idPlanPair") == 0 {
			continue
		}
		ss := byPair[p]
		maxBoundary := 3 // 3*65536 = 196608 < 200000
		if ev.Known(sigForwardLUT) {
			maxBoundary = 1
		}
		nJumps := rapid.SampledFrom([]int{1, 1, 1, 2, 2, 3}).Draw(t, "idJumps")
		if nJumps > maxBoundary {
			nJumps = maxBoundary
		}
		if nJumps > len(ss) {
			nJumps = len(ss)
		}
		// positions of the jumps in creation order (position 0: the metric's first series in this
		// shard of the case is not the first one the shard ever saw)
		posSet := map[int]bool{}
		for len(posSet) < nJumps {
			var pos int
			switch rapid.IntRange(0, 5).Draw(t, "idJumpWhere") {
			case 0:
				pos = 0
			case 1:
				pos = len(ss) - 1
			default:
				pos = rapid.IntRange(0, len(ss)-1).Draw(t, "idJumpPos")
			}
			posSet[pos] = true
		}
		var positions []int
		for pos := range posSet {
			positions = append(positions, pos)
		}
		sort.Ints(positions)
		// boundaries, strictly increasing
		bSet := map[int]bool{}
		for len(bSet) < nJumps {
			bSet[rapid.SampledFrom([]int{1, 1, 1, 2, 2, 3}[:map[int]int{1: 3, 2: 5, 3: 6}[maxBoundary]]).Draw(t, "idBoundary")] = true
		}
		var bounds []int
		for b := range bSet {
			bounds = append(bounds, b)
		}
		sort.Ints(bounds)
		for j, pos := range positions {
			base := uint32(bounds[j] * containerSize)
			var id uint32
			switch k := rapid.IntRange(0, 11).Draw(t, "idOffKind"); {
			case k <= 5: // the run straddles the boundary: starts 1-4 ids before it
				id = base - uint32(rapid.IntRange(1, 4).Draw(t, "idBack"))
			case k <= 8: // starts on the boundary: the last run ended in the container before
				id = base
			case k <= 9:
				id = base + uint32(rapid.IntRange(1, 2).Draw(t, "idFwd"))
			default: // somewhere inside the container
				id = base + uint32(rapid.IntRange(3, 60000).Draw(t, "idInside"))
			}
			if id > maxPlannedID {
				id = maxPlannedID
			}
			ss[pos].Jump = id
		}
		planned++
	}
	return planned
}

// idKey names a (shard, metric) pair in the evidence book-keeping of the world.
func idKey(shard models.ShardID, metric string) string { return fmt.Sprintf("%d/%s", shard, metric) }

// seriesIDsOf reads the ids the shard's index holds for the metric (nil: the metric has none yet).
func (w *world) seriesIDsOf(shard models.ShardID, metricName string, create bool) (idx index.MetricIndexDatabase, mid metric.ID, ids []uint32) {
	d := w.database()
	sh, ok := d.GetShard(shard)
	if !ok {
		w.t.Fatalf("harness: shard %d lost", shard)
	}
	idx = sh.IndexDB()
	ns := []byte(commonconstants.DefaultNamespace)
	if create {
		m, err := d.MetaDB().GenMetricID(ns, []byte(metricName))
		if err != nil {
			w.t.Fatalf("harness: GenMetricID(%s): %v", metricName, err)
		}
		mid = m
	} else {
		m, err := d.MetaDB().GetMetricID(commonconstants.DefaultNamespace, metricName)
		if err != nil {
			if isNotFound(err) {
				return idx, 0, nil
			}
			w.t.Fatalf("harness: GetMetricID(%s): %v", metricName, err)
		}
		mid = m
	}
	bm, err := idx.GetSeriesIDsForMetric(mid)
	if err != nil {
		if isNotFound(err) {
			return idx, mid, nil
		}
		w.t.Fatalf("harness: series ids of %s: %v", metricName, err)
	}
	return idx, mid, bm.ToArray()
}

// applyJump moves the series sequence of (shard, metric) so that the series created next gets s.Jump.
// A jump that would not move the sequence forward (operations nested inside a flush created series
// in between) is dropped: the series then continues the current run.
func (w *world) applyJump(s *seriesT) bool {
	idx, mid, ids := w.seriesIDsOf(s.Shard, s.Metric, true)
	if len(ids) > 0 && ids[len(ids)-1] >= s.Jump {
		w.idJumpsDropped++
		return false
	}
	if !index.VerifSetNextSeriesID(idx, mid, s.Jump) {
		w.t.Fatalf("harness: the shard's index database is not the production implementation")
	}
	return true
}

// verifyJump: the series of the jump got the planned id (harness self check).
func (w *world) verifyJump(s *seriesT) {
	_, _, ids := w.seriesIDsOf(s.Shard, s.Metric, false)
	i := sort.Search(len(ids), func(i int) bool { return ids[i] >= s.Jump })
	if i == len(ids) || ids[i] != s.Jump {
		w.t.Fatalf("harness: series %s of %s (shard %d) was planned as id %d, the index holds %v", s.UID, s.Metric, s.Shard, s.Jump, ids)
	}
	if w.planned == nil {
		w.planned = map[string]bool{}
	}
	w.planned[idKey(s.Shard, s.Metric)] = true
	w.logf("series ids of %s in shard %d continue at %d", s.Metric, s.Shard, s.Jump)
}

// containersOf: number of roaring containers the ids of the planned (shard, metric) pairs span
// (maximum over the pairs of the given shard; shard < 0: all shards), read from the real index.
func (w *world) containersOf(shard int) int {
	max := 0
	keys := make([]string, 0, len(w.planned))
	for k := range w.planned {
		keys = append(keys, k)
	}
	sort.Strings(keys)
	for _, k := range keys {
		var sh int
		var metricName string
		i := strings.IndexByte(k, '/')
		_, _ = fmt.Sscanf(k[:i], "%d", &sh)
		metricName = k[i+1:]
		if shard >= 0 && sh != shard {
			continue
		}
		_, _, ids := w.seriesIDsOf(models.ShardID(sh), metricName, false)
		seen := map[uint32]bool{}
		for _, id := range ids {
			seen[id>>16] = true
		}
		if len(seen) > max {
			max = len(seen)
		}
	}
	return max
}

// recordIDPlanCompaction notes, after a compaction step, whether the forward (inverted) family of a
// shard whose planned metric spans >= 2 containers was merged (evidence only; the count includes
// series still in memory, i.e. it slightly over-approximates "a merged entry has >= 2 containers").
func (w *world) recordIDPlanCompaction(stats *caseStats) {
	if len(w.planned) == 0 {
		return
	}
	for _, f := range w.lastCompacted {
		// f = "<store>/<family>", store = shard/<id>/index
		parts := strings.Split(f, "/")
		if len(parts) < 4 || parts[len(parts)-2] != "index" {
			continue
		}
		var sh int
		if _, err := fmt.Sscanf(parts[len(parts)-3], "%d", &sh); err != nil {
			continue
		}
		if w.containersOf(sh) < 2 {
			continue
		}
		switch parts[len(parts)-1] {
		case "forward":
			w.fwdCompactedOverContainers = true
			stats.classes["idplan_forward_family_compacted_over_2+_containers"] = true
		case "inverted":
			stats.classes["idplan_inverted_family_compacted_over_2+_containers"] = true
		}
	}
}

// recordIDPlanCheckpoint: evidence classes of a checkpoint of a case with id plans.
func (w *world) recordIDPlanCheckpoint(st stateInfo, stats *caseStats) {
	if len(w.planned) == 0 {
		return
	}
	stats.classes["idplan_checked"] = true
	if st.forwardFiles >= 1 {
		stats.classes["idplan_checked_forward_in_files"] = true
	}
	if st.forwardFiles >= 2 {
		stats.classes["idplan_checked_forward_in_2+_files"] = true
	}
	if w.fwdCompactedOverContainers {
		stats.classes["idplan_checked_after_forward_compaction_over_2+_containers"] = true
	}
}
