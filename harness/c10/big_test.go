package c10

import (
	"fmt"
	"os"
	"sort"
	"strings"
	"testing"

	"pgregory.net/rapid"

	"github.com/lindb/lindb/models"
	"github.com/lindb/lindb/verifharness/sim/ev"
)

// TestTagFilterManySeries (thorough tier only): one metric whose series ids cross 65536 (and in
// a quarter of the cases 131072), so that posting lists, the forward index and the group-by
// scanners span two or three roaring containers. Most series are fillers that carry only `uid`;
// the series with generated tags sit at the beginning, around every container boundary and at the end.
// The series are written in 2-4 batches cut near the end, around a container boundary or near the
// beginning; every batch is flushed (one file per index family), the files are compacted after or
// before the last batch (then possibly a second time), restart at the end; every condition (selection
// by group by uid, group by host/zone values) is checked in the states in between. No seam: this is
// the dense form of the series id plans of idplan_test.go.
func TestTagFilterManySeries(t *testing.T) {
	if os.Getenv("VERIF_TIER") != "thorough" && os.Getenv("C10_BIG") == "" {
		t.Skip("thorough tier only (set C10_BIG=1 to run by hand)")
	}
	rapid.Check(t, func(t *rapid.T) {
		const group = "TestTagFilterManySeries"
		shards := []models.ShardID{0}
		containers := rapid.SampledFrom([]int{1, 1, 1, 2}).Draw(t, "boundaries")
		if ev.Known(sigForwardLUT) {
			containers = 1
		}
		total := containers*65536 + rapid.IntRange(40, 400).Draw(t, "beyond")
		mp := &metricPlan{Name: "big", Keys: []string{"host", "zone"}, Pools: map[string][]string{}}
		for _, k := range mp.Keys {
			np := rapid.IntRange(3, 8).Draw(t, "poolSize")
			seen := map[string]bool{}
			for len(mp.Pools[k]) < np {
				v := genValue(t, "v")
				if !seen[v] {
					seen[v] = true
					mp.Pools[k] = append(mp.Pools[k], v)
				}
			}
		}
		// positions (write order = series id - 1, id 0 is the tag-less warm-up series) of the tagged series
		tagged := map[int]bool{}
		span := rapid.IntRange(5, 30).Draw(t, "span")
		for i := 0; i < span; i++ {
			tagged[i] = true
			tagged[total-1-i] = true
			for b := 1; b <= containers; b++ {
				tagged[b*65536-2-i] = true
				tagged[b*65536-1+i] = true
			}
		}
		var all []*seriesT
		for i := 0; i < total; i++ {
			s := &seriesT{Metric: mp.Name, Shard: 0, Tags: map[string]string{}}
			if tagged[i] {
				s.UID = fmt.Sprintf("u%06d", i)
				for _, k := range mp.Keys {
					if rapid.IntRange(0, 3).Draw(t, "has") > 0 {
						pool := mp.Pools[k]
						s.Tags[k] = pool[rapid.IntRange(0, len(pool)-1).Draw(t, "val")]
					}
				}
			} else {
				s.UID = fmt.Sprintf("f%06d", i)
			}
			s.Tags["uid"] = s.UID
			all = append(all, s)
		}
		// write batches (each one is flushed, i.e. becomes one file of every index family): the cuts lie
		// near the end (a small late file), around a container boundary (a file ends / starts with a
		// container, or a few ids into it) or near the beginning (a first file with one container only)
		nBatches := rapid.SampledFrom([]int{2, 2, 2, 3, 3, 4}).Draw(t, "nBatches")
		cutSet := map[int]bool{}
		for len(cutSet) < nBatches-1 {
			var c int
			switch rapid.IntRange(0, 5).Draw(t, "cutKind") {
			case 0, 1:
				c = total - rapid.IntRange(1, 30).Draw(t, "lateSeries")
			case 2, 3, 4:
				// position p holds series id p+1 (id 0 is the warm-up series, when there is one) or p
				c = rapid.IntRange(1, containers).Draw(t, "cutBoundary")*65536 + rapid.IntRange(-span-2, span+2).Draw(t, "cutOff")
			default:
				c = rapid.IntRange(1, 2*span).Draw(t, "earlySeries")
			}
			if c > 0 && c < total {
				cutSet[c] = true
			}
		}
		cuts := []int{0, total}
		for c := range cutSet {
			cuts = append(cuts, c)
		}
		sort.Ints(cuts)
		// conditions: generated ones over host/zone, plus uid conditions that cut through the boundaries
		plans := []*metricPlan{mp}
		var conds []*condCase
		for i := 0; i < 3; i++ {
			conds = append(conds, genCondCase(t, plans))
		}
		b := rapid.IntRange(1, containers).Draw(t, "whichBoundary") * 65536
		lo := fmt.Sprintf("%06d", b-60)
		fixed := []*cond{
			{Key: "uid", Op: opLike, Val: "f" + lo[:4] + "*"},                                                                    // ~100 fillers around a boundary
			{Key: "uid", Op: opLike, Val: "f*", Neg: true},                                                                       // every tagged series, all containers
			{Key: "uid", Op: opRegex, Val: fmt.Sprintf("^[fu]0*(%d|%d|%d|%d)$", b-2, b-1, b, b+1)},                               // the four series next to the boundary
			{And: true, L: &cond{Key: "uid", Op: opRegex, Val: "[05]$"}, R: &cond{Key: "host", Op: opLike, Val: "*", Neg: true}}, // mostly empty
		}
		if rapid.IntRange(0, 2).Draw(t, "selectAll") == 0 {
			fixed = append(fixed, &cond{Key: "uid", Op: opEq, Val: "f000100", Neg: true}) // all but one series: full containers in the result
		}
		if ev.Known(sigLikeStar) {
			fixed[3].R.Val = "**"
		}
		for _, g := range fixed {
			cc := &condCase{Metric: mp, Gen: g, Text: g.sqlText(), classes: map[string]bool{}, first: map[int]string{}}
			q, err := parseQuery(selectSQL(mp.Name, g, []string{"uid"}, false))
			if err != nil {
				t.Fatalf("harness: %v", err)
			}
			if cc.Parsed, err = fromStmt(q.Condition); err != nil {
				t.Fatalf("harness: %v", err)
			}
			conds = append(conds, cc)
		}

		w := newWorld(t, shards, 1)
		defer w.close()
		stats := &caseStats{classes: map[string]bool{}}
		round, compactionsDone := 0, 0
		check := func() {
			w.checkpoint(conds, round, stats)
			round++
		}
		// history: every batch is written and flushed; the level-0 files are compacted after the last batch or,
		// half of the time when there are >= 3 batches, before it (the last batch then makes a new file next
		// to the compacted one, which may be compacted again); restart at the end
		lastAfterCompaction := nBatches >= 3 && rapid.Bool().Draw(t, "lastBatchAfterCompaction")
		compactAll := func() {
			before := w.compactions
			w.compact(func(int) bool { return true }, rapid.Bool().Draw(t, "delObsolete"))
			if w.compactions > before {
				stats.classes[fmt.Sprintf("many_series_index_compaction_round_%d", compactionsDone+1)] = true
				compactionsDone++
			}
			check()
		}
		for b := 0; b < nBatches; b++ {
			if lastAfterCompaction && b == nBatches-1 {
				compactAll()
				stats.classes["many_series_batch_after_compaction"] = true
			}
			w.write(all[cuts[b]:cuts[b+1]])
			switch rapid.IntRange(0, 3).Draw(t, "checkBeforeFlush") {
			case 0:
				check() // memory (+ files of the earlier batches)
			case 1:
				w.prepare(true, shards)
				check()
			}
			w.flush(flushAll, shards)
			if b == nBatches-1 || rapid.Bool().Draw(t, "checkAfterFlush") {
				check()
			}
		}
		if rapid.IntRange(0, 3).Draw(t, "compact") > 0 {
			compactAll()
		}
		if rapid.Bool().Draw(t, "reopen") {
			w.reopen()
			check()
		}
		stats.classes[fmt.Sprintf("series_id_containers_%d", containers+1)] = true
		var texts []string
		for _, cc := range conds {
			texts = append(texts, cc.Text)
		}
		canon := fmt.Sprintf("%d|%d|%v|%v|%s|%s", total, span, cuts, mp.Pools, strings.Join(texts, "|"), w.history())
		ev.Case(group, canon, stats.nonTrivial, sortedKeys(stats.classes), map[string]any{
			"series": total, "tagged_span": span, "batch_cuts": cuts, "conditions": texts, "history": w.log, "queries": stats.queries,
		})
	})
}
