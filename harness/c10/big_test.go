package c10

import (
	"fmt"
	"os"
	"strings"
	"testing"

	"pgregory.net/rapid"

	"github.com/lindb/lindb/models"
	"github.com/lindb/lindb/verifharness/sim/ev"
)

// TestTagFilterManySeries (thorough tier only): one metric whose series ids cross 65536 (and in
// a quarter of the cases 131072), so that posting lists, the forward index and the group-by
// scanners span two or three roaring containers. Most series are fillers that carry only `uid`;
// the series with generated tags sit at the beginning, around every container boundary and at the end.
func TestTagFilterManySeries(t *testing.T) {
	if os.Getenv("VERIF_TIER") != "thorough" && os.Getenv("C10_BIG") == "" {
		t.Skip("thorough tier only (set C10_BIG=1 to run by hand)")
	}
	rapid.Check(t, func(t *rapid.T) {
		const group = "TestTagFilterManySeries"
		shards := []models.ShardID{0}
		containers := rapid.SampledFrom([]int{1, 1, 1, 2}).Draw(t, "boundaries")
		if ev.Known(sigForwardLUT) {
			containers = 1
		}
		total := containers*65536 + rapid.IntRange(40, 400).Draw(t, "beyond")
		mp := &metricPlan{Name: "big", Keys: []string{"host", "zone"}, Pools: map[string][]string{}}
		for _, k := range mp.Keys {
			np := rapid.IntRange(3, 8).Draw(t, "poolSize")
			seen := map[string]bool{}
			for len(mp.Pools[k]) < np {
				v := genValue(t, "v")
				if !seen[v] {
					seen[v] = true
					mp.Pools[k] = append(mp.Pools[k], v)
				}
			}
		}
		// positions (write order = series id - 1, id 0 is the tag-less warm-up series) of the tagged series
		tagged := map[int]bool{}
		span := rapid.IntRange(5, 30).Draw(t, "span")
		for i := 0; i < span; i++ {
			tagged[i] = true
			tagged[total-1-i] = true
			for b := 1; b <= containers; b++ {
				tagged[b*65536-2-i] = true
				tagged[b*65536-1+i] = true
			}
		}
		late := rapid.IntRange(1, 30).Draw(t, "lateSeries") // written after the first flush
		var first, second []*seriesT
		for i := 0; i < total; i++ {
			s := &seriesT{Metric: mp.Name, Shard: 0, Tags: map[string]string{}}
			if tagged[i] {
				s.UID = fmt.Sprintf("u%06d", i)
				for _, k := range mp.Keys {
					if rapid.IntRange(0, 3).Draw(t, "has") > 0 {
						pool := mp.Pools[k]
						s.Tags[k] = pool[rapid.IntRange(0, len(pool)-1).Draw(t, "val")]
					}
				}
			} else {
				s.UID = fmt.Sprintf("f%06d", i)
			}
			s.Tags["uid"] = s.UID
			if i >= total-late {
				second = append(second, s)
			} else {
				first = append(first, s)
			}
		}
		// conditions: generated ones over host/zone, plus uid conditions that cut through the boundaries
		plans := []*metricPlan{mp}
		var conds []*condCase
		for i := 0; i < 3; i++ {
			conds = append(conds, genCondCase(t, plans))
		}
		b := rapid.IntRange(1, containers).Draw(t, "whichBoundary") * 65536
		lo := fmt.Sprintf("%06d", b-60)
		fixed := []*cond{
			{Key: "uid", Op: opLike, Val: "f" + lo[:4] + "*"},                                                                    // ~100 fillers around a boundary
			{Key: "uid", Op: opLike, Val: "f*", Neg: true},                                                                       // every tagged series, all containers
			{Key: "uid", Op: opRegex, Val: fmt.Sprintf("^[fu]0*(%d|%d|%d|%d)$", b-2, b-1, b, b+1)},                               // the four series next to the boundary
			{And: true, L: &cond{Key: "uid", Op: opRegex, Val: "[05]$"}, R: &cond{Key: "host", Op: opLike, Val: "*", Neg: true}}, // mostly empty
		}
		if rapid.IntRange(0, 2).Draw(t, "selectAll") == 0 {
			fixed = append(fixed, &cond{Key: "uid", Op: opEq, Val: "f000100", Neg: true}) // all but one series: full containers in the result
		}
		if ev.Known(sigLikeStar) {
			fixed[3].R.Val = "**"
		}
		for _, g := range fixed {
			cc := &condCase{Metric: mp, Gen: g, Text: g.sqlText(), classes: map[string]bool{}, first: map[int]string{}}
			q, err := parseQuery(selectSQL(mp.Name, g, []string{"uid"}, false))
			if err != nil {
				t.Fatalf("harness: %v", err)
			}
			if cc.Parsed, err = fromStmt(q.Condition); err != nil {
				t.Fatalf("harness: %v", err)
			}
			conds = append(conds, cc)
		}

		w := newWorld(t, shards, 1)
		defer w.close()
		stats := &caseStats{classes: map[string]bool{}}
		round := 0
		check := func() {
			w.checkpoint(conds, round, stats)
			round++
		}
		w.write(first)
		if rapid.Bool().Draw(t, "checkMemory") {
			check()
		}
		if rapid.Bool().Draw(t, "prepareFirst") {
			w.prepare(true, shards)
			check()
		}
		w.flush(flushAll, shards)
		check()
		w.write(second)
		check()
		w.flush(flushAll, shards)
		check()
		if rapid.Bool().Draw(t, "compact") {
			w.compact(func(int) bool { return true }, rapid.Bool().Draw(t, "delObsolete"))
			check()
		}
		if rapid.Bool().Draw(t, "reopen") {
			w.reopen()
			check()
		}
		stats.classes[fmt.Sprintf("series_id_containers_%d", containers+1)] = true
		var texts []string
		for _, cc := range conds {
			texts = append(texts, cc.Text)
		}
		canon := fmt.Sprintf("%d|%d|%d|%v|%s|%s", total, span, late, mp.Pools, strings.Join(texts, "|"), w.history())
		ev.Case(group, canon, stats.nonTrivial, sortedKeys(stats.classes), map[string]any{
			"series": total, "tagged_span": span, "conditions": texts, "history": w.log, "queries": stats.queries,
		})
	})
}
