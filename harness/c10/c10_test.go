// Package c10 checks property C10: tag filtering through the index equals evaluating the
// predicate on every series, in every index state (memory, prepared, flushed, compacted, mixed),
// including lookups and writes that run inside a flush / compaction and flushes that run inside a
// lookup, at harness-owned points (nested_test.go), and with series ids placed across roaring container
// boundaries (idplan_test.go; dense form with > 65536 real series: big_test.go, thorough tier).
package c10

import (
	"fmt"
	"regexp"
	"sort"
	"strings"
	"testing"
	"time"
	"unicode/utf8"

	"github.com/lindb/common/pkg/logger"
	"pgregory.net/rapid"

	"github.com/lindb/lindb/models"
	"github.com/lindb/lindb/verifharness/sim/ev"
)

func TestMain(m *testing.M) { ev.Main(m) }

func init() {
	time.Local = time.UTC
	_ = logger.RunningAtomicLevel.UnmarshalText([]byte("error"))
}

// Signatures of findings; a shape is left out of the generators only while its signature is
// listed in /verif/known_findings.json (ev.Known).
const (
	// `k like '*'` panics in indexKVStore.FindValuesByLike (slice [1:0])
	sigLikeStar = "C10/like-single-star-panics"
	// group-by tag values travel as one comma-joined string: a value containing ',' makes the root drop the series
	sigComma = "C10/comma-in-grouping-tag-value-drops-series"
	// sigFamilyFilter (dataFamily.Filter gives up when memory or files say "not found") and
	// sigForwardLUT (forward reader offsets wrong from the third container on): see regression_test.go
)

// ---- generators ---------------------------------------------------------------------------------

var stems = []string{"web", "we", "w", "db", "d", "api", "a", "ab", "abc", "b", "ba", "cab", "x", "prod", "pro",
	"日本", "日本語", "日", "hé", "héllo", "é", "A", "Web", "1", "10", "01"}

var joiners = []string{"", "", "", "-", "-", ".", "_", " ", "*", "/", ":", "|", "(", "[", "+", "?", "\\", "'", "\"", ","}

var edgeValues = []string{" ", "*", "**", "a*", "*a", "'", "\"", ".", "^", "$", "a b", ".*", "a,b", ",", " ", "🙂", "tag_value_not_found"}

func genValue(t *rapid.T, label string) string {
	for try := 0; ; try++ {
		var v string
		switch rapid.IntRange(0, 9).Draw(t, label+"kind") {
		case 0:
			v = rapid.SampledFrom(edgeValues).Draw(t, label+"edge")
		case 1, 2:
			v = rapid.SampledFrom(stems).Draw(t, label+"stem")
		case 3, 4, 5:
			v = rapid.SampledFrom(stems).Draw(t, label+"stem") + rapid.SampledFrom(joiners).Draw(t, label+"join") +
				fmt.Sprint(rapid.IntRange(0, 12).Draw(t, label+"num"))
		default:
			v = rapid.SampledFrom(stems).Draw(t, label+"stem") + rapid.SampledFrom(joiners).Draw(t, label+"join") +
				rapid.SampledFrom(stems).Draw(t, label+"stem2")
		}
		if ev.Known(sigComma) && strings.Contains(v, ",") {
			if try < 20 {
				continue
			}
			v = strings.ReplaceAll(v, ",", ";")
		}
		return v
	}
}

// metricPlan: the tag keys of one metric and the value pool of each key.
type metricPlan struct {
	Name  string
	Keys  []string // without uid
	Pools map[string][]string
}

var keyNames = []string{"host", "zone", "app", "ip"}

func genMetricPlans(t *rapid.T) []*metricPlan {
	n := rapid.SampledFrom([]int{1, 1, 2, 2, 3}).Draw(t, "metrics")
	var out []*metricPlan
	for i := 0; i < n; i++ {
		mp := &metricPlan{Name: fmt.Sprintf("m%d", i), Pools: map[string][]string{}}
		nk := rapid.IntRange(1, 3).Draw(t, "nkeys")
		start := rapid.IntRange(0, len(keyNames)-1).Draw(t, "key0")
		for k := 0; k < nk; k++ {
			key := keyNames[(start+k)%len(keyNames)]
			mp.Keys = append(mp.Keys, key)
			np := rapid.IntRange(2, 8).Draw(t, "poolSize")
			seen := map[string]bool{}
			for len(mp.Pools[key]) < np {
				v := genValue(t, "v")
				if seen[v] {
					v = v + fmt.Sprint(len(mp.Pools[key]))
				}
				if seen[v] {
					continue
				}
				seen[v] = true
				mp.Pools[key] = append(mp.Pools[key], v)
			}
		}
		out = append(out, mp)
	}
	return out
}

func genSeries(t *rapid.T, plans []*metricPlan, shards []models.ShardID, n int) []*seriesT {
	return genSeriesFrom(t, plans, shards, 0, n)
}

// genSeriesFrom numbers the uids from..from+n-1.
func genSeriesFrom(t *rapid.T, plans []*metricPlan, shards []models.ShardID, from, n int) []*seriesT {
	var out []*seriesT
	for i := from; i < from+n; i++ {
		mp := plans[rapid.IntRange(0, len(plans)-1).Draw(t, "metricOf")]
		s := &seriesT{Metric: mp.Name, UID: fmt.Sprintf("u%04d", i), Tags: map[string]string{}}
		s.Shard = shards[rapid.IntRange(0, len(shards)-1).Draw(t, "shardOf")]
		s.Tags["uid"] = s.UID
		for _, k := range mp.Keys {
			if rapid.IntRange(0, 3).Draw(t, "has") > 0 { // a key is missing on ~1/4 of the series
				pool := mp.Pools[k]
				s.Tags[k] = pool[rapid.IntRange(0, len(pool)-1).Draw(t, "val")]
			}
		}
		out = append(out, s)
	}
	return out
}

// runeCut returns a substring of v on rune boundaries: kind 0 prefix, 1 suffix, 2 infix.
func runeCut(t *rapid.T, v string, kind int) string {
	rs := []rune(v)
	if len(rs) == 0 {
		return v
	}
	switch kind {
	case 0:
		return string(rs[:rapid.IntRange(1, len(rs)).Draw(t, "cutP")])
	case 1:
		return string(rs[rapid.IntRange(0, len(rs)-1).Draw(t, "cutS"):])
	}
	a := rapid.IntRange(0, len(rs)-1).Draw(t, "cutA")
	b := rapid.IntRange(a+1, len(rs)).Draw(t, "cutB")
	return string(rs[a:b])
}

func pickExpressible(t *rapid.T, pool []string, label string) string {
	for i := 0; i < 10; i++ {
		v := pool[rapid.IntRange(0, len(pool)-1).Draw(t, label)]
		if expressible(v) {
			return v
		}
	}
	return "web"
}

var rxCache = map[string]*regexp.Regexp{}

func compileRx(p string) (*regexp.Regexp, error) {
	if r, ok := rxCache[p]; ok {
		return r, nil
	}
	r, err := regexp.Compile(p)
	if err == nil {
		rxCache[p] = r
	}
	return r, err
}

func genRegex(t *rapid.T, pool []string) string {
	for try := 0; try < 8; try++ {
		v := pickExpressible(t, pool, "rxv")
		var p string
		switch rapid.IntRange(0, 11).Draw(t, "rxkind") {
		case 0:
			p = regexp.QuoteMeta(runeCut(t, v, 2)) // unanchored literal
		case 1:
			p = "^" + regexp.QuoteMeta(runeCut(t, v, 0))
		case 2:
			p = regexp.QuoteMeta(runeCut(t, v, 1)) + "$"
		case 3:
			p = "^" + regexp.QuoteMeta(v) + "$"
		case 4:
			w := pickExpressible(t, pool, "rxw")
			p = "^(" + regexp.QuoteMeta(v) + "|" + regexp.QuoteMeta(w) + ")$"
		case 5:
			w := pickExpressible(t, pool, "rxw")
			p = regexp.QuoteMeta(runeCut(t, v, 0)) + "|" + regexp.QuoteMeta(runeCut(t, w, 1))
		case 6:
			p = regexp.QuoteMeta(runeCut(t, v, 0)) + ".*" + regexp.QuoteMeta(runeCut(t, v, 1))
		case 7:
			p = rapid.SampledFrom([]string{`[0-9]+$`, `\d`, `^[a-z]+$`, `^.$`, `.`, ``, `^$`, `^\pL+$`, `-1?$`, `[^a-z0-9]`, `^.{2,3}$`, `\s`}).Draw(t, "rxfixed")
		case 8:
			p = "(?i)" + regexp.QuoteMeta(strings.ToUpper(runeCut(t, v, 2)))
		case 9:
			p = "^" + regexp.QuoteMeta(runeCut(t, v, 0)) + "[0-9a-z]*$"
		case 10:
			p = regexp.QuoteMeta(runeCut(t, v, 0)) + "." + "?"
		default:
			p = "^(?:" + regexp.QuoteMeta(runeCut(t, v, 0)) + ")|" + regexp.QuoteMeta(runeCut(t, v, 1)) + "$"
		}
		if !expressible(p) || !utf8.ValidString(p) {
			continue
		}
		if _, err := compileRx(p); err != nil {
			continue
		}
		return p
	}
	return "^web"
}

func genLike(t *rapid.T, pool []string) string {
	v := pickExpressible(t, pool, "likev")
	var p string
	switch rapid.IntRange(0, 10).Draw(t, "likekind") {
	case 0, 1, 2:
		p = runeCut(t, v, 0) + "*"
	case 3, 4:
		p = "*" + runeCut(t, v, 1)
	case 5, 6, 7:
		p = "*" + runeCut(t, v, 2) + "*"
	case 8:
		p = v
	case 9:
		p = runeCut(t, v, 2) // exact match of a fragment (mostly selects nothing)
	default:
		p = rapid.SampledFrom([]string{"*", "**", "", "***", "*-*", "a*b"}).Draw(t, "likeedge")
	}
	if p == "*" && ev.Known(sigLikeStar) {
		p = "**"
	}
	if !expressible(p) {
		return "*a*"
	}
	return p
}

func genAtom(t *rapid.T, mp *metricPlan, classes map[string]bool) *cond {
	c := &cond{}
	// key: mostly a key of the metric, sometimes uid, rarely a key the metric never has
	var pool []string
	switch k := rapid.IntRange(0, 79).Draw(t, "keykind"); {
	case k == 79:
		c.Key = "nokey"
		pool = []string{"web", "a"}
		classes["atom_unknown_key"] = true
	case k >= 66:
		c.Key = "uid"
		pool = []string{"u0000", "u0001", "u0012", "u0003", "u0020", "u0100", "u0007"}
	default:
		c.Key = mp.Keys[rapid.IntRange(0, len(mp.Keys)-1).Draw(t, "key")]
		pool = mp.Pools[c.Key]
	}
	c.Neg = rapid.IntRange(0, 9).Draw(t, "neg") < 4
	c.NeqAlt = rapid.Bool().Draw(t, "neqAlt")
	absent := func() string {
		return rapid.SampledFrom([]string{"nope", "we", "web-", "", " ", "日", "A"}).Draw(t, "absent")
	}
	switch rapid.IntRange(0, 9).Draw(t, "op") {
	case 0, 1:
		c.Op = opEq
		if rapid.IntRange(0, 4).Draw(t, "eqAbsent") == 0 {
			c.Val = absent()
		} else {
			c.Val = pickExpressible(t, pool, "eqv")
		}
	case 2, 3, 4:
		c.Op = opLike
		c.Val = genLike(t, pool)
	case 5, 6, 7:
		c.Op = opRegex
		c.Val = genRegex(t, pool)
	default:
		c.Op = opIn
		n := rapid.IntRange(1, 3).Draw(t, "inN")
		for i := 0; i < n; i++ {
			if rapid.IntRange(0, 4).Draw(t, "inAbsent") == 0 {
				c.Vals = append(c.Vals, absent())
			} else {
				c.Vals = append(c.Vals, pickExpressible(t, pool, "inv"))
			}
		}
	}
	return c
}

// genCond draws a condition of the given maximal depth. With flat=false every binary child of a
// binary node is parenthesised, so the text has exactly one reading.
func genCond(t *rapid.T, mp *metricPlan, depth int, flat bool, classes map[string]bool) *cond {
	if depth == 0 || rapid.IntRange(0, 3).Draw(t, "leaf") == 0 {
		a := genAtom(t, mp, classes)
		if rapid.IntRange(0, 9).Draw(t, "parenAtom") == 0 {
			return &cond{Inner: a}
		}
		return a
	}
	c := &cond{And: rapid.Bool().Draw(t, "and")}
	c.L = genCond(t, mp, depth-1, flat, classes)
	c.R = genCond(t, mp, depth-1, flat, classes)
	wrap := func(x *cond) *cond {
		if x.L != nil && !flat {
			return &cond{Inner: x}
		}
		return x
	}
	c.L, c.R = wrap(c.L), wrap(c.R)
	return c
}

// condCase is one condition under test.
type condCase struct {
	Metric  *metricPlan
	Gen     *cond  // generated tree
	Parsed  *cond  // what the production parser made of the text (this is what the oracle evaluates)
	Text    string // condition text
	Flat    bool
	CondFst bool
	classes map[string]bool
	// answers per data version (metamorphic relation between index states)
	first map[int]string
	// non-trivial bookkeeping
	ntSeen bool
}

func genCondCase(t *rapid.T, plans []*metricPlan) *condCase { return genCondCaseDepth(t, plans, -1) }

// genCondCaseDepth: depth < 0 = drawn.
func genCondCaseDepth(t *rapid.T, plans []*metricPlan, depth int) *condCase {
	cc := &condCase{classes: map[string]bool{}, first: map[int]string{}}
	cc.Metric = plans[rapid.IntRange(0, len(plans)-1).Draw(t, "condMetric")]
	cc.Flat = rapid.IntRange(0, 5).Draw(t, "flat") == 0
	cc.CondFst = rapid.IntRange(0, 3).Draw(t, "condFirst") == 0
	if depth < 0 {
		depth = rapid.SampledFrom([]int{1, 1, 2, 2, 2, 3, 3, 4}).Draw(t, "depth")
	}
	cc.Gen = genCond(t, cc.Metric, depth, cc.Flat, cc.classes)
	cc.Text = cc.Gen.sqlText()
	q, err := parseQuery(selectSQL(cc.Metric.Name, cc.Gen, []string{"uid"}, cc.CondFst))
	if err != nil {
		t.Fatalf("harness: generated statement rejected by the production parser: %v\n%s", err, cc.Text)
	}
	cc.Parsed, err = fromStmt(q.Condition)
	if err != nil {
		t.Fatalf("parser produced an unusable condition for %q: %v", cc.Text, err)
	}
	if !cc.Flat && cc.Parsed.shape() != cc.Gen.shape() {
		t.Fatalf("the parser read the fully parenthesised condition differently:\n text   %s\n wanted %s\n parsed %s", cc.Text, cc.Gen.shape(), cc.Parsed.shape())
	}
	// leaves (atoms in order) never change, whatever the precedence
	ga, pa := cc.Gen.atoms(nil), cc.Parsed.atoms(nil)
	if len(ga) != len(pa) {
		t.Fatalf("parser lost atoms: %q -> %s", cc.Text, cc.Parsed.shape())
	}
	for i := range ga {
		if ga[i].shape() != pa[i].shape() {
			t.Fatalf("parser changed atom %d of %q: %s -> %s", i, cc.Text, ga[i].shape(), pa[i].shape())
		}
	}
	for _, a := range pa {
		cc.classes["op_"+a.Op.String()] = true
		if a.Neg {
			cc.classes["op_not_"+a.Op.String()] = true
		}
	}
	cc.classes[fmt.Sprintf("depth_%d", cc.Parsed.depth())] = true
	if cc.Flat {
		cc.classes["flat_chain"] = true
	}
	return cc
}

// ---- history --------------------------------------------------------------------------------------

type stepKind int

const (
	stWrite stepKind = iota
	stPrepare
	stFlush
	stCompact
	stReopen
	stRewrite
	stLookupFlush // a lookup with a complete flush / compaction nested inside (see nested_test.go)
)

type step struct {
	Kind     stepKind
	Batch    int
	Meta     bool
	Shards   []models.ShardID
	Flush    flushKind
	PickMask uint32
	DelObs   bool
	Rewrite  []int
	Nested   []*nestedPlan // operations nested inside the flush / compaction (see nested_test.go)
	Cond     int           // stLookupFlush: which condition (< 0: Probe)
	Probe    *condCase
	GB       int
}

func genShardSubset(t *rapid.T, shards []models.ShardID) []models.ShardID {
	if len(shards) == 1 || rapid.IntRange(0, 3).Draw(t, "allShards") > 0 {
		return shards
	}
	var out []models.ShardID
	for _, s := range shards {
		if rapid.Bool().Draw(t, "shardIn") {
			out = append(out, s)
		}
	}
	return out
}

// nest (may be nil) draws the operations nested inside a flush (false) or a compaction (true).
// lookup (may be nil) draws a lookup step with a flush nested inside.
func genHistory(t *rapid.T, nBatches int, nSeries int, shards []models.ShardID, nest func(compaction bool) []*nestedPlan, lookup func() step) []step {
	// about every third flush / compaction step has operations of other clients nested inside
	nested := func(s step) step {
		if nest != nil && (s.Kind == stCompact || s.Kind == stFlush && s.Flush != flushDataOnly) && rapid.IntRange(0, 2).Draw(t, "nestHere") == 0 {
			s.Nested = nest(s.Kind == stCompact)
		}
		return s
	}
	steps := []step{{Kind: stWrite, Batch: 0}}
	if rapid.IntRange(0, 14).Draw(t, "flushBeforeWrite") == 14 {
		// a flush of a still empty database (periodic flush job on an idle database)
		steps = []step{{Kind: stFlush, Flush: flushAll, Shards: shards}, {Kind: stWrite, Batch: 0}}
	}
	next := 1
	dirty := true   // index entries written since the last complete flush
	filesSince := 0 // complete flushes that wrote something since the last compaction
	compacted := false
	extra := rapid.IntRange(1, 4).Draw(t, "extraSteps")
	// a third of the histories start with the script "flush after every batch, compact, then restart
	// or write+flush" (the only way a compacted dictionary is ever read); the rest is a weighted walk
	if nBatches >= 2 && rapid.IntRange(0, 2).Draw(t, "scripted") == 2 {
		k := rapid.IntRange(2, nBatches).Draw(t, "scriptBatches")
		steps = append(steps, step{Kind: stFlush, Flush: flushAll, Shards: shards})
		for ; next < k; next++ {
			steps = append(steps, step{Kind: stWrite, Batch: next}, nested(step{Kind: stFlush, Flush: flushAll, Shards: shards}))
		}
		steps = append(steps, nested(step{Kind: stCompact, PickMask: 0xffffffff, DelObs: rapid.Bool().Draw(t, "delObsolete")}))
		dirty, filesSince = false, 0
		switch {
		case next < nBatches && rapid.Bool().Draw(t, "scriptWriteAfter"):
			steps = append(steps, step{Kind: stWrite, Batch: next}, nested(step{Kind: stFlush, Flush: flushAll, Shards: shards}))
			next++
			filesSince = 1
		default:
			steps = append(steps, step{Kind: stReopen})
		}
		extra = rapid.IntRange(0, 2).Draw(t, "extraAfterScript")
	}
	// weights of the next step depend on what would make a new index state
	for len(steps) < 16 && (next < nBatches || extra > 0) {
		wWrite, wPrep, wFlush, wCompact, wReopen, wRewrite, wLookup := 0, 1, 1, 1, 1, 1, 0
		if lookup != nil {
			wLookup = 1
			if dirty {
				wLookup = 3 // the nested flush has something to move
			}
		}
		if next < nBatches {
			wWrite = 3
			if !dirty {
				wWrite = 8
			}
		}
		if dirty {
			wFlush, wPrep = 7, 2
		}
		if filesSince >= 2 {
			wCompact = 14
		}
		if compacted {
			wReopen = 6 // the dictionary store reads the compacted file only after a restart or its next flush
		}
		total := wWrite + wPrep + wFlush + wCompact + wReopen + wRewrite + wLookup
		k := rapid.IntRange(0, total-1).Draw(t, "stepKind")
		switch {
		case k >= total-wLookup:
			s := lookup()
			steps = append(steps, s)
			for _, p := range s.Nested {
				if op := p.Ops[0]; op.Kind == nFlush && op.Flush == flushMetaIndex && len(op.Shards) == len(shards) {
					if dirty {
						filesSince++
					}
					dirty = false
				}
			}
		case k < wWrite:
			steps = append(steps, step{Kind: stWrite, Batch: next})
			next++
			dirty = true
			continue // writes do not count as extra steps
		case k < wWrite+wPrep:
			steps = append(steps, step{Kind: stPrepare, Meta: rapid.IntRange(0, 3).Draw(t, "prepMeta") > 0, Shards: genShardSubset(t, shards)})
		case k < wWrite+wPrep+wFlush:
			fk := rapid.SampledFrom([]flushKind{flushAll, flushAll, flushAll, flushAll, flushAll, flushMetaIndex, flushMetaOnly, flushIndexOnly, flushDataOnly}).Draw(t, "flushKind")
			sub := shards
			if fk != flushAll {
				sub = genShardSubset(t, shards)
			}
			steps = append(steps, nested(step{Kind: stFlush, Flush: fk, Shards: sub}))
			if (fk == flushAll || fk == flushMetaIndex) && len(sub) == len(shards) {
				if dirty {
					filesSince++
				}
				dirty = false
			}
		case k < wWrite+wPrep+wFlush+wCompact:
			mask := uint32(0xffffffff)
			if rapid.IntRange(0, 3).Draw(t, "compactSome") == 3 {
				mask = rapid.Uint32().Draw(t, "compactMask")
			}
			steps = append(steps, nested(step{Kind: stCompact, PickMask: mask, DelObs: rapid.Bool().Draw(t, "delObsolete")}))
			if filesSince >= 2 {
				compacted = true
			}
			filesSince = 0
		case k < wWrite+wPrep+wFlush+wCompact+wReopen:
			steps = append(steps, step{Kind: stReopen})
			if dirty {
				filesSince++
			}
			dirty = false
			compacted = false
		default:
			n := rapid.IntRange(1, 4).Draw(t, "rewriteN")
			var idx []int
			for i := 0; i < n; i++ {
				idx = append(idx, rapid.IntRange(0, nSeries-1).Draw(t, "rewriteIdx"))
			}
			steps = append(steps, step{Kind: stRewrite, Rewrite: idx})
		}
		extra--
	}
	for ; next < nBatches; next++ {
		steps = append(steps, step{Kind: stWrite, Batch: next})
	}
	return steps
}

// ---- checking ---------------------------------------------------------------------------------------

type caseStats struct {
	classes    map[string]bool
	nonTrivial bool
	queries    int
}

func sortedKeys(m map[string]bool) []string {
	out := make([]string, 0, len(m))
	for k := range m {
		out = append(out, k)
	}
	sort.Strings(out)
	return out
}

func setString(m map[string]float64) string {
	keys := make([]string, 0, len(m))
	for k := range m {
		keys = append(keys, k)
	}
	sort.Strings(keys)
	var b strings.Builder
	for _, k := range keys {
		fmt.Fprintf(&b, "%s=%v ", k, m[k])
	}
	return b.String()
}

// keysInSchema: the tag keys some written series of the metric carries (database wide).
func (w *world) keysInSchema(metric string) map[string]bool {
	out := map[string]bool{}
	for _, s := range w.series {
		if s.Metric == metric {
			for k := range s.Tags {
				out[k] = true
			}
		}
	}
	return out
}

// checkCond runs the condition in the current index state and compares with the brute-force answer.
func (w *world) checkCond(cc *condCase, st stateInfo, gbVariant int, stats *caseStats) {
	t := w.t
	mname := cc.Metric.Name
	// oracle
	want := map[string]float64{}
	total := 0
	for _, s := range w.series {
		if s.Metric != mname {
			continue
		}
		total++
		if cc.Parsed.eval(s.Tags) {
			want[s.UID] = float64(s.Writes)
		}
	}
	schema := w.keysInSchema(mname)
	keyMissing, keyKnown, negMissing := false, false, false
	for _, a := range cc.Parsed.atoms(nil) {
		if !schema[a.Key] {
			keyMissing = true
			if a.Neg {
				negMissing = true
			}
		} else {
			keyKnown = true
		}
	}
	ctx := func() string {
		return fmt.Sprintf("metric %s, condition: %s\nparsed as: %s\nindex state: dictFiles=%d invertedFiles=%d forwardFiles=%d prepared=%v compactions=%d reopened=%d\nhistory: %s",
			mname, cc.Text, cc.Parsed.shape(), st.dictFiles, st.invertedFiles, st.forwardFiles, w.everPrep, w.compactions, w.reopened, w.history())
	}

	// (a) group by uid: the selected set
	text := selectSQL(mname, cc.Gen, []string{"uid"}, cc.CondFst)
	rows, err := w.query(text)
	note := w.queryNote()
	stats.queries++
	if err != nil {
		t.Fatalf("query failed: %v\n%s\n%s", err, text, ctx())
	}
	got := map[string]float64{}
	for _, r := range rows {
		uid, ok := r.Tags["uid"]
		if !ok || len(r.Tags) != 1 {
			t.Fatalf("group by uid returned tags %v\n%s", r.Tags, ctx())
		}
		if _, dup := got[uid]; dup {
			t.Fatalf("group by uid returned the group %q twice\n%s", uid, ctx())
		}
		got[uid] = r.Sum
	}
	gs, ws := setString(got), setString(want)
	if keyMissing {
		// a key no series of the metric carries (yet). query/operator/tag_values_lookup.go documents: "the filter
		// matches nothing here, other filters of the condition still may" (only a condition none of whose keys is
		// known answers "tag key not found" == nothing); series_filtering.go: not(filter of such a key) selects
		// nothing. That is the brute-force evaluation (no series has the key), so the ordinary oracle applies:
		// the atoms over known keys of the same condition decide.
		stats.classes["key_not_in_schema"] = true
		switch {
		case !keyKnown:
			stats.classes["key_not_in_schema:no_known_key"] = true
		case len(want) > 0:
			stats.classes["key_not_in_schema:known_atoms_select"] = true
		default:
			stats.classes["key_not_in_schema:known_atoms_select_nothing"] = true
		}
		if negMissing {
			stats.classes["key_not_in_schema:negated"] = true
		}
	}
	if gs != ws {
		var missing, extra []string
		for k := range want {
			if _, ok := got[k]; !ok {
				missing = append(missing, k)
			}
		}
		for k := range got {
			if _, ok := want[k]; !ok {
				extra = append(extra, k)
			}
		}
		sort.Strings(missing)
		sort.Strings(extra)
		var detail strings.Builder
		for _, u := range append(append([]string{}, missing...), extra...) {
			if s, ok := w.byUID[u]; ok {
				fmt.Fprintf(&detail, "   %s metric=%s shard=%d tags=%v\n", u, s.Metric, s.Shard, s.Tags)
			} else {
				fmt.Fprintf(&detail, "   %s was never written\n", u)
			}
		}
		t.Fatalf("selected series differ from brute-force evaluation (uid=points)\n missing %v\n extra   %v\n%s got  %s\n want %s\n%s%s",
			missing, extra, detail.String(), gs, ws, ctx(), note)
	}
	// metamorphic: same data + condition => same answer in every index state
	if prev, ok := cc.first[w.version]; ok {
		if prev != gs {
			t.Fatalf("answer changed with the index state only\n before %s\n now    %s\n%s", prev, gs, ctx())
		}
	} else {
		cc.first[w.version] = gs
	}

	// non-trivial rule
	atoms := cc.Parsed.atoms(nil)
	special := false
	for _, a := range atoms {
		if a.Neg || a.Op == opLike || a.Op == opRegex {
			special = true
		}
	}
	notMemory := st.anyFile || w.everPrep
	if len(want) > 0 && len(want) < total && len(atoms) >= 2 && special && notMemory {
		cc.ntSeen = true
		stats.nonTrivial = true
	}
	switch {
	case len(want) == 0:
		stats.classes["sel_empty"] = true
	case len(want) == total:
		stats.classes["sel_all"] = true
	default:
		stats.classes["sel_proper_subset"] = true
	}

	// (b)/(c) group-by values
	keys := make([]string, 0, len(cc.Metric.Keys))
	for _, k := range cc.Metric.Keys {
		if schema[k] {
			keys = append(keys, k)
		}
	}
	if len(keys) == 0 {
		return
	}
	var gb []string
	switch gbVariant % 4 {
	case 0:
		gb = []string{"uid", keys[gbVariant/4%len(keys)]}
	case 1:
		gb = []string{keys[gbVariant/4%len(keys)]}
	case 2:
		if len(keys) < 2 {
			gb = []string{keys[0], "uid"}
		} else {
			i := gbVariant / 4 % len(keys)
			gb = []string{keys[i], keys[(i+1)%len(keys)]}
		}
	default:
		return
	}
	stats.classes[fmt.Sprintf("groupby_%dkeys_uid=%v", len(gb), gb[0] == "uid" || gb[len(gb)-1] == "uid")] = true
	text = selectSQL(mname, cc.Gen, gb, cc.CondFst)
	rows, err = w.query(text)
	stats.queries++
	if err != nil {
		t.Fatalf("query failed: %v\n%s\n%s", err, text, ctx())
	}
	groupKey := func(tags map[string]string) (string, bool) {
		var parts []string
		for _, k := range gb {
			v, ok := tags[k]
			if !ok {
				return "", false
			}
			parts = append(parts, k+"="+fmt.Sprintf("%q", v))
		}
		return strings.Join(parts, ","), true
	}
	wantG := map[string]float64{}
	lacking := 0
	for _, s := range w.series {
		if s.Metric != mname {
			continue
		}
		if _, sel := want[s.UID]; !sel {
			continue
		}
		if k, ok := groupKey(s.Tags); ok {
			wantG[k] += float64(s.Writes)
		} else {
			lacking++
		}
	}
	gotG := map[string]float64{}
	for _, r := range rows {
		k, ok := groupKey(r.Tags)
		if !ok || len(r.Tags) != len(gb) {
			t.Fatalf("group by %v returned tags %v\n%s\n%s", gb, r.Tags, text, ctx())
		}
		if _, dup := gotG[k]; dup {
			t.Fatalf("group by %v returned the group %s twice\n%s\n%s", gb, k, text, ctx())
		}
		gotG[k] = r.Sum
	}
	for k, v := range wantG {
		g, ok := gotG[k]
		if !ok {
			t.Fatalf("group by %v: group %s (points %v) of selected series is missing\n got  %s\n want %s\n%s\n%s", gb, k, v, setString(gotG), setString(wantG), text, ctx())
		}
		if g != v {
			t.Fatalf("group by %v: group %s has %v points, want %v\n got  %s\n want %s\n%s\n%s", gb, k, g, v, setString(gotG), setString(wantG), text, ctx())
		}
	}
	for k := range gotG {
		if _, ok := wantG[k]; !ok {
			if lacking > 0 {
				// series lacking a grouping key are neither required nor forbidden in the answer
				stats.classes["group_of_series_lacking_key"] = true
				continue
			}
			t.Fatalf("group by %v: unexpected group %s\n got  %s\n want %s\n%s\n%s", gb, k, setString(gotG), setString(wantG), text, ctx())
		}
	}
	if lacking > 0 {
		stats.classes["selected_series_lacking_group_key"] = true
	}
}

// checkpoint runs every condition in the current state.
func (w *world) checkpoint(conds []*condCase, round int, stats *caseStats) {
	if ev.Known(sigFamilyFilter) {
		// while that finding is open, data points are kept in the files only (no memory database at
		// query time); the index states under test are not affected by where the points live
		w.flush(flushDataOnly, w.shards)
		stats.classes["excluded_known_data_in_memory"] = true
	}
	st := w.state()
	switch {
	case !st.anyFile && !w.everPrep:
		stats.classes["state_memory"] = true
	case !st.anyFile && w.everPrep:
		stats.classes["state_prepared_only"] = true
	}
	if st.anyFile {
		stats.classes["state_files"] = true
	}
	if st.anyFile && w.everPrep {
		stats.classes["state_files+prepared"] = true
	}
	if st.dictFiles >= 2 {
		stats.classes["state_dict_in_2+_files"] = true
	}
	if st.invertedFiles >= 2 {
		stats.classes["state_inverted_in_2+_files"] = true
	}
	if st.forwardFiles >= 2 {
		stats.classes["state_forward_in_2+_files"] = true
	}
	if w.compactions > 0 {
		stats.classes["state_after_compaction"] = true
	}
	if w.reopened > 0 {
		stats.classes["state_after_reopen"] = true
	}
	if w.dictCompactedVisible {
		stats.classes["state_compacted_dictionary_read"] = true
	}
	w.recordIDPlanCheckpoint(st, stats)
	for i, cc := range conds {
		w.checkCond(cc, st, round+i, stats)
	}
}

// runCase executes one generated case.
func runCase(t *rapid.T, group string, shards []models.ShardID, leaves int) {
	plans := genMetricPlans(t)
	n := rapid.SampledFrom([]int{5, 8, 12, 20, 20, 30, 30, 45, 60, 60, 90, 140, 200}).Draw(t, "nSeries")
	all := genSeries(t, plans, shards, n)
	// a quarter of the cases: series ids across roaring container boundaries (idplan_test.go)
	idPlans := 0
	if rapid.IntRange(0, 3).Draw(t, "idPlan") == 0 {
		idPlans = planSeriesIDs(t, all)
	}
	nBatches := rapid.SampledFrom([]int{1, 2, 2, 3, 3, 3, 4, 4, 5}).Draw(t, "nBatches")
	if nBatches > n {
		nBatches = n
	}
	// batch boundaries
	cuts := []int{0}
	for i := 1; i < nBatches; i++ {
		cuts = append(cuts, rapid.IntRange(1, n-1).Draw(t, "cut"))
	}
	cuts = append(cuts, n)
	sort.Ints(cuts)
	nConds := rapid.IntRange(2, 4).Draw(t, "nConds")
	var conds []*condCase
	for i := 0; i < nConds; i++ {
		conds = append(conds, genCondCase(t, plans))
	}
	// series that only operations nested inside a flush / compaction write
	spare := genSeriesFrom(t, plans, shards, 9000, 6)
	var lookupGen func() step
	// one shard only: with several shards the pipelines of the other shards would keep running while the lookup
	// is parked, i.e. truly concurrently with the nested flush, which this harness does not control
	if !ev.Known(sigSnapshotBeforeMemory) && len(shards) == 1 {
		lookupGen = func() step {
			s := step{Kind: stLookupFlush, Cond: rapid.IntRange(-2, nConds-1).Draw(t, "lookupCond"), GB: rapid.IntRange(0, 11).Draw(t, "lookupGB")}
			if s.Cond < 0 {
				s.Probe = genCondCaseDepth(t, plans, rapid.IntRange(0, 1).Draw(t, "probeDepth"))
			}
			s.Nested = genLookupPlans(t, shards)
			return s
		}
	}
	steps := genHistory(t, nBatches, n, shards, func(compaction bool) []*nestedPlan {
		return genNestedPlans(t, compaction, plans, nConds, n)
	}, lookupGen)

	w := newWorld(t, shards, leaves)
	defer w.close()
	stats := &caseStats{classes: map[string]bool{}}
	nextSpare, sweepDue := 0, false
	// runNested runs body with the plans of the step armed
	runNested := func(s step, body func()) {
		if len(s.Nested) == 0 {
			body()
			return
		}
		w.logf("next step with nested operations %v", s.Nested)
		w.withSeams(s.Nested, w.nestedRunner(all, spare, conds, w.state(), stats, &nextSpare), body)
		recordNested(s.Nested, map[bool]string{false: "flush", true: "compaction"}[s.Kind == stCompact], stats)
		sweepDue = true
	}
	for si, s := range steps {
		switch s.Kind {
		case stWrite:
			b := all[cuts[s.Batch]:cuts[s.Batch+1]]
			if len(b) == 0 {
				continue
			}
			w.write(b)
		case stRewrite:
			var b []*seriesT
			seen := map[string]bool{}
			for _, i := range s.Rewrite {
				if _, written := w.byUID[all[i].UID]; written && !seen[all[i].UID] {
					seen[all[i].UID] = true
					b = append(b, all[i])
				}
			}
			if len(b) == 0 {
				continue
			}
			w.write(b)
			stats.classes["rewrite_existing_series"] = true
		case stPrepare:
			w.prepare(s.Meta, s.Shards)
		case stFlush:
			runNested(s, func() { w.flush(s.Flush, s.Shards) })
			if s.Flush != flushAll {
				stats.classes["partial_flush"] = true
			}
		case stCompact:
			mask := s.PickMask
			runNested(s, func() { w.compact(func(i int) bool { return mask&(1<<(uint(i)%32)) != 0 }, s.DelObs) })
			w.recordIDPlanCompaction(stats)
		case stReopen:
			w.reopen()
		case stLookupFlush:
			cc := s.Probe
			if cc == nil {
				cc = conds[s.Cond]
			}
			st := w.state()
			w.logf("lookup with nested steps %v: %s: %s", s.Nested, cc.Metric.Name, cc.Text)
			w.bodyNotJudged = false
			w.withSeams(s.Nested, w.nestedRunner(all, spare, conds, st, stats, &nextSpare), func() { w.softCheck(cc, st, s.GB, stats) })
			recordNested(s.Nested, "lookup", stats)
			if w.bodyNotJudged {
				stats.classes["nested_overlapped_answers_not_judged"] = true
			}
		}
		w.checkpoint(conds, si, stats)
		if sweepDue && (len(s.Nested) > 0 || si == len(steps)-1) {
			w.sweep(plans, stats)
		}
	}
	for _, cc := range conds {
		for c := range cc.classes {
			stats.classes[c] = true
		}
	}
	if len(shards) > 1 {
		stats.classes[fmt.Sprintf("shards_%d_leaves_%d", len(shards), leaves)] = true
	}
	if idPlans > 0 {
		stats.classes["idplan_case"] = true
		if len(w.planned) > 0 {
			stats.classes[fmt.Sprintf("idplan_series_ids_in_%d_containers", w.containersOf(-1))] = true
		}
		if w.idJumpsDropped > 0 {
			stats.classes["idplan_jump_dropped_sequence_already_beyond"] = true
		}
	}
	var canon strings.Builder
	for _, s := range all {
		fmt.Fprintf(&canon, "%s/%d/%v/%d|", s.Metric, s.Shard, s.Tags, s.Jump)
	}
	var condTexts []string
	for _, cc := range conds {
		fmt.Fprintf(&canon, "%s:%s|", cc.Metric.Name, cc.Text)
		condTexts = append(condTexts, cc.Metric.Name+": "+cc.Text)
	}
	canon.WriteString(w.history())
	ev.Case(group, canon.String(), stats.nonTrivial, sortedKeys(stats.classes), map[string]any{
		"series": n, "metrics": len(plans), "shards": len(shards), "conditions": condTexts, "history": w.log, "queries": stats.queries,
	})
}

// ---- tests -------------------------------------------------------------------------------------------

// TestTagFilter: one database, one shard.
func TestTagFilter(t *testing.T) {
	rapid.Check(t, func(t *rapid.T) {
		runCase(t, "TestTagFilter", []models.ShardID{0}, 1)
	})
}

// TestTagFilterMultiShard: 2-3 shards of one database (shared dictionaries, one index per shard),
// served by one or two leaves.
func TestTagFilterMultiShard(t *testing.T) {
	rapid.Check(t, func(t *rapid.T) {
		ns := rapid.IntRange(2, 3).Draw(t, "shards")
		shards := make([]models.ShardID, ns)
		for i := range shards {
			shards[i] = models.ShardID(i)
		}
		leaves := rapid.IntRange(1, 2).Draw(t, "leaves")
		runCase(t, "TestTagFilterMultiShard", shards, leaves)
	})
}
