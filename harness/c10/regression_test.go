package c10

import (
	"bytes"
	"fmt"
	"sort"
	"strings"
	"testing"

	"github.com/lindb/roaring"

	v1 "github.com/lindb/lindb/index/v1"
	"github.com/lindb/lindb/models"
	"github.com/lindb/lindb/pkg/encoding"
	"github.com/lindb/lindb/verifharness/sim/ev"
)

// Plain reproductions (no rapid) of the violations the generated search found. Each one fails
// on a tree that has the defect, unless the defect is listed in known_findings.json, in which
// case it prints the KNOWN-FINDING line and passes.

func verdict(t *testing.T, sig string, reproduced bool, what string) {
	t.Helper()
	if !reproduced {
		return
	}
	if ev.Known(sig) {
		ev.KnownFinding("C10", sig+": "+what)
		return
	}
	t.Fatalf("%s: %s", sig, what)
}

func mkSeries(metric string, i int, kvs ...string) *seriesT {
	s := &seriesT{Metric: metric, UID: fmt.Sprintf("u%04d", i), Tags: map[string]string{}}
	s.Tags["uid"] = s.UID
	for k := 0; k+1 < len(kvs); k += 2 {
		s.Tags[kvs[k]] = kvs[k+1]
	}
	return s
}

// uids runs `select f from <metric> where <cond> group by uid` and returns the sorted uid list.
func (w *world) uids(metric, cond string) (string, error) {
	rows, err := w.query("select f from " + metric + " where " + timeRange + " and " + cond + " group by uid" + limitText)
	if err != nil {
		return "", err
	}
	var out []string
	for _, r := range rows {
		out = append(out, r.Tags["uid"])
	}
	sort.Strings(out)
	return strings.Join(out, ","), nil
}

// Design defect D3 (found under C20, repaired in /repo by b27f7d4), seen through a query: the flushed
// dictionary (TrieBucket.FindValuesByRegexp) only scanned the keys that start with the literal prefix
// of the expression, although an unanchored expression may match anywhere; the in-memory dictionary
// uses rp.Match on every key.
const sigRegexPrefix = "C10/regexp-literal-prefix-unanchored-on-flushed-dictionary"

func TestRegression_RegexUnanchoredAfterFlush(t *testing.T) {
	w := newWorld(t, []models.ShardID{0}, 1)
	defer w.close()
	w.write([]*seriesT{mkSeries("m", 1, "host", "a"), mkSeries("m", 2, "host", "ba"), mkSeries("m", 3, "host", "ab"), mkSeries("m", 4, "host", "cab"), mkSeries("m", 5, "host", "x")})
	for _, c := range []struct{ cond, want string }{
		{"host =~ 'a'", "u0001,u0002,u0003,u0004"},
		{"host =~ 'b$'", "u0003,u0004"},
		{"host !~ 'a'", "u0005"},
		{"host =~ '^a'", "u0001,u0003"},
	} {
		mem, err := w.uids("m", c.cond)
		if err != nil || mem != c.want {
			t.Fatalf("in memory: %s -> %q, %v; want %q", c.cond, mem, err, c.want)
		}
	}
	w.flush(flushAll, w.shards)
	for _, c := range []struct{ cond, want string }{
		{"host =~ 'a'", "u0001,u0002,u0003,u0004"},
		{"host =~ 'b$'", "u0003,u0004"},
		{"host !~ 'a'", "u0005"},
		{"host =~ '^a'", "u0001,u0003"},
	} {
		got, err := w.uids("m", c.cond)
		if err != nil {
			t.Fatalf("flushed: %s: %v", c.cond, err)
		}
		verdict(t, sigRegexPrefix, got != c.want,
			fmt.Sprintf("hosts {a,ba,ab,cab,x}: `%s` selects [%s] in memory and [%s] after the dictionary was flushed", c.cond, c.want, got))
	}
}

// `host like '*'`: indexKVStore.FindValuesByLike takes likeSlice[1:len-1] = [1:0] -> panic in the
// leaf (index/kv_store.go). The web UI builds `like '<typed prefix>*'`, i.e. exactly this for an empty prefix.
func TestRegression_LikeSingleStar(t *testing.T) {
	w := newWorld(t, []models.ShardID{0}, 1)
	defer w.close()
	w.write([]*seriesT{mkSeries("m", 1, "host", "a"), mkSeries("m", 2, "host", "b"), mkSeries("m", 3)})
	for _, st := range []string{"memory", "flushed"} {
		got, err := w.uids("m", "host like '*'")
		bad := err != nil || got != "u0001,u0002"
		verdict(t, sigLikeStar, bad, fmt.Sprintf("%s: `host like '*'` -> [%s], err=%v; `host like '**'` and `host like 'a*'` work, a lone star should select every series that has the key", st, got, err))
		got, err = w.uids("m", "host not like '*'")
		verdict(t, sigLikeStar, err != nil || got != "", fmt.Sprintf("%s: `host not like '*'` -> [%s], err=%v", st, got, err))
		w.flush(flushAll, w.shards)
	}
}

// dataFamily.Filter gives up on the whole family when either the memory database or the files
// report "not found": (a) a series written after a flush is invisible to a query that selects only
// such series (the file knows the metric, but none of the selected series); (b) after a restart a
// series that lives only in the files is invisible as soon as the memory database holds other
// series of the metric. tsdb/data_family.go Filter/memoryFilter.
const sigFamilyFilter = "C10/family-filter-not-found-in-memory-or-files-hides-the-other"

func TestRegression_FamilyFilterNotFoundHidesOtherPart(t *testing.T) {
	w := newWorld(t, []models.ShardID{0}, 1)
	defer w.close()
	w.write([]*seriesT{mkSeries("m", 1, "host", "a"), mkSeries("m", 2, "host", "b")})
	w.flush(flushAll, w.shards)
	w.write([]*seriesT{mkSeries("m", 3, "host", "c")})
	got, err := w.uids("m", "host = 'c'")
	verdict(t, sigFamilyFilter, err != nil || got != "u0003",
		fmt.Sprintf("write {a,b}, flush, write c: `host = 'c'` -> [%s] err=%v (want u0003); `host in ('a','c')` works", got, err))
	got, err = w.uids("m", "host in ('a','c')")
	if err != nil || got != "u0001,u0003" {
		t.Fatalf("host in ('a','c') -> [%s] %v", got, err)
	}
	w.reopen()
	w.write([]*seriesT{mkSeries("m", 4, "host", "d")})
	got, err = w.uids("m", "host = 'a'")
	verdict(t, sigFamilyFilter, err != nil || got != "u0001",
		fmt.Sprintf("restart, write d: `host = 'a'` (data only in the files) -> [%s] err=%v (want u0001)", got, err))
}

// The forward index file stores the tag value ids container by container; the reader's offset
// table holds the size of the previous container instead of the running sum, so from the third
// container on (series ids >= 131072 under one tag key) group-by and the forward merger read the
// value ids of another container. index/v1/forward_reader.go NewTagForwardReader.
const sigForwardLUT = "C10/forward-reader-offset-table-not-cumulative"

func TestRegression_ForwardReaderThirdContainer(t *testing.T) {
	ids := roaring.New()
	var values []uint32
	for c := uint32(0); c < 3; c++ {
		for i := uint32(0); i < 3+c; i++ { // 3, 4, 5 series in the containers 0, 1, 2
			ids.Add(c<<16 + i)
			values = append(values, 100*(c+1)+i)
		}
	}
	var buf bytes.Buffer
	if _, err := ids.WriteTo(&buf); err != nil {
		t.Fatal(err)
	}
	buf.Write(encoding.U32SliceToBytes(values))
	r, err := v1.NewTagForwardReader(buf.Bytes())
	if err != nil {
		t.Fatal(err)
	}
	for c := uint16(0); c < 3; c++ {
		_, got := r.GetSeriesAndTagValue(c)
		var want []uint32
		for i := uint32(0); i < 3+uint32(c); i++ {
			want = append(want, 100*(uint32(c)+1)+i)
		}
		verdict(t, sigForwardLUT, fmt.Sprint(got) != fmt.Sprint(want),
			fmt.Sprintf("forward index with containers of 3,4,5 series: tag value ids of container %d = %v, want %v", c, got, want))
	}
}

// Group-by tag values of one series travel from the leaf to the root as one comma-joined
// string (tag.ConcatTagValues / SplitTagValues); a value that contains ',' splits into too many
// parts and the root silently drops the series (query/context/root_metric_context.go).
func TestRegression_CommaInGroupingTagValue(t *testing.T) {
	w := newWorld(t, []models.ShardID{0}, 1)
	defer w.close()
	w.write([]*seriesT{mkSeries("m", 1, "host", "a,b"), mkSeries("m", 2, "host", "c")})
	rows, err := w.query("select f from m where " + timeRange + " and uid like 'u*' group by host" + limitText)
	if err != nil {
		t.Fatal(err)
	}
	var got []string
	for _, r := range rows {
		got = append(got, r.Tags["host"])
	}
	sort.Strings(got)
	verdict(t, sigComma, strings.Join(got, "|") != "a,b|c",
		fmt.Sprintf("series host='a,b' and host='c', group by host returns %q: the series whose value contains a comma is gone", got))
}

// A flush while a memory store is empty left an empty, non-nil immutable store behind; every later
// PrepareFlush was a no-op and nothing written afterwards was ever persisted (found under C09,
// repaired in /repo by 3940569; C10's histories rely on the repair for every state after a restart).
const sigWedge = "C10/flush-of-empty-memory-store-wedges-later-flushes"

func TestRegression_FlushOfEmptyStoreWedgesLaterFlushes(t *testing.T) {
	w := newWorld(t, []models.ShardID{0}, 1)
	defer w.close()
	w.flush(flushAll, w.shards) // idle database
	w.write([]*seriesT{mkSeries("m", 1, "host", "a")})
	w.flush(flushAll, w.shards)
	st := w.state()
	verdict(t, sigWedge, !st.anyFile, "flush (nothing written), write, flush: no index or dictionary family has a file")
	if st.anyFile {
		w.reopen()
		got, err := w.uids("m", "host = 'a'")
		if err != nil || got != "u0001" {
			t.Fatalf("after restart: [%s] %v", got, err)
		}
	}
}

// A flush of the shard index that runs to completion inside a lookup, between the moment the lookup
// takes the snapshot of the inverted (forward) family and the moment it reads the memory stores:
// the flush commits the new file and drops the frozen store, the lookup sees the old files and an
// empty memory, i.e. none of the series indexed since the previous flush (sigSnapshotBeforeMemory,
// index/metric_index_database.go invertedIndex.findSeriesIDsByKeys / getSeriesIDs,
// forwardIndex.findSeriesIDsForTag / GetGroupingContext; repaired in /repo by df632b5: memory is read before the
// snapshot is taken, the dictionary stores read memory and pick the snapshot in one critical section).
func TestRegression_FlushBetweenSnapshotAndMemoryRead(t *testing.T) {
	for _, c := range []struct{ target, cond, want string }{
		{"index/inverted", "host in ('a','c')", "u0001,u0003,u0004"}, // posting lists of a and c
		{"index/forward", "host in ('a','c')", "u0001,u0003,u0004"},  // group by uid: scanners of the forward index
		{"index/forward", "host != 'b'", "u0001,u0003,u0004"},        // series having the key
	} {
		w := newWorld(t, []models.ShardID{0}, 1)
		w.write([]*seriesT{mkSeries("m", 1, "host", "a"), mkSeries("m", 2, "host", "b")})
		w.flush(flushAll, w.shards)
		w.write([]*seriesT{mkSeries("m", 3, "host", "a"), mkSeries("m", 4, "host", "c")})
		plan := &nestedPlan{Target: c.target, Op: "getSnapshot", Before: false, Ops: []nestedOp{{Kind: nFlush, Flush: flushMetaIndex, Shards: w.shards}}}
		stats := &caseStats{classes: map[string]bool{}}
		n := 0
		var got string
		var err error
		w.withSeams([]*nestedPlan{plan}, w.nestedRunner(nil, nil, nil, stateInfo{}, stats, &n), func() { got, err = w.uids("m", c.cond) })
		after, err2 := w.uids("m", c.cond)
		w.close()
		if err != nil || err2 != nil {
			t.Fatalf("query failed: %v %v", err, err2)
		}
		if !plan.fired || plan.deferred || plan.overlapped {
			t.Fatalf("harness: the flush did not run inside the lookup at %s (fired=%v deferred=%v overlapped=%v)", c.target, plan.fired, plan.deferred, plan.overlapped)
		}
		if after != c.want {
			t.Fatalf("after the flush: %s -> %q, want %q", c.cond, after, c.want)
		}
		verdict(t, sigSnapshotBeforeMemory, got != c.want,
			fmt.Sprintf("index flush completed inside the lookup at %s: %s selected %q, brute force %q", plan.at, c.cond, got, c.want))
	}
}
