package c10

import (
	"fmt"
	"path/filepath"
	"runtime/debug"
	"sort"
	"strings"
	"sync"
	"time"

	"pgregory.net/rapid"

	"github.com/lindb/lindb/index"
	"github.com/lindb/lindb/kv"
	"github.com/lindb/lindb/kv/table"
	"github.com/lindb/lindb/kv/version"
	"github.com/lindb/lindb/models"
)

// ---- operations nested inside a flush / compaction of the dictionary and index families ---------------
//
// "Being flushed" is not one state: between the moment a store freezes its memory and the moment
// it has swapped to the new file there are many points at which another goroutine (a query, a
// write) may run. The harness owns these points: every file-system operation of the kv families
// below the metadata / shard index directories (kv, table hooks) and every call an index store
// makes to its kv family or kv flusher (index.VerifWrap*Families, /repo/index/c10_w3_verif.go:
// newFlusher, commit, getSnapshot, release). At a drawn point the flushing (compacting) goroutine
// is parked and the pre-drawn operations (conditions checked against the brute-force model,
// re-writes of known series, writes of new series) run on another goroutine, as a concurrent
// client would. A point at which the store's own lock is held exclusively is not a scheduling
// point for a client of that store (it would wait): the operations then run as soon as the flush
// call has returned. After the step the usual quiescent checkpoint runs, plus the dictionary sweep.
//
// The same points seen from the other side: a lookup asks the inverted / forward / metric family
// (and the schema family) for a snapshot; at such a point the lookup is parked and a complete
// flush of dictionaries and/or index runs on another goroutine (step "lookup with a flush inside",
// one shard only). The lookup must still answer what the model says: all writes were complete.

// seamPoint is one harness-owned point.
type seamPoint struct {
	Store  string // "meta" (database metadata: ns, metric, schema, tv) | "index" (per shard: series, metric, inverted, forward)
	Family string
	Op     string
	Before bool
	Locked bool // the owning store's lock is held exclusively (family seams only)
}

func (p seamPoint) String() string {
	when := "after"
	if p.Before {
		when = "before"
	}
	return p.Store + "/" + p.Family + ":" + p.Op + ":" + when
}

type nestedOpKind int

const (
	nLookup   nestedOpKind = iota // one of the conditions of the case
	nProbe                        // a fresh small condition (0-1 operators)
	nRewrite                      // another point of already written series
	nWriteNew                     // new series
	nFlush                        // (inside a lookup) a complete flush
	nCompact                      // (inside a lookup) a complete compaction of the dictionary/index families; not generated, see genLookupPlans
)

func (k nestedOpKind) String() string {
	return [...]string{"lookup", "probe", "rewrite", "write_new", "flush", "compact"}[k]
}

type nestedOp struct {
	Kind  nestedOpKind
	Cond  int       // nLookup
	Probe *condCase // nProbe
	Idx   []int     // nRewrite: indexes into the series of the case
	N     int       // nWriteNew: how many of the spare series
	GB    int       // group-by variant of the check
	// nFlush / nCompact
	Flush  flushKind
	Shards []models.ShardID
	DelObs bool
}

// nestedPlan: run Ops at the (Nth+1)-th point that matches Target/Op/Before.
type nestedPlan struct {
	Target string // "meta/tv", "index/inverted", ... or "*"
	Op     string // seam operation or "*"
	Before bool
	Nth    int
	Ops    []nestedOp

	seen       int
	fired      bool
	at         seamPoint
	deferred   bool   // the point was reached with the store lock held: ran right after the call
	overlapped bool   // the operations did not finish within nestedWait
	checkFail  string // a lookup of this plan disagreed with the model
}

func (p *nestedPlan) matches(pt seamPoint) bool {
	if p.Target != "*" && p.Target != pt.Store+"/"+pt.Family {
		return false
	}
	if p.Op != "*" && (p.Op != pt.Op || p.Before != pt.Before) {
		return false
	}
	return true
}

func (p *nestedPlan) String() string {
	when := "after"
	if p.Before {
		when = "before"
	}
	var ops []string
	for _, o := range p.Ops {
		ops = append(ops, o.Kind.String())
	}
	return fmt.Sprintf("%s:%s:%s#%d%v", p.Target, p.Op, when, p.Nth, ops)
}

// nestedWait bounds how long the parked flush waits for the nested operations. It is only
// reached when the operations wait for a lock that is held at the point (not observed on the
// unchanged tree) or on a badly overloaded machine. The flush then goes on; from that moment the
// nested operations run truly concurrently with it, which is outside what this harness controls:
// the answers of their lookups are not judged then (class nested_overlapped_answers_not_judged).
const nestedWait = 3 * time.Second

var errCaptured = fmt.Errorf("captured")

// captureFailer records the first failure of code that may run outside the test goroutine.
// While checking is set (by the goroutine of the nested operations, around the comparison of a
// lookup with the model) a failure goes to checkMsg instead.
type captureFailer struct {
	mu       sync.Mutex
	msg      string
	checking bool
	checkMsg string
}

func (c *captureFailer) Fatalf(format string, args ...any) {
	c.mu.Lock()
	switch {
	case c.checking:
		if c.checkMsg == "" {
			c.checkMsg = fmt.Sprintf(format, args...)
		}
	case c.msg == "":
		c.msg = fmt.Sprintf(format, args...)
	}
	c.mu.Unlock()
	panic(errCaptured)
}

func (c *captureFailer) setChecking(on bool) {
	c.mu.Lock()
	c.checking = on
	c.mu.Unlock()
}

func (c *captureFailer) takeCheckMsg() string {
	c.mu.Lock()
	defer c.mu.Unlock()
	m := c.checkMsg
	c.checkMsg, c.checking = "", false
	return m
}

func (c *captureFailer) Logf(string, ...any) {}

func (c *captureFailer) message() string {
	c.mu.Lock()
	defer c.mu.Unlock()
	return c.msg
}

// seamCtl dispatches the points of one step.
type seamCtl struct {
	mu      sync.Mutex
	armed   bool
	busy    bool // nested operations are running: points they pass themselves are not scheduling points
	plans   []*nestedPlan
	pending []chan struct{}
	points  int
	run     func(p *nestedPlan)
	cf      *captureFailer
}

func (sc *seamCtl) at(pt seamPoint) {
	sc.mu.Lock()
	if !sc.armed || sc.busy {
		sc.mu.Unlock()
		return
	}
	sc.points++
	var hit *nestedPlan
	for _, p := range sc.plans {
		if p.fired || !p.matches(pt) {
			continue
		}
		if p.seen < p.Nth {
			p.seen++
			continue
		}
		if hit == nil {
			hit = p
		}
	}
	if hit == nil {
		sc.mu.Unlock()
		return
	}
	hit.fired, hit.at = true, pt
	if pt.Locked {
		hit.deferred = true
		sc.mu.Unlock()
		return
	}
	sc.busy = true
	done := make(chan struct{})
	sc.pending = append(sc.pending, done)
	sc.mu.Unlock()
	go func() {
		defer func() {
			if r := recover(); r != nil && r != errCaptured {
				sc.cf.mu.Lock()
				if sc.cf.msg == "" {
					sc.cf.msg = fmt.Sprintf("panic in an operation nested at %s: %v\n%s", pt, r, debug.Stack())
				}
				sc.cf.mu.Unlock()
			}
			hit.checkFail = sc.cf.takeCheckMsg()
			sc.mu.Lock()
			sc.busy = false
			sc.mu.Unlock()
			close(done)
		}()
		sc.run(hit)
	}()
	select {
	case <-done:
	case <-time.After(nestedWait):
		hit.overlapped = true
	}
}

var indexFamilyNames = map[string]bool{"ns": true, "metric": true, "schema": true, "tv": true, "series": true, "inverted": true, "forward": true}

// classify maps a path below the database directory to the store kind ("meta" | "index") and,
// when the path lies inside a family directory, the family.
func (w *world) classify(path string) (store, family string, ok bool) {
	rel, err := filepath.Rel(filepath.Join(w.dir, "data", w.db), path)
	if err != nil || strings.HasPrefix(rel, "..") {
		return "", "", false
	}
	parts := strings.Split(filepath.ToSlash(rel), "/")
	switch {
	case len(parts) >= 2 && parts[0] == "meta" && parts[1] == "kv":
		store, parts = "meta", parts[2:]
	case len(parts) >= 3 && parts[0] == "shard" && parts[2] == "index":
		store, parts = "index", parts[3:]
	default:
		return "", "", false
	}
	if len(parts) > 0 && indexFamilyNames[parts[0]] {
		family = parts[0]
	}
	return store, family, true
}

// withSeams runs body (a flush or a compaction on this goroutine) with the plans armed.
// Failures of body and of the nested operations are collected and reported afterwards on the
// test goroutine.
func (w *world) withSeams(plans []*nestedPlan, run func(p *nestedPlan), body func()) {
	real := w.t
	cf := &captureFailer{}
	sc := &seamCtl{armed: true, plans: plans, run: run, cf: cf}
	fsHook := func(op, path string, before bool) {
		if store, family, ok := w.classify(path); ok && family != "" {
			sc.at(seamPoint{Store: store, Family: family, Op: op, Before: before})
		}
	}
	famSeam := func(storePath, family, op string, before, locked bool) {
		if store, _, ok := w.classify(storePath); ok {
			sc.at(seamPoint{Store: store, Family: family, Op: op, Before: before, Locked: locked})
		}
	}
	d := w.database()
	restore := []func(){index.VerifWrapMetaFamilies(d.MetaDB(), famSeam)}
	for _, id := range w.shards {
		sh, _ := d.GetShard(id)
		restore = append(restore, index.VerifWrapIndexFamilies(sh.IndexDB(), famSeam))
	}
	kv.VerifSetFSHook(fsHook)
	version.VerifSetFSHook(version.VerifFSHook(fsHook))
	table.VerifSetFSHook(table.VerifFSHook(fsHook))
	w.t = cf
	cleaned := false
	cleanup := func() {
		if cleaned {
			return
		}
		cleaned = true
		sc.mu.Lock()
		sc.armed = false
		sc.mu.Unlock()
		kv.VerifSetFSHook(nil)
		version.VerifSetFSHook(nil)
		table.VerifSetFSHook(nil)
		for _, r := range restore {
			r()
		}
	}
	defer func() {
		cleanup()
		w.t = real
	}()
	// captured runs f; a failure reported through cf unwinds to here
	captured := func(f func()) {
		defer func() {
			if r := recover(); r != nil && r != errCaptured {
				panic(r)
			}
		}()
		f()
	}
	captured(body)
	sc.mu.Lock()
	sc.armed = false
	pending := sc.pending
	sc.mu.Unlock()
	for _, done := range pending {
		select {
		case <-done:
		case <-time.After(30 * time.Second):
			cleanup()
			real.Fatalf("operations nested inside a flush/compaction did not finish within 30 s after it (plans %v)\nhistory: %s", plans, w.history())
		}
	}
	cleanup()
	overlapped := false
	for _, p := range plans {
		overlapped = overlapped || p.overlapped
		if p.checkFail != "" && !p.overlapped && cf.message() == "" {
			cf.msg = p.checkFail
		}
	}
	// a lookup that was the body (softCheck on this goroutine)
	if m := cf.takeCheckMsg(); m != "" && cf.message() == "" {
		if overlapped {
			w.bodyNotJudged = true
		} else {
			cf.msg = m
		}
	}
	// points reached under the store lock: the client was waiting, it runs now
	if cf.message() == "" {
		captured(func() {
			for _, p := range plans {
				if p.deferred {
					run(p)
				}
			}
		})
		if m := cf.takeCheckMsg(); m != "" {
			cf.msg = m
		}
	}
	if msg := cf.message(); msg != "" {
		var where []string
		for _, p := range plans {
			if p.fired {
				where = append(where, p.at.String())
			}
		}
		real.Fatalf("%s\n(operations were nested inside the last step at %v)", msg, where)
	}
}

// ---- generators -------------------------------------------------------------------------------------

var nestedTargets = []string{"meta/tv", "meta/tv", "meta/tv", "meta/tv", "meta/tv", "index/inverted", "index/inverted", "index/forward", "index/forward",
	"index/series", "index/series", "index/metric", "meta/schema", "meta/metric", "meta/ns", "*", "*", "*"}

func genNestedPlan(t *rapid.T, compaction bool, plans []*metricPlan, nConds, nSeries int) *nestedPlan {
	p := &nestedPlan{}
	p.Target = rapid.SampledFrom(nestedTargets).Draw(t, "nestTarget")
	var ops []string
	switch {
	case compaction:
		ops = []string{"tableCreate", "tableWrite", "tableClose", "listDir", "removeDir", "*"}
	case p.Target == "*" || p.Target == "meta/tv" || p.Target == "meta/ns" || p.Target == "meta/metric" || p.Target == "index/series":
		// dictionary stores re-read the family snapshot at the end of their flush
		ops = []string{"newFlusher", "tableCreate", "tableWrite", "tableClose", "commit", "commit", "getSnapshot", "getSnapshot", "getSnapshot", "release", "*"}
	default:
		ops = []string{"newFlusher", "tableCreate", "tableWrite", "tableClose", "commit", "commit", "release", "*"}
	}
	p.Op = rapid.SampledFrom(ops).Draw(t, "nestOp")
	p.Before = rapid.Bool().Draw(t, "nestBefore")
	p.Nth = rapid.SampledFrom([]int{0, 0, 0, 0, 1, 2, 5}).Draw(t, "nestNth")
	if p.Op != "tableWrite" && p.Op != "*" && p.Target != "*" && p.Nth > 1 {
		p.Nth = 0
	}
	n := rapid.IntRange(1, 3).Draw(t, "nestOps")
	for i := 0; i < n; i++ {
		op := nestedOp{GB: rapid.IntRange(0, 11).Draw(t, "nestGB")}
		switch k := rapid.IntRange(0, 9).Draw(t, "nestKind"); {
		case k < 3:
			op.Kind = nLookup
			op.Cond = rapid.IntRange(0, nConds-1).Draw(t, "nestCond")
		case k < 7:
			op.Kind = nProbe
			op.Probe = genCondCaseDepth(t, plans, rapid.IntRange(0, 1).Draw(t, "probeDepth"))
		case k < 8:
			op.Kind = nRewrite
			for j := rapid.IntRange(1, 3).Draw(t, "nestRewriteN"); j > 0; j-- {
				op.Idx = append(op.Idx, rapid.IntRange(0, nSeries-1).Draw(t, "nestRewriteIdx"))
			}
		default:
			op.Kind = nWriteNew
			op.N = rapid.IntRange(1, 3).Draw(t, "nestWriteN")
		}
		p.Ops = append(p.Ops, op)
	}
	return p
}

func genNestedPlans(t *rapid.T, compaction bool, plans []*metricPlan, nConds, nSeries int) []*nestedPlan {
	var out []*nestedPlan
	for n := rapid.SampledFrom([]int{1, 1, 2, 3}).Draw(t, "nestPlans"); n > 0; n-- {
		out = append(out, genNestedPlan(t, compaction, plans, nConds, nSeries))
	}
	return out
}

// sigSnapshotBeforeMemory: the index reads take the kv snapshot before they read the memory stores; a
// flush that completes in between moves entries from memory into a file the reader does not see
// (see TestRegression_FlushBetweenSnapshotAndMemoryRead).
const sigSnapshotBeforeMemory = "C10/index-read-snapshot-before-memory-misses-flushed-entries"

// genLookupPlans: a flush (or compaction) that runs to completion inside a lookup, at one of the
// points at which the lookup asks an index family for its snapshot.
func genLookupPlans(t *rapid.T, shards []models.ShardID) []*nestedPlan {
	var out []*nestedPlan
	for n := rapid.SampledFrom([]int{1, 1, 1, 2}).Draw(t, "lookupPlans"); n > 0; n-- {
		p := &nestedPlan{Op: "getSnapshot"}
		p.Target = rapid.SampledFrom([]string{"index/inverted", "index/inverted", "index/forward", "index/forward", "index/metric", "meta/schema", "*", "*"}).Draw(t, "lookupTarget")
		p.Before = rapid.Bool().Draw(t, "lookupBefore")
		p.Nth = rapid.SampledFrom([]int{0, 0, 0, 1, 2, 3}).Draw(t, "lookupNth")
		// the nested step is a flush of dictionaries and/or index: data points (family flush) are C11's subject; a
		// compaction inside a lookup deletes the files it replaced as soon as the lookup has closed its snapshot,
		// while posting lists unmarshalled from them (zero copy) are still in use: SIGSEGV of the whole process,
		// seen twice (seriesFiltering And, memdb filter FastAnd) - life time of mapped table files, reported, not generated
		op := nestedOp{Kind: nFlush}
		if rapid.IntRange(0, 9).Draw(t, "lookupInner") < 6 {
			op.Flush, op.Shards = flushMetaIndex, shards
		} else {
			op.Flush = rapid.SampledFrom([]flushKind{flushIndexOnly, flushIndexOnly, flushMetaOnly}).Draw(t, "lookupFlushKind")
			op.Shards = genShardSubset(t, shards)
		}
		p.Ops = []nestedOp{op}
		out = append(out, p)
	}
	return out
}

// ---- dictionary sweep ---------------------------------------------------------------------------------

// checkSelect compares `where <c> group by uid` with the brute-force evaluation of c.
func (w *world) checkSelect(metric string, c *cond, label string, stats *caseStats) {
	if !w.keysInSchema(metric)[c.Key] {
		return
	}
	text := selectSQL(metric, c, []string{"uid"}, false)
	q, err := parseQuery(text)
	if err != nil {
		w.t.Fatalf("harness: %s statement rejected by the production parser: %v\n%s", label, err, text)
	}
	parsed, err := fromStmt(q.Condition)
	if err != nil {
		w.t.Fatalf("parser produced an unusable condition for %q: %v", text, err)
	}
	want := map[string]float64{}
	for _, s := range w.series {
		if s.Metric == metric && parsed.eval(s.Tags) {
			want[s.UID] = float64(s.Writes)
		}
	}
	rows, err := w.query(text)
	note := w.queryNote()
	stats.queries++
	if err != nil {
		w.t.Fatalf("%s: query failed: %v\n%s\nhistory: %s", label, err, text, w.history())
	}
	got := map[string]float64{}
	for _, r := range rows {
		got[r.Tags["uid"]] += r.Sum
	}
	if gs, ws := setString(got), setString(want); gs != ws {
		var missing, extra []string
		for k := range want {
			if _, ok := got[k]; !ok {
				missing = append(missing, k)
			}
		}
		for k := range got {
			if _, ok := want[k]; !ok {
				extra = append(extra, k)
			}
		}
		sort.Strings(missing)
		sort.Strings(extra)
		w.t.Fatalf("%s: selected series differ from brute-force evaluation (uid=points)\n missing %v\n extra   %v\n got  %s\n want %s\nmetric %s, condition: %s\nhistory: %s%s",
			label, missing, extra, gs, ws, metric, c.sqlText(), w.history(), note)
	}
}

// sweep asks for every tag key of every metric `key in (all written values)` (`key = v` for a
// single value), and for the most recently written uids: every written value must resolve through
// the dictionary, wherever it lives.
func (w *world) sweep(plans []*metricPlan, stats *caseStats) {
	for _, mp := range plans {
		for _, k := range append(append([]string{}, mp.Keys...), "uid") {
			seen := map[string]bool{}
			var vals []string
			for i := len(w.series) - 1; i >= 0; i-- {
				s := w.series[i]
				v, ok := s.Tags[k]
				if s.Metric != mp.Name || !ok || seen[v] || !expressible(v) {
					continue
				}
				seen[v] = true
				vals = append(vals, v)
				if k == "uid" && len(vals) == 6 {
					break
				}
			}
			for len(vals) > 0 {
				n := len(vals)
				if n > 8 {
					n = 8
				}
				c := &cond{Key: k, Op: opIn, Vals: vals[:n]}
				if n == 1 {
					c = &cond{Key: k, Op: opEq, Val: vals[0]}
				}
				w.checkSelect(mp.Name, c, "dictionary sweep", stats)
				vals = vals[n:]
			}
		}
	}
	stats.classes["dictionary_sweep"] = true
}

// softCheck is checkCond whose disagreement with the model is reported as a lookup failure of the
// step (judged by withSeams) rather than as a failure of the history.
func (w *world) softCheck(cc *condCase, st stateInfo, gb int, stats *caseStats) {
	if cf, ok := w.t.(*captureFailer); ok {
		cf.setChecking(true)
		defer cf.setChecking(false)
	}
	w.checkCond(cc, st, gb, stats)
}

// nestedRunner builds the function that executes the operations of a plan.
func (w *world) nestedRunner(all, spare []*seriesT, conds []*condCase, st stateInfo, stats *caseStats, nextSpare *int) func(p *nestedPlan) {
	check := func(cc *condCase, gb int) { w.softCheck(cc, st, gb, stats) }
	return func(p *nestedPlan) {
		w.logf("  nested at %s%s:", p.at, map[bool]string{true: " (store locked: after the call)", false: ""}[p.deferred])
		for _, op := range p.Ops {
			stats.classes["nested_op_"+op.Kind.String()] = true
			switch op.Kind {
			case nLookup:
				w.logf("  lookup %s: %s", conds[op.Cond].Metric.Name, conds[op.Cond].Text)
				check(conds[op.Cond], op.GB)
			case nProbe:
				w.logf("  lookup %s: %s", op.Probe.Metric.Name, op.Probe.Text)
				check(op.Probe, op.GB)
			case nRewrite:
				var b []*seriesT
				seen := map[string]bool{}
				for _, i := range op.Idx {
					if _, written := w.byUID[all[i].UID]; written && !seen[all[i].UID] {
						seen[all[i].UID] = true
						b = append(b, all[i])
					}
				}
				if len(b) > 0 {
					w.write(b)
				}
			case nFlush:
				w.flush(op.Flush, op.Shards)
			case nCompact:
				w.compact(func(int) bool { return true }, op.DelObs)
			case nWriteNew:
				var b []*seriesT
				for i := 0; i < op.N && *nextSpare < len(spare); i++ {
					b = append(b, spare[*nextSpare])
					*nextSpare++
				}
				if len(b) > 0 && len(w.series) > 0 { // the data family exists (its creation is not the subject)
					w.write(b)
					stats.classes["nested_new_series"] = true
				}
			}
		}
	}
}

// recordNested adds the evidence classes of the plans of one step.
func recordNested(plans []*nestedPlan, in string, stats *caseStats) {
	for _, p := range plans {
		switch {
		case !p.fired:
			stats.classes["nested_point_not_reached"] = true
			continue
		case p.deferred:
			stats.classes["nested_in_"+in+"_store_locked_ran_after_call"] = true
		default:
			stats.classes["nested_in_"+in] = true
		}
		if p.overlapped {
			stats.classes["nested_overlapped_rest_of_"+in] = true
			if p.checkFail != "" {
				stats.classes["nested_overlapped_answers_not_judged"] = true
			}
		}
		when := "after"
		if p.at.Before {
			when = "before"
		}
		stats.classes["nested_at_"+p.at.Store+"/"+p.at.Family] = true
		stats.classes["nested_at_"+in+"_"+p.at.Op+"_"+when] = true
	}
}
