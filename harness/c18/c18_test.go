// Package c18 checks property C18: shard placement and shard leadership stay valid under any
// node churn.
//
//   - pure part (this file): master.ShardAssignment / master.ModifyShardAssignment against the
//     placement claims of the statement (exactly rf distinct replicas out of the given nodes,
//     first replicas round-robin, growing keeps existing shards, invalid input rejected);
//   - stateful part (master_test.go): the production master StateManager over an in-memory
//     state.Repository, fed with the discovery events the real system produces.
package c18

import (
	"fmt"
	"math/rand"
	"sort"
	"strings"
	"testing"

	"go.uber.org/zap/zapcore"
	"pgregory.net/rapid"

	"github.com/lindb/common/pkg/logger"

	"github.com/lindb/lindb/coordinator/master"
	"github.com/lindb/lindb/models"
	"github.com/lindb/lindb/verifharness/sim/ev"
)

func TestMain(m *testing.M) { ev.Main(m) }

func init() {
	// the master logs every event at info/warn/error level to stdout; keep the test output readable.
	logger.RunningAtomicLevel.SetLevel(zapcore.FatalLevel)
}

type failer interface {
	Fatalf(format string, args ...any)
}

const (
	maxNodes  = 12
	maxShards = 64
)

// pinRandom makes the production code's use of the global math/rand source (random start
// position when fixedStartIndex < 0) a function of a rapid draw, so that a run is a pure
// function of -rapid.seed. The oracle holds for any start position, it never looks at the seed.
func pinRandom(seed int64) {
	rand.Seed(seed) //nolint:staticcheck // deliberate: pins lindb's global source
}

// ---- oracle ---------------------------------------------------------------------------------

func copyAssignment(a *models.ShardAssignment) map[models.ShardID][]models.NodeID {
	if a == nil {
		return nil
	}
	out := make(map[models.ShardID][]models.NodeID, len(a.Shards))
	for id, r := range a.Shards {
		if r == nil {
			out[id] = nil
			continue
		}
		out[id] = append([]models.NodeID{}, r.Replicas...)
	}
	return out
}

func sameAssignment(a, b map[models.ShardID][]models.NodeID) bool {
	if len(a) != len(b) {
		return false
	}
	for id, ra := range a {
		rb, ok := b[id]
		if !ok || len(ra) != len(rb) {
			return false
		}
		for i := range ra {
			if ra[i] != rb[i] {
				return false
			}
		}
	}
	return true
}

func fmtAssignment(a map[models.ShardID][]models.NodeID) string {
	ids := make([]int, 0, len(a))
	for id := range a {
		ids = append(ids, int(id))
	}
	sort.Ints(ids)
	var sb strings.Builder
	for _, id := range ids {
		fmt.Fprintf(&sb, "s%d=%v ", id, a[models.ShardID(id)])
	}
	return sb.String()
}

// checkPlacement asserts what C18 states about the shards [from, to) handed out by one
// assignment call over the node list `nodes` with replica factor rf:
// the assignment holds exactly the shard ids 0..to-1; each of the shards from..to-1 has exactly
// rf distinct replicas, all of them members of nodes; the first replicas of these shards are
// spread round-robin, i.e. the per-node counts (over all of nodes) differ by at most one.
func checkPlacement(t failer, what string, asg map[models.ShardID][]models.NodeID, from, to, rf int, nodes []models.NodeID) {
	if len(asg) != to {
		t.Fatalf("%s: assignment has %d shards, want %d: %s", what, len(asg), to, fmtAssignment(asg))
	}
	member := make(map[models.NodeID]bool, len(nodes))
	first := make(map[models.NodeID]int, len(nodes))
	for _, n := range nodes {
		member[n] = true
		first[n] = 0
	}
	for id := 0; id < to; id++ {
		reps, ok := asg[models.ShardID(id)]
		if !ok {
			t.Fatalf("%s: shard id %d missing (ids must be 0..%d): %s", what, id, to-1, fmtAssignment(asg))
		}
		if id < from {
			continue
		}
		if len(reps) != rf {
			t.Fatalf("%s: shard %d has %d replicas %v, want exactly replica factor %d (nodes %v)", what, id, len(reps), reps, rf, nodes)
		}
		seen := map[models.NodeID]bool{}
		for _, n := range reps {
			if seen[n] {
				t.Fatalf("%s: shard %d lists node %d twice: %v", what, id, n, reps)
			}
			seen[n] = true
			if !member[n] {
				t.Fatalf("%s: shard %d placed on node %d which is not among the nodes alive at creation %v", what, id, n, nodes)
			}
		}
		first[reps[0]]++
	}
	lo, hi := int(^uint(0)>>1), -1
	for _, n := range nodes {
		c := first[n]
		if c < lo {
			lo = c
		}
		if c > hi {
			hi = c
		}
	}
	if hi-lo > 1 {
		t.Fatalf("%s: first replicas not round-robin: per-node counts %v over nodes %v differ by %d (shards %d..%d): %s",
			what, first, nodes, hi-lo, from, to-1, fmtAssignment(asg))
	}
	// Documented goal 1 of ShardAssignment ("spread the replicas evenly among storage nodes",
	// shard_assign.go; the example table there): the remaining replicas follow the first one
	// with a shift that changes only from one round over the node list to the next, so within
	// one complete round (shard ids k*n .. k*n+n-1 handed out by this call) every replica
	// position visits every node once: every node hosts exactly rf shards of the round.
	// Partial rounds at the beginning / end of a call are not judged.
	n := len(nodes)
	for k := (from + n - 1) / n; (k+1)*n <= to; k++ {
		hosted := make(map[models.NodeID]int, n)
		for id := k * n; id < (k+1)*n; id++ {
			for _, r := range asg[models.ShardID(id)] {
				hosted[r]++
			}
		}
		for _, nd := range nodes {
			if hosted[nd] != rf {
				t.Fatalf("%s: replicas not spread evenly: of the round of shards %d..%d node %d hosts %d, every node must host exactly rf=%d (per node %v): %s",
					what, k*n, (k+1)*n-1, nd, hosted[nd], rf, hosted, fmtAssignment(asg))
			}
		}
	}
}

// ---- generators -----------------------------------------------------------------------------

// genNodes draws n distinct storage node ids (myid of a storage node is a positive integer) in
// arbitrary order (the master passes them in etcd key order, which is not numeric order).
func genNodes(t *rapid.T, label string, min, max int) []models.NodeID {
	n := rapid.IntRange(min, max).Draw(t, label+"N")
	pool := make([]int, 40)
	for i := range pool {
		pool[i] = i + 1
	}
	ids := make([]models.NodeID, 0, n)
	for i := 0; i < n; i++ {
		k := rapid.IntRange(0, len(pool)-1).Draw(t, label+"id")
		ids = append(ids, models.NodeID(pool[k]))
		pool = append(pool[:k], pool[k+1:]...)
	}
	return ids
}

// genStart draws a start position: every fixed position of the node list, or -1 (= the
// production choice: random position and random shift, see assignReplicasToStorageNodes).
func genStart(t *rapid.T, label string, n int) int {
	if rapid.IntRange(0, 3).Draw(t, label+"rnd") == 0 {
		pinRandom(rapid.Int64().Draw(t, label+"seed"))
		return -1
	}
	return rapid.IntRange(0, n-1).Draw(t, label)
}

// ---- tests ----------------------------------------------------------------------------------

// TestAssignPure: create an assignment, then grow it 0..3 times (node set, replica factor and
// start position may change between the calls, as they may between two `create database`
// statements in production).
func TestAssignPure(t *testing.T) {
	rapid.Check(t, func(t *rapid.T) {
		nodes := genNodes(t, "nodes", 1, maxNodes)
		shards := rapid.IntRange(1, maxShards).Draw(t, "shards")
		rf := rapid.IntRange(1, len(nodes)).Draw(t, "rf")
		start := genStart(t, "start", len(nodes))
		// production passes -1 (createShardAssignment); 0 is the documented equivalent
		startShard := models.ShardID(rapid.SampledFrom([]int{-1, 0}).Draw(t, "startShard"))

		cfg := &models.Database{Name: "db", NumOfShard: shards, ReplicaFactor: rf}
		asg, err := master.ShardAssignment(nodes, cfg, start, startShard)
		if err != nil || asg == nil {
			t.Fatalf("valid input rejected: nodes=%v shards=%d rf=%d start=%d: %v", nodes, shards, rf, start, err)
		}
		if asg.Name != "db" {
			t.Fatalf("assignment name %q, want db", asg.Name)
		}
		cur := copyAssignment(asg)
		checkPlacement(t, fmt.Sprintf("create(nodes=%v shards=%d rf=%d start=%d)", nodes, shards, rf, start), cur, 0, shards, rf, nodes)

		canon := fmt.Sprintf("n=%v s=%d rf=%d st=%d ss=%d", nodes, shards, rf, start, startShard)
		classes := []string{fmt.Sprintf("nodes=%d", len(nodes)), "create"}
		if start < 0 {
			classes = append(classes, "random-start")
		}
		if shards > len(nodes) {
			classes = append(classes, "wraps")
		}
		if rf == len(nodes) {
			classes = append(classes, "rf=nodes")
		}
		grows := 0
		for shards < maxShards && rapid.IntRange(0, 2).Draw(t, "growMore") > 0 && grows < 3 {
			grows++
			if rapid.Bool().Draw(t, "newNodes") {
				nodes = genNodes(t, "gnodes", 1, maxNodes)
				classes = append(classes, "grow-other-nodes")
			}
			if rf > len(nodes) || rapid.IntRange(0, 3).Draw(t, "newRF") == 0 {
				rf = rapid.IntRange(1, len(nodes)).Draw(t, "grf")
			}
			newShards := rapid.IntRange(shards+1, maxShards).Draw(t, "gshards")
			start = genStart(t, "gstart", len(nodes))
			cfg = &models.Database{Name: "db", NumOfShard: newShards, ReplicaFactor: rf}
			before := copyAssignment(asg)
			// production: ModifyShardAssignment(nodeIDs, cfg, shardAssign, -1, ShardID(len(shardAssign.Shards)))
			if err := master.ModifyShardAssignment(nodes, cfg, asg, start, models.ShardID(len(asg.Shards))); err != nil {
				t.Fatalf("valid grow rejected: nodes=%v %d->%d rf=%d start=%d: %v", nodes, shards, newShards, rf, start, err)
			}
			after := copyAssignment(asg)
			what := fmt.Sprintf("grow(nodes=%v %d->%d rf=%d start=%d)", nodes, shards, newShards, rf, start)
			for id, reps := range before {
				if got := after[id]; fmt.Sprint(got) != fmt.Sprint(reps) {
					t.Fatalf("%s: existing shard %d moved: %v -> %v", what, id, reps, got)
				}
			}
			checkPlacement(t, what, after, shards, newShards, rf, nodes)
			canon += fmt.Sprintf(" | n=%v s=%d rf=%d st=%d", nodes, newShards, rf, start)
			shards = newShards
		}
		if grows > 0 {
			classes = append(classes, "grow")
		}
		nonTrivial := grows > 0 || (rf >= 2 && shards >= 2)
		ev.Case("TestAssignPure", canon, nonTrivial, classes, map[string]any{"case": canon, "result": fmtAssignment(copyAssignment(asg))})
	})
}

// TestAssignExhaustive walks every (nodes 1..12, shards 1..64, replica factor 1..nodes, start
// position 0..nodes-1) combination once, and for a sample of split points checks create+grow.
func TestAssignExhaustive(t *testing.T) {
	cases := 0
	for n := 1; n <= maxNodes; n++ {
		nodes := make([]models.NodeID, n)
		for i := range nodes {
			nodes[i] = models.NodeID(i + 1)
		}
		for shards := 1; shards <= maxShards; shards++ {
			if testing.Short() && shards > 16 && shards%8 != 0 {
				continue
			}
			for rf := 1; rf <= n; rf++ {
				for start := 0; start < n; start++ {
					cfg := &models.Database{Name: "db", NumOfShard: shards, ReplicaFactor: rf}
					asg, err := master.ShardAssignment(nodes, cfg, start, -1)
					if err != nil {
						t.Fatalf("valid input rejected: n=%d shards=%d rf=%d start=%d: %v", n, shards, rf, start, err)
					}
					cur := copyAssignment(asg)
					checkPlacement(t, fmt.Sprintf("create(n=%d shards=%d rf=%d start=%d)", n, shards, rf, start), cur, 0, shards, rf, nodes)
					// grow by a few shards with every start position rotated by one
					grow := shards + 1 + (start+rf)%5
					gstart := (start + 1) % n
					gcfg := &models.Database{Name: "db", NumOfShard: grow, ReplicaFactor: rf}
					if err := master.ModifyShardAssignment(nodes, gcfg, asg, gstart, models.ShardID(shards)); err != nil {
						t.Fatalf("valid grow rejected: n=%d %d->%d rf=%d start=%d: %v", n, shards, grow, rf, gstart, err)
					}
					after := copyAssignment(asg)
					for id, reps := range cur {
						if fmt.Sprint(after[id]) != fmt.Sprint(reps) {
							t.Fatalf("grow(n=%d %d->%d rf=%d start=%d): existing shard %d moved: %v -> %v", n, shards, grow, rf, gstart, id, reps, after[id])
						}
					}
					checkPlacement(t, fmt.Sprintf("grow(n=%d %d->%d rf=%d start=%d)", n, shards, grow, rf, gstart), after, shards, grow, rf, nodes)
					cases++
					ev.Case("TestAssignExhaustive", fmt.Sprintf("%d/%d/%d/%d", n, shards, rf, start), rf >= 2 && shards >= 2,
						[]string{fmt.Sprintf("nodes=%d", n)}, nil)
				}
			}
		}
	}
	t.Logf("walked %d (nodes, shards, rf, start) combinations", cases)
}

// TestAssignRejects: invalid input is rejected with an error; no (partial) assignment is
// produced and an existing assignment is left untouched.
func TestAssignRejects(t *testing.T) {
	rapid.Check(t, func(t *rapid.T) {
		kind := rapid.SampledFrom([]string{"rf>nodes", "no-nodes", "shards<=0", "rf<=0", "grow-not-more", "grow-rf>nodes", "grow-no-nodes"}).Draw(t, "kind")
		nodes := genNodes(t, "nodes", 1, maxNodes)
		shards := rapid.IntRange(1, maxShards).Draw(t, "shards")
		rf := rapid.IntRange(1, len(nodes)).Draw(t, "rf")
		start := genStart(t, "start", len(nodes))
		canon := fmt.Sprintf("%s n=%v s=%d rf=%d st=%d", kind, nodes, shards, rf, start)
		switch kind {
		case "rf>nodes", "no-nodes", "shards<=0", "rf<=0":
			switch kind {
			case "rf>nodes":
				rf = len(nodes) + rapid.IntRange(1, 3).Draw(t, "over")
			case "no-nodes":
				if rapid.Bool().Draw(t, "nilNodes") {
					nodes = nil
				} else {
					nodes = []models.NodeID{}
				}
			case "shards<=0":
				shards = -rapid.IntRange(0, 3).Draw(t, "neg")
			case "rf<=0":
				rf = -rapid.IntRange(0, 3).Draw(t, "neg")
			}
			canon += fmt.Sprintf(" -> n=%v s=%d rf=%d", nodes, shards, rf)
			cfg := &models.Database{Name: "db", NumOfShard: shards, ReplicaFactor: rf}
			asg, err := master.ShardAssignment(nodes, cfg, start, -1)
			if err == nil {
				t.Fatalf("%s accepted: nodes=%v shards=%d rf=%d start=%d -> %s", kind, nodes, shards, rf, start, fmtAssignment(copyAssignment(asg)))
			}
			if asg != nil {
				t.Fatalf("%s: error %v but an assignment was returned: %s", kind, err, fmtAssignment(copyAssignment(asg)))
			}
		default:
			cfg := &models.Database{Name: "db", NumOfShard: shards, ReplicaFactor: rf}
			asg, err := master.ShardAssignment(nodes, cfg, start, -1)
			if err != nil {
				t.Fatalf("valid input rejected: %v", err)
			}
			before := copyAssignment(asg)
			gnodes, gshards, grf := nodes, shards+rapid.IntRange(1, 8).Draw(t, "add"), rf
			switch kind {
			case "grow-not-more":
				gshards = rapid.IntRange(-1, shards).Draw(t, "gshards")
			case "grow-rf>nodes":
				gnodes = genNodes(t, "gnodes", 1, maxNodes)
				grf = len(gnodes) + rapid.IntRange(1, 3).Draw(t, "over")
			case "grow-no-nodes":
				gnodes = nil
			}
			canon += fmt.Sprintf(" -> n=%v s=%d rf=%d", gnodes, gshards, grf)
			gcfg := &models.Database{Name: "db", NumOfShard: gshards, ReplicaFactor: grf}
			gstart := -1
			if len(gnodes) > 0 {
				gstart = genStart(t, "gstart", len(gnodes))
			}
			err = master.ModifyShardAssignment(gnodes, gcfg, asg, gstart, models.ShardID(len(asg.Shards)))
			if err == nil {
				t.Fatalf("%s accepted: nodes=%v %d->%d rf=%d: %s", kind, gnodes, shards, gshards, grf, fmtAssignment(copyAssignment(asg)))
			}
			if after := copyAssignment(asg); !sameAssignment(before, after) {
				t.Fatalf("%s: rejected (%v) but the assignment changed: %s -> %s", kind, err, fmtAssignment(before), fmtAssignment(after))
			}
		}
		ev.Case("TestAssignRejects", canon, true, []string{kind}, map[string]any{"case": canon})
	})
}
