package c18

import (
	"context"
	"errors"
	"fmt"
	"sort"
	"strings"

	"github.com/lindb/lindb/constants"
	"github.com/lindb/lindb/pkg/state"
)

// fakeRepo is an in-memory state.Repository (the harness plays etcd). It is single threaded:
// all calls happen on the test goroutine (events are processed through VerifProcessEvent).
// Semantics mirror pkg/state/etcd.go: Get of a missing key = state.ErrNotExist, List returns
// the keys below the prefix in ascending byte order of the key (etcd range order), every Put
// creates a new revision (and therefore a watch event, also when the value is unchanged),
// Delete of a missing key is silent and creates no event.
//
// Faults: while the master processes an event (inMaster) the armed fault rules decide whether a
// repository call fails. Calls of the external actors (storage nodes, brokers) never fail: the
// property is about the master. A failing Put/Delete either does not reach the store, or - rule
// "applied" - reaches it although the caller gets the error (etcd committed the write, the
// answer timed out): both are legal outcomes of a request that ends with a time-out.
type fakeRepo struct {
	kv       map[string][]byte
	rev      int64
	seq      map[string]int64
	onPut    func(key string, val []byte)
	onDelete func(key string)

	inMaster bool
	rules    []*faultRule
	fired    []firedFault // faults fired since the current event was handed to the master
	// outcome of every Put of /storage/state since the current event was handed to the master
	// (true = the value reached the store)
	statePuts []bool
}

// the calls the master makes (coordinator/master/state_manager.go, storage_cluster.go)
const (
	fkPutState     = "put:/storage/state"
	fkPutAssign    = "put:/database/assign"
	fkGetAssign    = "get:/database/assign"
	fkListNodes    = "list:/storage/live/nodes"
	fkDeleteAssign = "delete:/database/assign"
)

// faultRule: of the calls of one kind made by the master from now on, `skip` succeed, then the
// next `times` fail.
type faultRule struct {
	kind    string
	skip    int
	times   int
	applied bool
}

type firedFault struct {
	kind    string
	key     string
	applied bool
}

var errRepoFault = errors.New("verif: injected repository fault (etcdserver: request timed out)")

func callKind(op, key string) string {
	switch {
	case op == "put" && key == constants.StorageStatePath:
		return fkPutState
	case op == "list" && key == constants.StorageLiveNodesPath:
		return fkListNodes
	case strings.HasPrefix(key, constants.ShardAssignmentPath+"/"):
		return op + ":" + constants.ShardAssignmentPath
	}
	return op + ":" + key
}

// fault decides whether the call fails (and whether a failing write is applied nevertheless).
func (r *fakeRepo) fault(op, key string) (fail, applied bool) {
	if !r.inMaster || len(r.rules) == 0 {
		return false, false
	}
	kind := callKind(op, key)
	keep := r.rules[:0]
	for _, ru := range r.rules {
		if ru.kind == kind {
			if ru.skip > 0 {
				ru.skip--
			} else {
				if !fail {
					applied = ru.applied
				}
				fail = true
				ru.times--
			}
		}
		if ru.times > 0 {
			keep = append(keep, ru)
		}
	}
	r.rules = keep
	if fail {
		r.fired = append(r.fired, firedFault{kind: kind, key: key, applied: applied})
	}
	return fail, applied
}

func newFakeRepo() *fakeRepo {
	return &fakeRepo{kv: map[string][]byte{}, seq: map[string]int64{}}
}

var _ state.Repository = (*fakeRepo)(nil)

func (r *fakeRepo) Get(_ context.Context, key string) ([]byte, error) {
	if fail, _ := r.fault("get", key); fail {
		return nil, errRepoFault
	}
	v, ok := r.kv[key]
	if !ok {
		return nil, state.ErrNotExist
	}
	if len(v) == 0 {
		return nil, fmt.Errorf("key[%s]'s value is empty", key)
	}
	return append([]byte(nil), v...), nil
}

func (r *fakeRepo) sortedKeys(prefix string) []string {
	var keys []string
	for k := range r.kv {
		if strings.HasPrefix(k, prefix) {
			keys = append(keys, k)
		}
	}
	sort.Strings(keys)
	return keys
}

func (r *fakeRepo) List(_ context.Context, prefix string) ([]state.KeyValue, error) {
	if fail, _ := r.fault("list", prefix); fail {
		return nil, errRepoFault
	}
	var rs []state.KeyValue
	for _, k := range r.sortedKeys(prefix) {
		if len(r.kv[k]) > 0 {
			rs = append(rs, state.KeyValue{Key: k, Value: append([]byte(nil), r.kv[k]...)})
		}
	}
	return rs, nil
}

func (r *fakeRepo) WalkEntry(_ context.Context, prefix string, fn func(key, value []byte)) error {
	for _, k := range r.sortedKeys(prefix) {
		fn([]byte(k), append([]byte(nil), r.kv[k]...))
	}
	return nil
}

func (r *fakeRepo) Put(_ context.Context, key string, val []byte) error {
	fail, applied := r.fault("put", key)
	if r.inMaster && key == constants.StorageStatePath {
		r.statePuts = append(r.statePuts, !fail || applied)
	}
	if !fail || applied {
		r.rev++
		r.kv[key] = append([]byte(nil), val...)
		if r.onPut != nil {
			r.onPut(key, append([]byte(nil), val...))
		}
	}
	if fail {
		return errRepoFault
	}
	return nil
}

func (r *fakeRepo) PutWithTX(ctx context.Context, key string, val []byte, check func(oldVal []byte) error) (bool, error) {
	if old, ok := r.kv[key]; ok && check != nil {
		if err := check(old); err != nil {
			return false, err
		}
	}
	return true, r.Put(ctx, key, val)
}

func (r *fakeRepo) Delete(_ context.Context, key string) error {
	fail, applied := r.fault("delete", key)
	if _, ok := r.kv[key]; ok && (!fail || applied) {
		r.rev++
		delete(r.kv, key)
		if r.onDelete != nil {
			r.onDelete(key)
		}
	}
	if fail {
		return errRepoFault
	}
	return nil
}

func (r *fakeRepo) Heartbeat(ctx context.Context, key string, value []byte, _ int64) (<-chan state.Closed, error) {
	return make(chan state.Closed), r.Put(ctx, key, value)
}

func (r *fakeRepo) Elect(ctx context.Context, key string, value []byte, _ int64) (bool, <-chan state.Closed, error) {
	if _, ok := r.kv[key]; ok {
		return false, nil, nil
	}
	return true, make(chan state.Closed), r.Put(ctx, key, value)
}

// Watch / WatchPrefix: the harness itself turns repository writes into discovery events, so
// the production watchers are not used; a closed channel keeps an accidental caller from blocking.
func (r *fakeRepo) Watch(_ context.Context, _ string, _ bool) state.WatchEventChan {
	ch := make(chan *state.Event)
	close(ch)
	return ch
}

func (r *fakeRepo) WatchPrefix(ctx context.Context, key string, fetch bool) state.WatchEventChan {
	return r.Watch(ctx, key, fetch)
}

func (r *fakeRepo) Batch(ctx context.Context, batch state.Batch) (bool, error) {
	for _, kv := range batch.KVs {
		if err := r.Put(ctx, kv.Key, kv.Value); err != nil {
			return false, err
		}
	}
	return true, nil
}

func (r *fakeRepo) NextSequence(_ context.Context, key string) (int64, error) {
	r.seq[key]++
	return r.seq[key], nil
}

type fakeTxn struct {
	ops []func(ctx context.Context, r *fakeRepo) error
}

func (t *fakeTxn) ModRevisionCmp(_, _ string, _ interface{}) {}
func (t *fakeTxn) Put(key string, value []byte) {
	t.ops = append(t.ops, func(ctx context.Context, r *fakeRepo) error { return r.Put(ctx, key, value) })
}
func (t *fakeTxn) Delete(key string) {
	t.ops = append(t.ops, func(ctx context.Context, r *fakeRepo) error { return r.Delete(ctx, key) })
}

func (r *fakeRepo) NewTransaction() state.Transaction { return &fakeTxn{} }

func (r *fakeRepo) Commit(ctx context.Context, txn state.Transaction) error {
	ft, ok := txn.(*fakeTxn)
	if !ok {
		return state.ErrTxnConvert
	}
	for _, op := range ft.ops {
		if err := op(ctx, r); err != nil {
			return err
		}
	}
	return nil
}

func (r *fakeRepo) Close() error { return nil }
