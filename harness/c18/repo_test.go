package c18

import (
	"context"
	"fmt"
	"sort"
	"strings"

	"github.com/lindb/lindb/pkg/state"
)

// fakeRepo is an in-memory state.Repository (the harness plays etcd). It is single threaded:
// all calls happen on the test goroutine (events are processed through VerifProcessEvent).
// Semantics mirror pkg/state/etcd.go: Get of a missing key = state.ErrNotExist, List returns
// the keys below the prefix in ascending byte order of the key (etcd range order), every Put
// creates a new revision (and therefore a watch event, also when the value is unchanged),
// Delete of a missing key is silent and creates no event.
type fakeRepo struct {
	kv       map[string][]byte
	rev      int64
	seq      map[string]int64
	onPut    func(key string, val []byte)
	onDelete func(key string)
}

func newFakeRepo() *fakeRepo {
	return &fakeRepo{kv: map[string][]byte{}, seq: map[string]int64{}}
}

var _ state.Repository = (*fakeRepo)(nil)

func (r *fakeRepo) Get(_ context.Context, key string) ([]byte, error) {
	v, ok := r.kv[key]
	if !ok {
		return nil, state.ErrNotExist
	}
	if len(v) == 0 {
		return nil, fmt.Errorf("key[%s]'s value is empty", key)
	}
	return append([]byte(nil), v...), nil
}

func (r *fakeRepo) sortedKeys(prefix string) []string {
	var keys []string
	for k := range r.kv {
		if strings.HasPrefix(k, prefix) {
			keys = append(keys, k)
		}
	}
	sort.Strings(keys)
	return keys
}

func (r *fakeRepo) List(_ context.Context, prefix string) ([]state.KeyValue, error) {
	var rs []state.KeyValue
	for _, k := range r.sortedKeys(prefix) {
		if len(r.kv[k]) > 0 {
			rs = append(rs, state.KeyValue{Key: k, Value: append([]byte(nil), r.kv[k]...)})
		}
	}
	return rs, nil
}

func (r *fakeRepo) WalkEntry(_ context.Context, prefix string, fn func(key, value []byte)) error {
	for _, k := range r.sortedKeys(prefix) {
		fn([]byte(k), append([]byte(nil), r.kv[k]...))
	}
	return nil
}

func (r *fakeRepo) Put(_ context.Context, key string, val []byte) error {
	r.rev++
	r.kv[key] = append([]byte(nil), val...)
	if r.onPut != nil {
		r.onPut(key, append([]byte(nil), val...))
	}
	return nil
}

func (r *fakeRepo) PutWithTX(ctx context.Context, key string, val []byte, check func(oldVal []byte) error) (bool, error) {
	if old, ok := r.kv[key]; ok && check != nil {
		if err := check(old); err != nil {
			return false, err
		}
	}
	return true, r.Put(ctx, key, val)
}

func (r *fakeRepo) Delete(_ context.Context, key string) error {
	if _, ok := r.kv[key]; !ok {
		return nil
	}
	r.rev++
	delete(r.kv, key)
	if r.onDelete != nil {
		r.onDelete(key)
	}
	return nil
}

func (r *fakeRepo) Heartbeat(ctx context.Context, key string, value []byte, _ int64) (<-chan state.Closed, error) {
	return make(chan state.Closed), r.Put(ctx, key, value)
}

func (r *fakeRepo) Elect(ctx context.Context, key string, value []byte, _ int64) (bool, <-chan state.Closed, error) {
	if _, ok := r.kv[key]; ok {
		return false, nil, nil
	}
	return true, make(chan state.Closed), r.Put(ctx, key, value)
}

// Watch / WatchPrefix: the harness itself turns repository writes into discovery events, so
// the production watchers are not used; a closed channel keeps an accidental caller from blocking.
func (r *fakeRepo) Watch(_ context.Context, _ string, _ bool) state.WatchEventChan {
	ch := make(chan *state.Event)
	close(ch)
	return ch
}

func (r *fakeRepo) WatchPrefix(ctx context.Context, key string, fetch bool) state.WatchEventChan {
	return r.Watch(ctx, key, fetch)
}

func (r *fakeRepo) Batch(ctx context.Context, batch state.Batch) (bool, error) {
	for _, kv := range batch.KVs {
		if err := r.Put(ctx, kv.Key, kv.Value); err != nil {
			return false, err
		}
	}
	return true, nil
}

func (r *fakeRepo) NextSequence(_ context.Context, key string) (int64, error) {
	r.seq[key]++
	return r.seq[key], nil
}

type fakeTxn struct {
	ops []func(ctx context.Context, r *fakeRepo) error
}

func (t *fakeTxn) ModRevisionCmp(_, _ string, _ interface{}) {}
func (t *fakeTxn) Put(key string, value []byte) {
	t.ops = append(t.ops, func(ctx context.Context, r *fakeRepo) error { return r.Put(ctx, key, value) })
}
func (t *fakeTxn) Delete(key string) {
	t.ops = append(t.ops, func(ctx context.Context, r *fakeRepo) error { return r.Delete(ctx, key) })
}

func (r *fakeRepo) NewTransaction() state.Transaction { return &fakeTxn{} }

func (r *fakeRepo) Commit(ctx context.Context, txn state.Transaction) error {
	ft, ok := txn.(*fakeTxn)
	if !ok {
		return state.ErrTxnConvert
	}
	for _, op := range ft.ops {
		if err := op(ctx, r); err != nil {
			return err
		}
	}
	return nil
}

func (r *fakeRepo) Close() error { return nil }
