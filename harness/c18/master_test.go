package c18

import (
	"context"
	"fmt"
	"path/filepath"
	"sort"
	"strconv"
	"strings"
	"testing"

	"pgregory.net/rapid"

	"github.com/lindb/common/pkg/encoding"

	"github.com/lindb/lindb/constants"
	"github.com/lindb/lindb/coordinator/discovery"
	"github.com/lindb/lindb/coordinator/master"
	"github.com/lindb/lindb/models"
	"github.com/lindb/lindb/pkg/option"
	"github.com/lindb/lindb/pkg/timeutil"
	"github.com/lindb/lindb/verifharness/sim/ev"
)

// The harness plays etcd and the three watchers the master starts
// (coordinator/master/state_machine_factory.go): storage live nodes, database config, shard
// assignment. Every repository write below one of the watched prefixes becomes one pending
// discovery event of that watcher. Each watcher delivers its events in revision order (one
// goroutine per watcher, all feeding one channel), the interleaving between watchers is
// arbitrary: in "lag" mode the generator chooses it, otherwise events are delivered in global
// revision order right after the operation that caused them.
const (
	qNodes = iota
	qConfig
	qAssign
)

var qNames = [3]string{"nodes", "config", "assign"}

type pendingEv struct {
	rev int64
	ev  *discovery.Event
}

type assignment = map[models.ShardID][]models.NodeID

type cluster struct {
	t    failer
	repo *fakeRepo
	sm   master.StateManager
	q    [3][]pendingEv

	// model of what the master has been told (independent of the implementation):
	viewLive   map[models.NodeID]bool // node events delivered so far
	viewAssign map[string]assignment  // shard assignment events delivered so far, minus delivered drops
	dropped    map[string]bool        // db whose config deletion was delivered and which was not re-announced since
	published  bool                   // the current master wrote /storage/state at least once

	// repository faults (see fakeRepo): what the model looked like when the last write of
	// /storage/state reached the store, and whether the master's last attempt to publish failed
	// without reaching the store (then - and only then - the published copy may be behind).
	pubLive      map[models.NodeID]bool
	pubAssign    map[string]assignment
	staleAllowed bool
	faultsFired  int
	// database whose drop the master handled while a repository call of the handler failed
	// (and whose assignment was not announced again since)
	faultedDrop map[string]bool

	log        []string
	classes    map[string]int
	nonTrivial bool
}

func newCluster(t failer) *cluster {
	c := &cluster{
		t:          t,
		repo:       newFakeRepo(),
		viewLive:   map[models.NodeID]bool{},
		viewAssign: map[string]assignment{},
		dropped:    map[string]bool{},
		classes:    map[string]int{},

		faultedDrop: map[string]bool{},
	}
	c.repo.onPut = c.onPut
	c.repo.onDelete = c.onDelete
	c.sm = master.NewStateManager(context.Background(), c.repo, nil)
	return c
}

func (c *cluster) close() { c.sm.Close() }

func (c *cluster) logf(format string, args ...any) {
	c.log = append(c.log, fmt.Sprintf(format, args...))
}

func (c *cluster) fatalf(format string, args ...any) {
	c.t.Fatalf("%s\nhistory:\n  %s", fmt.Sprintf(format, args...), strings.Join(c.log, "\n  "))
}

// ---- etcd side ------------------------------------------------------------------------------

func (c *cluster) onPut(key string, val []byte) {
	switch {
	case strings.HasPrefix(key, constants.StorageLiveNodesPath+"/"):
		c.q[qNodes] = append(c.q[qNodes], pendingEv{c.repo.rev, &discovery.Event{Type: discovery.NodeStartup, Key: key, Value: val}})
	case strings.HasPrefix(key, constants.DatabaseConfigPath+"/"):
		c.q[qConfig] = append(c.q[qConfig], pendingEv{c.repo.rev, &discovery.Event{Type: discovery.DatabaseConfigChanged, Key: key, Value: val}})
	case strings.HasPrefix(key, constants.ShardAssignmentPath+"/"):
		c.q[qAssign] = append(c.q[qAssign], pendingEv{c.repo.rev, &discovery.Event{Type: discovery.ShardAssignmentChanged, Key: key, Value: val}})
	case key == constants.StorageStatePath:
		c.published = true
		// the model is brought up to date before the event is handed to the master, so this is
		// the state the master has been told about at the moment of this write
		c.pubLive = map[models.NodeID]bool{}
		for id, v := range c.viewLive {
			c.pubLive[id] = v
		}
		c.pubAssign = map[string]assignment{}
		for db, a := range c.viewAssign {
			c.pubAssign[db] = a // assignments are replaced as a whole, never modified
		}
	default:
		c.fatalf("harness: write to a path the harness does not model: %s", key)
	}
}

func (c *cluster) onDelete(key string) {
	switch {
	case strings.HasPrefix(key, constants.StorageLiveNodesPath+"/"):
		c.q[qNodes] = append(c.q[qNodes], pendingEv{c.repo.rev, &discovery.Event{Type: discovery.NodeFailure, Key: key}})
	case strings.HasPrefix(key, constants.DatabaseConfigPath+"/"):
		c.q[qConfig] = append(c.q[qConfig], pendingEv{c.repo.rev, &discovery.Event{Type: discovery.DatabaseConfigDeletion, Key: key}})
	case strings.HasPrefix(key, constants.ShardAssignmentPath+"/"):
		c.q[qAssign] = append(c.q[qAssign], pendingEv{c.repo.rev, &discovery.Event{Type: discovery.ShardAssignmentDeletion, Key: key}})
	default:
		c.fatalf("harness: delete of a path the harness does not model: %s", key)
	}
}

func nodeKey(id models.NodeID) string {
	return constants.GetStorageLiveNodePath(strconv.Itoa(int(id)))
}

// etcdLive returns the registered storage nodes in etcd key order (= the order the master sees).
func (c *cluster) etcdLive() []models.NodeID {
	var ids []models.NodeID
	for _, k := range c.repo.sortedKeys(constants.StorageLiveNodesPath + "/") {
		_, s := filepath.Split(k)
		id, err := strconv.Atoi(s)
		if err != nil {
			c.fatalf("harness: bad node key %s", k)
		}
		ids = append(ids, models.NodeID(id))
	}
	return ids
}

func (c *cluster) etcdIsLive(id models.NodeID) bool {
	_, ok := c.repo.kv[nodeKey(id)]
	return ok
}

func (c *cluster) etcdConfig(name string) *models.Database {
	data, ok := c.repo.kv[constants.GetDatabaseConfigPath(name)]
	if !ok {
		return nil
	}
	cfg := &models.Database{}
	if err := encoding.JSONUnmarshal(data, cfg); err != nil {
		c.fatalf("harness: config of %s does not decode: %v", name, err)
	}
	return cfg
}

func (c *cluster) etcdAssign(name string) assignment {
	data, ok := c.repo.kv[constants.GetDatabaseAssignPath(name)]
	if !ok {
		return nil
	}
	return c.decodeAssign(data, name)
}

func (c *cluster) decodeAssign(data []byte, name string) assignment {
	asg := &models.ShardAssignment{}
	if err := encoding.JSONUnmarshal(data, asg); err != nil {
		c.fatalf("shard assignment of %s in the repository does not decode: %v", name, err)
	}
	if asg.Name != name {
		c.fatalf("shard assignment stored for %s carries name %q", name, asg.Name)
	}
	out := copyAssignment(asg)
	if out == nil {
		out = assignment{}
	}
	return out
}

// external actors (storage nodes, the user through a broker)

func (c *cluster) nodeRegister(id models.NodeID) {
	// what discovery.registry.register writes (app/storage/runtime.go builds the node)
	node := models.StatefulNode{
		ID: id,
		StatelessNode: models.StatelessNode{
			HostIP: fmt.Sprintf("10.0.0.%d", id), HostName: fmt.Sprintf("storage-%d", id),
			GRPCPort: 2891, HTTPPort: 2892, Version: "verif", OnlineTime: 1_700_000_000_000 + int64(len(c.log)),
		},
	}
	_ = c.repo.Put(context.Background(), nodeKey(id), encoding.JSONMarshal(&node))
}

func (c *cluster) nodeGone(id models.NodeID) {
	_ = c.repo.Delete(context.Background(), nodeKey(id))
}

func (c *cluster) putDatabase(name string, shards, rf int) {
	// what app/broker/api/exec/command/schema.go saveDataBase writes after validation
	opt := &option.DatabaseOption{Intervals: option.Intervals{{Interval: timeutil.Interval(10_000), Retention: timeutil.Interval(30 * 24 * 3600_000)}}}
	db := &models.Database{Name: name, NumOfShard: shards, ReplicaFactor: rf, Option: opt}
	_ = c.repo.Put(context.Background(), constants.GetDatabaseConfigPath(name), encoding.JSONMarshal(db))
}

func (c *cluster) dropDatabase(name string) {
	// schema.go dropDatabase: delete config, then delete assignment
	_ = c.repo.Delete(context.Background(), constants.GetDatabaseConfigPath(name))
	_ = c.repo.Delete(context.Background(), constants.GetDatabaseAssignPath(name))
}

// ---- delivery + model -----------------------------------------------------------------------

func anyLive(reps []models.NodeID, live map[models.NodeID]bool, except models.NodeID) bool {
	for _, r := range reps {
		if r != except && live[r] {
			return true
		}
	}
	return false
}

func contains(reps []models.NodeID, id models.NodeID) bool {
	for _, r := range reps {
		if r == id {
			return true
		}
	}
	return false
}

// process hands one event to the master; only inside this call the armed repository faults fire.
func (c *cluster) process(e *discovery.Event) []firedFault {
	c.repo.inMaster = true
	c.repo.fired = nil
	c.repo.statePuts = nil
	master.VerifProcessEvent(c.sm, e)
	c.repo.inMaster = false
	for _, f := range c.repo.fired {
		c.logf("    repository fault: %s %s fails (write applied: %v)", f.kind, f.key, f.applied)
		c.classes["fault:"+f.kind+"@"+e.Type.String()]++
		if f.applied {
			c.classes["fault:write-applied-but-error"]++
		}
		c.faultsFired++
	}
	return c.repo.fired
}

// afterSync is called after an event whose handler always ends with publishing the state:
// the published copy may be behind from now on exactly if the last attempt did not reach the store.
func (c *cluster) afterSync() (failed bool) {
	n := len(c.repo.statePuts)
	c.staleAllowed = n > 0 && !c.repo.statePuts[n-1]
	return c.staleAllowed
}

func (c *cluster) knownDatabase(name string) bool {
	for _, db := range c.sm.GetDatabases() {
		if db.Name == name {
			return true
		}
	}
	return false
}

func (c *cluster) pendingTotal() int { return len(c.q[0]) + len(c.q[1]) + len(c.q[2]) }

// deliver hands the oldest pending event of one watcher to the master and checks the oracle.
func (c *cluster) deliver(qi int) {
	p := c.q[qi][0]
	c.q[qi] = c.q[qi][1:]
	e := p.ev
	_, last := filepath.Split(e.Key)
	switch e.Type {
	case discovery.NodeStartup:
		id := models.NodeID(mustAtoi(c, last))
		revived := 0
		for _, asg := range c.viewAssign {
			for _, reps := range asg {
				if contains(reps, id) && !anyLive(reps, c.viewLive, -1) {
					revived++
				}
			}
		}
		again := c.viewLive[id]
		c.viewLive[id] = true
		c.logf("  deliver node-up %d (revives %d shards)", id, revived)
		c.classes["ev:node-up"]++
		if again {
			c.classes["node-up-while-up"]++
		}
		if revived > 0 {
			c.classes["revived-offline-shard"]++
			c.nonTrivial = true
		}
		c.process(e)
		if c.afterSync() && revived > 0 {
			c.classes["revive-while-publish-fails"]++
		}

	case discovery.NodeFailure:
		id := models.NodeID(mustAtoi(c, last))
		// leaders before the event: the master's state was validated after the previous event
		reelect, offline := 0, 0
		st := c.sm.GetStorageState()
		for db, asg := range c.viewAssign {
			for sid, reps := range asg {
				if !contains(reps, id) {
					continue
				}
				peer := anyLive(reps, c.viewLive, id)
				if !peer && c.viewLive[id] {
					offline++
				}
				if peer && st.ShardStates[db][sid].Leader == id {
					reelect++
				}
			}
		}
		delete(c.viewLive, id)
		c.logf("  deliver node-down %d (re-elects %d, takes %d offline)", id, reelect, offline)
		c.classes["ev:node-down"]++
		if reelect > 0 {
			c.classes["leader-reelected"]++
			c.nonTrivial = true
		}
		if offline > 0 {
			c.classes["shard-went-offline"]++
		}
		c.process(e)
		if c.afterSync() {
			if reelect > 0 {
				c.classes["reelect-while-publish-fails"]++
			}
			if offline > 0 {
				c.classes["offline-while-publish-fails"]++
			}
		}

	case discovery.DatabaseConfigChanged:
		c.deliverConfig(e)

	case discovery.DatabaseConfigDeletion:
		name := last
		c.logf("  deliver drop-database %s", name)
		c.classes["ev:db-drop"]++
		known := c.knownDatabase(name)
		delete(c.viewAssign, name)
		c.dropped[name] = true
		fired := c.process(e)
		if known {
			c.afterSync()
		}
		if len(fired) > 0 {
			c.faultedDrop[name] = true
		}
		if got := c.etcdAssign(name); got != nil && len(fired) == 0 {
			c.fatalf("drop of %s handled, but its shard assignment is still in the repository: %s", name, fmtAssignment(got))
		}

	case discovery.ShardAssignmentChanged:
		name := last
		asg := c.decodeAssign(e.Value, name)
		c.logf("  deliver assignment %s: %s", name, fmtAssignment(asg))
		c.classes["ev:assign"]++
		if c.dropped[name] {
			// the assignment watcher is behind the config watcher: the drop was handled first.
			// The master takes the database back into its state; C18 makes no statement about
			// this, the oracle only requires the shard invariants on whatever the master holds.
			c.classes["assignment-after-drop"]++
		}
		c.viewAssign[name] = asg
		delete(c.faultedDrop, name)
		c.process(e)
		c.afterSync()

	case discovery.ShardAssignmentDeletion:
		c.logf("  deliver assignment-deleted %s", last)
		c.classes["ev:assign-deleted"]++
		c.process(e)

	default:
		c.fatalf("harness: unexpected event type %v", e.Type)
	}
	c.checkState(fmt.Sprintf("after %s %s", e.Type, e.Key))
}

func mustAtoi(c *cluster, s string) int {
	v, err := strconv.Atoi(s)
	if err != nil {
		c.fatalf("harness: not a number: %q", s)
	}
	return v
}

// deliverConfig handles create / grow / re-put of a database config and checks the placement
// part of C18 on what the master stores: the nodes "alive at creation" are the nodes registered
// in the repository at the moment the master handles the event (storageCluster.GetLiveNodes).
func (c *cluster) deliverConfig(e *discovery.Event) {
	cfg := &models.Database{}
	if err := encoding.JSONUnmarshal(e.Value, cfg); err != nil {
		c.fatalf("harness: config event does not decode: %v", err)
	}
	name, shards, rf := cfg.Name, cfg.NumOfShard, cfg.ReplicaFactor
	live := c.etcdLive()
	old := c.etcdAssign(name)
	delete(c.dropped, name)
	c.logf("  deliver database-config %s shards=%d rf=%d (registered nodes %v, stored shards %d)", name, shards, rf, live, len(old))
	c.classes["ev:db-config"]++

	fired := c.process(e)

	now := c.etcdAssign(name)
	valid := shards >= 1 && rf >= 1 && rf <= len(live)
	what := fmt.Sprintf("database %s shards=%d rf=%d over registered nodes %v", name, shards, rf, live)
	if len(fired) > 0 {
		// a repository call of this handler failed: either nothing was stored (the assignment is
		// what it was) or what was stored satisfies the placement claims like any other (below)
		what += " [repository fault]"
		if sameAssignment(old, now) {
			c.classes["db-config-under-fault:assignment-unchanged"]++
			return
		}
		c.classes["db-config-under-fault:assignment-stored"]++
	}
	switch {
	case old == nil && valid:
		if now == nil {
			c.fatalf("%s: valid create produced no assignment", what)
		}
		checkPlacement(clusterFailer{c}, "create "+what, now, 0, shards, rf, live)
		c.classes["db-created"]++
	case old == nil:
		if now != nil {
			c.fatalf("%s: invalid create must be rejected, but an assignment was stored: %s", what, fmtAssignment(now))
		}
		c.classes["db-create-rejected"]++
	case shards > len(old) && valid:
		if now == nil {
			c.fatalf("%s: assignment vanished on grow", what)
		}
		for sid, reps := range old {
			if fmt.Sprint(now[sid]) != fmt.Sprint(reps) {
				c.fatalf("grow %s: existing shard %d moved: %v -> %v", what, sid, reps, now[sid])
			}
		}
		checkPlacement(clusterFailer{c}, "grow "+what, now, len(old), shards, rf, live)
		c.classes["db-grown"]++
	default:
		// same shard count (re-put), fewer shards (not implemented upstream: rejected), or a grow
		// that is invalid for the registered nodes: the stored assignment must not change
		if !sameAssignment(old, now) {
			c.fatalf("%s: assignment must stay as it is (stored shards %d), but changed: %s -> %s", what, len(old), fmtAssignment(old), fmtAssignment(now))
		}
		switch {
		case shards == len(old):
			c.classes["db-reput"]++
		case shards < len(old):
			c.classes["db-shrink-rejected"]++
		default:
			c.classes["db-grow-rejected"]++
		}
	}
}

type clusterFailer struct{ c *cluster }

func (f clusterFailer) Fatalf(format string, args ...any) { f.c.fatalf(format, args...) }

// checkState is the oracle on the master's view: in memory (GetStorageState) and as published
// to the repository for the brokers (/storage/state).
func (c *cluster) checkState(when string) {
	// what the master hands out from memory must agree with the processed events, whether or
	// not the repository accepted the publication
	c.checkOneState(when+" [GetStorageState]", c.sm.GetStorageState(), c.viewLive, c.viewAssign)
	if !c.published {
		// nothing written by this master yet (a predecessor's copy may still be there): fine as
		// long as this master has not been told anything, or its last attempt to publish failed
		if (len(c.viewLive) > 0 || len(c.viewAssign) > 0) && !c.staleAllowed {
			c.fatalf("%s: the master never published its storage state", when)
		}
		return
	}
	data, ok := c.repo.kv[constants.StorageStatePath]
	if !ok {
		c.fatalf("%s: published storage state vanished", when)
	}
	pub := &models.StorageState{}
	if err := encoding.JSONUnmarshal(data, pub); err != nil {
		c.fatalf("%s: published storage state does not decode: %v", when, err)
	}
	if c.staleAllowed {
		// the master's last attempt to publish did not reach the repository (nothing promises a
		// retry before the next event): the copy is the one of the last write that arrived
		c.classes["published-copy-behind-after-failed-sync"]++
		c.checkOneState(when+" [published /storage/state, last write that reached the repository]", pub, c.pubLive, c.pubAssign)
		return
	}
	c.checkOneState(when+" [published /storage/state]", pub, c.viewLive, c.viewAssign)
}

// checkOneState compares one storage state with a model (live nodes, announced assignments).
func (c *cluster) checkOneState(when string, st *models.StorageState, viewLive map[models.NodeID]bool, viewAssign map[string]assignment) {
	if st == nil {
		c.fatalf("%s: no storage state", when)
	}
	// live nodes = delivered node events
	if len(st.LiveNodes) != len(viewLive) {
		c.fatalf("%s: live nodes %v, expected %v", when, keysOfNodes(st.LiveNodes), keysOfSet(viewLive))
	}
	for id, n := range st.LiveNodes {
		if !viewLive[id] || n.ID != id {
			c.fatalf("%s: live nodes %v, expected %v (entry %d carries id %d)", when, keysOfNodes(st.LiveNodes), keysOfSet(viewLive), id, n.ID)
		}
	}
	// databases = delivered assignments
	if len(st.ShardAssignments) != len(viewAssign) || len(st.ShardStates) != len(viewAssign) {
		c.fatalf("%s: databases with assignment %v / with shard states %v, expected %v", when,
			keysOfStr(st.ShardAssignments), keysOfStr(st.ShardStates), keysOfStr(viewAssign))
	}
	for db, want := range viewAssign {
		asg, ok := st.ShardAssignments[db]
		if !ok || asg == nil {
			c.fatalf("%s: database %s has no shard assignment in the state", when, db)
		}
		if got := copyAssignment(asg); !sameAssignment(got, want) && !(len(got) == 0 && len(want) == 0) {
			c.fatalf("%s: database %s: assignment in state %s, announced %s", when, db, fmtAssignment(got), fmtAssignment(want))
		}
		states, ok := st.ShardStates[db]
		if !ok || len(states) != len(want) {
			c.fatalf("%s: database %s has %d shard states for %d shards", when, db, len(states), len(want))
		}
		for sid, reps := range want {
			ss, ok := states[sid]
			if !ok {
				c.fatalf("%s: %s/shard %d has no state", when, db, sid)
			}
			if ss.ID != sid || fmt.Sprint(ss.Replica.Replicas) != fmt.Sprint(reps) {
				c.fatalf("%s: %s/shard %d: state carries id %d replicas %v, assignment says %v", when, db, sid, ss.ID, ss.Replica.Replicas, reps)
			}
			alive := anyLive(reps, viewLive, -1)
			switch {
			case alive:
				if ss.State != models.OnlineShard {
					c.fatalf("%s: %s/shard %d replicas %v, live nodes %v: a replica is alive but the shard is not online (state=%d leader=%d)",
						when, db, sid, reps, keysOfSet(viewLive), ss.State, ss.Leader)
				}
				if !contains(reps, ss.Leader) || !viewLive[ss.Leader] {
					c.fatalf("%s: %s/shard %d replicas %v, live nodes %v: leader %d is not an alive replica of the shard",
						when, db, sid, reps, keysOfSet(viewLive), ss.Leader)
				}
			default:
				if ss.State == models.OnlineShard {
					c.fatalf("%s: %s/shard %d replicas %v, live nodes %v: no replica is alive but the shard is online (leader=%d)",
						when, db, sid, reps, keysOfSet(viewLive), ss.Leader)
				}
				if ss.State != models.OfflineShard || ss.Leader != models.NoLeader {
					c.fatalf("%s: %s/shard %d replicas %v, live nodes %v: offline shard must be OfflineShard without leader, got state=%d leader=%d",
						when, db, sid, reps, keysOfSet(viewLive), ss.State, ss.Leader)
				}
			}
		}
	}
}

func keysOfNodes(m map[models.NodeID]models.StatefulNode) []int {
	var ks []int
	for k := range m {
		ks = append(ks, int(k))
	}
	sort.Ints(ks)
	return ks
}

func keysOfSet(m map[models.NodeID]bool) []int {
	var ks []int
	for k, v := range m {
		if v {
			ks = append(ks, int(k))
		}
	}
	sort.Ints(ks)
	return ks
}

func keysOfStr[V any](m map[string]V) []string {
	var ks []string
	for k := range m {
		ks = append(ks, k)
	}
	sort.Strings(ks)
	return ks
}

// drain delivers everything pending in global revision order.
func (c *cluster) drain() {
	for c.pendingTotal() > 0 {
		best := -1
		for qi := range c.q {
			if len(c.q[qi]) > 0 && (best < 0 || c.q[qi][0].rev < c.q[best][0].rev) {
				best = qi
			}
		}
		c.deliver(best)
	}
}

// failover replaces the master: a new state manager is built from what the repository holds,
// in the order StateMachineFactory.Start lists it (live nodes, database configs, assignments;
// every initial event goes through the same FIFO channel, so this order is the production
// order). Events still pending for the old master's watchers die with them.
func (c *cluster) failover() {
	c.logf("master fail-over (%d events of the old master undelivered)", c.pendingTotal())
	c.sm.Close()
	c.q = [3][]pendingEv{}
	c.viewLive = map[models.NodeID]bool{}
	c.viewAssign = map[string]assignment{}
	c.dropped = map[string]bool{}
	c.faultedDrop = map[string]bool{}
	c.published = false
	c.staleAllowed = false
	c.pubLive, c.pubAssign = nil, nil
	c.sm = master.NewStateManager(context.Background(), c.repo, nil)
	ctx := context.Background()
	for qi, spec := range []struct {
		prefix string
		typ    discovery.EventType
	}{
		{constants.StorageLiveNodesPath, discovery.NodeStartup},
		{constants.DatabaseConfigPath, discovery.DatabaseConfigChanged},
		{constants.ShardAssignmentPath, discovery.ShardAssignmentChanged},
	} {
		kvs, _ := c.repo.List(ctx, spec.prefix)
		initial := make([]pendingEv, 0, len(kvs))
		for _, kv := range kvs {
			initial = append(initial, pendingEv{0, &discovery.Event{Type: spec.typ, Key: kv.Key, Value: kv.Value}})
		}
		// watch events caused while the initial events are handled queue up behind them
		c.q[qi] = append(initial, c.q[qi]...)
		for range initial {
			c.deliver(qi)
		}
	}
}

// ---- the history test -----------------------------------------------------------------------

func TestMasterHistory(t *testing.T) {
	rapid.Check(t, func(t *rapid.T) { masterHistory(t, "TestMasterHistory", false) })
}

// TestMasterFaultHistory: the same histories while the repository fails under the master: the
// generator arms fault rules ("of the master's Puts of /storage/state from now on, skip k, then
// fail the next n" - likewise for the Put/Get/Delete of shard assignments and the List of the
// registered nodes; a failing write may or may not have reached the store). After the last rule
// is used up the churn continues without faults. Oracle: GetStorageState always agrees with the
// processed events; the published copy agrees with them unless the master's last attempt to
// publish failed (then it is the copy of the last write that arrived), and agrees again after
// the next event that publishes; a stored shard assignment is either untouched or a valid one.
func TestMasterFaultHistory(t *testing.T) {
	rapid.Check(t, func(t *rapid.T) { masterHistory(t, "TestMasterFaultHistory", true) })
}

var faultKinds = []string{fkPutState, fkPutState, fkPutState, fkPutState, fkPutState, fkPutAssign, fkPutAssign, fkGetAssign, fkListNodes, fkDeleteAssign}

func masterHistory(t *rapid.T, group string, withFaults bool) {
	pinRandom(rapid.Int64().Draw(t, "randSeed"))
	c := newCluster(t)
	defer c.close()

	// cluster sizes: mostly 2..7 nodes (leadership needs peers), sometimes a single node
	poolN := rapid.SampledFrom([]int{1, 2, 2, 3, 3, 3, 4, 4, 5, 6, 7}).Draw(t, "poolN")
	pool := genNodes(t, "pool", poolN, poolN)
	dbs := []string{"db0", "db1", "db2"}
	lag := rapid.Bool().Draw(t, "lag")
	allowFailover := rapid.IntRange(0, 3).Draw(t, "allowFailover") == 0
	steps := rapid.IntRange(1, 45).Draw(t, "steps")
	// most clusters have their nodes running before the first database is created
	boot := rapid.IntRange(0, poolN).Draw(t, "boot")
	for i := 0; i < boot; i++ {
		c.logf("op node-up %d", pool[i])
		c.nodeRegister(pool[i])
		if !lag {
			c.drain()
		}
	}
	// replica factor: mostly satisfiable by the registered nodes, sometimes one too many
	genRF := func(up int) int {
		if up == 0 || rapid.IntRange(0, 7).Draw(t, "rfTooBig") == 0 {
			return up + 1
		}
		if up >= 2 && rapid.Bool().Draw(t, "rfReplicated") {
			return rapid.IntRange(2, up).Draw(t, "rf")
		}
		return rapid.IntRange(1, up).Draw(t, "rf")
	}
	if lag {
		c.classes["mode:lag"]++
	} else {
		c.classes["mode:in-order"]++
	}
	armsLeft, churnNext := 0, false
	if withFaults {
		armsLeft = rapid.IntRange(1, 6).Draw(t, "faultRules")
		if steps < 10 {
			steps += 10
		}
	}

	for i := 0; i < steps; i++ {
		var up, down []models.NodeID
		for _, id := range pool {
			if c.etcdIsLive(id) {
				up = append(up, id)
			} else {
				down = append(down, id)
			}
		}
		var have, free []string
		for _, name := range dbs {
			if c.etcdConfig(name) != nil {
				have = append(have, name)
			} else {
				free = append(free, name)
			}
		}
		// enabled operations, weighted by repetition
		var kinds []string
		add := func(k string, w int, ok bool) {
			for j := 0; ok && j < w; j++ {
				kinds = append(kinds, k)
			}
		}
		add("node-up", 5, len(down) > 0)
		add("node-down", 4, len(up) > 1)
		add("node-down", 1, len(up) == 1)
		add("node-reregister", 1, len(up) > 0)
		add("create", 3, len(free) > 0)
		add("grow", 3, len(have) > 0)
		add("reput", 1, len(have) > 0)
		add("shrink", 1, len(have) > 0)
		add("drop", 1, len(have) > 0)
		add("failover", 1, allowFailover)
		// faults are armed in the first three quarters of the history: the churn goes on after them
		add("arm-fault", 5, armsLeft > 0 && len(c.repo.rules) < 2 && i <= steps*3/4)
		if churnNext && len(up)+len(down) > 0 {
			// a fault on the publication was just armed: half of the time the next operation
			// is a node failure / start, so that the fault meets the event C18 is about
			kinds = kinds[:0]
			add("node-up", 1, len(down) > 0)
			add("node-down", 2, len(up) > 0)
		}
		churnNext = false
		if lag {
			add("deliver", 10, c.pendingTotal() > 0)
		}
		kind := rapid.SampledFrom(kinds).Draw(t, "op")
		switch kind {
		case "node-up":
			id := rapid.SampledFrom(down).Draw(t, "node")
			c.logf("op node-up %d", id)
			c.nodeRegister(id)
		case "node-down":
			id := rapid.SampledFrom(up).Draw(t, "node")
			c.logf("op node-down %d", id)
			c.nodeGone(id)
		case "node-reregister":
			// the registry re-puts its key when the heartbeat channel closes, or the node
			// restarts before the old lease expired (app/storage/runtime.go MustRegisterStatefulNode)
			id := rapid.SampledFrom(up).Draw(t, "node")
			c.logf("op node-reregister %d", id)
			c.nodeRegister(id)
		case "create":
			name := rapid.SampledFrom(free).Draw(t, "db")
			shards := rapid.IntRange(1, 10).Draw(t, "shards")
			rf := genRF(len(up))
			c.logf("op create-database %s shards=%d rf=%d", name, shards, rf)
			c.putDatabase(name, shards, rf)
		case "grow":
			name := rapid.SampledFrom(have).Draw(t, "db")
			cur := c.etcdConfig(name)
			shards := cur.NumOfShard + rapid.IntRange(1, 6).Draw(t, "add")
			rf := cur.ReplicaFactor
			if rapid.IntRange(0, 4).Draw(t, "newRF") == 0 {
				rf = genRF(len(up))
			}
			c.logf("op grow-shards %s shards=%d rf=%d", name, shards, rf)
			c.putDatabase(name, shards, rf)
		case "reput":
			name := rapid.SampledFrom(have).Draw(t, "db")
			cur := c.etcdConfig(name)
			c.logf("op re-put database %s shards=%d rf=%d", name, cur.NumOfShard, cur.ReplicaFactor)
			c.putDatabase(name, cur.NumOfShard, cur.ReplicaFactor)
		case "shrink":
			name := rapid.SampledFrom(have).Draw(t, "db")
			cur := c.etcdConfig(name)
			if cur.NumOfShard < 2 {
				continue
			}
			shards := rapid.IntRange(1, cur.NumOfShard-1).Draw(t, "shards")
			c.logf("op shrink database %s shards=%d rf=%d", name, shards, cur.ReplicaFactor)
			c.putDatabase(name, shards, cur.ReplicaFactor)
		case "drop":
			name := rapid.SampledFrom(have).Draw(t, "db")
			c.logf("op drop-database %s", name)
			c.dropDatabase(name)
		case "failover":
			c.classes["op:failover"]++
			c.failover()
		case "arm-fault":
			armsLeft--
			ru := &faultRule{
				kind:  rapid.SampledFrom(faultKinds).Draw(t, "faultKind"),
				skip:  rapid.SampledFrom([]int{0, 0, 0, 0, 1, 2, 3}).Draw(t, "faultSkip"),
				times: rapid.SampledFrom([]int{1, 1, 1, 2, 3, 4}).Draw(t, "faultTimes"),
			}
			if strings.HasPrefix(ru.kind, "put:") || strings.HasPrefix(ru.kind, "delete:") {
				ru.applied = rapid.IntRange(0, 3).Draw(t, "faultWriteApplied") == 0
			}
			c.logf("op arm-fault: of the master's calls %s skip %d, fail the next %d (write applied: %v)", ru.kind, ru.skip, ru.times, ru.applied)
			c.repo.rules = append(c.repo.rules, ru)
			churnNext = ru.kind == fkPutState && rapid.Bool().Draw(t, "churnNext")
			if ru.times > 1 {
				c.classes["fault-rule:for-a-while"]++
			} else {
				c.classes["fault-rule:once"]++
			}
		case "deliver":
			var nonEmpty []int
			for qi := range c.q {
				if len(c.q[qi]) > 0 {
					nonEmpty = append(nonEmpty, qi)
				}
			}
			qi := rapid.SampledFrom(nonEmpty).Draw(t, "watcher")
			if c.q[qi][0].rev > minRev(c) {
				c.classes["delivered-out-of-revision-order"]++
			}
			c.deliver(qi)
		}
		if kind != "deliver" && kind != "failover" && kind != "arm-fault" {
			c.classes["op:"+kind]++
		}
		if !lag {
			c.drain()
		}
	}
	// the faults stop: everything still in flight arrives
	if len(c.repo.rules) > 0 {
		c.classes["fault-rule-unused-at-end"]++
		c.repo.rules = nil
	}
	c.logf("quiesce")
	c.drain()
	if c.staleAllowed {
		// the last attempt to publish failed and no later event published: the next event
		// that publishes (here: a storage node renews its registration) must bring the
		// published copy back in line (checked by deliver -> checkState)
		c.classes["quiesced-with-published-copy-behind"]++
		id := pool[0]
		if live := c.etcdLive(); len(live) > 0 {
			id = live[0]
		}
		c.logf("op node-reregister %d (forces the next publication)", id)
		c.nodeRegister(id)
		c.drain()
		if c.staleAllowed {
			c.fatalf("harness: publication failed although no fault is armed")
		}
	}
	c.checkConverged()
	if withFaults && c.faultsFired > 0 {
		c.classes["history-with-fired-fault"]++
	}

	cls := make([]string, 0, len(c.classes))
	for k := range c.classes {
		cls = append(cls, k)
	}
	sort.Strings(cls)
	canon := strings.Join(c.log, "\n")
	nonTrivial := c.nonTrivial && (!withFaults || c.faultsFired > 0)
	ev.Case(group, canon, nonTrivial, cls, map[string]any{"pool": pool, "lag": lag, "history": c.log})
}

func minRev(c *cluster) int64 {
	m := int64(-1)
	for qi := range c.q {
		if len(c.q[qi]) > 0 && (m < 0 || c.q[qi][0].rev < m) {
			m = c.q[qi][0].rev
		}
	}
	return m
}

// checkConverged: once every event has arrived, the master's view equals the repository's
// truth: live nodes = registered nodes, and every database that has a stored assignment is in
// the state with exactly that assignment (bounded-progress form of "after any sequence").
func (c *cluster) checkConverged() {
	st := c.sm.GetStorageState()
	live := c.etcdLive()
	if len(st.LiveNodes) != len(live) {
		c.fatalf("quiesced: master's live nodes %v, registered nodes %v", keysOfNodes(st.LiveNodes), live)
	}
	for _, id := range live {
		if _, ok := st.LiveNodes[id]; !ok {
			c.fatalf("quiesced: master's live nodes %v, registered nodes %v", keysOfNodes(st.LiveNodes), live)
		}
	}
	stored := 0
	for _, k := range c.repo.sortedKeys(constants.ShardAssignmentPath + "/") {
		_, name := filepath.Split(k)
		stored++
		want := c.etcdAssign(name)
		asg, ok := st.ShardAssignments[name]
		if !ok && c.faultedDrop[name] {
			// Observation, not asserted (C18 is silent about it): onDatabaseCfgDelete gives up
			// when the publication (or the delete) fails, after it removed the database from
			// memory; the stored assignment of the dropped database then stays in the
			// repository (a later master would load it again). Only reachable when the master
			// itself had re-created the assignment after the broker's drop (late config event).
			c.classes["observed:stored-assignment-left-behind-by-faulted-drop"]++
			continue
		}
		if !ok {
			c.fatalf("quiesced: database %s has a stored assignment but is not in the master's state", name)
		}
		if got := copyAssignment(asg); !sameAssignment(got, want) {
			c.fatalf("quiesced: database %s: state %s, stored %s", name, fmtAssignment(got), fmtAssignment(want))
		}
	}
	if len(st.ShardAssignments) > stored {
		// a dropped database that came back through a late assignment event (see deliver)
		c.classes["dropped-db-still-in-state-after-quiesce"]++
	}
}
