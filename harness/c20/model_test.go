// Package c20 checks property C20: the on-disk string dictionary (pkg/trie, index/model trie
// bucket, index/v1 flusher/reader/merger) behaves like a sorted map.
package c20

import (
	"bytes"
	"fmt"
	"sort"
	"strings"
	"testing"

	"github.com/lindb/lindb/verifharness/sim/ev"
)

func TestMain(m *testing.M) { ev.Main(m) }

// ---- reference model: a sorted map of byte-string keys to uint32 -------------------------------
//
// Written from the property text only: pairs sorted by bytes.Compare, lookup by equality,
// seek = first key >= target, prefix enumeration = the keys k with bytes.HasPrefix(k, p) in order.
// Every query is answered by a linear scan (no binary search, no tree), so the model shares no
// idea with the succinct trie.

type sortedMap struct {
	keys [][]byte
	vals []uint32
}

// newSortedMap copies and sorts the pairs; it panics on duplicate keys (harness bug).
func newSortedMap(keys [][]byte, vals []uint32) *sortedMap {
	if len(keys) != len(vals) {
		panic("harness: keys/vals length")
	}
	idx := make([]int, len(keys))
	for i := range idx {
		idx[i] = i
	}
	sort.SliceStable(idx, func(a, b int) bool { return bytes.Compare(keys[idx[a]], keys[idx[b]]) < 0 })
	m := &sortedMap{}
	for _, i := range idx {
		k := append([]byte{}, keys[i]...)
		if n := len(m.keys); n > 0 && bytes.Equal(m.keys[n-1], k) {
			panic(fmt.Sprintf("harness: duplicate key %q", k))
		}
		m.keys = append(m.keys, k)
		m.vals = append(m.vals, vals[i])
	}
	return m
}

func (m *sortedMap) len() int { return len(m.keys) }

func (m *sortedMap) get(k []byte) (uint32, bool) {
	for i := range m.keys {
		if bytes.Equal(m.keys[i], k) {
			return m.vals[i], true
		}
	}
	return 0, false
}

// lowerBound returns the index of the first key >= k (len() if none).
func (m *sortedMap) lowerBound(k []byte) int {
	for i := range m.keys {
		if bytes.Compare(m.keys[i], k) >= 0 {
			return i
		}
	}
	return len(m.keys)
}

// withPrefix returns the indexes of the keys that start with p, ascending.
func (m *sortedMap) withPrefix(p []byte) (rs []int) {
	for i := range m.keys {
		if bytes.HasPrefix(m.keys[i], p) {
			rs = append(rs, i)
		}
	}
	return rs
}

// selectVals returns the sorted values of the keys accepted by f.
func (m *sortedMap) selectVals(f func(k []byte) bool) []uint32 {
	var rs []uint32
	for i := range m.keys {
		if f(m.keys[i]) {
			rs = append(rs, m.vals[i])
		}
	}
	sortU32(rs)
	return rs
}

func (m *sortedMap) sortedVals() []uint32 {
	rs := append([]uint32{}, m.vals...)
	sortU32(rs)
	return rs
}

// union merges models with pairwise disjoint key sets.
func union(ms ...*sortedMap) *sortedMap {
	var keys [][]byte
	var vals []uint32
	for _, m := range ms {
		keys = append(keys, m.keys...)
		vals = append(vals, m.vals...)
	}
	return newSortedMap(keys, vals)
}

func sortU32(v []uint32) { sort.Slice(v, func(i, j int) bool { return v[i] < v[j] }) }

func sortedCopy(v []uint32) []uint32 {
	rs := append([]uint32{}, v...)
	sortU32(rs)
	return rs
}

func equalU32(a, b []uint32) bool {
	if len(a) != len(b) {
		return false
	}
	for i := range a {
		if a[i] != b[i] {
			return false
		}
	}
	return true
}

// hasPrefixPair reports whether some key is a proper prefix of another key.
func (m *sortedMap) hasPrefixPair() bool {
	// in sorted order a key that is a prefix of any other key is a prefix of its successor
	for i := 0; i+1 < len(m.keys); i++ {
		if bytes.HasPrefix(m.keys[i+1], m.keys[i]) {
			return true
		}
	}
	return false
}

// describe renders a key set for failure messages / evidence samples (bounded).
func (m *sortedMap) describe(max int) string {
	var sb strings.Builder
	fmt.Fprintf(&sb, "%d keys{", len(m.keys))
	for i := range m.keys {
		if i >= max {
			sb.WriteString(" ...")
			break
		}
		fmt.Fprintf(&sb, " %q:%d", m.keys[i], m.vals[i])
	}
	sb.WriteString(" }")
	return sb.String()
}

func (m *sortedMap) canon() string {
	var sb strings.Builder
	for i := range m.keys {
		fmt.Fprintf(&sb, "%x=%d;", m.keys[i], m.vals[i])
	}
	return sb.String()
}

// TestModelSelf pins the model on hand-written examples.
func TestModelSelf(t *testing.T) {
	m := newSortedMap([][]byte{[]byte("b"), []byte("ab"), []byte("a"), []byte("a\x00"), []byte("a\xff"), []byte("abc")},
		[]uint32{1, 2, 3, 4, 5, 6})
	want := []string{"a", "a\x00", "ab", "abc", "a\xff", "b"}
	for i, w := range want {
		if string(m.keys[i]) != w {
			t.Fatalf("order[%d] = %q want %q", i, m.keys[i], w)
		}
	}
	if v, ok := m.get([]byte("ab")); !ok || v != 2 {
		t.Fatalf("get ab = %d,%v", v, ok)
	}
	if _, ok := m.get([]byte("")); ok {
		t.Fatalf("get empty")
	}
	if _, ok := m.get([]byte("abcd")); ok {
		t.Fatalf("get extension")
	}
	for _, c := range []struct {
		k    string
		want int
	}{{"", 0}, {"a", 0}, {"a\x00", 1}, {"a\x01", 2}, {"aa", 2}, {"abd", 4}, {"a\xff\x00", 5}, {"b", 5}, {"c", 6}} {
		if got := m.lowerBound([]byte(c.k)); got != c.want {
			t.Fatalf("lowerBound(%q) = %d want %d", c.k, got, c.want)
		}
	}
	if got := m.withPrefix([]byte("ab")); len(got) != 2 || got[0] != 2 || got[1] != 3 {
		t.Fatalf("withPrefix(ab) = %v", got)
	}
	if got := m.withPrefix(nil); len(got) != 6 {
		t.Fatalf("withPrefix(nil) = %v", got)
	}
	if !m.hasPrefixPair() {
		t.Fatalf("hasPrefixPair")
	}
	if newSortedMap([][]byte{[]byte("ab"), []byte("b"), []byte("ac")}, []uint32{1, 2, 3}).hasPrefixPair() {
		t.Fatalf("hasPrefixPair false positive")
	}
	u := union(newSortedMap([][]byte{[]byte("x")}, []uint32{9}), m)
	if u.len() != 7 || string(u.keys[6]) != "x" {
		t.Fatalf("union")
	}
	if got := m.selectVals(func(k []byte) bool { return bytes.HasSuffix(k, []byte("b")) }); !equalU32(got, []uint32{1, 2}) {
		t.Fatalf("selectVals = %v", got)
	}
}
