package c20

import (
	"bytes"
	"fmt"
	"os"
	"path/filepath"
	"regexp"
	"regexp/syntax"
	"sort"
	"strings"
	"testing"
	"unicode"

	"pgregory.net/rapid"

	"github.com/lindb/lindb/index"
	"github.com/lindb/lindb/index/model"
	v1 "github.com/lindb/lindb/index/v1"
	"github.com/lindb/lindb/kv"
	"github.com/lindb/lindb/sql/stmt"
	"github.com/lindb/lindb/verifharness/sim/ev"
)

// ---- regular expressions with flags and richer syntax as probes ----------------------------------------
//
// TrieBucket.FindValuesByRegexp does not evaluate the expression on every key: it derives a scan
// prefix from the expression (anchored at the beginning of the text + literal prefix) and only
// enumerates the keys below that prefix. Every way in which a prefix can be (wrongly) derived from
// an expression is a way to lose keys, so the expressions of this file are built to exercise the
// derivation, not the matcher: case-insensitive literals ((?i)^host, ^(?i)web-, ^(?i:host)-1[0-9],
// ^ho(?i)st, [hH]ost - the parser stores a folded literal as its upper-case runes), flags switched
// on and off inside the expression, anchors in groups / captures / alternations (^(a|b), ^a|^b,
// ^a|b, (^a)|(^b)), alternations with a common head, optional and repeated heads (^a?b, ^a*b,
// ^(?:ab){1,2}), quoted literals (^\Qa.b\E), \A and \z, multi-line and dot-all flags ((?m)^host must
// also find "x\nhost-1"), empty-width assertions (^\bhost, ^^host, $^host), character classes and
// dots at the start, letters whose fold orbit leaves ASCII ((?i)^k matches U+212A KELVIN SIGN,
// (?i)^s matches U+017F).
//
// Keys: host-name like words in mixed letter case (host-1, Host-3, HOST-7, hOsT-12, with KELVIN SIGN
// / LONG S variants), some with an embedded newline, some behind a line of other text, some behind
// a byte that is not UTF-8. Oracle: Go's regexp.MatchString over the model's keys - the in-memory
// path of index/kv_store.go selects a key iff rp.Match(key), the flushed dictionaries must select
// the same keys. Judged on the bucket (1..3 dictionaries x block sizes, before and after the merge)
// and through the index kv store itself (FindValuesByExpr with a stmt.RegexExpr over keys that sit
// in the mutable map, the frozen map and 0..3 flushed files, before / after compaction).

var (
	caseHeads = []string{"host", "host", "web", "db", "k8s", "sys", "kafka", "node", "h", "k", "s", "Host", "HOST"}
	caseSeps  = []string{"-", "-", "-", "_", ".", "", "\n", " "}
	caseTails = []string{"", "", "", ".io", "-prod", "\nhost-1", "$", "^"}
)

// recase returns k in another letter case.
func recase(s src, k string) string {
	switch s.intn(7, "recase") {
	case 0:
		return strings.ToLower(k)
	case 1:
		return strings.ToUpper(k)
	case 2: // Title
		if k == "" {
			return k
		}
		return strings.ToUpper(k[:1]) + strings.ToLower(k[1:])
	case 3, 4: // letter by letter
		b := []byte(k)
		for i, c := range b {
			if c < 0x80 && unicode.IsLetter(rune(c)) && s.intn(2, "flip") == 0 {
				if unicode.IsUpper(rune(c)) {
					b[i] = byte(unicode.ToLower(rune(c)))
				} else {
					b[i] = byte(unicode.ToUpper(rune(c)))
				}
			}
		}
		return string(b)
	case 5: // a letter replaced by the non-ASCII member of its fold orbit
		for i := 0; i < len(k); i++ {
			switch k[i] {
			case 'k', 'K':
				return k[:i] + "K" + k[i+1:]
			case 's', 'S':
				return k[:i] + "ſ" + k[i+1:]
			}
		}
		return k
	default:
		return k
	}
}

func caseKey(s src) []byte {
	head := caseHeads[s.intn(len(caseHeads), "head")]
	sep := caseSeps[s.intn(len(caseSeps), "sep")]
	var mid string
	if s.intn(3, "midKind") > 0 {
		mid = fmt.Sprintf("%d", s.intn(30, "num"))
	} else {
		for i, n := 0, 1+s.intn(3, "midLen"); i < n; i++ {
			mid += string("abks1"[s.intn(5, "midByte")])
		}
	}
	k := recase(s, head+sep+mid+caseTails[s.intn(len(caseTails), "tail")])
	switch s.intn(16, "front") {
	case 0:
		k = "x\n" + k // the key's second line starts with the word
	case 1:
		k = "\xff" + k // not UTF-8 in front
	case 2:
		k = "_" + k
	}
	return []byte(k)
}

func genCaseKeys(s src, n int) [][]byte {
	taken := map[string]struct{}{}
	var keys [][]byte
	for attempts := 0; len(keys) < n && attempts < 6*n+20; attempts++ {
		var k []byte
		if len(keys) > 0 && s.intn(4, "derive") == 0 {
			// another letter case of a key that exists: same word, different bytes
			k = []byte(recase(s, string(keys[s.intn(len(keys), "base")])))
		} else {
			k = caseKey(s)
		}
		if len(k) == 0 {
			continue
		}
		if _, dup := taken[string(k)]; dup {
			continue
		}
		taken[string(k)] = struct{}{}
		keys = append(keys, k)
	}
	return keys
}

type reShape struct {
	name  string
	build func(a, b, rest string) string
}

// a, b: quoted ASCII literals (heads of present keys in some letter case); rest: a tail piece.
var reShapes = []reShape{
	// case folding
	{"fold:(?i)^a", func(a, b, r string) string { return "(?i)^" + a }},
	{"fold:^(?i)a", func(a, b, r string) string { return "^(?i)" + a }},
	{"fold:^(?i:a)rest", func(a, b, r string) string { return "^(?i:" + a + ")" + r }},
	{"fold:^a1(?i)a2", func(a, b, r string) string { h := len(a) / 2; return "^" + a[:h] + "(?i)" + a[h:] }},
	{"fold:(?i)^a$", func(a, b, r string) string { return "(?i)^" + a + "$" }},
	{"fold:(?i)a", func(a, b, r string) string { return "(?i)" + a }},
	{"fold:(?i)^a|^b", func(a, b, r string) string { return "(?i)^" + a + "|^" + b }},
	{"fold:^(?i)a(?-i)rest", func(a, b, r string) string { return "^(?i)" + a + "(?-i)" + r }},
	{"fold:(?i)^(?-i:a)rest", func(a, b, r string) string { return "(?i)^(?-i:" + a + ")" + r }},
	{"fold:(?i:^a)rest", func(a, b, r string) string { return "(?i:^" + a + ")" + r }},
	{"fold:((?i)^a)", func(a, b, r string) string { return "((?i)^" + a + ")" }},
	{"fold:^[aA]..", func(a, b, r string) string { return "^" + bothCases(a) + r }},
	{"fold:(?i)^a.*b$", func(a, b, r string) string { return "(?i)^" + a + ".*" + b + "$" }},
	{"fold:(?i)^k-orbit", func(a, b, r string) string { return "(?i)^" + string("ks"[len(a)%2]) + r }},
	{"fold:^kelvin", func(a, b, r string) string { return `^[\x{212a}\x{17f}]` }},
	// U+FFFD as a literal: the matcher reads every byte that is not UTF-8 as U+FFFD, so ^\x{fffd}host also
	// selects "\xffhost", which does not start with the three bytes of the literal
	{`nonutf8:^\x{fffd}a`, func(a, b, r string) string { return `^\x{fffd}` + a + r }},
	{`nonutf8:^\x{fffd}a`, func(a, b, r string) string { return `^\x{fffd}` + a + r }},
	{`nonutf8:^.a`, func(a, b, r string) string { return `^.` + a + r }},
	// anchors
	{"anchor:^a.rest", func(a, b, r string) string { return "^" + a + r }},
	{`anchor:\Aa`, func(a, b, r string) string { return `\A` + a + r }},
	{`anchor:\Aa\z`, func(a, b, r string) string { return `\A` + a + `\z` }},
	{"anchor:^a$", func(a, b, r string) string { return "^" + a + "$" }},
	{"anchor:unanchored", func(a, b, r string) string { return a + r }},
	{"anchor:a$", func(a, b, r string) string { return a + "$" }},
	{"anchor:^^a", func(a, b, r string) string { return "^^" + a + r }},
	{"anchor:^(?:^a)", func(a, b, r string) string { return "^(?:^" + a + ")" + r }},
	{"anchor:(^a)rest", func(a, b, r string) string { return "(^" + a + ")" + r }},
	{"anchor:(^)a", func(a, b, r string) string { return "(^)" + a + r }},
	{"anchor:(?:^)a", func(a, b, r string) string { return "(?:^)" + a + r }},
	{"anchor:^()a", func(a, b, r string) string { return "^()" + a + r }},
	{"anchor:^(?:)a", func(a, b, r string) string { return "^(?:)" + a + r }},
	{"anchor:$^a", func(a, b, r string) string { return "$^" + a }},
	{"anchor:^(?P<n>a)rest", func(a, b, r string) string { return "^(?P<n>" + a + ")" + r }},
	// alternations
	{"alt:^(a|b)", func(a, b, r string) string { return "^(" + a + "|" + b + ")" }},
	{"alt:^(?:a|b)rest", func(a, b, r string) string { return "^(?:" + a + "|" + b + ")" + r }},
	{"alt:^a|^b", func(a, b, r string) string { return "^" + a + "|^" + b }},
	{"alt:^a|b", func(a, b, r string) string { return "^" + a + "|" + b }},
	{"alt:a|^b", func(a, b, r string) string { return a + "|^" + b }},
	{"alt:(^a)|(^b)", func(a, b, r string) string { return "(^" + a + ")|(^" + b + ")" }},
	{"alt:^(ax|ay)", func(a, b, r string) string { return "^(" + a + "-|" + a + "_|" + a + "1)" }},
	{"alt:^ax|^ay", func(a, b, r string) string { return "^" + a + "-|^" + a + "\\." }},
	{"alt:^(a|)rest", func(a, b, r string) string { return "^(" + a + "|)" + r }},
	{"alt:^a|", func(a, b, r string) string { return "^" + a + "|" }},
	// optional / repeated heads
	{"rep:^a?b", func(a, b, r string) string { return "^" + a[:1] + "?" + a[1:] }},
	{"rep:^(a)?b", func(a, b, r string) string { return "^(" + a + ")?" + b }},
	{"rep:^(?:a)*b", func(a, b, r string) string { return "^(?:" + a + ")*" + b }},
	{"rep:^(?:a)+rest", func(a, b, r string) string { return "^(?:" + a + ")+" + r }},
	{"rep:^(?:a){0,1}b", func(a, b, r string) string { return "^(?:" + a + "){0,1}" + b }},
	{"rep:^(?:a){1,2}rest", func(a, b, r string) string { return "^(?:" + a + "){1,2}" + r }},
	{"rep:^a??rest", func(a, b, r string) string { return "^(?:" + a + ")??" + r }},
	{"rep:(?U)^a.*b", func(a, b, r string) string { return "(?U)^" + a + ".*" + b }},
	// quoting
	{`quote:^\Qa\E`, func(a, b, r string) string { return `^\Q` + unquote(a) + `\E` + r }},
	{`quote:\Qa\E`, func(a, b, r string) string { return `\Q` + unquote(a) + `\E` }},
	{`quote:^\Qa.\E$`, func(a, b, r string) string { return `^\Q` + unquote(a) + `.\E` }},
	// multi-line, dot-all
	{"flag:(?m)^a", func(a, b, r string) string { return "(?m)^" + a + r }},
	{"flag:(?m:^)a", func(a, b, r string) string { return "(?m:^)" + a + r }},
	{"flag:(?m)^a$", func(a, b, r string) string { return "(?m)^" + a + "$" }},
	{"flag:^(?m)a.*$", func(a, b, r string) string { return "^(?m)" + a + ".*$" }},
	{"flag:(?m)a$", func(a, b, r string) string { return "(?m)" + a + "$" }},
	{`flag:(?m)\Aa`, func(a, b, r string) string { return `(?m)\A` + a }},
	{"flag:(?s)^a.b", func(a, b, r string) string { return "(?s)^" + a + "." + b }},
	{"flag:^a(?s:.)", func(a, b, r string) string { return "^" + a + "(?s:.)" + r }},
	{"flag:(?s)^.a", func(a, b, r string) string { return "(?s)^." + a }},
	{"flag:(?ms)^a.", func(a, b, r string) string { return "(?ms)^" + a + "." }},
	{"flag:(?im)^a", func(a, b, r string) string { return "(?im)^" + a }},
	// empty-width assertions
	{`empty:^\ba`, func(a, b, r string) string { return `^\b` + a + r }},
	{`empty:^a\b`, func(a, b, r string) string { return "^" + a + `\b` }},
	{`empty:\ba`, func(a, b, r string) string { return `\b` + a }},
	{`empty:^\Ba`, func(a, b, r string) string { return `^\B` + a }},
	{`empty:^a\B`, func(a, b, r string) string { return "^" + a + `\B` }},
	{`empty:^\b`, func(a, b, r string) string { return `^\b` }},
	{"empty:^$|^a", func(a, b, r string) string { return "^$|^" + a }},
	// character classes / dots at the start
	{"class:^[a-z]+rest", func(a, b, r string) string { return "^[a-z]+" + r }},
	{"class:^[^a-z]", func(a, b, r string) string { return "^[^a-z]" }},
	{"class:^.a", func(a, b, r string) string { return "^." + a[1:] }},
	{`class:^\w+-`, func(a, b, r string) string { return `^\w+-` }},
	{`class:^\d`, func(a, b, r string) string { return `^\d|^` + a }},
	{"class:^[[:alpha:]]+$", func(a, b, r string) string { return "^[[:alpha:]]+" + r }},
	{"class:^[h]ost", func(a, b, r string) string { return "^[" + a[:1] + "]" + a[1:] }},
	{"class:^[hw]", func(a, b, r string) string { return "^[" + a[:1] + b[:1] + "]" + r }},
	{`class:^\p{Lu}`, func(a, b, r string) string { return `^\p{Lu}` + r }},
	{`class:^[\x00-\x7f]+$`, func(a, b, r string) string { return `^[\x00-\x7f]+$` }},
}

// bothCases turns the literal host into [hH][oO]st (the parser reads [hH] as the folded literal h).
func bothCases(a string) string {
	var sb strings.Builder
	for i := 0; i < len(a); i++ {
		c := rune(a[i])
		if i < 2 && unicode.IsLetter(c) {
			fmt.Fprintf(&sb, "[%c%c]", unicode.ToLower(c), unicode.ToUpper(c))
		} else {
			sb.WriteByte(a[i])
		}
	}
	return sb.String()
}

// unquote undoes regexp.QuoteMeta (for the \Q..\E shapes).
func unquote(a string) string {
	var out []byte
	for i := 0; i < len(a); i++ {
		if a[i] == '\\' && i+1 < len(a) {
			i++
		}
		out = append(out, a[i])
	}
	return string(out)
}

type shapedRegexp struct {
	rp    *regexp.Regexp
	shape string
}

// headLiteral: the first 1..6 bytes of a present key or the whole key (as long as it consists of
// ASCII letters, digits, '-', '_', '.'), in some letter case; it starts with a letter.
func headLiteral(s src, m *sortedMap) string {
	for attempt := 0; attempt < 8; attempt++ {
		k := m.keys[s.intn(m.len(), "litKey")]
		whole := s.intn(3, "litWhole") == 0 // the whole key (as far as it is a plain word)
		var out []byte
		k = bytes.TrimPrefix(k, []byte("\xff")) // the word behind a byte that is not UTF-8
		for _, c := range k {
			if c >= 'a' && c <= 'z' || c >= 'A' && c <= 'Z' || c >= '0' && c <= '9' || c == '-' || c == '_' || c == '.' {
				out = append(out, c)
			} else {
				break
			}
			if !whole && len(out) >= 1+s.intn(6, "litLen") {
				break
			}
		}
		if len(out) > 0 && unicode.IsLetter(rune(out[0])) {
			return recaseASCII(s, string(out))
		}
	}
	return recaseASCII(s, caseHeads[s.intn(len(caseHeads), "litHead")])
}

func recaseASCII(s src, k string) string {
	switch s.intn(4, "litCase") {
	case 0:
		return strings.ToLower(k)
	case 1:
		return strings.ToUpper(k)
	default:
		return k
	}
}

func genSyntaxRegexps(s src, m *sortedMap, n int) []shapedRegexp {
	rests := []string{"", "", "-", "-1", "[0-9]", "-1[0-9]", ".*", ".", `\d+$`, "$", "[-_.]", `-?\d`}
	var rs []shapedRegexp
	for i := 0; i < n; i++ {
		sh := reShapes[s.intn(len(reShapes), "reShape")]
		a, b := headLiteral(s, m), headLiteral(s, m)
		expr := sh.build(regexp.QuoteMeta(a), regexp.QuoteMeta(b), rests[s.intn(len(rests), "rest")])
		name := sh.name
		// Go's regexp reports a literal prefix for an expression that is anchored at the beginning only
		// if it can be run as a one-pass automaton, which needs the anchor at the end as well: close one
		// expression in three with `$` (or `.*$`), so that both kinds of anchored expressions occur
		if !strings.HasSuffix(expr, "$") {
			switch s.intn(6, "closed") {
			case 0:
				expr, name = expr+"$", name+"+$"
			case 1:
				expr, name = expr+".*$", name+"+.*$"
			}
		}
		rp, err := regexp.Compile(expr)
		if err != nil {
			rs = append(rs, shapedRegexp{nil, "not-compilable:" + name})
			continue
		}
		rs = append(rs, shapedRegexp{rp, name})
	}
	return rs
}

// derivationClass describes, for the evidence, what the expression offers to a prefix derivation:
// anchored at the beginning of the text or not, a literal prefix or not, and whether the first
// literal of the syntax tree is a folded one.
func derivationClass(rp *regexp.Regexp) string {
	re, err := syntax.Parse(rp.String(), syntax.Perl)
	if err != nil {
		return "unparsable"
	}
	prog, err := syntax.Compile(re.Simplify())
	if err != nil {
		return "unparsable"
	}
	c := "unanchored"
	if prog.StartCond()&syntax.EmptyBeginText != 0 {
		c = "anchored"
	}
	if lp, _ := rp.LiteralPrefix(); lp != "" {
		c += "+literal-prefix"
	} else {
		c += "+no-literal-prefix"
	}
	if firstLiteralFolded(re) {
		c += "+first-literal-folded"
	}
	return c
}

func firstLiteralFolded(re *syntax.Regexp) bool {
	switch re.Op {
	case syntax.OpLiteral:
		return re.Flags&syntax.FoldCase != 0
	case syntax.OpConcat:
		for _, sub := range re.Sub {
			switch sub.Op {
			case syntax.OpBeginText, syntax.OpBeginLine, syntax.OpEmptyMatch, syntax.OpWordBoundary, syntax.OpNoWordBoundary:
				continue
			}
			return firstLiteralFolded(sub)
		}
	case syntax.OpCapture:
		return firstLiteralFolded(re.Sub[0])
	}
	return false
}

// checkSyntaxRegexps compares FindValuesByRegexp with the model for every expression.
func checkSyntaxRegexps(t fataler, stage string, b *model.TrieBucket, m *sortedMap, res []shapedRegexp) {
	for _, sr := range res {
		if sr.rp == nil {
			continue
		}
		expr := sr.rp.String()
		want := m.selectVals(func(k []byte) bool {
			ok, err := regexp.MatchString(expr, string(k))
			return err == nil && ok
		})
		got := b.FindValuesByRegexp(sr.rp, []uint32{4242})
		if len(got) == 0 || got[0] != 4242 {
			t.Fatalf("FindValuesByRegexp(%q) dropped the ids handed in: %v; %s", expr, got, stage)
		}
		if g := sortedCopy(got[1:]); !equalU32(g, want) {
			t.Fatalf("regexp %q (%s) selects values %v, want %v = the keys %s that regexp.MatchString accepts; %s: %s",
				expr, sr.shape, g, want, showMatching(m, sr.rp), stage, m.describe(40))
		}
	}
}

func showMatching(m *sortedMap, rp *regexp.Regexp) string {
	var ks []string
	for _, k := range m.keys {
		if rp.Match(k) {
			ks = append(ks, fmt.Sprintf("%q", k))
		}
		if len(ks) >= 12 {
			ks = append(ks, "...")
			break
		}
	}
	return "[" + strings.Join(ks, " ") + "]"
}

// recordRegexps bumps the class counters of the expressions of one case.
func recordRegexps(grp string, m *sortedMap, res []shapedRegexp) {
	for _, sr := range res {
		if sr.rp == nil {
			ev.Class(grp, "re:"+sr.shape, 1)
			continue
		}
		base := sr.shape
		if i := strings.LastIndex(base, "+"); i > 0 && strings.HasSuffix(base, "$") {
			base = base[:i]
			ev.Class(grp, "re-closed-with-$", 1)
		}
		ev.Class(grp, "re:"+base, 1)
		ev.Class(grp, "derivation:"+derivationClass(sr.rp), 1)
		sel := len(m.selectVals(sr.rp.Match))
		switch {
		case sel == 0:
			ev.Class(grp, "selects:none", 1)
		case sel == m.len():
			ev.Class(grp, "selects:every-key", 1)
		default:
			ev.Class(grp, "selects:proper-subset", 1)
			ev.Class(grp, "re-proper-subset:"+strings.SplitN(sr.shape, ":", 2)[0], 1)
			ev.Class(grp, "selects-proper-subset+derivation:"+derivationClass(sr.rp), 1)
		}
	}
}

// TestRegexpSyntaxBucket: see the comment at the top of this file (bucket level).
func TestRegexpSyntaxBucket(t *testing.T) {
	const grp = "TestRegexpSyntaxBucket"
	rapid.Check(t, func(t *rapid.T) {
		s := rapidSrc{t}
		n := rapid.IntRange(2, 14).Draw(t, "n")
		var ps *prngSrc
		var ks src = s
		if rapid.IntRange(0, 3).Draw(t, "many") == 0 {
			n = rapid.IntRange(15, 120).Draw(t, "n")
			ps = &prngSrc{s: rapid.Uint64().Draw(t, "keySeed")}
			ks = ps
		}
		keys := genCaseKeys(ks, n)
		nd := rapid.IntRange(1, 3).Draw(t, "dicts")
		if len(keys) < nd {
			nd = 1
		}
		next := uint32(rapid.SampledFrom([]uint32{0, 1, 1000}).Draw(t, "idBase"))
		vals := assignIDs(keys, &next)
		m := newSortedMap(keys, vals)
		parts := make([][][]byte, nd)
		partVals := make([][]uint32, nd)
		for i, k := range keys {
			d := i % nd
			if i >= nd {
				d = ks.intn(nd, "dictOf")
			}
			parts[d] = append(parts[d], k)
			partVals[d] = append(partVals[d], vals[i])
		}
		loaded := model.NewTrieBucket()
		var raw [][]byte
		var bss []int
		tries := 0
		for d := range parts {
			bs := drawBlockSize(t, len(parts[d]))
			bss = append(bss, bs)
			data := writeDict(t, parts[d], partVals[d], bs)
			nt, _ := countTries(t, data)
			tries += nt
			raw = append(raw, data)
			if err := loaded.Unmarshal(data); err != nil {
				t.Fatalf("TrieBucket.Unmarshal: %v", err)
			}
		}
		// the expressions come from a splitmix stream (uniform over the shapes; rapid's draws prefer
		// the first entries of a table)
		res := genSyntaxRegexps(&prngSrc{s: rapid.Uint64().Draw(t, "exprSeed")}, m, 24)
		recordRegexps(grp, m, res)
		checkSyntaxRegexps(t, fmt.Sprintf("bucket of %d dictionaries / %d tries (block sizes %v)", nd, tries, bss), loaded, m, res)
		loaded.Release()

		mergeBS := drawBlockSize(t, m.len())
		merging := model.NewTrieBucketWithBlockSize(mergeBS)
		for _, data := range raw {
			if err := merging.Unmarshal(data); err != nil {
				t.Fatalf("TrieBucket.Unmarshal: %v", err)
			}
		}
		var out bytes.Buffer
		if err := merging.Write(&out); err != nil {
			t.Fatalf("TrieBucket.Write: %v", err)
		}
		merged := model.NewTrieBucket()
		if err := merged.Unmarshal(append([]byte{}, out.Bytes()...)); err != nil {
			t.Fatalf("Unmarshal(merged): %v", err)
		}
		checkSyntaxRegexps(t, fmt.Sprintf("merged bucket (block size %d)", mergeBS), merged, m, res)
		merged.Release()
		merging.Release()

		classes := []string{fmt.Sprintf("dicts=%d", nd), triesClass(tries)}
		classes = append(classes, caseKeyClasses(m)...)
		ev.Case(grp, fmt.Sprintf("%v|%d|", bss, mergeBS)+m.canon()+exprCanon(res), m.hasPrefixPair() || tries >= 2, classes,
			map[string]any{"keys": m.describe(10), "dicts": nd, "tries": tries, "exprs": exprSample(res, 8)})
	})
}

func exprCanon(res []shapedRegexp) string {
	var sb strings.Builder
	for _, sr := range res {
		if sr.rp != nil {
			sb.WriteString("|" + sr.rp.String())
		}
	}
	return sb.String()
}

func exprSample(res []shapedRegexp, n int) []string {
	var rs []string
	for _, sr := range res {
		if sr.rp != nil && len(rs) < n {
			rs = append(rs, sr.rp.String())
		}
	}
	return rs
}

func caseKeyClasses(m *sortedMap) []string {
	var upper, lower, mixed, nonASCII, newline bool
	for _, k := range m.keys {
		s := string(k)
		switch {
		case s == strings.ToUpper(s) && s != strings.ToLower(s):
			upper = true
		case s == strings.ToLower(s) && s != strings.ToUpper(s):
			lower = true
		case s != strings.ToLower(s):
			mixed = true
		}
		nonASCII = nonASCII || strings.ContainsAny(s, "Kſ")
		newline = newline || strings.Contains(s, "\n")
	}
	var cs []string
	for _, c := range []struct {
		on   bool
		name string
	}{{upper, "keys:all-upper-case"}, {lower, "keys:all-lower-case"}, {mixed, "keys:mixed-case"}, {nonASCII, "keys:kelvin-or-long-s"}, {newline, "keys:with-newline"}} {
		if c.on {
			cs = append(cs, c.name)
		}
	}
	return cs
}

// ---- the index kv store: memory + flushed dictionaries ----------------------------------------------------

// TestRegexpSyntaxStore drives index.NewIndexKVStore (the store behind the tag value / metric name
// / namespace dictionaries) over a real kv family: keys are created through GetOrCreateValue, frozen
// by PrepareFlush, written by Flush (IndexKVFlusher, block size 32767), compacted by the production
// job run synchronously; at every stage FindValuesByExpr(bucket, RegexExpr) over the mutable map +
// frozen map + flushed files must select exactly the ids of the keys that regexp.MatchString accepts.
func TestRegexpSyntaxStore(t *testing.T) {
	const grp = "TestRegexpSyntaxStore"
	rapid.Check(t, func(t *rapid.T) {
		dir, err := os.MkdirTemp("", "c20-ikv-")
		if err != nil {
			t.Fatalf("harness: %v", err)
		}
		defer os.RemoveAll(dir)
		storePath := filepath.Join(dir, "kv")
		store, err := kv.GetStoreManager().CreateStore(storePath, kv.DefaultStoreOption())
		if err != nil {
			t.Fatalf("CreateStore: %v", err)
		}
		defer func() {
			if err := kv.GetStoreManager().CloseStore(storePath); err != nil {
				t.Fatalf("CloseStore: %v", err)
			}
		}()
		family, err := store.CreateFamily("dict", kv.FamilyOption{Merger: string(v1.IndexKVMerger)})
		if err != nil {
			t.Fatalf("CreateFamily: %v", err)
		}
		ikv := index.NewIndexKVStore(family, 16, 0)

		s := rapidSrc{t}
		bucketID := rapid.SampledFrom([]uint32{0, 1, 7, 65536, 1<<32 - 1}).Draw(t, "bucket")
		otherBucket := bucketID ^ 1 // keys of another bucket must never be selected
		next := uint32(rapid.SampledFrom([]uint32{1, 1000}).Draw(t, "idBase"))
		taken := map[string]struct{}{}
		var keys [][]byte
		var vals []uint32
		create := func(n int) {
			for _, k := range genCaseKeys(s, n) {
				if _, dup := taken[string(k)]; dup {
					continue
				}
				taken[string(k)] = struct{}{}
				id, isNew, err := ikv.GetOrCreateValue(bucketID, append([]byte{}, k...), func() (uint32, error) {
					next++
					return next, nil
				})
				if err != nil || !isNew {
					t.Fatalf("GetOrCreateValue(%q) = %d, new=%v, %v for a key that was never created", k, id, isNew, err)
				}
				keys = append(keys, k)
				vals = append(vals, id)
				if s.intn(4, "otherBucket") == 0 {
					if _, _, err := ikv.GetOrCreateValue(otherBucket, append([]byte{}, k...), func() (uint32, error) {
						next++
						return next, nil
					}); err != nil {
						t.Fatalf("GetOrCreateValue(other bucket): %v", err)
					}
				}
			}
		}
		exprSrc := &prngSrc{s: rapid.Uint64().Draw(t, "exprSeed")}
		var inMutable, inFrozen, files, compactions, queries int
		stageClasses := map[string]bool{}
		query := func(stage string) {
			if len(keys) == 0 {
				return
			}
			m := newSortedMap(keys, vals)
			res := genSyntaxRegexps(exprSrc, m, 8)
			recordRegexps(grp, m, res)
			for _, sr := range res {
				if sr.rp == nil {
					continue
				}
				expr := sr.rp.String()
				want := m.selectVals(func(k []byte) bool {
					ok, err := regexp.MatchString(expr, string(k))
					return err == nil && ok
				})
				got, err := ikv.FindValuesByExpr(bucketID, &stmt.RegexExpr{Key: "host", Regexp: expr})
				if err != nil {
					t.Fatalf("%s: FindValuesByExpr(%q): %v", stage, expr, err)
				}
				if g := sortedCopy(got); !equalU32(g, want) {
					t.Fatalf("%s: regexp %q (%s) selects ids %v, want %v = the keys %s that regexp.MatchString accepts; keys in the mutable map %d, frozen %d, flushed files %d: %s",
						stage, expr, sr.shape, g, want, showMatching(m, sr.rp), inMutable, inFrozen, files, m.describe(40))
				}
			}
			queries++
			where := fmt.Sprintf("stage:mutable=%v,frozen=%v,files=%s", inMutable > 0, inFrozen > 0, map[bool]string{true: ">=2", false: fmt.Sprint(files)}[files >= 2])
			stageClasses[where] = true
		}

		// history: 1..4 flush cycles in the production order (create, PrepareFlush, [create], Flush),
		// queries at every stage, a compaction after some cycles; keys created last stay in memory
		cycles := rapid.IntRange(1, 4).Draw(t, "cycles")
		steps := 0
		addKeys := func(max int) {
			before := len(keys)
			create(rapid.IntRange(1, max).Draw(t, "n"))
			inMutable += len(keys) - before
		}
		for c := 0; c < cycles; c++ {
			addKeys(12)
			if rapid.Bool().Draw(t, "queryMutable") {
				query(fmt.Sprintf("cycle %d: keys in the mutable map", c))
			}
			ikv.PrepareFlush()
			if inFrozen == 0 {
				inFrozen, inMutable = inMutable, 0
			}
			if rapid.Bool().Draw(t, "createBetween") {
				addKeys(6)
			}
			query(fmt.Sprintf("cycle %d: between PrepareFlush and Flush", c))
			if rapid.IntRange(0, 5).Draw(t, "skipFlush") == 0 {
				continue // the flush is late: the next cycle's PrepareFlush finds the frozen map still there
			}
			if err := ikv.Flush(); err != nil {
				t.Fatalf("Flush: %v", err)
			}
			if inFrozen > 0 {
				files++
				inFrozen = 0
			}
			query(fmt.Sprintf("cycle %d: after Flush", c))
			if files >= 2 && rapid.IntRange(0, 2).Draw(t, "compact") == 0 {
				ran, err := kv.VerifCompactSync(family, true)
				if err != nil {
					t.Fatalf("compaction: %v", err)
				}
				if ran {
					// the store keeps reading its snapshot until the next flush replaces it: the
					// compaction must not change any answer, neither now nor after the next flush
					compactions++
					files = 1
					query(fmt.Sprintf("cycle %d: after compaction", c))
				}
			}
			steps++
		}
		if rapid.Bool().Draw(t, "tailKeys") {
			addKeys(8)
			query("keys created after the last flush")
		}
		classes := []string{fmt.Sprintf("compactions=%d", min(compactions, 2))}
		for c := range stageClasses {
			classes = append(classes, c)
		}
		sort.Strings(classes)
		if len(keys) > 0 {
			classes = append(classes, caseKeyClasses(newSortedMap(keys, vals))...)
		}
		canon := ""
		if len(keys) > 0 {
			canon = newSortedMap(keys, vals).canon()
		}
		ev.Case(grp, fmt.Sprintf("%d|%d|%d|", steps, files, queries)+canon, len(keys) >= 2 && (files >= 2 || newSortedMap(keys, vals).hasPrefixPair()), classes,
			map[string]any{"keys": len(keys), "files": files, "compactions": compactions, "queries": queries})
	})
}
