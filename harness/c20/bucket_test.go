package c20

import (
	"bytes"
	"encoding/binary"
	"fmt"
	"regexp"
	"strings"
	"testing"

	"github.com/lindb/roaring"
	"pgregory.net/rapid"

	"github.com/lindb/lindb/index/model"
	"github.com/lindb/lindb/verifharness/sim/ev"
)

// ---- like patterns --------------------------------------------------------------------------------
//
// Documented forms (index/kv_store.go FindValuesByLike, the only production caller of
// TrieBucket.FindValuesByLike): `x*` prefix, `*x` suffix, `*x*` contains, `x` exact. The model
// evaluates the pattern on every key; likeCall maps the pattern to the bucket call exactly as the
// production caller does. The lone pattern `*` is not generated (the caller slices [1:0] and
// panics before it reaches the bucket - outside C20, reported to C10).

type likePattern string

func (p likePattern) matches(k []byte) bool {
	s := string(p)
	pre, suf := strings.HasPrefix(s, "*"), strings.HasSuffix(s, "*")
	switch {
	case !pre && suf:
		return bytes.HasPrefix(k, []byte(s[:len(s)-1]))
	case pre && !suf:
		return bytes.HasSuffix(k, []byte(s[1:]))
	case pre && suf:
		return bytes.Contains(k, []byte(s[1:len(s)-1]))
	default:
		return string(k) == s
	}
}

// likeCall is the production decomposition (kv_store.go FindValuesByLike -> findValuesByLike /
// findValue) applied to one bucket.
func likeCall(b *model.TrieBucket, p likePattern, ids []uint32) []uint32 {
	like := []byte(p)
	pre, suf := strings.HasPrefix(string(p), "*"), strings.HasSuffix(string(p), "*")
	switch {
	case len(like) == 0:
		return nil
	case !pre && suf:
		prefix := like[:len(like)-1]
		return b.FindValuesByLike(prefix, prefix, bytes.HasPrefix, ids)
	case pre && !suf:
		return b.FindValuesByLike(nil, like[1:], bytes.HasSuffix, ids)
	case pre && suf:
		return b.FindValuesByLike(nil, like[1:len(like)-1], bytes.Contains, ids)
	default:
		if id, ok := b.GetValue(like); ok {
			ids = append(ids, id)
		}
		return ids
	}
}

// subKey picks a substring (1..3 bytes) of a present key, or fresh bytes of the style.
func subKey(s src, st keyStyle, m *sortedMap) []byte {
	if s.intn(5, "subFresh") == 0 {
		return st.randBytes(s, 1+s.intn(2, "subLen"), "b")
	}
	k := m.keys[s.intn(m.len(), "subKeyIdx")]
	switch s.intn(4, "subWhere") {
	case 0: // head
		return append([]byte{}, k[:min(len(k), 1+s.intn(3, "subLen"))]...)
	case 1: // tail
		n := min(len(k), 1+s.intn(3, "subLen"))
		return append([]byte{}, k[len(k)-n:]...)
	case 2: // whole key
		return append([]byte{}, k...)
	default:
		from := s.intn(len(k), "subFrom")
		n := min(len(k)-from, 1+s.intn(3, "subLen"))
		return append([]byte{}, k[from:from+n]...)
	}
}

func genLikes(s src, st keyStyle, m *sortedMap, n int) []likePattern {
	rs := []likePattern{"**"}
	for i := 0; i < n; i++ {
		x := subKey(s, st, m)
		if len(x) == 0 || bytes.IndexByte(x, '*') >= 0 {
			// x empty (only when the empty key is stored): the patterns would be `*` or the empty
			// pattern, which the production caller answers before it reaches the bucket
			continue
		}
		switch s.intn(4, "likeKind") {
		case 0:
			rs = append(rs, likePattern(string(x)+"*"))
		case 1:
			rs = append(rs, likePattern("*"+string(x)))
		case 2:
			rs = append(rs, likePattern("*"+string(x)+"*"))
		default:
			rs = append(rs, likePattern(x))
		}
	}
	return rs
}

// ---- regular expressions -------------------------------------------------------------------------
//
// Reference semantics: the in-memory path of index/kv_store.go (findValuesByRegexp) selects a
// key iff rp.Match(key), i.e. Go's unanchored search, the same regexp object the flushed path
// receives. Expressions are built from ASCII literals only (they arrive as SQL text).

func asciiLiteral(s src, st keyStyle, m *sortedMap) string {
	x := subKey(s, st, m)
	var out []byte
	for _, c := range x {
		if c >= 0x20 && c < 0x7f {
			out = append(out, c)
		}
	}
	if len(out) == 0 {
		out = []byte{"abc-01."[s.intn(7, "litFallback")]}
	}
	return regexp.QuoteMeta(string(out))
}

func alnumOnly(s string) string {
	var out []byte
	for i := 0; i < len(s); i++ {
		if c := s[i]; c >= '0' && c <= '9' || c >= 'a' && c <= 'z' || c >= 'A' && c <= 'Z' {
			out = append(out, c)
		}
	}
	return string(out)
}

func genRegexps(t fataler, s src, st keyStyle, m *sortedMap, n int) []*regexp.Regexp {
	var rs []*regexp.Regexp
	for i := 0; i < n; i++ {
		a, b := asciiLiteral(s, st, m), asciiLiteral(s, st, m)
		var expr string
		switch s.intn(16, "reKind") {
		case 0, 1, 2:
			expr = a // unanchored literal
		case 3:
			expr = "^" + a
		case 4:
			expr = a + "$"
		case 5:
			expr = "^" + a + "$"
		case 6:
			expr = a + ".*"
		case 7:
			expr = ".*" + a
		case 8:
			expr = "^" + a + ".*" + b + "$"
		case 9:
			expr = a + "|" + b
		case 10:
			expr = "^(" + a + "|" + b + ")"
		case 11:
			expr = "[" + alnumOnly(a+b) + "x]+$"
		case 12:
			expr = a + "." + b
		case 13:
			expr = "(?i)" + a
		case 14:
			expr = "^" + a + "|" + b // only the first alternative is anchored
		default:
			expr = a + ".?" + b + "*"
		}
		rp, err := regexp.Compile(expr)
		if err != nil {
			// a character class built from escaped pieces may be rejected; fall back
			rp = regexp.MustCompile(a)
		}
		rs = append(rs, rp)
	}
	return rs
}

// ---- building / loading buckets -----------------------------------------------------------------

// writeDict writes one dictionary (the pairs of m, handed over in generation order as the
// flusher receives them from a Go map) through the production TrieBucketBuilder.
func writeDict(t fataler, keysUnsorted [][]byte, vals []uint32, blockSize int) []byte {
	var buf bytes.Buffer
	b := model.NewTrieBucketBuilder(blockSize, &buf)
	ks := make([][]byte, len(keysUnsorted))
	for i := range ks {
		ks[i] = append([]byte{}, keysUnsorted[i]...)
	}
	if err := b.Write(ks, append([]uint32{}, vals...)); err != nil {
		t.Fatalf("TrieBucketBuilder.Write: %v", err)
	}
	return append([]byte{}, buf.Bytes()...)
}

// countTries walks the `size|trie` framing of a serialised bucket.
func countTries(t fataler, block []byte) (n int, sizes []int) {
	for len(block) > 0 {
		if len(block) < 4 {
			t.Fatalf("bucket framing: %d trailing bytes", len(block))
		}
		size := int(binary.LittleEndian.Uint32(block))
		if 4+size > len(block) || size < 8 {
			t.Fatalf("bucket framing: trie size %d, %d bytes left", size, len(block)-4)
		}
		sizes = append(sizes, int(binary.LittleEndian.Uint32(block[4:])))
		block = block[4+size:]
		n++
	}
	return n, sizes
}

type bucketQueries struct {
	probes   [][]byte
	likes    []likePattern
	regexps  []*regexp.Regexp
	limits   []int
	collects [][]uint32 // value sets for CollectKVs
	// suggest: further prefixes, each asked with the whole limit grid (0, 1, matches-1, matches,
	// matches+1, 2^20, MaxInt); the empty prefix is always asked with the whole grid
	suggest []suggestProbe
}

func genBucketQueries(t fataler, s src, st keyStyle, m *sortedMap) bucketQueries {
	q := bucketQueries{}
	q.probes = genProbes(s, st, m, 150)
	q.likes = genLikes(s, st, m, 10)
	q.regexps = genRegexps(t, s, st, m, 10)
	q.limits = []int{1, 2, 1 + s.intn(8, "limit"), m.len(), m.len() + 3}
	// value sets: present values, absent values, all, none
	present := map[uint32]bool{}
	for _, v := range m.vals {
		present[v] = true
	}
	for i := 0; i < 3; i++ {
		var set []uint32
		cnt := 1 + s.intn(6, "collectN")
		for j := 0; j < cnt; j++ {
			if s.intn(4, "collectAbsent") == 0 {
				v := uint32(s.intn(1<<30, "absentVal"))
				if !present[v] {
					set = append(set, v)
				}
			} else {
				set = append(set, m.vals[s.intn(m.len(), "collectIdx")])
			}
		}
		q.collects = append(q.collects, set)
	}
	q.collects = append(q.collects, append([]uint32{}, m.vals...), nil)
	return q
}

// checkBucket compares every query of a loaded bucket with the model. Values must be distinct
// (ids of one bucket come from one sequence) for CollectKVs to have one answer.
func checkBucket(t fataler, stage string, b *model.TrieBucket, m *sortedMap, q bucketQueries) {
	ctx := func() string { return stage + ": " + m.describe(16) }
	for i, k := range m.keys {
		if v, ok := b.GetValue(k); !ok || v != m.vals[i] {
			t.Fatalf("GetValue(%q) = %d,%v, want %d,true; %s", k, v, ok, m.vals[i], ctx())
		}
	}
	for _, p := range q.probes {
		wv, wok := m.get(p)
		if v, ok := b.GetValue(p); ok != wok || (ok && v != wv) {
			t.Fatalf("GetValue(%q) = %d,%v, want %d,%v; %s", p, v, ok, wv, wok, ctx())
		}
	}
	if got := sortedCopy(b.GetValues()); !equalU32(got, m.sortedVals()) {
		t.Fatalf("GetValues() = %v, want %v; %s", got, m.sortedVals(), ctx())
	}
	// Suggest: exactly the first `limit` names with the prefix, ascending (both directions:
	// nothing missing, nothing invented, order, limit honoured; see checkSuggest)
	sugPrefixes := append([][]byte{nil}, q.probes[:min(len(q.probes), 40)]...)
	for pi, p := range sugPrefixes {
		checkSuggest(t, b, m, p, q.limits[pi%len(q.limits)], ctx)
	}
	for _, sp := range append([]suggestProbe{{nil, "empty"}}, q.suggest...) {
		for _, lc := range limitGrid(len(m.withPrefix(sp.prefix))) {
			checkSuggest(t, b, m, sp.prefix, lc.limit, ctx)
		}
	}
	// like
	for _, lp := range q.likes {
		want := m.selectVals(lp.matches)
		got := likeCall(b, lp, []uint32{4242})
		if len(got) == 0 || got[0] != 4242 {
			t.Fatalf("FindValuesByLike(%q) dropped the ids handed in: %v; %s", lp, got, ctx())
		}
		if g := sortedCopy(got[1:]); !equalU32(g, want) {
			t.Fatalf("like %q selects values %v, want %v; %s", string(lp), g, want, ctx())
		}
	}
	// regexp
	for _, rp := range q.regexps {
		want := m.selectVals(rp.Match)
		got := b.FindValuesByRegexp(rp, []uint32{4242})
		if len(got) == 0 || got[0] != 4242 {
			t.Fatalf("FindValuesByRegexp(%q) dropped the ids handed in: %v; %s", rp, got, ctx())
		}
		if g := sortedCopy(got[1:]); !equalU32(g, want) {
			t.Fatalf("regexp %q selects values %v, want %v (= every key k with rp.Match(k)); %s", rp, g, want, ctx())
		}
	}
	// CollectKVs
	for _, set := range q.collects {
		bm := roaring.New()
		bm.AddMany(set)
		wantRes := map[uint32]string{}
		wantLeft := roaring.New()
		wantLeft.AddMany(set)
		for i, v := range m.vals {
			if wantLeft.Contains(v) {
				wantRes[v] = string(m.keys[i])
				wantLeft.Remove(v)
			}
		}
		res := map[uint32]string{}
		b.CollectKVs(bm, res)
		if len(res) != len(wantRes) {
			t.Fatalf("CollectKVs(%v) = %q, want %q; %s", set, res, wantRes, ctx())
		}
		for v, k := range wantRes {
			if got, ok := res[v]; !ok || got != k {
				t.Fatalf("CollectKVs(%v)[%d] = %q, want %q; %s", set, v, res[v], k, ctx())
			}
		}
		if !bm.Equals(wantLeft) {
			t.Fatalf("CollectKVs(%v) leaves %v in the bitmap, want %v; %s", set, bm.ToArray(), wantLeft.ToArray(), ctx())
		}
	}
}

// dictSpec is one generated dictionary of a bucket.
type dictSpec struct {
	keys [][]byte // generation order
	vals []uint32
	m    *sortedMap
	// hasEmpty: the dictionary holds the empty key
	hasEmpty bool
}

// genDicts draws 1..maxDicts dictionaries with pairwise disjoint keys and distinct values
// (a key is looked up on disk before an id is created, so one key lives in one dictionary).
func genDicts(t *rapid.T, maxDicts, maxN int) (dicts []dictSpec, st keyStyle, s src, sizeClass string) {
	sp := drawKeySetSpec(t, maxN)
	st, s, sizeClass = sp.style, sp.s, sp.sizeClass
	nd := rapid.IntRange(1, maxDicts).Draw(t, "dicts")
	taken := map[string]struct{}{}
	base := uint32(rapid.SampledFrom([]uint32{0, 1, 1000, 1 << 31}).Draw(t, "idBase"))
	for d := 0; d < nd; d++ {
		n := sp.n
		if d > 0 {
			n = 1 + s.intn(sp.n, "dictN")
		}
		keys := genKeys(s, st, n, taken)
		vals := make([]uint32, len(keys))
		for i := range vals { // ids of one sequence, in creation order
			vals[i] = base
			base++
		}
		if s.intn(3, "shuffleIds") == 0 { // ids created in another order than the keys
			for i := len(vals) - 1; i > 0; i-- {
				j := s.intn(i+1, "shuf")
				vals[i], vals[j] = vals[j], vals[i]
			}
		}
		dicts = append(dicts, dictSpec{keys: keys, vals: vals, m: newSortedMap(keys, vals)})
	}
	// one case in four: the empty key (in the property's quantifier; rare to absent in the styles)
	// joins one of the dictionaries, at any position of the hand-over order
	if rapid.IntRange(0, 3).Draw(t, "withEmptyKey") == 0 {
		d := &dicts[rapid.IntRange(0, nd-1).Draw(t, "emptyKeyDict")]
		at := rapid.IntRange(0, len(d.keys)).Draw(t, "emptyKeyPos")
		d.keys = append(d.keys, nil)
		copy(d.keys[at+1:], d.keys[at:])
		d.keys[at] = []byte{}
		d.vals = append(d.vals, 0)
		copy(d.vals[at+1:], d.vals[at:])
		d.vals[at] = base
		d.m = newSortedMap(d.keys, d.vals)
		d.hasEmpty = true
	}
	return dicts, st, s, sizeClass
}

func drawBlockSize(t *rapid.T, n int) int {
	switch rapid.IntRange(0, 5).Draw(t, "blockKind") {
	case 0:
		return 1
	case 1:
		return rapid.IntRange(1, 4).Draw(t, "blockSize")
	case 2:
		return max(1, n/2)
	case 3:
		return max(1, n) // exactly one full block
	case 4:
		return rapid.IntRange(1, max(2, n)).Draw(t, "blockSize")
	default:
		return 32767 // production: math.MaxInt16
	}
}

// TestBucketSortedMap: TrieBucketBuilder (split by block size) -> TrieBucket.Unmarshal of 1..4
// dictionaries of one bucket (what the reader sees when the bucket lives in several files) ->
// all queries against the union; TrieBucket.Write (what the merger does) -> Unmarshal -> the same.
func TestBucketSortedMap(t *testing.T) {
	rapid.Check(t, func(t *rapid.T) {
		dicts, st, s, sizeClass := genDicts(t, 4, 1500)
		var models []*sortedMap
		loaded := model.NewTrieBucketWithBlockSize(1) // block size is irrelevant for reading
		tries := 0
		emptyKey, excludedBS1 := false, false
		var bss []int
		var raw [][]byte
		for _, d := range dicts {
			bs := drawBlockSize(t, len(d.keys))
			if bs == 1 && d.hasEmpty && excludedBlock1() {
				bs = 2 // known finding: a trie of the empty key alone cannot be built
				excludedBS1 = true
			}
			emptyKey = emptyKey || d.hasEmpty
			bss = append(bss, bs)
			data := writeDict(t, d.keys, d.vals, bs)
			nt, sizes := countTries(t, data)
			wantTries := (len(d.keys) + bs - 1) / bs
			if !triesAsExpected(nt, len(d.keys), bs, d.hasEmpty) {
				t.Fatalf("dictionary of %d keys with block size %d was written as %d tries %v, want %d", len(d.keys), bs, nt, sizes, wantTries)
			}
			tries += nt
			raw = append(raw, data)
			if err := loaded.Unmarshal(data); err != nil {
				t.Fatalf("TrieBucket.Unmarshal: %v", err)
			}
			models = append(models, d.m)
		}
		u := union(models...)
		q := genBucketQueries(t, s, st, u)
		checkBucket(t, fmt.Sprintf("bucket of %d dictionaries / %d tries (block sizes %v)", len(dicts), tries, bss), loaded, u, q)

		// merge: load the same dictionaries into a bucket with a generated block size and Write it
		mergeBS := drawBlockSize(t, u.len())
		merging := model.NewTrieBucketWithBlockSize(mergeBS)
		for _, data := range raw {
			if err := merging.Unmarshal(data); err != nil {
				t.Fatalf("TrieBucket.Unmarshal: %v", err)
			}
		}
		var out bytes.Buffer
		if err := merging.Write(&out); err != nil {
			t.Fatalf("TrieBucket.Write: %v", err)
		}
		mergedTries, _ := countTries(t, out.Bytes())
		merged := model.NewTrieBucket()
		if err := merged.Unmarshal(append([]byte{}, out.Bytes()...)); err != nil {
			t.Fatalf("Unmarshal(merged): %v", err)
		}
		checkBucket(t, fmt.Sprintf("merged bucket (%d dictionaries / %d tries -> %d tries, block size %d)", len(dicts), tries, mergedTries, mergeBS), merged, u, q)
		merged.Release()
		merging.Release()
		loaded.Release()

		classes := []string{"style=" + st.name, "size=" + sizeClass, fmt.Sprintf("dicts=%d", len(dicts))}
		switch {
		case tries == 1:
			classes = append(classes, "tries=1")
		case tries <= 4:
			classes = append(classes, "tries=2..4")
		default:
			classes = append(classes, "tries>4")
		}
		if mergedTries >= 2 {
			classes = append(classes, "merged-tries>=2")
		}
		if u.hasPrefixPair() {
			classes = append(classes, "key-is-prefix-of-another")
		}
		if emptyKey {
			_, holder := trieLayout(dicts, bss, nil)
			classes = append(classes, "has-empty-key", "empty-key|"+triesClass(tries)+"|in-"+posClass(tries, holder))
		}
		if excludedBS1 {
			classes = append(classes, "excluded_known:empty-key-with-block-size-1")
		}
		nt := u.hasPrefixPair() || tries >= 2
		ev.Case("TestBucketSortedMap", fmt.Sprintf("%v|%d|", bss, mergeBS)+u.canon(), nt, classes,
			map[string]any{"style": st.name, "dicts": len(dicts), "tries": tries, "blockSizes": bss, "mergeBlockSize": mergeBS, "keys": u.len(), "first": u.describe(8)})
	})
}
