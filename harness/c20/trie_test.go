package c20

import (
	"bytes"
	"fmt"
	"testing"

	"pgregory.net/rapid"

	"github.com/lindb/lindb/pkg/trie"
	"github.com/lindb/lindb/verifharness/sim/ev"
)

type fataler interface {
	Fatalf(format string, args ...any)
}

// info counts informational observations (never failed): deviations of the raw Iterator.Seek
// from a strict lower bound.
var info struct {
	seekAtPredecessor   int
	seekPastEndAtLast   int
	seekPresentNotExact int
}

func flushInfo(group string) {
	ev.Class(group, "info:raw-seek-lands-on-predecessor", info.seekAtPredecessor)
	ev.Class(group, "info:raw-seek-past-end-valid-at-last-key", info.seekPastEndAtLast)
	ev.Class(group, "info:raw-seek-present-key-not-reported-exact", info.seekPresentNotExact)
	info.seekAtPredecessor, info.seekPastEndAtLast, info.seekPresentNotExact = 0, 0, 0
}

// buildTrie runs the production build path (sorted keys + values -> builder) and returns the
// in-memory trie, the serialised form and the trie loaded from the serialised form.
func buildTrie(t fataler, m *sortedMap) (mem trie.SuccinctTrie, data []byte, loaded trie.SuccinctTrie) {
	b := trie.NewBuilder()
	// the builder keeps references into the key slices: hand it private copies
	keys := make([][]byte, m.len())
	for i := range keys {
		keys[i] = append([]byte{}, m.keys[i]...)
	}
	vals := append([]uint32{}, m.vals...)
	b.Build(keys, vals)
	size := b.MarshalSize()
	var buf bytes.Buffer
	if err := b.Write(&buf); err != nil {
		t.Fatalf("builder.Write: %v", err)
	}
	if buf.Len() != size {
		t.Fatalf("MarshalSize() = %d but Write produced %d bytes (%s)", size, buf.Len(), m.describe(12))
	}
	mem = b.Trie()
	data = append([]byte{}, buf.Bytes()...)
	loaded = trie.NewTrie()
	if err := loaded.UnmarshalBinary(data); err != nil {
		t.Fatalf("UnmarshalBinary: %v (%s)", err, m.describe(12))
	}
	return mem, data, loaded
}

// checkTrie compares every observable answer of tr with the model.
func checkTrie(t fataler, stage string, tr trie.SuccinctTrie, m *sortedMap, probes [][]byte, walk src) {
	ctx := func() string { return stage + ": " + m.describe(16) }
	n := m.len()
	if tr.Size() != n {
		t.Fatalf("Size() = %d, want %d; %s", tr.Size(), n, ctx())
	}
	if got := sortedCopy(tr.Values()); !equalU32(got, m.sortedVals()) {
		t.Fatalf("Values() = %v, want (as multiset) %v; %s", tr.Values(), m.sortedVals(), ctx())
	}
	// exact lookup: every present key
	for i, k := range m.keys {
		if v, ok := tr.Get(k); !ok || v != m.vals[i] {
			t.Fatalf("Get(%q) = %d,%v, want %d,true; %s", k, v, ok, m.vals[i], ctx())
		}
	}
	// exact lookup: probes (present, absent, proper prefixes, extensions, empty key)
	for _, p := range probes {
		wv, wok := m.get(p)
		v, ok := tr.Get(p)
		if ok != wok || (ok && v != wv) {
			t.Fatalf("Get(%q) = %d,%v, want %d,%v; %s", p, v, ok, wv, wok, ctx())
		}
	}
	// ordered iteration, forward
	it := tr.NewIterator()
	it.SeekToFirst()
	for i := 0; i < n; i++ {
		if !it.Valid() {
			t.Fatalf("forward iteration ends after %d of %d keys; %s", i, n, ctx())
		}
		if k := it.Key(); !bytes.Equal(k, m.keys[i]) || it.Value() != m.vals[i] {
			t.Fatalf("forward iteration [%d] = %q:%d, want %q:%d; %s", i, k, it.Value(), m.keys[i], m.vals[i], ctx())
		}
		it.Next()
	}
	if it.Valid() {
		t.Fatalf("forward iteration yields more than %d keys (extra %q); %s", n, it.Key(), ctx())
	}
	// ordered iteration, backward
	it = tr.NewIterator()
	it.SeekToLast()
	for i := n - 1; i >= 0; i-- {
		if !it.Valid() {
			t.Fatalf("backward iteration ends before index %d of %d keys; %s", i, n, ctx())
		}
		if k := it.Key(); !bytes.Equal(k, m.keys[i]) || it.Value() != m.vals[i] {
			t.Fatalf("backward iteration [%d] = %q:%d, want %q:%d; %s", i, k, it.Value(), m.keys[i], m.vals[i], ctx())
		}
		it.Prev()
	}
	if it.Valid() {
		t.Fatalf("backward iteration yields more than %d keys (extra %q); %s", n, it.Key(), ctx())
	}
	// Seek, then a short walk in both directions.
	//
	// Contract asserted for the raw Iterator.Seek (its only production user is PrefixIterator,
	// whose enumeration is checked strictly below; lindb's own TestSeekKeys pins "Seek always
	// leaves a valid iterator"): the iterator is valid and stands on the first key >= target, or
	// on its immediate predecessor (the greatest key < target); a present target is hit exactly;
	// a reported exact match implies the key is present. Landing on the predecessor / staying
	// valid past the last key deviates from a sorted map's lower bound and is counted as
	// informational classes, not failed.
	shared := tr.NewIterator()
	for pi, p := range probes {
		it := shared // iterator reuse across seeks is part of the API (Seek resets)
		if pi%5 == 4 {
			it = tr.NewIterator()
		}
		exact := it.Seek(p)
		lb := m.lowerBound(p)
		_, present := m.get(p)
		if !it.Valid() {
			t.Fatalf("Seek(%q): iterator invalid; %s", p, ctx())
		}
		pos := -1
		k := it.Key()
		switch {
		case lb < n && bytes.Equal(k, m.keys[lb]):
			pos = lb
		case lb > 0 && !present && bytes.Equal(k, m.keys[lb-1]):
			pos = lb - 1
			if lb == n {
				info.seekPastEndAtLast++
			} else {
				info.seekAtPredecessor++
			}
		default:
			want := "<none>"
			if lb < n {
				want = fmt.Sprintf("%q", m.keys[lb])
			}
			t.Fatalf("Seek(%q) positioned at %q, want first key >= target %s (or its predecessor); %s", p, k, want, ctx())
		}
		if it.Value() != m.vals[pos] {
			t.Fatalf("Seek(%q) at %q has value %d, want %d; %s", p, k, it.Value(), m.vals[pos], ctx())
		}
		if exact && !(present && pos == lb) {
			t.Fatalf("Seek(%q) reports an exact match but stands on %q (present=%v); %s", p, k, present, ctx())
		}
		if present && !exact {
			info.seekPresentNotExact++
		}
		steps := 1 + walk.intn(5, "walkLen")
		trace := fmt.Sprintf("Seek(%q)", p)
		for s := 0; s < steps; s++ {
			if walk.intn(2, "dir") == 0 {
				it.Next()
				pos++
				trace += ".Next"
			} else {
				it.Prev()
				pos--
				trace += ".Prev"
			}
			if pos < 0 || pos >= n {
				if it.Valid() {
					t.Fatalf("%s: stepped off the map but iterator is valid at %q; %s", trace, it.Key(), ctx())
				}
				break
			}
			if !it.Valid() {
				t.Fatalf("%s: iterator invalid, want %q; %s", trace, m.keys[pos], ctx())
			}
			if k := it.Key(); !bytes.Equal(k, m.keys[pos]) || it.Value() != m.vals[pos] {
				t.Fatalf("%s = %q:%d, want %q:%d; %s", trace, k, it.Value(), m.keys[pos], m.vals[pos], ctx())
			}
		}
	}
	// prefix enumeration
	for _, p := range probes {
		checkPrefixIter(t, tr, m, p, ctx)
	}
	checkPrefixIter(t, tr, m, []byte{}, ctx)
}

func checkPrefixIter(t fataler, tr trie.SuccinctTrie, m *sortedMap, p []byte, ctx func() string) {
	want := m.withPrefix(p)
	pit := tr.NewPrefixIterator(p)
	for j, idx := range want {
		if !pit.Valid() {
			t.Fatalf("PrefixIterator(%q) ends after %d of %d keys (missing %q); %s", p, j, len(want), m.keys[idx], ctx())
		}
		if k := pit.Key(); !bytes.Equal(k, m.keys[idx]) || pit.Value() != m.vals[idx] {
			t.Fatalf("PrefixIterator(%q)[%d] = %q:%d, want %q:%d; %s", p, j, k, pit.Value(), m.keys[idx], m.vals[idx], ctx())
		}
		pit.Next()
	}
	if pit.Valid() {
		t.Fatalf("PrefixIterator(%q) yields more than %d keys (extra %q); %s", p, len(want), pit.Key(), ctx())
	}
}

func trieClasses(sp keySetSpec, m *sortedMap) []string {
	classes := []string{"style=" + sp.style.name, "size=" + sp.sizeClass}
	if m.hasPrefixPair() {
		classes = append(classes, "key-is-prefix-of-another")
	}
	var has00, hasFF bool
	for _, k := range m.keys {
		has00 = has00 || bytes.IndexByte(k, 0x00) >= 0
		hasFF = hasFF || bytes.IndexByte(k, 0xff) >= 0
	}
	if has00 {
		classes = append(classes, "has-0x00")
	}
	if hasFF {
		classes = append(classes, "has-0xFF")
	}
	if m.len() == 1 {
		classes = append(classes, "single-key")
	}
	return classes
}

// TestTrieSortedMap: pkg/trie built from sorted distinct non-empty keys answers Get, ordered
// iteration (both directions), Seek (+ walks), PrefixIterator, Values and Size like the sorted map,
// identically for the in-memory trie, the trie loaded from Write(), and a pooled trie that held
// another dictionary before (trie.GetTrie/PutTrie as the bucket reader uses them).
func TestTrieSortedMap(t *testing.T) {
	rapid.Check(t, func(t *rapid.T) {
		sp := drawKeySetSpec(t, 5000)
		keys := genKeys(sp.s, sp.style, sp.n, nil)
		vals := genValues(sp.s, len(keys), false, 0)
		m := newSortedMap(keys, vals)
		probes := genProbes(sp.s, sp.style, m, 400)
		walkSeed := rapid.Uint64().Draw(t, "walkSeed")

		mem, data, loaded := buildTrie(t, m)
		checkTrie(t, "in-memory trie", mem, m, probes, &prngSrc{s: walkSeed})
		checkTrie(t, "trie loaded from Write()", loaded, m, probes, &prngSrc{s: walkSeed})

		// pooled trie: load something else first, then this dictionary
		pooled := trie.GetTrie()
		other := newSortedMap([][]byte{[]byte("zz-other"), []byte("zz-other-1"), []byte("y")}, []uint32{7, 8, 9})
		_, otherData, _ := buildTrie(t, other)
		if err := pooled.UnmarshalBinary(otherData); err != nil {
			t.Fatalf("UnmarshalBinary(other): %v", err)
		}
		if err := pooled.UnmarshalBinary(data); err != nil {
			t.Fatalf("UnmarshalBinary into reused trie: %v", err)
		}
		checkTrie(t, "reused (pooled) trie", pooled, m, probes[:min(len(probes), 60)], &prngSrc{s: walkSeed})
		trie.PutTrie(pooled)

		nt := m.hasPrefixPair()
		flushInfo("TestTrieSortedMap")
		ev.Case("TestTrieSortedMap", m.canon(), nt, trieClasses(sp, m),
			map[string]any{"style": sp.style.name, "keys": m.len(), "probes": len(probes), "first": m.describe(8)})
	})
}

// TestTrieBuilderReuse: one builder, Reset between dictionaries (as TrieBucketBuilder does for
// the blocks of a bucket): the second dictionary must not see anything of the first.
func TestTrieBuilderReuse(t *testing.T) {
	rapid.Check(t, func(t *rapid.T) {
		b := trie.NewBuilder()
		rounds := rapid.IntRange(2, 4).Draw(t, "rounds")
		nt := false
		var canon string
		var classes []string
		for r := 0; r < rounds; r++ {
			sp := drawKeySetSpec(t, 300)
			keys := genKeys(sp.s, sp.style, sp.n, nil)
			m := newSortedMap(keys, genValues(sp.s, len(keys), false, 0))
			ks := make([][]byte, m.len())
			for i := range ks {
				ks[i] = append([]byte{}, m.keys[i]...)
			}
			b.Reset()
			b.Build(ks, append([]uint32{}, m.vals...))
			size := b.MarshalSize()
			var buf bytes.Buffer
			if err := b.Write(&buf); err != nil {
				t.Fatalf("Write: %v", err)
			}
			if size != buf.Len() {
				t.Fatalf("round %d: MarshalSize() = %d, Write wrote %d; %s", r, size, buf.Len(), m.describe(12))
			}
			tr := trie.NewTrie()
			if err := tr.UnmarshalBinary(buf.Bytes()); err != nil {
				t.Fatalf("round %d: UnmarshalBinary: %v", r, err)
			}
			probes := genProbes(sp.s, sp.style, m, 120)
			checkTrie(t, fmt.Sprintf("reused builder, round %d", r), tr, m, probes, &prngSrc{s: uint64(r) + 1})
			checkTrie(t, fmt.Sprintf("reused builder (Trie()), round %d", r), b.Trie(), m, probes, &prngSrc{s: uint64(r) + 1})
			nt = nt || m.hasPrefixPair()
			canon += m.canon() + "|"
			classes = append(classes, "style="+sp.style.name)
		}
		flushInfo("TestTrieBuilderReuse")
		ev.Case("TestTrieBuilderReuse", canon, nt, classes, nil)
	})
}
