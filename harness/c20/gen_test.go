package c20

import (
	"fmt"

	"pgregory.net/rapid"
)

// ---- sources of choices -----------------------------------------------------------------------
//
// Small key sets are drawn choice by choice from rapid (they shrink well). Large key sets
// (hundreds to thousands of keys) are derived from one rapid-drawn 64-bit seed by a local
// splitmix64 stream, so a case stays a pure function of the rapid seed without tens of thousands
// of draws. No math/rand, no clock.

type src interface {
	// intn returns a value in [0, n).
	intn(n int, label string) int
}

type rapidSrc struct{ t *rapid.T }

func (r rapidSrc) intn(n int, label string) int {
	if n <= 1 {
		return 0
	}
	return rapid.IntRange(0, n-1).Draw(r.t, label)
}

type prngSrc struct{ s uint64 }

func (p *prngSrc) next() uint64 {
	p.s += 0x9e3779b97f4a7c15
	z := p.s
	z = (z ^ (z >> 30)) * 0xbf58476d1ce4e5b9
	z = (z ^ (z >> 27)) * 0x94d049bb133111eb
	return z ^ (z >> 31)
}

func (p *prngSrc) intn(n int, _ string) int {
	if n <= 1 {
		return 0
	}
	return int(p.next() % uint64(n))
}

// ---- key styles -------------------------------------------------------------------------------
//
// What production puts into these dictionaries (read from index/metric_meta_database.go,
// index/metric_index_database.go and the three ingestion paths):
//   * namespace, metric name, tag value: non-empty byte strings taken verbatim from the write
//     request (influx line protocol and flat buffers do no UTF-8 validation, so every byte value
//     including 0x00 and 0xFF can occur); length limits 256/256/1024 by default;
//   * series dictionary: the 8-byte little-endian xxhash of the tags, i.e. fixed-length keys of
//     arbitrary bytes.
// The empty key is not stored by today's writers (empty metric name / tag value are rejected, the
// namespace is indexed by its first byte); in production it appears as a *probe* (`where host = ''`,
// suggest prefix ""). The property text names it all the same and the dictionary API accepts it,
// so the styles below stay non-empty and the empty key is added on purpose: by
// TestBucketDegenerate (degenerate_test.go), in 1 of 4 cases of TestBucketSortedMap, as an injected
// key of TestFlushReadMerge and in every case of TestTrieEmptyKeyStored.

type keyStyle struct {
	name     string
	alphabet []byte // nil = any byte
	minLen   int
	maxLen   int
	fixed    int // > 0: fixed key length (no prefix relations possible)
	words    bool
	long     bool
	wide     bool // only used by TestVectorBoundaries (boundary_test.go)
}

var (
	styleAB     = keyStyle{name: "ab", alphabet: []byte("ab"), minLen: 1, maxLen: 6}
	styleABC    = keyStyle{name: "abc-", alphabet: []byte("abc-"), minLen: 1, maxLen: 10}
	styleBin    = keyStyle{name: "bin", alphabet: []byte{0x00, 0x01, 'a', 0xfe, 0xff}, minLen: 1, maxLen: 7}
	styleFF00   = keyStyle{name: "ff00", alphabet: []byte{0x00, 0xff}, minLen: 1, maxLen: 9}
	styleBytes  = keyStyle{name: "bytes", minLen: 1, maxLen: 12}
	styleHash8  = keyStyle{name: "hash8", fixed: 8}
	styleWords  = keyStyle{name: "words", alphabet: []byte("abcxyz019-._:/"), minLen: 1, maxLen: 8, words: true}
	styleLong   = keyStyle{name: "long", alphabet: []byte("ab\xff\x00"), minLen: 1, maxLen: 5, long: true}
	smallStyles = []keyStyle{styleAB, styleAB, styleABC, styleBin, styleBin, styleFF00, styleBytes, styleHash8, styleWords, styleLong}
	bigStyles   = []keyStyle{styleABC, styleBin, styleBytes, styleHash8, styleWords, styleWords, styleLong}
)

var (
	wordHeads = []string{"host-", "host-0", "10.0.", "10.0.0.", "us-east-", "us-", "/api/v1/", "/api/", "", "a", "cpu.", "cpu.load.", "\xe4\xb8\xad"}
	wordTails = []string{"", "", ".lindb.io", ".io", "-prod", "-prod-1", ":8080", ":80", "/"}
)

func (st keyStyle) byteAt(s src, label string) byte {
	if st.alphabet == nil {
		// any byte, biased to the extremes
		switch s.intn(6, label+"k") {
		case 0:
			return 0x00
		case 1:
			return 0xff
		default:
			return byte(s.intn(256, label))
		}
	}
	return st.alphabet[s.intn(len(st.alphabet), label)]
}

// wideByteAt: the byte of a wide-style key at position i.
func (st keyStyle) wideByteAt(s src, i int) byte {
	if i%2 == 0 {
		return st.alphabet[s.intn(len(st.alphabet), "b")]
	}
	return byte(s.intn(256, "wideByte"))
}

func (st keyStyle) randBytes(s src, n int, label string) []byte {
	b := make([]byte, n)
	for i := range b {
		b[i] = st.byteAt(s, label)
	}
	return b
}

func (st keyStyle) fresh(s src) []byte {
	switch {
	case st.wide:
		// even positions: one of the (two) alphabet bytes, odd positions: any byte
		n := st.fixed
		if n == 0 {
			n = st.minLen + s.intn(st.maxLen-st.minLen+1, "len")
		}
		k := make([]byte, n)
		for i := range k {
			k[i] = st.wideByteAt(s, i)
		}
		return k
	case st.fixed > 0:
		return st.randBytes(s, st.fixed, "b")
	case st.words:
		head := wordHeads[s.intn(len(wordHeads), "head")]
		tail := wordTails[s.intn(len(wordTails), "tail")]
		var mid []byte
		if s.intn(2, "midKind") == 0 {
			mid = []byte(fmt.Sprintf("%d", s.intn(1200, "num")))
		} else {
			mid = st.randBytes(s, st.minLen+s.intn(st.maxLen-st.minLen+1, "midLen"), "b")
		}
		return append(append([]byte(head), mid...), tail...)
	case st.long:
		// long shared prefix (path compression over many bytes), short distinguishing tail
		unit := []string{"x", "ab", "\xff", "\x00\xff", "segment/"}[s.intn(5, "unit")]
		reps := []int{3, 17, 40, 64, 65, 127, 128}[s.intn(7, "reps")]
		var k []byte
		for len(k) < reps*len(unit) && len(k) < 1000 {
			k = append(k, unit...)
		}
		return append(k, st.randBytes(s, s.intn(st.maxLen+1, "tailLen"), "b")...)
	default:
		return st.randBytes(s, st.minLen+s.intn(st.maxLen-st.minLen+1, "len"), "b")
	}
}

// nextKey derives a new candidate from the style and the keys chosen so far, biased to the
// relations the property names: a key that is a prefix of another, shared prefixes, shared
// suffixes, neighbours that differ in the last byte.
func (st keyStyle) nextKey(s src, keys [][]byte) []byte {
	if len(keys) == 0 || st.fixed > 0 {
		if st.fixed > 0 && len(keys) > 0 && s.intn(3, "fixedOp") == 0 {
			// share a prefix with an existing hash: copy and re-draw the tail
			base := keys[s.intn(len(keys), "base")]
			k := append([]byte{}, base...)
			from := s.intn(st.fixed, "from")
			for i := from; i < st.fixed; i++ {
				if st.wide {
					k[i] = st.wideByteAt(s, i)
				} else {
					k[i] = st.byteAt(s, "b")
				}
			}
			return k
		}
		return st.fresh(s)
	}
	base := keys[s.intn(len(keys), "base")]
	switch s.intn(6, "op") {
	case 0: // extension: base becomes a proper prefix of the new key
		return append(append([]byte{}, base...), st.randBytes(s, 1+s.intn(3, "extLen"), "b")...)
	case 1: // non-empty proper prefix of base
		if len(base) > 1 {
			return append([]byte{}, base[:1+s.intn(len(base)-1, "cut")]...)
		}
		return st.fresh(s)
	case 2: // sibling: last byte changed
		k := append([]byte{}, base...)
		k[len(k)-1] = st.byteAt(s, "b")
		return k
	case 3: // shared suffix: new head + tail of base
		cut := s.intn(len(base), "cut")
		return append(st.randBytes(s, 1+s.intn(3, "headLen"), "b"), base[cut:]...)
	default:
		return st.fresh(s)
	}
}

const maxKeyLen = 1024 // models.Limits default for tag values; namespace/metric name 256

// genKeys returns n (or fewer, if the style's universe is exhausted; at least one) distinct
// non-empty keys in generation order (NOT sorted).
func genKeys(s src, st keyStyle, n int, taken map[string]struct{}) [][]byte {
	if taken == nil {
		taken = map[string]struct{}{}
	}
	var keys [][]byte
	for attempts := 0; len(keys) < n && attempts < 4*n+24; attempts++ {
		k := st.nextKey(s, keys)
		if len(k) == 0 || len(k) > maxKeyLen {
			continue
		}
		if _, dup := taken[string(k)]; dup {
			continue
		}
		taken[string(k)] = struct{}{}
		keys = append(keys, k)
	}
	if len(keys) == 0 {
		for i := 0; ; i++ {
			k := []byte(fmt.Sprintf("fallback-%d", i))
			if st.fixed > 0 {
				k = []byte(fmt.Sprintf("fb%06d", i))
			}
			if _, dup := taken[string(k)]; !dup {
				taken[string(k)] = struct{}{}
				keys = append(keys, k)
				break
			}
		}
	}
	return keys
}

// keySetSpec is what rapid draws for one key set.
type keySetSpec struct {
	style     keyStyle
	n         int
	sizeClass string
	s         src
}

// drawKeySetSpec draws style and size. maxN caps the size (5000 for the trie test).
func drawKeySetSpec(t *rapid.T, maxN int) keySetSpec {
	var sp keySetSpec
	switch c := rapid.IntRange(0, 19).Draw(t, "sizeClass"); {
	case c < 11:
		sp.sizeClass, sp.n = "n<=12", rapid.IntRange(1, 12).Draw(t, "n")
	case c < 15:
		sp.sizeClass, sp.n = "n<=70", rapid.IntRange(13, 70).Draw(t, "n")
	case c < 19:
		sp.sizeClass, sp.n = "n<=600", rapid.IntRange(71, 600).Draw(t, "n")
	default:
		sp.sizeClass, sp.n = "n<=5000", rapid.IntRange(601, 5000).Draw(t, "n")
	}
	if sp.n > maxN {
		sp.n = maxN
		sp.sizeClass = fmt.Sprintf("n<=%d(capped)", maxN)
	}
	if sp.n <= 70 {
		sp.style = smallStyles[rapid.IntRange(0, len(smallStyles)-1).Draw(t, "style")]
		sp.s = rapidSrc{t}
	} else {
		sp.style = bigStyles[rapid.IntRange(0, len(bigStyles)-1).Draw(t, "style")]
		sp.s = &prngSrc{s: rapid.Uint64().Draw(t, "keySeed")}
	}
	return sp
}

// genValues returns n values. distinct=true models ids handed out by a sequence (metric ids, tag
// value ids, series ids: unique inside one bucket); otherwise arbitrary uint32 incl. 0 and max.
func genValues(s src, n int, distinct bool, base uint32) []uint32 {
	vals := make([]uint32, n)
	if distinct {
		// i -> base + i*odd is injective mod 2^32
		mult := uint32(2*s.intn(1<<20, "mult") + 1)
		if s.intn(2, "seq") == 0 {
			mult = 1
		}
		for i := range vals {
			vals[i] = base + uint32(i)*mult
		}
		return vals
	}
	for i := range vals {
		switch s.intn(8, "vk") {
		case 0:
			vals[i] = 0
		case 1:
			vals[i] = ^uint32(0)
		case 2, 3:
			vals[i] = uint32(i)
		default:
			vals[i] = uint32(s.intn(1<<16, "vhi"))<<16 | uint32(s.intn(1<<16, "vlo"))
		}
	}
	return vals
}

// genProbes returns lookup / seek targets: present keys, every kind of absent neighbour the
// property names (proper prefixes incl. the empty key, extensions), siblings, fresh keys.
func genProbes(s src, st keyStyle, m *sortedMap, limit int) [][]byte {
	seen := map[string]struct{}{}
	var probes [][]byte
	add := func(k []byte) {
		if _, ok := seen[string(k)]; ok || len(probes) >= limit {
			return
		}
		seen[string(k)] = struct{}{}
		probes = append(probes, append([]byte{}, k...))
	}
	add(nil)
	add([]byte{0x00})
	add([]byte{0xff})
	add([]byte{0xff, 0xff})
	n := m.len()
	picks := n
	if picks > 40 {
		picks = 40
	}
	for p := 0; p < picks; p++ {
		i := p
		if n > 40 {
			switch p {
			case 0:
				i = 0
			case 1:
				i = n - 1
			default:
				i = s.intn(n, "probeKey")
			}
		}
		k := m.keys[i]
		add(k)
		if len(k) == 0 { // only in the informational empty-key class
			add([]byte{st.byteAt(s, "ext")})
			continue
		}
		// proper prefixes
		if len(k) <= 10 {
			for c := 1; c < len(k); c++ {
				add(k[:c])
			}
		} else {
			add(k[:len(k)-1])
			add(k[:1])
			add(k[:1+s.intn(len(k)-1, "cut")])
		}
		// extensions
		add(append(append([]byte{}, k...), 0x00))
		add(append(append([]byte{}, k...), 0xff))
		add(append(append([]byte{}, k...), st.byteAt(s, "ext")))
		// sibling: one byte changed
		sib := append([]byte{}, k...)
		pos := s.intn(len(sib), "sibPos")
		sib[pos] = st.byteAt(s, "sib")
		add(sib)
		// last byte +-1 (immediate neighbours in the order)
		nb := append([]byte{}, k...)
		nb[len(nb)-1]++
		add(nb)
		nb = append([]byte{}, k...)
		nb[len(nb)-1]--
		add(nb)
	}
	for i := 0; i < 6; i++ {
		add(st.fresh(s))
	}
	return probes
}
