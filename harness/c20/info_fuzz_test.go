package c20

import (
	"bytes"
	"fmt"
	"testing"

	"pgregory.net/rapid"

	"github.com/lindb/lindb/index/model"
	"github.com/lindb/lindb/verifharness/sim/ev"
)

// ---- informational class: shapes production never stores --------------------------------------

type mismatch struct{ msg string }

// softT turns a failed comparison into a panic(mismatch) that the informational tests catch.
type softT struct{}

func (softT) Fatalf(format string, args ...any) { panic(mismatch{fmt.Sprintf(format, args...)}) }

// outcome runs f and classifies: "ok", "mismatch" (an answer differs from the model) or "panic".
func outcome(f func()) (kind, detail string) {
	defer func() {
		if r := recover(); r != nil {
			if mm, ok := r.(mismatch); ok {
				kind, detail = "mismatch", mm.msg
				return
			}
			kind, detail = "panic", fmt.Sprint(r)
		}
	}()
	f()
	return "ok", ""
}

// TestTrieEmptyKeyStored: key sets that contain the EMPTY key, at the trie level (the bucket level
// is TestBucketDegenerate / TestBucketSortedMap / TestFlushReadMerge). The property text lists the
// empty key; no production writer stores it today (empty metric names and tag values are rejected
// by all three ingestion paths, the namespace dictionary is addressed by namespace[0], series keys
// are 8 bytes), but the dictionary API accepts it and answers for it, so key sets of >= 2 keys
// with the empty key are asserted like any other. The key set {""} alone cannot be built (known
// finding sigLoneEmptyKey): while that is excluded its outcome is only counted (classes
// info:empty-key-alone:*).
func TestTrieEmptyKeyStored(t *testing.T) {
	const grp = "TestTrieEmptyKeyStored"
	shown := 0
	rapid.Check(t, func(t *rapid.T) {
		sp := drawKeySetSpec(t, 70)
		n := sp.n - 1 // n == 0: the empty key alone
		var keys [][]byte
		if n > 0 {
			keys = genKeys(sp.s, sp.style, n, nil)
		}
		at := rapid.IntRange(0, len(keys)).Draw(t, "emptyKeyPos")
		keys = append(keys, nil)
		copy(keys[at+1:], keys[at:])
		keys[at] = []byte{}
		m := newSortedMap(keys, genValues(sp.s, len(keys), false, 0))
		probes := genProbes(sp.s, sp.style, m, 100)
		walkSeed := rapid.Uint64().Draw(t, "walkSeed")
		if m.len() == 1 && excluded(sigLoneEmptyKey) {
			kind, detail := outcome(func() {
				mem, _, loaded := buildTrie(softT{}, m)
				checkTrie(softT{}, "in-memory", mem, m, probes, &prngSrc{s: walkSeed})
				checkTrie(softT{}, "loaded", loaded, m, probes, &prngSrc{s: walkSeed})
			})
			if kind != "ok" && shown < 3 {
				shown++
				ev.Note(fmt.Sprintf("empty-key-alone-example-%d", shown), detail)
			}
			flushInfo(grp)
			ev.Case(grp, m.canon(), false, []string{"excluded_known:info:empty-key-alone:" + kind}, nil)
			return
		}
		mem, _, loaded := buildTrie(t, m)
		checkTrie(t, "in-memory trie with the empty key", mem, m, probes, &prngSrc{s: walkSeed})
		checkTrie(t, "loaded trie with the empty key", loaded, m, probes, &prngSrc{s: walkSeed})
		flushInfo(grp)
		ev.Case(grp, m.canon(), m.hasPrefixPair(), append(trieClasses(sp, m), "has-empty-key"),
			map[string]any{"style": sp.style.name, "keys": m.len(), "first": m.describe(8)})
	})
}

// TestInfoDuplicateKeyAcrossDictionaries: the same key in two dictionaries of one bucket. The
// writers look a key up on disk before they create an id, so this only arises from the C09 race
// (two ids for one name); C20 claims nothing about it. Counted, cannot fail: does the merged
// bucket still load, and does it keep one of the two values for the key?
func TestInfoDuplicateKeyAcrossDictionaries(t *testing.T) {
	rapid.Check(t, func(t *rapid.T) {
		sp := drawKeySetSpec(t, 40)
		keys := genKeys(sp.s, sp.style, sp.n, nil)
		d1 := writeDict(t, keys, genValues(sp.s, len(keys), true, 0), 32767)
		dupKey := keys[sp.s.intn(len(keys), "dup")]
		keys2 := [][]byte{dupKey}
		for _, k := range genKeys(sp.s, sp.style, 3, nil) {
			if !bytes.Equal(k, dupKey) {
				keys2 = append(keys2, k)
			}
		}
		d2 := writeDict(t, keys2, genValues(sp.s, len(keys2), true, 1<<20), 32767)
		kind, detail := outcome(func() {
			b := model.NewTrieBucket()
			if err := b.Unmarshal(d1); err != nil {
				panic(mismatch{err.Error()})
			}
			if err := b.Unmarshal(d2); err != nil {
				panic(mismatch{err.Error()})
			}
			var out bytes.Buffer
			if err := b.Write(&out); err != nil {
				panic(mismatch{err.Error()})
			}
			merged := model.NewTrieBucket()
			if err := merged.Unmarshal(out.Bytes()); err != nil {
				panic(mismatch{err.Error()})
			}
			if _, ok := merged.GetValue(dupKey); !ok {
				panic(mismatch{"duplicate key lost"})
			}
			for _, k := range append(keys, keys2...) {
				if _, ok := merged.GetValue(k); !ok {
					panic(mismatch{fmt.Sprintf("key %q lost after merging dictionaries with a duplicate key", k)})
				}
			}
		})
		if kind != "ok" {
			ev.Note("duplicate-key-merge-example", detail)
		}
		ev.Case("TestInfoDuplicateKeyAcrossDictionaries", "", false, []string{"info:duplicate-key-merge:" + kind}, nil)
	})
}

// ---- native fuzz target (thorough tier) ----------------------------------------------------------

// decodeKeys turns fuzz bytes into a key set: records `len(1 byte, mod 24)+1 | bytes`; the length
// byte 0xFF is a record of its own: the empty key. Duplicates are dropped.
func decodeKeys(data []byte) [][]byte {
	seen := map[string]struct{}{}
	var keys [][]byte
	for len(data) > 0 && len(keys) < 300 {
		if data[0] == 0xff {
			data = data[1:]
			if _, ok := seen[""]; !ok {
				seen[""] = struct{}{}
				keys = append(keys, []byte{})
			}
			continue
		}
		n := int(data[0])%24 + 1
		data = data[1:]
		if n > len(data) {
			n = len(data)
		}
		k := data[:n]
		data = data[n:]
		if len(k) == 0 {
			continue
		}
		if _, ok := seen[string(k)]; ok {
			continue
		}
		seen[string(k)] = struct{}{}
		keys = append(keys, append([]byte{}, k...))
	}
	return keys
}

// FuzzTrie: keys decoded from the fuzz input; the oracle is the same sorted-map comparison
// (trie in memory + loaded, bucket split by a block size derived from the input).
func FuzzTrie(f *testing.F) {
	f.Add([]byte("\x00a\x01ab\x02abc\x00b\x00\xff"), uint8(2))
	f.Add([]byte("\x00\xff"), uint8(1))
	f.Add([]byte("\xff\x00a\x01ab\x00\xff"), uint8(1))
	f.Add([]byte("\x00b\xff"), uint8(0))
	f.Add([]byte("\x07host-001\x07host-002\x06host-01\x04host\x03hos\x10host-001.lindb.io"), uint8(3))
	f.Add([]byte("\x07\x00\x00\x00\x00\x00\x00\x00\xff\x07\x00\x00\x00\x00\x00\x00\xff\xff\x07\xff\xff\xff\xff\xff\xff\xff\xff"), uint8(1))
	f.Fuzz(func(t *testing.T, data []byte, bs uint8) {
		keys := decodeKeys(data)
		if len(keys) == 0 {
			return
		}
		vals := make([]uint32, len(keys))
		for i := range vals {
			vals[i] = uint32(i) * 3
		}
		m := newSortedMap(keys, vals)
		hasEmpty := len(m.keys[0]) == 0
		if hasEmpty && m.len() == 1 && excluded(sigLoneEmptyKey) {
			return // known finding: the dictionary {""} cannot be built
		}
		s := &prngSrc{s: uint64(len(data))*131 + uint64(bs)}
		probes := genProbes(s, styleBytes, m, 200)
		mem, _, loaded := buildTrie(t, m)
		checkTrie(t, "fuzz in-memory", mem, m, probes, &prngSrc{s: 1})
		checkTrie(t, "fuzz loaded", loaded, m, probes, &prngSrc{s: 1})
		blockSize := int(bs)%8 + 1
		if blockSize == 1 && hasEmpty && excludedBlock1() {
			blockSize = 2 // known finding: a trie of the empty key alone cannot be built
		}
		bucket := model.NewTrieBucket()
		if err := bucket.Unmarshal(writeDict(t, keys, vals, blockSize)); err != nil {
			t.Fatalf("Unmarshal: %v", err)
		}
		checkBucket(t, fmt.Sprintf("fuzz bucket (block size %d)", blockSize), bucket, m, genBucketQueries(t, s, styleBytes, m))
		bucket.Release()
		ev.Case("FuzzTrie", m.canon(), m.hasPrefixPair() || m.len() > blockSize, nil, nil)
	})
}
