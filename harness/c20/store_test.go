package c20

import (
	"fmt"
	"os"
	"path/filepath"
	"sort"
	"testing"

	"pgregory.net/rapid"

	"github.com/lindb/lindb/index/model"
	v1 "github.com/lindb/lindb/index/v1"
	"github.com/lindb/lindb/kv"
	"github.com/lindb/lindb/verifharness/sim/ev"
)

// bucketState is the model of one bucket of the family: the dictionaries flushed so far.
type bucketState struct {
	id    uint32
	st    keyStyle
	s     src
	taken map[string]struct{}
	next  uint32 // id sequence
	dicts []*sortedMap
}

func (b *bucketState) union() *sortedMap { return union(b.dicts...) }

// flushOnce writes one dictionary per chosen bucket through the production IndexKVFlusher
// (kv_store.go Flush: PrepareBucket / WriteKVs / CommitBucket per bucket, ascending bucket id,
// then Close).
func flushOnce(t fataler, family kv.Family, blockSize int, buckets []*bucketState, sizes []int) {
	kvFlusher := family.NewFlusher()
	defer kvFlusher.Release()
	flusher, err := v1.NewIndexKVFlusher(blockSize, kvFlusher)
	if err != nil {
		t.Fatalf("NewIndexKVFlusher: %v", err)
	}
	for i, b := range buckets {
		if sizes[i] == 0 {
			continue
		}
		keys := genKeys(b.s, b.st, sizes[i], b.taken)
		vals := make([]uint32, len(keys))
		for j := range vals {
			vals[j] = b.next
			b.next++
		}
		m := newSortedMap(keys, vals)
		ks := make([][]byte, len(keys))
		for j := range ks {
			ks[j] = append([]byte{}, keys[j]...)
		}
		flusher.PrepareBucket(b.id)
		if err := flusher.WriteKVs(ks, append([]uint32{}, vals...)); err != nil {
			t.Fatalf("WriteKVs: %v", err)
		}
		if err := flusher.CommitBucket(); err != nil {
			t.Fatalf("CommitBucket: %v", err)
		}
		b.dicts = append(b.dicts, m)
	}
	if err := flusher.Close(); err != nil {
		t.Fatalf("flusher.Close: %v", err)
	}
}

// readAndCheck loads every bucket through the production IndexKVReader and compares it with the
// union of the dictionaries flushed so far. It returns the raw dictionary values per bucket.
func readAndCheck(t fataler, stage string, family kv.Family, buckets []*bucketState, queries map[uint32]bucketQueries) (raw map[uint32][][]byte, tries map[uint32]int) {
	snapshot := family.GetSnapshot()
	defer snapshot.Close()
	reader := v1.NewIndexKVReader(snapshot)
	raw = map[uint32][][]byte{}
	tries = map[uint32]int{}
	for _, b := range buckets {
		bucket, err := reader.GetBucket(b.id)
		if err != nil {
			t.Fatalf("%s: GetBucket(%d): %v", stage, b.id, err)
		}
		if len(b.dicts) == 0 {
			if bucket != nil {
				t.Fatalf("%s: GetBucket(%d) returns a bucket although nothing was flushed for it", stage, b.id)
			}
			continue
		}
		if bucket == nil {
			t.Fatalf("%s: GetBucket(%d) = nil after %d flushed dictionaries", stage, b.id, len(b.dicts))
		}
		u := b.union()
		q := genBucketQueries(t, b.s, b.st, u) // the union changed: fresh queries
		queries[b.id] = q
		checkBucket(t, fmt.Sprintf("%s: bucket %d (%d dictionaries flushed)", stage, b.id, len(b.dicts)), bucket, u, q)
		bucket.Release()
		if err := snapshot.Load(b.id, func(value []byte) error {
			raw[b.id] = append(raw[b.id], append([]byte{}, value...))
			n, _ := countTries(t, value)
			tries[b.id] += n
			return nil
		}); err != nil {
			t.Fatalf("%s: snapshot.Load(%d): %v", stage, b.id, err)
		}
	}
	// a bucket that was never written
	if bucket, err := reader.GetBucket(4040404); err != nil || bucket != nil {
		t.Fatalf("%s: GetBucket(unknown) = %v, %v", stage, bucket, err)
	}
	return raw, tries
}

// mergeDirect runs the registered merger on the raw dictionaries of one bucket, as the compaction
// job does (NewMerger(flusher) then Merge(key, values)), capturing the output in a NopFlusher.
func mergeDirect(t fataler, id uint32, values [][]byte) *model.TrieBucket {
	nop := kv.NewNopFlusher()
	merger, err := v1.NewIndexKVMerger(nop)
	if err != nil {
		t.Fatalf("NewIndexKVMerger: %v", err)
	}
	merger.Init(nil)
	if err := merger.Merge(id, values); err != nil {
		t.Fatalf("Merge: %v", err)
	}
	out := append([]byte{}, nop.Bytes()...)
	b := model.NewTrieBucket()
	if err := b.Unmarshal(out); err != nil {
		t.Fatalf("Unmarshal(merged): %v", err)
	}
	return b
}

// TestFlushReadMerge: a real kv store + family registered with "IndexKVMergerV1". History:
// rounds of 1..3 flushes (IndexKVFlusher, 1..3 buckets each, generated block size) -> read
// (IndexKVReader) == union of everything flushed -> merge of the raw dictionaries through the
// merger API == union -> real level-0 compaction on the caller's goroutine -> read == union.
func TestFlushReadMerge(t *testing.T) {
	rapid.Check(t, func(t *rapid.T) {
		dir, err := os.MkdirTemp("", "c20-kv-")
		if err != nil {
			t.Fatalf("harness: %v", err)
		}
		defer os.RemoveAll(dir)
		storePath := filepath.Join(dir, "kv")
		store, err := kv.GetStoreManager().CreateStore(storePath, kv.DefaultStoreOption())
		if err != nil {
			t.Fatalf("CreateStore: %v", err)
		}
		defer func() {
			if err := kv.GetStoreManager().CloseStore(storePath); err != nil {
				t.Fatalf("CloseStore: %v", err)
			}
		}()
		family, err := store.CreateFamily("dict", kv.FamilyOption{Merger: string(v1.IndexKVMerger)})
		if err != nil {
			t.Fatalf("CreateFamily: %v", err)
		}

		// buckets (tag key ids / namespace ids / metric ids), ascending
		nb := rapid.IntRange(1, 3).Draw(t, "buckets")
		idPool := []uint32{0, 1, 2, 7, 255, 1000, 65536, 1<<32 - 1}
		var ids []uint32
		for len(ids) < nb {
			id := rapid.SampledFrom(idPool).Draw(t, "bucketID")
			dup := false
			for _, x := range ids {
				dup = dup || x == id
			}
			if !dup {
				ids = append(ids, id)
			}
		}
		sort.Slice(ids, func(i, j int) bool { return ids[i] < ids[j] })
		var buckets []*bucketState
		var classes []string
		maxN := 0
		for _, id := range ids {
			sp := drawKeySetSpec(t, 400)
			buckets = append(buckets, &bucketState{id: id, st: sp.style, s: sp.s, taken: map[string]struct{}{},
				next: rapid.SampledFrom([]uint32{0, 1, 5000}).Draw(t, "idBase")})
			classes = append(classes, "style="+sp.style.name)
			if sp.n > maxN {
				maxN = sp.n
			}
		}

		queries := map[uint32]bucketQueries{}
		rounds := rapid.IntRange(1, 3).Draw(t, "rounds")
		totalFlushes, compactions, maxDicts, maxTries := 0, 0, 0, 0
		for r := 0; r < rounds; r++ {
			flushes := rapid.IntRange(1, 3).Draw(t, "flushes")
			for f := 0; f < flushes; f++ {
				sizes := make([]int, len(buckets))
				any := false
				for i := range sizes {
					if rapid.IntRange(0, 3).Draw(t, "inFlush") > 0 {
						sizes[i] = rapid.IntRange(1, maxN).Draw(t, "dictN")
						any = true
					}
				}
				if !any {
					sizes[0] = rapid.IntRange(1, maxN).Draw(t, "dictN")
				}
				flushOnce(t, family, drawBlockSize(t, maxN), buckets, sizes)
				totalFlushes++
			}
			stage := fmt.Sprintf("round %d after %d flushes", r, totalFlushes)
			raw, tries := readAndCheck(t, stage, family, buckets, queries)
			for _, b := range buckets {
				if len(b.dicts) == 0 {
					continue
				}
				if len(raw[b.id]) > maxDicts {
					maxDicts = len(raw[b.id])
				}
				if tries[b.id] > maxTries {
					maxTries = tries[b.id]
				}
				merged := mergeDirect(t, b.id, raw[b.id])
				checkBucket(t, fmt.Sprintf("%s: bucket %d merged through IndexKVMerger.Merge (%d values)", stage, b.id, len(raw[b.id])),
					merged, b.union(), queries[b.id])
				merged.Release()
			}
			ran, err := kv.VerifCompactSync(family, true)
			if err != nil {
				t.Fatalf("%s: compaction: %v", stage, err)
			}
			if ran {
				compactions++
				raw, _ := readAndCheck(t, stage+", after compaction", family, buckets, queries)
				for _, b := range buckets {
					if len(b.dicts) > 0 && len(raw[b.id]) != 1 {
						t.Fatalf("%s: after compaction bucket %d is still stored as %d values", stage, b.id, len(raw[b.id]))
					}
				}
			}
		}
		classes = append(classes, fmt.Sprintf("buckets=%d", nb), fmt.Sprintf("compactions=%d", compactions))
		if maxDicts >= 2 {
			classes = append(classes, "bucket-in>=2-files")
		}
		if maxTries >= 2 {
			classes = append(classes, "bucket-with>=2-tries")
		}
		canon := ""
		prefixPair := false
		for _, b := range buckets {
			for _, d := range b.dicts {
				canon += fmt.Sprintf("%d:", b.id) + d.canon() + "|"
			}
			if len(b.dicts) > 0 {
				prefixPair = prefixPair || b.union().hasPrefixPair()
			}
		}
		ev.Case("TestFlushReadMerge", canon, prefixPair || maxTries >= 2, classes,
			map[string]any{"buckets": ids, "flushes": totalFlushes, "compactions": compactions, "maxFilesPerBucket": maxDicts, "maxTriesPerBucket": maxTries})
	})
}
