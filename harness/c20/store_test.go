package c20

import (
	"fmt"
	"os"
	"path/filepath"
	"regexp"
	"sort"
	"testing"

	"pgregory.net/rapid"

	"github.com/lindb/lindb/index/model"
	v1 "github.com/lindb/lindb/index/v1"
	"github.com/lindb/lindb/kv"
	"github.com/lindb/lindb/verifharness/sim/ev"
)

// bucketState is the model of one bucket of the family: the dictionaries flushed so far.
type bucketState struct {
	id    uint32
	st    keyStyle
	s     src
	taken map[string]struct{}
	next  uint32 // id sequence
	dicts []*sortedMap
	// degenerate keys (the empty key, a single-byte key, 0xFF 0xFF) that join the injectAt-th
	// dictionary flushed for this bucket, so that they end up in the first / a middle / the last
	// file (= trie group) of the bucket and go through the merger with it
	inject   [][]byte
	injectAt int
	injected bool
}

func (b *bucketState) injectsEmptyNow() bool {
	if b.injected || len(b.dicts) != b.injectAt {
		return false
	}
	for _, k := range b.inject {
		if len(k) == 0 {
			return true
		}
	}
	return false
}

func (b *bucketState) union() *sortedMap { return union(b.dicts...) }

// flushOnce writes one dictionary per chosen bucket through the production IndexKVFlusher
// (kv_store.go Flush: PrepareBucket / WriteKVs / CommitBucket per bucket, ascending bucket id,
// then Close).
func flushOnce(t fataler, family kv.Family, blockSize int, buckets []*bucketState, sizes []int) {
	kvFlusher := family.NewFlusher()
	defer kvFlusher.Release()
	flusher, err := v1.NewIndexKVFlusher(blockSize, kvFlusher)
	if err != nil {
		t.Fatalf("NewIndexKVFlusher: %v", err)
	}
	for i, b := range buckets {
		if sizes[i] == 0 {
			continue
		}
		keys := genKeys(b.s, b.st, sizes[i], b.taken)
		if !b.injected && len(b.dicts) == b.injectAt {
			for _, k := range b.inject {
				if _, dup := b.taken[string(k)]; !dup {
					b.taken[string(k)] = struct{}{}
					// any position: the flusher receives the pairs in map order
					at := b.s.intn(len(keys)+1, "injectPos")
					keys = append(keys, nil)
					copy(keys[at+1:], keys[at:])
					keys[at] = append([]byte{}, k...)
				}
			}
			b.injected = true
		}
		vals := make([]uint32, len(keys))
		for j := range vals {
			vals[j] = b.next
			b.next++
		}
		m := newSortedMap(keys, vals)
		ks := make([][]byte, len(keys))
		for j := range ks {
			ks[j] = append([]byte{}, keys[j]...)
		}
		flusher.PrepareBucket(b.id)
		if err := flusher.WriteKVs(ks, append([]uint32{}, vals...)); err != nil {
			t.Fatalf("WriteKVs: %v", err)
		}
		if err := flusher.CommitBucket(); err != nil {
			t.Fatalf("CommitBucket: %v", err)
		}
		b.dicts = append(b.dicts, m)
	}
	if err := flusher.Close(); err != nil {
		t.Fatalf("flusher.Close: %v", err)
	}
}

// readAndCheck loads every bucket through the production IndexKVReader and compares it with the
// union of the dictionaries flushed so far. It returns the raw dictionary values per bucket.
func readAndCheck(t fataler, stage string, family kv.Family, buckets []*bucketState, queries map[uint32]bucketQueries) (raw map[uint32][][]byte, tries map[uint32]int) {
	snapshot := family.GetSnapshot()
	defer snapshot.Close()
	reader := v1.NewIndexKVReader(snapshot)
	raw = map[uint32][][]byte{}
	tries = map[uint32]int{}
	for _, b := range buckets {
		bucket, err := reader.GetBucket(b.id)
		if err != nil {
			t.Fatalf("%s: GetBucket(%d): %v", stage, b.id, err)
		}
		if len(b.dicts) == 0 {
			if bucket != nil {
				t.Fatalf("%s: GetBucket(%d) returns a bucket although nothing was flushed for it", stage, b.id)
			}
			continue
		}
		if bucket == nil {
			t.Fatalf("%s: GetBucket(%d) = nil after %d flushed dictionaries", stage, b.id, len(b.dicts))
		}
		u := b.union()
		q := genBucketQueries(t, b.s, b.st, u) // the union changed: fresh queries
		if b.injected {
			for _, k := range b.inject {
				if len(k) > 0 {
					q.suggest = append(q.suggest, suggestProbe{k, "degenerate-key"})
				}
				if v, ok := u.get(k); ok {
					q.collects = append(q.collects, []uint32{v})
				}
			}
			q.regexps = append(q.regexps, regexp.MustCompile("^$"), regexp.MustCompile(""), regexp.MustCompile("^.?$"))
		}
		queries[b.id] = q
		checkBucket(t, fmt.Sprintf("%s: bucket %d (%d dictionaries flushed)", stage, b.id, len(b.dicts)), bucket, u, q)
		bucket.Release()
		if err := snapshot.Load(b.id, func(value []byte) error {
			raw[b.id] = append(raw[b.id], append([]byte{}, value...))
			n, _ := countTries(t, value)
			tries[b.id] += n
			return nil
		}); err != nil {
			t.Fatalf("%s: snapshot.Load(%d): %v", stage, b.id, err)
		}
	}
	// a bucket that was never written
	if bucket, err := reader.GetBucket(4040404); err != nil || bucket != nil {
		t.Fatalf("%s: GetBucket(unknown) = %v, %v", stage, bucket, err)
	}
	return raw, tries
}

// mergeDirect runs the registered merger on the raw dictionaries of one bucket, as the compaction
// job does (NewMerger(flusher) then Merge(key, values)), capturing the output in a NopFlusher.
func mergeDirect(t fataler, id uint32, values [][]byte) *model.TrieBucket {
	nop := kv.NewNopFlusher()
	merger, err := v1.NewIndexKVMerger(nop)
	if err != nil {
		t.Fatalf("NewIndexKVMerger: %v", err)
	}
	merger.Init(nil)
	if err := merger.Merge(id, values); err != nil {
		t.Fatalf("Merge: %v", err)
	}
	out := append([]byte{}, nop.Bytes()...)
	b := model.NewTrieBucket()
	if err := b.Unmarshal(out); err != nil {
		t.Fatalf("Unmarshal(merged): %v", err)
	}
	return b
}

// TestFlushReadMerge: a real kv store + family registered with "IndexKVMergerV1". History:
// rounds of 1..3 flushes (IndexKVFlusher, 1..3 buckets each, generated block size) -> read
// (IndexKVReader) == union of everything flushed -> merge of the raw dictionaries through the
// merger API == union -> real level-0 compaction on the caller's goroutine -> read == union.
func TestFlushReadMerge(t *testing.T) {
	rapid.Check(t, func(t *rapid.T) {
		dir, err := os.MkdirTemp("", "c20-kv-")
		if err != nil {
			t.Fatalf("harness: %v", err)
		}
		defer os.RemoveAll(dir)
		storePath := filepath.Join(dir, "kv")
		store, err := kv.GetStoreManager().CreateStore(storePath, kv.DefaultStoreOption())
		if err != nil {
			t.Fatalf("CreateStore: %v", err)
		}
		defer func() {
			if err := kv.GetStoreManager().CloseStore(storePath); err != nil {
				t.Fatalf("CloseStore: %v", err)
			}
		}()
		family, err := store.CreateFamily("dict", kv.FamilyOption{Merger: string(v1.IndexKVMerger)})
		if err != nil {
			t.Fatalf("CreateFamily: %v", err)
		}

		// buckets (tag key ids / namespace ids / metric ids), ascending
		nb := rapid.IntRange(1, 3).Draw(t, "buckets")
		idPool := []uint32{0, 1, 2, 7, 255, 1000, 65536, 1<<32 - 1}
		var ids []uint32
		for len(ids) < nb {
			id := rapid.SampledFrom(idPool).Draw(t, "bucketID")
			dup := false
			for _, x := range ids {
				dup = dup || x == id
			}
			if !dup {
				ids = append(ids, id)
			}
		}
		sort.Slice(ids, func(i, j int) bool { return ids[i] < ids[j] })
		var buckets []*bucketState
		var classes []string
		degKinds := map[*bucketState]string{}
		maxN := 0
		for _, id := range ids {
			sp := drawKeySetSpec(t, 400)
			b := &bucketState{id: id, st: sp.style, s: sp.s, taken: map[string]struct{}{},
				next: rapid.SampledFrom([]uint32{0, 1, 5000}).Draw(t, "idBase")}
			buckets = append(buckets, b)
			classes = append(classes, "style="+sp.style.name)
			if rapid.IntRange(0, 1).Draw(t, "degenerate") == 0 {
				kind := rapid.SampledFrom([]string{"empty", "empty", "empty", "byte-00", "byte-ff", "byte-style", "ff-ff", "empty+byte-ff"}).Draw(t, "degenerateKind")
				switch kind {
				case "empty":
					b.inject = [][]byte{{}}
				case "byte-00":
					b.inject = [][]byte{{0x00}}
				case "byte-ff":
					b.inject = [][]byte{{0xff}}
				case "byte-style":
					b.inject = [][]byte{{sp.style.byteAt(sp.s, "single")}}
				case "ff-ff":
					b.inject = [][]byte{{0xff, 0xff}}
				default:
					b.inject = [][]byte{{}, {0xff}}
				}
				b.injectAt = rapid.IntRange(0, 2).Draw(t, "degenerateAt")
				degKinds[b] = kind
			}
			if sp.n > maxN {
				maxN = sp.n
			}
		}

		queries := map[uint32]bucketQueries{}
		excludedBS1 := false
		rounds := rapid.IntRange(1, 3).Draw(t, "rounds")
		totalFlushes, compactions, maxDicts, maxTries := 0, 0, 0, 0
		for r := 0; r < rounds; r++ {
			flushes := rapid.IntRange(1, 3).Draw(t, "flushes")
			for f := 0; f < flushes; f++ {
				sizes := make([]int, len(buckets))
				any := false
				for i := range sizes {
					if rapid.IntRange(0, 3).Draw(t, "inFlush") > 0 {
						sizes[i] = rapid.IntRange(1, maxN).Draw(t, "dictN")
						any = true
					}
				}
				if !any {
					sizes[0] = rapid.IntRange(1, maxN).Draw(t, "dictN")
				}
				bs := drawBlockSize(t, maxN)
				for i, b := range buckets {
					// known finding: the empty key split off with block size 1 cannot be built
					if bs == 1 && sizes[i] > 0 && b.injectsEmptyNow() && excludedBlock1() {
						bs = 2
						excludedBS1 = true
					}
				}
				flushOnce(t, family, bs, buckets, sizes)
				totalFlushes++
			}
			stage := fmt.Sprintf("round %d after %d flushes", r, totalFlushes)
			raw, tries := readAndCheck(t, stage, family, buckets, queries)
			for _, b := range buckets {
				if len(b.dicts) == 0 {
					continue
				}
				if len(raw[b.id]) > maxDicts {
					maxDicts = len(raw[b.id])
				}
				if tries[b.id] > maxTries {
					maxTries = tries[b.id]
				}
				merged := mergeDirect(t, b.id, raw[b.id])
				checkBucket(t, fmt.Sprintf("%s: bucket %d merged through IndexKVMerger.Merge (%d values)", stage, b.id, len(raw[b.id])),
					merged, b.union(), queries[b.id])
				merged.Release()
			}
			ran, err := kv.VerifCompactSync(family, true)
			if err != nil {
				t.Fatalf("%s: compaction: %v", stage, err)
			}
			if ran {
				compactions++
				raw, _ := readAndCheck(t, stage+", after compaction", family, buckets, queries)
				for _, b := range buckets {
					if len(b.dicts) > 0 && len(raw[b.id]) != 1 {
						t.Fatalf("%s: after compaction bucket %d is still stored as %d values", stage, b.id, len(raw[b.id]))
					}
				}
			}
		}
		classes = append(classes, fmt.Sprintf("buckets=%d", nb), fmt.Sprintf("compactions=%d", compactions))
		if excludedBS1 {
			classes = append(classes, "excluded_known:empty-key-with-block-size-1")
		}
		for _, b := range buckets {
			kind, ok := degKinds[b]
			if !ok {
				continue
			}
			if !b.injected {
				classes = append(classes, "degenerate-key-not-reached")
				continue
			}
			where := "middle"
			switch {
			case len(b.dicts) == 1:
				where = "only"
			case b.injectAt == 0:
				where = "first"
			case b.injectAt == len(b.dicts)-1:
				where = "last"
			}
			classes = append(classes, "degenerate-key="+kind, fmt.Sprintf("degenerate-key-in-%s-of-%s-flushed-dictionaries", where, map[bool]string{true: "1", false: ">=2"}[len(b.dicts) == 1]))
		}
		if maxDicts >= 2 {
			classes = append(classes, "bucket-in>=2-files")
		}
		if maxTries >= 2 {
			classes = append(classes, "bucket-with>=2-tries")
		}
		canon := ""
		prefixPair := false
		for _, b := range buckets {
			for _, d := range b.dicts {
				canon += fmt.Sprintf("%d:", b.id) + d.canon() + "|"
			}
			if len(b.dicts) > 0 {
				prefixPair = prefixPair || b.union().hasPrefixPair()
			}
		}
		ev.Case("TestFlushReadMerge", canon, prefixPair || maxTries >= 2, classes,
			map[string]any{"buckets": ids, "flushes": totalFlushes, "compactions": compactions, "maxFilesPerBucket": maxDicts, "maxTriesPerBucket": maxTries})
	})
}
