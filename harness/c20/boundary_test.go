package c20

import (
	"bytes"
	"encoding/binary"
	"fmt"
	"sort"
	"testing"

	"pgregory.net/rapid"

	"github.com/lindb/lindb/index/model"
	"github.com/lindb/lindb/verifharness/sim/ev"
)

// ---- dictionary sizes that land exactly on block boundaries of the succinct vectors -----------------
//
// The serialised trie consists of bit vectors with one bit per LABEL (has-child, louds, has-suffix)
// or one bit per NODE (has-prefix), stored in 64-bit words, with a rank lookup table that has one
// entry per 512 bits (has-child, has-prefix, has-suffix) or a select lookup table with one entry
// per 64 set bits (louds: one set bit per node). Every size formula of the format (number of
// words, number of lookup-table entries, MarshalSize, the framing of the tries of a bucket) has
// its special case where a vector length is an exact multiple of 64 or of 512, and where the
// labels of the levels above some level fill their last word exactly. The style based generators
// reach such lengths by chance only (1 key set in 64 / 512), so this file constructs them on
// purpose:
//
//   shapeOf     computes the number of labels and nodes (total and per level) of the LOUDS-sparse
//               trie of a key set from the key set alone (written from the description of the
//               format in pkg/trie/doc.go: path compression of one-way nodes, a key that stands
//               alone below a label is kept as the suffix of that label, a key that ends in a node
//               gets the terminator label) - it shares no code with the builder;
//   tuneKeys    grows a key set of a drawn style key by key (a key adds 1..2 labels and 0..1
//               nodes) and takes a key back when it overshoots, until the drawn quantity (labels,
//               nodes, labels above a level, nodes above a level) is exactly target+offset with
//               target = k*64 or k*512 and offset -1, 0, +1;
//
// and judges the tuned set as a single trie, as one of several tries of one bucket value (in the
// first / a middle / the last trie), and as the UNION of several dictionaries that a merge rebuilds
// into one trie - always after serialise + load, MarshalSize == bytes written, against the
// sorted-map model.

type trieShape struct {
	labels, nodes int
	levelLabels   []int
	levelNodes    []int
}

// shapeOf returns the shape of the trie of the SORTED distinct keys.
func shapeOf(keys [][]byte) trieShape {
	var sh trieShape
	if len(keys) > 0 {
		sh.node(keys, 0, 0)
	}
	return sh
}

func (sh *trieShape) node(keys [][]byte, depth, level int) {
	// path compression: as long as no key ends here and all keys continue with the same byte
	// (sorted: first and last agree), the byte joins the node's prefix. A single key is never
	// compressed (only the root can hold a single key): its first byte is the label.
	for len(keys) > 1 && len(keys[0]) > depth && keys[0][depth] == keys[len(keys)-1][depth] {
		depth++
	}
	for len(sh.levelLabels) <= level {
		sh.levelLabels = append(sh.levelLabels, 0)
		sh.levelNodes = append(sh.levelNodes, 0)
	}
	sh.nodes++
	sh.levelNodes[level]++
	add := func() {
		sh.labels++
		sh.levelLabels[level]++
	}
	i := 0
	if len(keys[0]) == depth { // the key that ends in this node: terminator label
		add()
		i = 1
	}
	for i < len(keys) {
		j := i + 1
		for j < len(keys) && keys[j][depth] == keys[i][depth] {
			j++
		}
		add()
		if j-i > 1 { // >= 2 keys below the label: child node on the next level
			sh.node(keys[i:j], depth+1, level+1)
		}
		i = j
	}
}

// aboveLevelBoundary reports whether the labels (nodes) of the levels 0..l, for some l that is
// not the last level, fill a whole number of 64-bit words: the bitmap of level l+1 then starts on
// a word boundary of the concatenated vector.
func aboveLevelBoundary(per []int) bool {
	sum := 0
	for l := 0; l+1 < len(per); l++ {
		sum += per[l]
		if sum > 0 && sum%64 == 0 {
			return true
		}
	}
	return false
}

// styleWide: nodes with very many labels (up to 256) below nodes with two labels: even key
// positions hold one of two bytes, odd positions any byte. The other styles build narrow nodes, so
// that a node which spans several 64-bit words of the louds vector - in particular the LAST node of
// the trie reaching over the last word boundary into the end of the vector - would not occur.
var (
	styleWide  = keyStyle{name: "wide", alphabet: []byte("nm"), minLen: 2, maxLen: 4, wide: true}
	styleWide2 = keyStyle{name: "wide2", alphabet: []byte("nm"), fixed: 2, wide: true} // two nodes of up to 256 labels on the last level
	styleWide4 = keyStyle{name: "wide4", alphabet: []byte("nm"), fixed: 4, wide: true}
)

type boundaryTarget struct {
	quantity string // labels | nodes | labels-above-level | nodes-above-level
	unit     int    // 64 | 512
	k        int
	offset   int
}

func (bt boundaryTarget) value() int { return bt.unit*bt.k + bt.offset }

func (bt boundaryTarget) String() string {
	if bt.quantity == "labels-above-level" || bt.quantity == "nodes-above-level" {
		return bt.quantity + "%64==0"
	}
	return fmt.Sprintf("%s=%d*%d%+d", bt.quantity, bt.k, bt.unit, bt.offset)
}

func (bt boundaryTarget) reached(sh trieShape) bool {
	switch bt.quantity {
	case "labels":
		return sh.labels == bt.value()
	case "nodes":
		return sh.nodes == bt.value()
	case "labels-above-level":
		return aboveLevelBoundary(sh.levelLabels)
	default:
		return aboveLevelBoundary(sh.levelNodes)
	}
}

// passed: the quantity is beyond the target (a key has to be taken back).
func (bt boundaryTarget) passed(sh trieShape) bool {
	switch bt.quantity {
	case "labels":
		return sh.labels > bt.value()
	case "nodes":
		return sh.nodes > bt.value()
	default:
		return sh.labels > 64*40 // give up growing
	}
}

func drawBoundaryTarget(t *rapid.T) boundaryTarget {
	bt := boundaryTarget{}
	switch c := rapid.IntRange(0, 19).Draw(t, "quantity"); {
	case c < 9:
		bt.quantity = "labels"
	case c < 16:
		bt.quantity = "nodes"
	case c < 18:
		bt.quantity = "labels-above-level"
	default:
		bt.quantity = "nodes-above-level"
	}
	if bt.quantity == "labels" || bt.quantity == "nodes" {
		switch c := rapid.IntRange(0, 19).Draw(t, "unit"); {
		case c < 9:
			bt.unit, bt.k = 64, rapid.IntRange(1, 7).Draw(t, "k")
		case c < 19 || bt.quantity == "nodes":
			bt.unit, bt.k = 512, rapid.SampledFrom([]int{1, 1, 1, 1, 2, 2, 3}).Draw(t, "k")
			if bt.quantity == "nodes" && bt.k == 3 { // 1536 nodes: ~5000 keys
				bt.k = 2
			}
		default:
			bt.unit, bt.k = 512, rapid.SampledFrom([]int{4, 8}).Draw(t, "k")
		}
		bt.offset = rapid.SampledFrom([]int{0, 0, 0, 0, -1, 1}).Draw(t, "offset")
	}
	return bt
}

// sortedKeySet is a key set kept in sorted order (shapeOf needs sorted keys) together with the
// order in which the keys were generated (the order the flusher would receive them in).
type sortedKeySet struct {
	sorted [][]byte
	order  [][]byte
	taken  map[string]struct{}
}

func (ks *sortedKeySet) add(k []byte) bool {
	if len(k) == 0 || len(k) > maxKeyLen {
		return false
	}
	if _, dup := ks.taken[string(k)]; dup {
		return false
	}
	ks.taken[string(k)] = struct{}{}
	i := sort.Search(len(ks.sorted), func(i int) bool { return bytes.Compare(ks.sorted[i], k) >= 0 })
	ks.sorted = append(ks.sorted, nil)
	copy(ks.sorted[i+1:], ks.sorted[i:])
	ks.sorted[i] = k
	ks.order = append(ks.order, k)
	return true
}

// removeLast takes the most recently added key back.
func (ks *sortedKeySet) removeLast() {
	k := ks.order[len(ks.order)-1]
	ks.order = ks.order[:len(ks.order)-1]
	delete(ks.taken, string(k))
	i := sort.Search(len(ks.sorted), func(i int) bool { return bytes.Compare(ks.sorted[i], k) >= 0 })
	ks.sorted = append(ks.sorted[:i], ks.sorted[i+1:]...)
}

// maxTunedKeys bounds a tuned key set (a style whose tries cannot reach the drawn number of nodes
// would otherwise be enumerated completely).
const maxTunedKeys = 6000

// tuneKeys grows a key set of the style until the target is reached. It returns the set and
// whether the target was reached (the universe of a small alphabet can be exhausted first; the
// case is judged all the same and counted as boundary-not-reached).
func tuneKeys(s src, st keyStyle, bt boundaryTarget) (*sortedKeySet, trieShape, bool) {
	ks := &sortedKeySet{taken: map[string]struct{}{}}
	sh := trieShape{}
	failures := 0
	for failures < 400 && len(ks.order) < maxTunedKeys {
		if len(ks.order) > 0 && bt.reached(sh) {
			return ks, sh, true
		}
		// far below the target: add a batch before measuring again
		batch := 1
		if bt.quantity == "labels" || bt.quantity == "nodes" {
			have := sh.labels
			if bt.quantity == "nodes" {
				have = sh.nodes
			}
			if gap := bt.value() - have; gap > 8 {
				batch = gap / 3 // a key adds at most 2 labels / 1 node
			}
		}
		added := 0
		for i := 0; i < batch; i++ {
			if ks.add(st.nextKey(s, ks.order)) {
				added++
			}
		}
		if added == 0 {
			failures++
			continue
		}
		next := shapeOf(ks.sorted)
		if bt.passed(next) && batch == 1 {
			// overshoot by this key (labels: +2 where +1 was needed): take it back, try another
			ks.removeLast()
			failures++
			continue
		}
		sh = next
	}
	return ks, sh, len(ks.order) > 0 && bt.reached(sh)
}

// measureTrie reads the vector lengths out of a serialised trie (for the evidence classes only:
// what was really written). Layout: keys u32 | height u32 | labels u32 + bytes | has-child:
// numBits u32, words, block size u32, lut | louds: numBits u32, words, numOnes u32 ...
func measureTrie(data []byte) (labels, nodes int, ok bool) {
	u32 := func(off int) (int, bool) {
		if off < 0 || off+4 > len(data) {
			return 0, false
		}
		return int(binary.LittleEndian.Uint32(data[off:])), true
	}
	l, ok1 := u32(8)
	if !ok1 {
		return 0, 0, false
	}
	off := 12 + l
	hc, ok2 := u32(off) // has-child bits
	if !ok2 || hc != l {
		return 0, 0, false
	}
	words := (hc + 63) / 64
	off += 4 + words*8 + 4 + (hc/512+1)*4
	lb, ok3 := u32(off) // louds bits
	if !ok3 || lb != l {
		return 0, 0, false
	}
	ones, ok4 := u32(off + 4 + words*8)
	if !ok4 {
		return 0, 0, false
	}
	return l, ones, true
}

// splitTries returns the serialised tries of a bucket value (framing size u32 | trie).
func splitTries(t fataler, block []byte) [][]byte {
	var rs [][]byte
	for len(block) > 0 {
		if len(block) < 4 {
			t.Fatalf("bucket framing: %d trailing bytes", len(block))
		}
		size := int(binary.LittleEndian.Uint32(block))
		if size < 8 || 4+size > len(block) {
			t.Fatalf("bucket framing: trie size %d announced, %d bytes left", size, len(block)-4)
		}
		rs = append(rs, block[4:4+size])
		block = block[4+size:]
	}
	return rs
}

func boundaryClasses(prefix string, labels, nodes int) []string {
	var cs []string
	for _, q := range []struct {
		name string
		v    int
	}{{"labels", labels}, {"nodes", nodes}} {
		for _, unit := range []int{64, 512} {
			switch {
			case q.v > 0 && q.v%unit == 0:
				cs = append(cs, fmt.Sprintf("%s%s%%%d==0", prefix, q.name, unit))
			case q.v%unit == 1 && q.v > 1:
				cs = append(cs, fmt.Sprintf("%s%s%%%d==1", prefix, q.name, unit))
			case q.v%unit == unit-1:
				cs = append(cs, fmt.Sprintf("%s%s%%%d==%d", prefix, q.name, unit, unit-1))
			}
		}
	}
	return cs
}

// lightQueries are the bucket queries of a boundary case: fewer probes than genBucketQueries (the
// key sets are large), every present key is looked up by checkBucket anyway.
func lightQueries(t fataler, s src, st keyStyle, m *sortedMap) bucketQueries {
	q := genBucketQueries(t, s, st, m)
	q.probes = genProbes(s, st, m, 60)
	q.likes = q.likes[:min(len(q.likes), 4)]
	q.regexps = q.regexps[:min(len(q.regexps), 4)]
	q.collects = q.collects[len(q.collects)-2:]
	return q
}

func assignIDs(keys [][]byte, next *uint32) []uint32 {
	vals := make([]uint32, len(keys))
	for i := range vals {
		vals[i] = *next
		*next++
	}
	return vals
}

// withHead returns copies of the keys with one head byte in front (the trie of head+K has the
// shape of the trie of K: the head byte joins the root's compressed prefix).
func withHead(head byte, keys [][]byte) [][]byte {
	rs := make([][]byte, len(keys))
	for i, k := range keys {
		rs[i] = append([]byte{head}, k...)
	}
	return rs
}

// TestVectorBoundaries: see the comment at the top of this file.
func TestVectorBoundaries(t *testing.T) {
	const grp = "TestVectorBoundaries"
	rapid.Check(t, func(t *rapid.T) {
		bt := drawBoundaryTarget(t)
		var st keyStyle
		switch c := rapid.IntRange(0, 9).Draw(t, "styleKind"); {
		case c <= 1:
			st = styleWide2
			if bt.quantity != "labels" || bt.value() > 450 {
				st = styleWide4 // 512 keys and 3 nodes are all that wide2 has
			}
		case c == 2:
			st = styleWide
		case c == 3:
			st = styleWide4
		default:
			st = bigStyles[rapid.IntRange(0, len(bigStyles)-1).Draw(t, "style")]
			if bt.value() <= 200 && rapid.IntRange(0, 1).Draw(t, "smallStyle") == 0 {
				st = smallStyles[rapid.IntRange(0, len(smallStyles)-1).Draw(t, "style")]
			}
		}
		s := &prngSrc{s: rapid.Uint64().Draw(t, "keySeed")}
		ks, sh, hit := tuneKeys(s, st, bt)
		n := len(ks.order)
		classes := []string{"style=" + st.name, "target:" + bt.quantity}
		if bt.unit > 0 {
			classes = append(classes, fmt.Sprintf("target:%s%%%d%+d", bt.quantity, bt.unit, bt.offset))
		}
		if hit {
			classes = append(classes, "boundary-reached")
		} else {
			classes = append(classes, "boundary-not-reached")
		}
		next := rapid.SampledFrom([]uint32{0, 1, 1000, 1 << 31}).Draw(t, "idBase")
		vals := assignIDs(ks.order, &next)
		m := newSortedMap(ks.order, vals)
		walkSeed := rapid.Uint64().Draw(t, "walkSeed")

		// (a) the trie on its own: build, MarshalSize == bytes written, load, every answer
		mem, data, loaded := buildTrie(t, m)
		probes := genProbes(s, st, m, 120)
		checkTrie(t, fmt.Sprintf("in-memory trie (%v, %d labels / %d nodes)", bt, sh.labels, sh.nodes), mem, m, probes, &prngSrc{s: walkSeed})
		checkTrie(t, fmt.Sprintf("trie loaded from Write() (%v, %d labels / %d nodes)", bt, sh.labels, sh.nodes), loaded, m, probes, &prngSrc{s: walkSeed})
		if l, nd, ok := measureTrie(data); ok {
			classes = append(classes, boundaryClasses("written:", l, nd)...)
			if l != sh.labels || nd != sh.nodes {
				classes = append(classes, "info:shape-model-disagrees-with-written-header")
			}
		} else {
			classes = append(classes, "info:written-header-not-readable")
		}
		if aboveLevelBoundary(sh.levelLabels) {
			classes = append(classes, "labels-above-a-level%64==0")
		}
		if aboveLevelBoundary(sh.levelNodes) {
			classes = append(classes, "nodes-above-a-level%64==0")
		}

		// (b) the bucket: one value holding 1..4 tries, the tuned key set in one (or every) of them
		nTries := rapid.SampledFrom([]int{1, 1, 2, 3, 3, 4}).Draw(t, "tries")
		tunedAt := rapid.IntRange(0, nTries-1).Draw(t, "tunedAt")
		allTuned := nTries > 1 && rapid.IntRange(0, 3).Draw(t, "allTuned") == 0
		var bKeys [][]byte
		var bVals []uint32
		if nTries == 1 {
			bKeys, bVals = ks.order, vals
		} else {
			// block i = head byte i + a key set of exactly n keys (the last block: 1..n keys)
			heads := []byte{0x00, 'a', 'b', 0xff}
			if rapid.Bool().Draw(t, "asciiHeads") {
				heads = []byte("hjkm")
			}
			for i := 0; i < nTries; i++ {
				var blk [][]byte
				switch {
				case i == tunedAt || allTuned:
					blk = ks.order
				default:
					size := n
					if i == nTries-1 {
						size = 1 + s.intn(n, "lastBlock")
					}
					taken := map[string]struct{}{}
					blk = genKeys(s, st, size, taken)
					for pad := 0; len(blk) < size && i != nTries-1; pad++ { // the style's universe is exhausted: pad
						k := []byte(fmt.Sprintf("%s-pad-%d", blk[0][:min(len(blk[0]), 8)], pad))
						if _, dup := taken[string(k)]; !dup {
							taken[string(k)] = struct{}{}
							blk = append(blk, k)
						}
					}
				}
				bKeys = append(bKeys, withHead(heads[i], blk)...)
			}
			// hand-over order: any (the builder sorts)
			for i := len(bKeys) - 1; i > 0; i-- {
				j := s.intn(i+1, "order")
				bKeys[i], bKeys[j] = bKeys[j], bKeys[i]
			}
			bVals = assignIDs(bKeys, &next)
		}
		bm := newSortedMap(bKeys, bVals)
		value := writeDict(t, bKeys, bVals, n)
		written := splitTries(t, value)
		if wantTries := (len(bKeys) + n - 1) / n; len(written) != wantTries {
			t.Fatalf("dictionary of %d keys with block size %d was written as %d tries, want %d", len(bKeys), n, len(written), wantTries)
		}
		keysInTries := 0
		for i, w := range written {
			keysInTries += int(binary.LittleEndian.Uint32(w))
			if l, nd, ok := measureTrie(w); ok && (i == tunedAt || allTuned || nTries == 1) {
				for _, c := range boundaryClasses("", l, nd) {
					classes = append(classes, "bucket-trie:"+c)
				}
			}
		}
		if keysInTries != len(bKeys) {
			t.Fatalf("the %d tries of the bucket value announce %d keys, %d were written (%v)", len(written), keysInTries, len(bKeys), bt)
		}
		bucket := model.NewTrieBucket()
		if err := bucket.Unmarshal(value); err != nil {
			t.Fatalf("TrieBucket.Unmarshal: %v (%v, %d tries of %d keys)", err, bt, nTries, n)
		}
		q := lightQueries(t, s, st, bm)
		checkBucket(t, fmt.Sprintf("bucket value of %d tries, block size %d, tuned trie (%v, %d labels / %d nodes) at %d", nTries, n, bt, sh.labels, sh.nodes, tunedAt), bucket, bm, q)
		bucket.Release()
		classes = append(classes, fmt.Sprintf("bucket-tries=%d", nTries), "tuned-trie-in-"+posClass(nTries, tunedAt))
		if allTuned {
			classes = append(classes, "every-trie-tuned")
		}

		// (c) the tuned set spread over 2..3 dictionaries of the bucket (an un-merged bucket of several
		// dictionaries is the subject of TestBucketSortedMap, it is not judged again here); the merge (TrieBucket.Write
		// with a block size above the union, IndexKVMerger.Merge) rebuilds ONE trie from the union,
		// which has the tuned shape; a block size <= a dictionary copies its trie verbatim
		nd := rapid.IntRange(2, 3).Draw(t, "dicts")
		if n < nd {
			nd = 1
		}
		parts := make([][][]byte, nd)
		partVals := make([][]uint32, nd)
		for i, k := range ks.order {
			d := i % nd
			if i >= nd { // every dictionary holds at least one key
				d = s.intn(nd, "dictOf")
			}
			parts[d] = append(parts[d], k)
			partVals[d] = append(partVals[d], vals[i])
		}
		var raw [][]byte
		for d := range parts {
			raw = append(raw, writeDict(t, parts[d], partVals[d], 32767))
		}
		q = lightQueries(t, s, st, m)
		mergeBS := rapid.SampledFrom([]int{65535, 65535, 32767, n + 1, n, max(1, n/2), 1}).Draw(t, "mergeBlock")
		merging := model.NewTrieBucketWithBlockSize(mergeBS)
		for _, r := range raw {
			if err := merging.Unmarshal(r); err != nil {
				t.Fatalf("TrieBucket.Unmarshal: %v", err)
			}
		}
		var out bytes.Buffer
		if err := merging.Write(&out); err != nil {
			t.Fatalf("TrieBucket.Write: %v", err)
		}
		mergedValue := append([]byte{}, out.Bytes()...)
		mergedTries := splitTries(t, mergedValue)
		merged := model.NewTrieBucket()
		if err := merged.Unmarshal(mergedValue); err != nil {
			t.Fatalf("Unmarshal(merged): %v (%v)", err, bt)
		}
		checkBucket(t, fmt.Sprintf("%d dictionaries merged with block size %d into %d tries (%v, union: %d labels / %d nodes)", nd, mergeBS, len(mergedTries), bt, sh.labels, sh.nodes), merged, m, q)
		merged.Release()
		merging.Release()
		if len(mergedTries) == 1 {
			if l, ndn, ok := measureTrie(mergedTries[0]); ok {
				for _, c := range boundaryClasses("", l, ndn) {
					classes = append(classes, "merged-trie:"+c)
				}
			}
		}
		viaMerger := mergeDirect(t, 7, raw)
		checkBucket(t, fmt.Sprintf("IndexKVMerger.Merge of %d dictionaries (%v, union: %d labels / %d nodes)", nd, bt, sh.labels, sh.nodes), viaMerger, m, q)
		viaMerger.Release()
		classes = append(classes, fmt.Sprintf("spread-over-dicts=%d", nd), "merged|"+triesClass(len(mergedTries)))

		flushInfo(grp)
		sort.Strings(classes)
		ev.Case(grp, fmt.Sprintf("%v|%d@%d|%d|", bt, nTries, tunedAt, mergeBS)+m.canon(), m.hasPrefixPair() || nTries >= 2, classes,
			map[string]any{"target": bt.String(), "reached": hit, "style": st.name, "keys": n, "labels": sh.labels, "nodes": sh.nodes,
				"levelLabels": sh.levelLabels, "bucketTries": nTries, "tunedAt": tunedAt, "dicts": nd, "mergeBlockSize": mergeBS})
	})
}

// TestShapeModelSelf pins shapeOf on the example of pkg/trie/doc.go and on hand-made sets.
func TestShapeModelSelf(t *testing.T) {
	sorted := func(ss ...string) [][]byte {
		sort.Strings(ss)
		var ks [][]byte
		for _, s := range ss {
			ks = append(ks, []byte(s))
		}
		return ks
	}
	for _, c := range []struct {
		keys          [][]byte
		labels, nodes int
	}{
		// doc.go: labels abns$g$j-14567923 (17), 7 nodes
		{sorted("nj11", "nj-2", "nj-3", "sh-4", "sh-5", "sh-6000", "bj-777", "b", "abcdef", "abcdefg", "bj-9"), 17, 7},
		{sorted("a"), 1, 1},
		{sorted("abc"), 1, 1},
		{sorted("a", "b"), 2, 1},
		{sorted("ab", "ac"), 2, 1},     // prefix a, labels b c
		{sorted("a", "ab"), 2, 1},      // prefix a, labels $ b
		{sorted("", "a"), 2, 1},        // labels $ a
		{sorted("a", "ab", "b"), 4, 2}, // root a b; child of a: $ b
	} {
		sh := shapeOf(c.keys)
		if sh.labels != c.labels || sh.nodes != c.nodes {
			t.Fatalf("shapeOf(%q) = %d labels / %d nodes, want %d / %d", c.keys, sh.labels, sh.nodes, c.labels, c.nodes)
		}
		if sh.labels != len(c.keys)+sh.nodes-1 {
			t.Fatalf("shapeOf(%q): labels %d != keys %d + nodes %d - 1", c.keys, sh.labels, len(c.keys), sh.nodes)
		}
	}
	// 64 single-byte keys: one node with 64 labels
	var ks [][]byte
	for i := 0; i < 64; i++ {
		ks = append(ks, []byte{byte(i + 1)})
	}
	if sh := shapeOf(ks); sh.labels != 64 || sh.nodes != 1 {
		t.Fatalf("64 single-byte keys: %+v", sh)
	}
	if aboveLevelBoundary([]int{64}) || !aboveLevelBoundary([]int{64, 3}) || aboveLevelBoundary([]int{63, 1}) || !aboveLevelBoundary([]int{60, 4, 9}) {
		t.Fatalf("aboveLevelBoundary")
	}
}
