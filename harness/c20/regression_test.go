package c20

import (
	"bytes"
	"reflect"
	"regexp"
	"testing"

	"github.com/lindb/common/pkg/logger"

	"github.com/lindb/lindb/index/model"
	"github.com/lindb/lindb/pkg/trie"
)

func init() {
	// the kv store logs every edit at info level to stdout
	_ = logger.RunningAtomicLevel.UnmarshalText([]byte("error"))
}

// Plain reproductions (no rapid) of the violations the generated search found on the unchanged
// tree. Each one fails before and passes after the corresponding proposed_fix_*.diff.

// TestRegression_TrieGetEmptyKeyOnLone0xFF: a dictionary whose only key is the single byte 0xFF
// (0xFF doubles as the trie's terminator label) answers the lookup of the absent empty key with
// the value of "\xff". pkg/trie/trie.go Get, last branch: the label is taken for a terminator
// without checking that other labels follow in the node (the iterator does check isEndOfNode).
func TestRegression_TrieGetEmptyKeyOnLone0xFF(t *testing.T) {
	b := trie.NewBuilder()
	b.Build([][]byte{{0xff}}, []uint32{7})
	check := func(stage string, tr trie.SuccinctTrie) {
		if v, ok := tr.Get([]byte{0xff}); !ok || v != 7 {
			t.Fatalf("%s: Get(\"\\xff\") = %d,%v, want 7,true", stage, v, ok)
		}
		if v, ok := tr.Get(nil); ok {
			t.Fatalf("%s: Get(\"\") = %d,true on the dictionary {\"\\xff\":7}; the empty key is absent", stage, v)
		}
		if v, ok := tr.Get([]byte{}); ok {
			t.Fatalf("%s: Get([]byte{}) = %d,true on the dictionary {\"\\xff\":7}", stage, v)
		}
	}
	check("in-memory", b.Trie())
	var buf bytes.Buffer
	if err := b.Write(&buf); err != nil {
		t.Fatal(err)
	}
	loaded := trie.NewTrie()
	if err := loaded.UnmarshalBinary(buf.Bytes()); err != nil {
		t.Fatal(err)
	}
	check("loaded", loaded)

	// same through the bucket API the index uses (`where host = ''` -> GetValue(bucket, ""))
	var out bytes.Buffer
	if err := model.NewTrieBucketBuilder(32767, &out).Write([][]byte{{0xff}}, []uint32{7}); err != nil {
		t.Fatal(err)
	}
	bucket := model.NewTrieBucket()
	if err := bucket.Unmarshal(out.Bytes()); err != nil {
		t.Fatal(err)
	}
	defer bucket.Release()
	if v, ok := bucket.GetValue([]byte("")); ok {
		t.Fatalf("TrieBucket.GetValue(\"\") = %d,true on {\"\\xff\":7}", v)
	}
}

// twoTrieBucket loads two dictionaries of one bucket (= the bucket lives in two kv files, e.g.
// after two flushes and before a compaction) the way IndexKVReader.GetBucket does.
func twoTrieBucket(t *testing.T, keys1 []string, ids1 []uint32, keys2 []string, ids2 []uint32) *model.TrieBucket {
	bucket := model.NewTrieBucket()
	for i, ks := range [][]string{keys1, keys2} {
		var keys [][]byte
		for _, k := range ks {
			keys = append(keys, []byte(k))
		}
		ids := [][]uint32{ids1, ids2}[i]
		var out bytes.Buffer
		if err := model.NewTrieBucketBuilder(32767, &out).Write(keys, append([]uint32{}, ids...)); err != nil {
			t.Fatal(err)
		}
		if err := bucket.Unmarshal(append([]byte{}, out.Bytes()...)); err != nil {
			t.Fatal(err)
		}
	}
	return bucket
}

// TestRegression_SuggestMultiTrieKeyAliasing: TrieBucket.Suggest over a bucket with two tries
// returns duplicated / wrong keys. index/model/trie_bucket.go mergedIterator keeps it.Key() (a
// slice into the trie iterator's reused key buffer) in the heap item and then calls it.Next(),
// which overwrites that buffer in place.
func TestRegression_SuggestMultiTrieKeyAliasing(t *testing.T) {
	bucket := twoTrieBucket(t, []string{"a", "b"}, []uint32{1, 2}, []string{"c", "d"}, []uint32{3, 4})
	defer bucket.Release()
	got := bucket.Suggest("", 10)
	want := []string{"a", "b", "c", "d"}
	if !reflect.DeepEqual(got, want) {
		t.Fatalf("Suggest(\"\", 10) over tries {a,b} and {c,d} = %q, want %q", got, want)
	}
	// realistic shape: tag values of two flushes
	bucket2 := twoTrieBucket(t, []string{"host-1", "host-3"}, []uint32{1, 2}, []string{"host-2", "host-4"}, []uint32{3, 4})
	defer bucket2.Release()
	got = bucket2.Suggest("host-", 3)
	want = []string{"host-1", "host-2", "host-3"}
	if !reflect.DeepEqual(got, want) {
		t.Fatalf("Suggest(\"host-\", 3) over tries {host-1,host-3} and {host-2,host-4} = %q, want %q", got, want)
	}
}

// TestRegression_RegexpLiteralPrefixUnanchored (design D3): TrieBucket.FindValuesByRegexp
// narrows the scan to the keys that start with rp.LiteralPrefix() although the expression is not
// anchored; the in-memory path of index/kv_store.go selects every key with rp.Match(key).
func TestRegression_RegexpLiteralPrefixUnanchored(t *testing.T) {
	keys := [][]byte{[]byte("a"), []byte("ab"), []byte("ba"), []byte("cab")}
	ids := []uint32{1, 2, 3, 4}
	var out bytes.Buffer
	if err := model.NewTrieBucketBuilder(32767, &out).Write(keys, ids); err != nil {
		t.Fatal(err)
	}
	bucket := model.NewTrieBucket()
	if err := bucket.Unmarshal(out.Bytes()); err != nil {
		t.Fatal(err)
	}
	defer bucket.Release()
	for _, c := range []struct {
		expr string
		want []uint32
	}{
		{"a", []uint32{1, 2, 3, 4}}, // memory path: 4 values; flushed (unfixed): 2
		{"b", []uint32{2, 3, 4}},    // flushed (unfixed): 1
		{"ab$", []uint32{2, 4}},     // flushed (unfixed): 1
		{"^a", []uint32{1, 2}},      // anchored: prefix narrowing is legitimate
		{"^ab|ba", []uint32{2, 3}},  // only one alternative anchored
		{"(?i)A", []uint32{1, 2, 3, 4}},
	} {
		rp := regexp.MustCompile(c.expr)
		var want []uint32
		for i, k := range keys {
			if rp.Match(k) {
				want = append(want, ids[i])
			}
		}
		if !equalU32(want, c.want) {
			t.Fatalf("harness: expectation for %q is %v, Go regexp says %v", c.expr, c.want, want)
		}
		got := sortedCopy(bucket.FindValuesByRegexp(rp, nil))
		if !equalU32(got, c.want) {
			t.Fatalf("FindValuesByRegexp(%q) over {a:1 ab:2 ba:3 cab:4} = %v, want %v (every key the expression matches)", c.expr, got, c.want)
		}
	}
}
