package c20

import (
	"bytes"
	"fmt"
	"sync"
	"testing"

	"pgregory.net/rapid"

	"github.com/lindb/lindb/index/model"
	"github.com/lindb/lindb/pkg/trie"
	"github.com/lindb/lindb/verifharness/sim/ev"
)

// ---- several readers of ONE dictionary object, interleaved step by step ---------------------------
//
// The sorted-map property is a statement about answers, not about who else is reading: a
// dictionary object (trie, bucket) is immutable after load and is shared (the bucket cache of the
// index kv store hands one TrieBucket to every caller; like / regexp / suggest / collect create an
// iterator per trie per call; the write path probes it with Get). So every enumeration must
// deliver the model's enumeration whatever other enumerations / lookups over the same object start,
// advance or end between two of its steps. The harness owns the interleaving: a drawn schedule of
// "create reader", "step reader i", "Get" over 2..6 readers of 1..3 tries.

type trieReader struct {
	kind   string
	pit    *trie.PrefixIterator
	it     *trie.Iterator
	merged interface {
		HasNext() bool
		Key() []byte
	}
	m       *sortedMap // the model this reader enumerates
	want    []int      // prefix / merged: indexes into m.keys, in delivery order
	pos     int        // prefix / merged: next index of want; raw: index into m.keys
	prefix  []byte
	done    bool
	steps   int
	stamp   int // value of the global operation counter at this reader's last own operation
	foreign int // number of own steps that followed a foreign create/step
}

func (r *trieReader) describe() string {
	return fmt.Sprintf("%s(prefix %q, step %d)", r.kind, r.prefix, r.steps)
}

// step verifies the reader's current position against the model and advances it.
func (r *trieReader) step(t fataler, dir int, ctx func() string) {
	r.steps++
	switch r.kind {
	case "prefix":
		valid := r.pit.Valid()
		if valid != (r.pos < len(r.want)) {
			got := "<end>"
			if valid {
				got = fmt.Sprintf("%q", r.pit.Key())
			}
			t.Fatalf("interleaved %s: Valid() = %v (at %s) after %d of %d keys; %s", r.describe(), valid, got, r.pos, len(r.want), ctx())
		}
		if !valid {
			r.done = true
			return
		}
		idx := r.want[r.pos]
		if k, v := r.pit.Key(), r.pit.Value(); !bytes.Equal(k, r.m.keys[idx]) || v != r.m.vals[idx] {
			t.Fatalf("interleaved %s: [%d] = %q:%d, want %q:%d; %s", r.describe(), r.pos, k, v, r.m.keys[idx], r.m.vals[idx], ctx())
		}
		r.pit.Next()
		r.pos++
	case "merged":
		has := r.merged.HasNext()
		if has != (r.pos < len(r.want)) {
			t.Fatalf("interleaved %s: HasNext() = %v after %d of %d keys; %s", r.describe(), has, r.pos, len(r.want), ctx())
		}
		if !has {
			r.done = true
			return
		}
		idx := r.want[r.pos]
		if k := r.merged.Key(); !bytes.Equal(k, r.m.keys[idx]) {
			t.Fatalf("interleaved %s: [%d] = %q, want %q; %s", r.describe(), r.pos, k, r.m.keys[idx], ctx())
		}
		r.pos++
	default: // raw iterator: stands on m.keys[pos]
		if r.pos < 0 || r.pos >= r.m.len() {
			if r.it.Valid() {
				t.Fatalf("interleaved %s: stepped off the map but the iterator is valid at %q; %s", r.describe(), r.it.Key(), ctx())
			}
			r.done = true
			return
		}
		if !r.it.Valid() {
			t.Fatalf("interleaved %s: iterator invalid, want %q; %s", r.describe(), r.m.keys[r.pos], ctx())
		}
		if k, v := r.it.Key(), r.it.Value(); !bytes.Equal(k, r.m.keys[r.pos]) || v != r.m.vals[r.pos] {
			t.Fatalf("interleaved %s: at %q:%d, want %q:%d; %s", r.describe(), k, v, r.m.keys[r.pos], r.m.vals[r.pos], ctx())
		}
		if dir == 0 {
			r.it.Prev()
			r.pos--
		} else {
			r.it.Next()
			r.pos++
		}
	}
}

// drawPrefix: a prefix of a present key (any cut incl. 0 and the whole key), sometimes absent.
func drawPrefix(s src, st keyStyle, m *sortedMap) []byte {
	k := m.keys[s.intn(m.len(), "prefixOf")]
	switch s.intn(8, "prefixKind") {
	case 0:
		return []byte{}
	case 1:
		return append(append([]byte{}, k...), st.byteAt(s, "b"))
	case 2:
		return append([]byte{}, k...)
	case 3:
		return st.randBytes(s, 1+s.intn(2, "pl"), "b")
	default:
		return append([]byte{}, k[:min(len(k), 1+s.intn(3, "cut"))]...)
	}
}

// TestTrieInterleavedReaders: 1..3 tries (disjoint dictionaries of one bucket), 2..6 readers
// (prefix iterator, raw iterator forward / backward / from a present key, merged iterator over
// all tries as Suggest builds it), created and stepped in a drawn order, Get lookups in between.
func TestTrieInterleavedReaders(t *testing.T) {
	rapid.Check(t, func(t *rapid.T) {
		dicts, st, s, sizeClass := genDicts(t, 3, 400)
		for i := range dicts {
			if dicts[i].hasEmpty { // the lone-empty-key shapes are C20's known finding; not this test's subject
				dicts[i] = dictSpec{}
			}
		}
		var trs []trie.SuccinctTrie
		var ms []*sortedMap
		useLoaded := rapid.Bool().Draw(t, "loaded")
		for _, d := range dicts {
			if d.m == nil || d.m.len() == 0 {
				continue
			}
			mem, _, loaded := buildTrie(t, d.m)
			if useLoaded {
				trs = append(trs, loaded)
			} else {
				trs = append(trs, mem)
			}
			ms = append(ms, d.m)
		}
		if len(trs) == 0 {
			t.Skip("only the empty-key dictionary")
		}
		u := union(ms...)
		ctx := func() string { return fmt.Sprintf("%d tries, union %s", len(trs), u.describe(16)) }

		var readers []*trieReader
		kinds := map[string]int{}
		ops, createdMidway, gets := 0, 0, 0
		create := func() {
			r := &trieReader{}
			ti := s.intn(len(trs), "trie")
			r.m = ms[ti]
			switch s.intn(7, "readerKind") {
			case 0, 1, 2:
				r.kind = "prefix"
				r.prefix = drawPrefix(s, st, u)
				r.want = r.m.withPrefix(r.prefix)
				r.pit = trs[ti].NewPrefixIterator(r.prefix)
			case 3:
				r.kind = "fwd"
				r.it = trs[ti].NewIterator()
				r.it.SeekToFirst()
			case 4:
				r.kind = "bwd"
				r.it = trs[ti].NewIterator()
				r.it.SeekToLast()
				r.pos = r.m.len() - 1
			case 5:
				r.kind = "seek"
				r.pos = s.intn(r.m.len(), "seekTo")
				r.it = trs[ti].NewIterator()
				if !r.it.Seek(r.m.keys[r.pos]) {
					info.seekPresentNotExact++
				}
			default:
				r.kind = "merged"
				r.m = u
				r.prefix = drawPrefix(s, st, u)
				r.want = u.withPrefix(r.prefix)
				var its []*trie.PrefixIterator
				for _, tr := range trs {
					its = append(its, tr.NewPrefixIterator(r.prefix))
				}
				r.merged = model.NewMergedIterator(its)
			}
			for _, o := range readers {
				if !o.done && o.steps > 0 {
					createdMidway++
					break
				}
			}
			ops++
			r.stamp = ops
			kinds[r.kind]++
			readers = append(readers, r)
		}
		create()
		create()
		total := 12 + s.intn(60, "scheduleLen")
		for i := 0; i < total; i++ {
			switch a := s.intn(10, "action"); {
			case a == 0 && len(readers) < 6:
				create()
			case a == 1:
				// exact lookup between two steps of the enumerations
				ti := s.intn(len(trs), "getTrie")
				p := drawPrefix(s, st, u)
				wv, wok := ms[ti].get(p)
				if v, ok := trs[ti].Get(p); ok != wok || (ok && v != wv) {
					t.Fatalf("Get(%q) between enumeration steps = %d,%v, want %d,%v; %s", p, v, ok, wv, wok, ctx())
				}
				gets++
			default:
				r := readers[s.intn(len(readers), "reader")]
				if r.done {
					continue
				}
				if r.stamp != ops {
					r.foreign++
				}
				dir := 1
				if r.kind == "bwd" && s.intn(4, "dir") != 0 || r.kind != "bwd" && s.intn(5, "dir") == 0 {
					dir = 0
				}
				r.step(t, dir, ctx)
				ops++
				r.stamp = ops
			}
		}
		// drain: every reader still delivers the rest of its enumeration (round robin)
		for live := true; live; {
			live = false
			for _, r := range readers {
				if r.done || r.steps > 3000 {
					continue
				}
				live = true
				if r.stamp != ops {
					r.foreign++
				}
				dir := 1
				if r.kind == "bwd" {
					dir = 0
				}
				r.step(t, dir, ctx)
				ops++
				r.stamp = ops
			}
		}
		foreign := 0
		for _, r := range readers {
			foreign += r.foreign
		}
		classes := []string{"style=" + st.name, "size=" + sizeClass, fmt.Sprintf("tries=%d", len(trs)), fmt.Sprintf("readers=%d", len(readers))}
		for k := range kinds {
			classes = append(classes, "reader:"+k)
		}
		if createdMidway > 0 {
			classes = append(classes, "reader-created-while-another-is-midway")
		}
		if gets > 0 {
			classes = append(classes, "get-between-steps")
		}
		if foreign > 0 {
			classes = append(classes, "continued-after-foreign-operation")
		}
		if useLoaded {
			classes = append(classes, "trie=loaded")
		} else {
			classes = append(classes, "trie=in-memory")
		}
		ev.Case("TestTrieInterleavedReaders", fmt.Sprintf("%d|%d|%v|", len(readers), total, useLoaded)+u.canon(), foreign > 0 && createdMidway > 0, classes,
			map[string]any{"style": st.name, "tries": len(trs), "readers": len(readers), "keys": u.len(), "foreignSteps": foreign})
	})
	flushInfo("TestTrieInterleavedReaders")
}

// smallQueries: a reduced query set for a nested checkBucket.
func smallQueries(t fataler, s src, st keyStyle, m *sortedMap) bucketQueries {
	q := bucketQueries{}
	q.probes = genProbes(s, st, m, 14)
	q.likes = genLikes(s, st, m, 3)
	q.regexps = genRegexps(t, s, st, m, 2)
	q.limits = []int{1, 2, 1 + s.intn(8, "limit"), m.len() + 3}
	q.collects = [][]uint32{{m.vals[s.intn(m.len(), "collectIdx")]}, append([]uint32{}, m.vals...)}
	return q
}

// loadBucket writes the dictionaries through the production builder and loads them into one bucket.
func loadBucket(t *rapid.T, dicts []dictSpec) (b *model.TrieBucket, u *sortedMap, tries int) {
	b = model.NewTrieBucketWithBlockSize(1)
	var models []*sortedMap
	for _, d := range dicts {
		bs := drawBlockSize(t, len(d.keys))
		if bs == 1 && d.hasEmpty {
			bs = 2 // known finding: a trie of the empty key alone cannot be built
		}
		data := writeDict(t, d.keys, d.vals, bs)
		nt, _ := countTries(t, data)
		tries += nt
		if err := b.Unmarshal(data); err != nil {
			t.Fatalf("TrieBucket.Unmarshal: %v", err)
		}
		models = append(models, d.m)
	}
	return b, union(models...), tries
}

// TestBucketNestedEnumerations: the one caller-owned point inside a bucket enumeration is the
// `check` callback of FindValuesByLike (called once per enumerated key, while the prefix iterator
// of that trie is in the middle of its walk). At drawn calls the callback runs other queries on the
// SAME bucket object (Suggest, like, regexp, CollectKVs, GetValue - all judged by checkBucket; a
// nested FindValuesByLike nests once more), then the outer enumeration goes on. The outer
// enumeration must hand every key with the prefix to the callback exactly once, the key it handed
// over must not change under the nested queries, and the outer result must be the model's.
func TestBucketNestedEnumerations(t *testing.T) {
	rapid.Check(t, func(t *rapid.T) {
		dicts, st, s, sizeClass := genDicts(t, 3, 250)
		b, u, tries := loadBucket(t, dicts)
		defer b.Release()
		ctx := func() string { return fmt.Sprintf("bucket of %d tries: %s", tries, u.describe(16)) }
		rounds := 1 + s.intn(3, "rounds")
		nestedRuns, depth2 := 0, 0
		for round := 0; round < rounds; round++ {
			prefix := drawPrefix(s, st, u)
			sub := subKey(s, st, u)
			wantIdx := u.withPrefix(prefix)
			// the calls of the callback at which nested queries run
			at := map[int]bool{}
			if len(wantIdx) > 0 {
				for i, n := 0, 1+s.intn(3, "nestedPoints"); i < n; i++ {
					at[1+s.intn(len(wantIdx), "nestedAt")] = true
				}
			}
			q := smallQueries(t, s, st, u)
			seen := map[string]int{}
			calls := 0
			check := func(a, x []byte) bool {
				calls++
				before := string(a)
				seen[before]++
				if at[calls] {
					nestedRuns++
					checkBucket(t, fmt.Sprintf("nested inside FindValuesByLike(prefix %q) at key %q (call %d)", prefix, before, calls), b, u, q)
					if s.intn(2, "depth2") == 0 {
						// one more level: an enumeration with its own nested lookup
						p2 := drawPrefix(s, st, u)
						inner := 0
						got := b.FindValuesByLike(p2, nil, func(k, _ []byte) bool {
							inner++
							if inner == 2 {
								wv, wok := u.get([]byte(before))
								if v, ok := b.GetValue([]byte(before)); ok != wok || v != wv {
									t.Fatalf("GetValue(%q) nested at depth 2 = %d,%v, want %d,%v; %s", before, v, ok, wv, wok, ctx())
								}
								b.Suggest(string(p2), 3)
							}
							return true
						}, nil)
						want := u.selectVals(func(k []byte) bool { return bytes.HasPrefix(k, p2) })
						if !equalU32(sortedCopy(got), want) {
							t.Fatalf("FindValuesByLike(prefix %q) nested at depth 2 selects %v, want %v; %s", p2, sortedCopy(got), want, ctx())
						}
						depth2++
					}
					if string(a) != before {
						t.Fatalf("FindValuesByLike(prefix %q): the key handed to the callback changed from %q to %q while nested queries ran on the same bucket; %s", prefix, before, a, ctx())
					}
				}
				return bytes.Contains(a, x)
			}
			got := b.FindValuesByLike(prefix, sub, check, []uint32{4242})
			if calls != len(wantIdx) {
				t.Fatalf("FindValuesByLike(prefix %q) with nested queries at calls %v enumerated %d keys, want %d; %s", prefix, at, calls, len(wantIdx), ctx())
			}
			for _, idx := range wantIdx {
				if seen[string(u.keys[idx])] != 1 {
					t.Fatalf("FindValuesByLike(prefix %q) with nested queries at calls %v enumerated %q %d times, want once; %s", prefix, at, u.keys[idx], seen[string(u.keys[idx])], ctx())
				}
			}
			want := u.selectVals(func(k []byte) bool { return bytes.HasPrefix(k, prefix) && bytes.Contains(k, sub) })
			if len(got) == 0 || got[0] != 4242 || !equalU32(sortedCopy(got[1:]), want) {
				t.Fatalf("FindValuesByLike(prefix %q, contains %q) with nested queries at calls %v = %v, want 4242 + %v; %s", prefix, sub, at, got, want, ctx())
			}
		}
		classes := []string{"style=" + st.name, "size=" + sizeClass, "bucket-" + triesClass(tries)}
		if nestedRuns > 0 {
			classes = append(classes, "nested-queries-inside-enumeration")
		}
		if nestedRuns > 1 {
			classes = append(classes, "nested-queries-at>=2-points")
		}
		if depth2 > 0 {
			classes = append(classes, "nested-depth-2")
		}
		ev.Case("TestBucketNestedEnumerations", fmt.Sprintf("%d|%d|", tries, rounds)+u.canon(), nestedRuns > 0, classes,
			map[string]any{"style": st.name, "tries": tries, "keys": u.len(), "nestedRuns": nestedRuns})
	})
}

// ---- probes through one reused buffer ---------------------------------------------------------------
//
// Callers hand the dictionary slices of buffers they go on using: the write path resolves the
// names of a row that lives in a reused decode buffer, a pooled buffer is overwritten with the next
// probe. The answer of every call must be the model's answer for the bytes passed AT CALL TIME,
// whatever the caller wrote into that memory before (earlier probes) or writes after the call.

// nextProbe derives the next probe, biased to what distinguishes "compares the bytes" from
// "remembers the slice": same length as the previous probe, a prefix of it, an extension of it.
func nextProbe(s src, st keyStyle, m *sortedMap, prev []byte) (p []byte, kind string) {
	present := func() []byte { return m.keys[s.intn(m.len(), "presentKey")] }
	switch s.intn(10, "probeKind") {
	case 0, 1:
		return append([]byte{}, present()...), "present"
	case 2, 3, 4: // another key of the same length as the previous probe (present if there is one)
		var same []int
		for i, k := range m.keys {
			if len(k) == len(prev) && !bytes.Equal(k, prev) {
				same = append(same, i)
				if len(same) >= 64 {
					break
				}
			}
		}
		if len(same) > 0 && s.intn(4, "sameLenAbsent") != 0 {
			return append([]byte{}, m.keys[same[s.intn(len(same), "sameLenIdx")]]...), "same-length-present"
		}
		if len(prev) > 0 {
			p = append([]byte{}, prev...)
			p[s.intn(len(p), "sibPos")] ^= byte(1 + s.intn(255, "sibXor"))
			return p, "same-length-sibling"
		}
		return append([]byte{}, present()...), "present"
	case 5: // proper prefix of the previous probe (the front of the buffer is not even rewritten)
		if len(prev) > 1 {
			return append([]byte{}, prev[:1+s.intn(len(prev)-1, "cut")]...), "prefix-of-previous"
		}
		return []byte{}, "empty"
	case 6: // extension of the previous probe
		return append(append([]byte{}, prev...), st.randBytes(s, 1+s.intn(2, "extLen"), "b")...), "extension-of-previous"
	case 7:
		return append([]byte{}, prev...), "repeat"
	case 8:
		k := present()
		return append([]byte{}, k[:s.intn(len(k)+1, "cut")]...), "prefix-of-present"
	default:
		return st.fresh(s), "fresh"
	}
}

// scribble overwrites a buffer the callee has returned from (what a pool / the next decode does).
func scribble(s src, buf []byte) string {
	switch s.intn(4, "scribble") {
	case 0:
		return "kept"
	case 1:
		for i := range buf {
			buf[i] = 0xAA
		}
		return "filled"
	case 2:
		for i := range buf {
			buf[i] ^= 0xff
		}
		return "inverted"
	default:
		for i := range buf {
			buf[i] = 0
		}
		return "zeroed"
	}
}

// TestBucketProbeBufferReuse: one bucket object (1..3 dictionaries, several tries), one trie
// object, and ONE caller buffer through which 20..100 probes go: GetValue / trie Get /
// FindValuesByLike(prefix, subKey) / Suggest / prefix iterators (whose prefix is held until the
// iterator is finished); after each call the buffer is kept, filled, inverted or zeroed and then
// overwritten in place with the next probe.
func TestBucketProbeBufferReuse(t *testing.T) {
	rapid.Check(t, func(t *rapid.T) {
		dicts, st, s, sizeClass := genDicts(t, 3, 600)
		b, u, tries := loadBucket(t, dicts)
		defer b.Release()
		var tr trie.SuccinctTrie
		trM := dicts[0].m
		if !dicts[0].hasEmpty || trM.len() > 1 {
			_, _, tr = buildTrie(t, trM)
		}
		ctx := func() string { return fmt.Sprintf("bucket of %d tries: %s", tries, u.describe(16)) }
		buf := make([]byte, 0, maxKeyLen+8)
		sbuf := make([]byte, 0, maxKeyLen+8)
		n := 20 + s.intn(81, "probes")
		var prev []byte
		kinds := map[string]int{}
		hitAfterHit, missAfterHit, hitAfterMiss := 0, 0, 0
		prevHit, prevLen := false, -1
		history := ""
		for i := 0; i < n; i++ {
			p, kind := nextProbe(s, st, u, prev)
			if len(p) > maxKeyLen {
				p = p[:maxKeyLen]
			}
			kinds["probe:"+kind]++
			buf = buf[:len(p)]
			copy(buf, p) // overwrite in place: earlier slices of buf now show these bytes
			arg := buf[:len(p):len(p)]
			if len(history) < 600 {
				history += fmt.Sprintf(" %q", p)
			}
			wv, wok := u.get(p)
			switch op := s.intn(8, "op"); {
			case op <= 4:
				v, ok := b.GetValue(arg)
				if ok != wok || (ok && v != wv) {
					t.Fatalf("GetValue(%q) through the reused buffer (probe %d, %s) = %d,%v, want %d,%v; probes so far:%s; %s", p, i, kind, v, ok, wv, wok, history, ctx())
				}
				if len(p) == prevLen {
					switch {
					case prevHit && wok && !bytes.Equal(p, prev):
						hitAfterHit++
					case prevHit && !wok:
						missAfterHit++
					case !prevHit && wok:
						hitAfterMiss++
					}
				}
				prevHit, prevLen = wok, len(p)
			case op == 5 && tr != nil:
				tv, tok := trM.get(p)
				if v, ok := tr.Get(arg); ok != tok || (ok && v != tv) {
					t.Fatalf("trie Get(%q) through the reused buffer (probe %d, %s) = %d,%v, want %d,%v; probes so far:%s; %s", p, i, kind, v, ok, tv, tok, history, trM.describe(16))
				}
				kinds["op:trie-get"]++
			case op == 6:
				// like: prefix and sub key both live in reused buffers
				x := subKey(s, st, u)
				sbuf = sbuf[:len(x)]
				copy(sbuf, x)
				got := b.FindValuesByLike(arg, sbuf, bytes.Contains, nil)
				want := u.selectVals(func(k []byte) bool { return bytes.HasPrefix(k, p) && bytes.Contains(k, x) })
				if !equalU32(sortedCopy(got), want) {
					t.Fatalf("FindValuesByLike(prefix %q, contains %q) through reused buffers (probe %d) selects %v, want %v; %s", p, x, i, sortedCopy(got), want, ctx())
				}
				scribble(s, sbuf)
				kinds["op:like"]++
			default:
				checkSuggest(t, b, u, p, 1+s.intn(6, "limit"), ctx)
				if tr != nil && !bytes.Equal(p, []byte{}) || tr != nil && !dicts[0].hasEmpty {
					checkPrefixIter(t, tr, trM, arg, func() string { return "reused prefix buffer: " + trM.describe(16) })
				}
				kinds["op:enumerate"]++
			}
			kinds["after-call:"+scribble(s, buf)]++
			prev = p
		}
		classes := []string{"style=" + st.name, "size=" + sizeClass, "bucket-" + triesClass(tries)}
		for k := range kinds {
			classes = append(classes, k)
		}
		if hitAfterHit > 0 {
			classes = append(classes, "same-length:present-after-other-present")
		}
		if missAfterHit > 0 {
			classes = append(classes, "same-length:absent-after-present")
		}
		if hitAfterMiss > 0 {
			classes = append(classes, "same-length:present-after-absent")
		}
		ev.Case("TestBucketProbeBufferReuse", fmt.Sprintf("%d|%d|%s|", tries, n, history)+u.canon(), hitAfterHit+missAfterHit > 0, classes,
			map[string]any{"style": st.name, "tries": tries, "keys": u.len(), "probes": n, "hitAfterHit": hitAfterHit, "missAfterHit": missAfterHit, "hitAfterMiss": hitAfterMiss})
	})
}

// TestBucketSharedByGoroutines: the cached bucket is handed to concurrent queries. 4 goroutines
// run enumerations and lookups over ONE bucket object, released by a barrier; each one compares
// its own answers with answers computed before the goroutines start (no clock, no ordering
// assumption: every answer has exactly one correct value whatever the schedule is).
func TestBucketSharedByGoroutines(t *testing.T) {
	rapid.Check(t, func(t *rapid.T) {
		dicts, st, s, sizeClass := genDicts(t, 2, 300)
		b, u, tries := loadBucket(t, dicts)
		defer b.Release()
		type query struct {
			prefix []byte
			want   []uint32
			sug    []string
		}
		const workers = 4
		qs := make([][]query, workers)
		for w := range qs {
			for i := 0; i < 6; i++ {
				p := drawPrefix(s, st, u)
				q := query{prefix: p, want: u.selectVals(func(k []byte) bool { return bytes.HasPrefix(k, p) })}
				for _, idx := range u.withPrefix(p) {
					q.sug = append(q.sug, string(u.keys[idx]))
				}
				qs[w] = append(qs[w], q)
			}
		}
		errs := make([]string, workers)
		var wg sync.WaitGroup
		start := make(chan struct{})
		for w := 0; w < workers; w++ {
			wg.Add(1)
			go func(w int) {
				defer wg.Done()
				defer func() {
					if r := recover(); r != nil && errs[w] == "" {
						errs[w] = fmt.Sprintf("panic: %v", r)
					}
				}()
				<-start
				for rep := 0; rep < 8 && errs[w] == ""; rep++ {
					for _, q := range qs[w] {
						got := sortedCopy(b.FindValuesByLike(q.prefix, q.prefix, bytes.HasPrefix, nil))
						if !equalU32(got, q.want) {
							errs[w] = fmt.Sprintf("FindValuesByLike(prefix %q) = %v, want %v", q.prefix, got, q.want)
							return
						}
						sug := b.Suggest(string(q.prefix), len(q.sug)+1)
						if fmt.Sprint(sug) != fmt.Sprint(q.sug) && !(len(sug) == 0 && len(q.sug) == 0) {
							errs[w] = fmt.Sprintf("Suggest(%q) = %q, want %q", q.prefix, sug, q.sug)
							return
						}
						for _, k := range q.sug[:min(len(q.sug), 4)] {
							wv, _ := u.get([]byte(k))
							if v, ok := b.GetValue([]byte(k)); !ok || v != wv {
								errs[w] = fmt.Sprintf("GetValue(%q) = %d,%v, want %d,true", k, v, ok, wv)
								return
							}
						}
					}
				}
			}(w)
		}
		close(start)
		wg.Wait()
		for w, e := range errs {
			if e != "" {
				t.Fatalf("goroutine %d of %d sharing one bucket: %s; bucket of %d tries: %s", w, workers, e, tries, u.describe(16))
			}
		}
		ev.Case("TestBucketSharedByGoroutines", fmt.Sprintf("%d|", tries)+u.canon(), true,
			[]string{"style=" + st.name, "size=" + sizeClass, "bucket-" + triesClass(tries), fmt.Sprintf("goroutines=%d", workers)},
			map[string]any{"style": st.name, "tries": tries, "keys": u.len()})
	})
}
