package c20

import (
	"bytes"
	"fmt"
	"math"
	"os"
	"regexp"
	"sort"
	"testing"

	"pgregory.net/rapid"

	"github.com/lindb/lindb/index/model"
	"github.com/lindb/lindb/pkg/trie"
	"github.com/lindb/lindb/verifharness/sim/ev"
)

// ---- degenerate keys x degenerate arguments x trie placement ------------------------------------
//
// The property quantifies over "every key set (empty key, shared prefixes ..., bytes 0x00 and
// 0xFF ...) and every probe key, prefix, like pattern and regular expression". The style based
// generators of gen_test.go produce the degenerate members of that domain (the empty key, a
// single-byte key, keys made of 0x00/0xFF only, one key that is the prefix of every other key)
// rarely or never, and the enumeration-style operations of the bucket (Suggest, FindValuesByLike,
// FindValuesByRegexp, CollectKVs, the merge) were probed with few degenerate arguments (empty
// prefix with limit 1 only, no limit 0 / exact / huge, no expression that matches everything or
// only the empty key). TestBucketDegenerate draws that cross product on purpose:
//
//   key set   : contains "" | a single-byte key | only 0x00/0xFF keys | a key that prefixes all others
//               (+ optionally "" on top of the other classes), 0..60 further keys
//   placement : 1..4 dictionaries of one bucket, split into tries by block sizes 1,2,3,n/2,n,32767;
//               the degenerate key sits in the first / a middle / the last / the only trie; every
//               case is also loaded with the dictionaries in reverse order
//   arguments : Suggest prefixes "", the degenerate key, whole keys, proper prefixes, key+0x00,
//               key+0xFF, absent - each with the limits 0, 1, matches-1, matches, matches+1, 2^20 and
//               MaxInt; like patterns **, k*, *k, *k*, k for degenerate and whole keys; regular
//               expressions that match everything ("", .*, ^, $), only the empty key (^$), single
//               characters (^.$, ^.?$), anchored literals of whole keys; value sets for CollectKVs
//               that hold exactly the degenerate key's id / every id / every id and absent ones
//
// Oracle = the sorted-map model, both directions: Suggest must return exactly the first `limit`
// matching names in ascending byte order (index/model/trie_bucket.go: "mergedIterator iterates
// over some iterator in key order"; the only caller index/kv_store.go Suggest hands the same limit
// to the bucket, unions the answer with the names in memory and keeps the smallest `limit` names,
// so anything but the smallest `limit` names of the bucket changes the caller's answer). For
// limit 0 the bucket API itself promises nothing (the caller trims to zero names): only "nothing
// invented, nothing twice" is asserted there.

// sigLoneEmptyKey: a trie that would hold the empty key and nothing else cannot be built
// (pkg/trie/builder.go buildNodes indexes keys[1] of a one-element slice): (a) a dictionary {""},
// (b) any dictionary with the empty key written with block size 1 (the first block is {""})
// panics inside TrieBucketBuilder.Write. See TestRegression_TrieOfTheEmptyKeyAlone and
// proposed_fix_trie_of_the_empty_key_alone.diff (repairs (b); turns (a) into an error, because
// the format cannot tell {""} from {"\xff"}: both are one 0xFF label). While the finding is listed
// in known_findings.json - or reported and not yet listed / repaired (reportedNotListed) -
// exactly that shape is taken out of the generators: a dictionary with "" gets a second key and
// is not split with block size 1. C20_ASSERT_REPORTED=block1 lifts the exclusion of (b) only (to
// validate the proposed fix), any other non-empty value lifts both.
const sigLoneEmptyKey = "C20/trie-holding-only-the-empty-key-cannot-be-built"

var reportedNotListed = map[string]bool{} // the signature is listed in known_findings.json now

func excluded(sig string) bool {
	env := os.Getenv("C20_ASSERT_REPORTED")
	return ev.Known(sig) || (reportedNotListed[sig] && (env == "" || env == "block1"))
}

// excludedBlock1: is the block-size-1 half of sigLoneEmptyKey excluded?
func excludedBlock1() bool {
	return ev.Known(sigLoneEmptyKey) || (reportedNotListed[sigLoneEmptyKey] && os.Getenv("C20_ASSERT_REPORTED") == "")
}

// wantTries is the number of tries a dictionary of n keys is split into. With the proposed fix a
// dictionary that holds the empty key and is split with block size 1 keeps "" together with its
// successor (one trie less).
func triesAsExpected(got, n, bs int, hasEmpty bool) bool {
	want := (n + bs - 1) / bs
	return got == want || (hasEmpty && bs == 1 && n > 1 && got == want-1)
}

// ---- Suggest oracle --------------------------------------------------------------------------------

type suggestProbe struct {
	prefix []byte
	kind   string
}

type limitCase struct {
	limit int
	kind  string
}

// limitGrid returns the limits worth asking for a prefix with c matches.
func limitGrid(c int) []limitCase {
	grid := []limitCase{{0, "0"}, {1, "1"}}
	if c-1 >= 1 {
		grid = append(grid, limitCase{c - 1, "matches-1"})
	}
	if c >= 1 {
		grid = append(grid, limitCase{c, "matches"})
	}
	return append(grid, limitCase{c + 1, "matches+1"}, limitCase{1 << 20, "2^20"}, limitCase{math.MaxInt, "maxint"})
}

// checkSuggest compares one Suggest call with the model in both directions.
func checkSuggest(t fataler, b *model.TrieBucket, m *sortedMap, prefix []byte, limit int, ctx func() string) {
	var matches []string
	for _, idx := range m.withPrefix(prefix) {
		matches = append(matches, string(m.keys[idx]))
	}
	got := b.Suggest(string(prefix), limit)
	if limit <= 0 {
		// nothing promised about the size; the caller trims to `limit` names
		isMatch := map[string]bool{}
		for _, k := range matches {
			isMatch[k] = true
		}
		seen := map[string]bool{}
		for _, g := range got {
			if !isMatch[g] {
				t.Fatalf("Suggest(%q, %d) = %q: %q is not a stored name with that prefix; %s", prefix, limit, got, g, ctx())
			}
			if seen[g] {
				t.Fatalf("Suggest(%q, %d) = %q: %q is returned twice; %s", prefix, limit, got, g, ctx())
			}
			seen[g] = true
		}
		return
	}
	want := matches
	if len(want) > limit {
		want = want[:limit]
	}
	same := len(got) == len(want)
	for i := 0; same && i < len(want); i++ {
		same = got[i] == want[i]
	}
	if same {
		return
	}
	// explain: invented / missing / limit / order
	isMatch, inGot := map[string]bool{}, map[string]bool{}
	for _, k := range matches {
		isMatch[k] = true
	}
	for _, g := range got {
		if !isMatch[g] {
			t.Fatalf("Suggest(%q, %d) = %s invents %q (not a stored name with that prefix), want %s; %s", prefix, limit, show(got), g, show(want), ctx())
		}
		if inGot[g] {
			t.Fatalf("Suggest(%q, %d) = %s returns %q twice, want %s; %s", prefix, limit, show(got), g, show(want), ctx())
		}
		inGot[g] = true
	}
	if len(got) > limit {
		t.Fatalf("Suggest(%q, %d) returns %d names, more than the limit: %s; %s", prefix, limit, len(got), show(got), ctx())
	}
	for _, w := range want {
		if !inGot[w] {
			t.Fatalf("Suggest(%q, %d) = %s misses %q (one of the first %d of %d matching names), want %s; %s", prefix, limit, show(got), w, len(want), len(matches), show(want), ctx())
		}
	}
	t.Fatalf("Suggest(%q, %d) = %s, want the first %d matching names in ascending order %s; %s", prefix, limit, show(got), len(want), show(want), ctx())
}

func show(names []string) string {
	if len(names) > 24 {
		return fmt.Sprintf("%q ... (%d names)", names[:24], len(names))
	}
	return fmt.Sprintf("%q", names)
}

// ---- the generated case ---------------------------------------------------------------------------

type degCase struct {
	class    string
	st       keyStyle
	specials [][]byte // the degenerate keys: specials[0] defines the class, an optional second one is ""
	root     []byte   // class root-prefix: every other key extends root
}

func drawDegCase(t *rapid.T) degCase {
	s := rapidSrc{t}
	dc := degCase{st: smallStyles[rapid.IntRange(0, len(smallStyles)-1).Draw(t, "style")]}
	switch c := rapid.IntRange(0, 9).Draw(t, "degClass"); {
	case c <= 2:
		dc.class = "empty-key"
		dc.specials = [][]byte{{}}
	case c <= 4:
		dc.class = "single-byte-key"
		b := []byte{0x00, 0xff, 'a', 0x01, 0xfe, dc.st.byteAt(s, "single")}[rapid.IntRange(0, 5).Draw(t, "singleKind")]
		dc.specials = [][]byte{{b}}
	case c <= 6:
		dc.class = "only-00ff-keys"
		dc.st = styleFF00
		pool := []string{"\x00", "\xff", "\xff\xff", "\x00\x00", "\x00\xff", "\xff\x00", "\xff\xff\xff\xff\xff\xff\xff\xff", "\x00\x00\x00\x00\x00\x00\x00\x00\x00"}
		dc.specials = [][]byte{[]byte(pool[rapid.IntRange(0, len(pool)-1).Draw(t, "ffKey")])}
	default:
		dc.class = "key-prefixes-all-others"
		root := dc.st.fresh(s)
		if len(root) == 0 {
			root = []byte{dc.st.byteAt(s, "root")}
		}
		if len(root) > maxKeyLen-8 {
			root = root[:maxKeyLen-8]
		}
		dc.root = root
		dc.specials = [][]byte{root}
	}
	if dc.class != "empty-key" && rapid.IntRange(0, 2).Draw(t, "alsoEmpty") == 0 {
		dc.specials = append(dc.specials, []byte{})
	}
	return dc
}

// other derives one further (non-empty) key; `others` are the further keys chosen so far.
func (dc degCase) other(s src, others [][]byte) []byte {
	ext := func(base []byte) []byte {
		return append(append([]byte{}, base...), dc.st.randBytes(s, 1+s.intn(3, "extLen"), "b")...)
	}
	switch {
	case dc.root != nil:
		if len(others) > 0 && s.intn(3, "extOther") == 0 {
			return ext(others[s.intn(len(others), "base")])
		}
		return ext(dc.root)
	case dc.class == "single-byte-key" && s.intn(2, "extSpecial") == 0:
		return ext(dc.specials[0])
	default:
		if dc.st.fixed > 0 { // the fixed-length style derives keys from bases of that length only
			var same [][]byte
			for _, k := range others {
				if len(k) == dc.st.fixed {
					same = append(same, k)
				}
			}
			others = same
		}
		return dc.st.nextKey(s, others)
	}
}

func (dc degCase) hasEmpty() bool {
	for _, sp := range dc.specials {
		if len(sp) == 0 {
			return true
		}
	}
	return false
}

// trieLayout models how a list of dictionaries (each split into blocks of its block size, in key
// order) becomes the list of tries of a loaded bucket; it returns the number of tries and the
// index of the trie that holds key.
func trieLayout(dicts []dictSpec, bss []int, key []byte) (total, holder int) {
	holder = -1
	for d, ds := range dicts {
		for i, k := range ds.m.keys {
			if bytes.Equal(k, key) {
				holder = total + i/bss[d]
			}
		}
		total += (ds.m.len() + bss[d] - 1) / bss[d]
	}
	return total, holder
}

func posClass(total, holder int) string {
	switch {
	case total == 1:
		return "only-trie"
	case holder == 0:
		return "first-trie"
	case holder == total-1:
		return "last-trie"
	default:
		return "middle-trie"
	}
}

func triesClass(n int) string {
	switch {
	case n == 1:
		return "tries=1"
	case n <= 4:
		return "tries=2..4"
	default:
		return "tries>4"
	}
}

func printable(k []byte) bool {
	for _, c := range k {
		if c < 0x20 || c >= 0x7f {
			return false
		}
	}
	return len(k) > 0
}

type kindLike struct {
	p    likePattern
	kind string
}

type kindRegexp struct {
	rp   *regexp.Regexp
	kind string
}

// degQueries are the degenerate arguments of one case (on top of the ordinary bucketQueries).
type degQueries struct {
	q       bucketQueries
	likes   []kindLike
	regexps []kindRegexp
}

func genDegQueries(t fataler, s src, dc degCase, u *sortedMap) degQueries {
	dq := degQueries{q: genBucketQueries(t, s, dc.st, u)}
	q := &dq.q
	q.probes = genProbes(s, dc.st, u, 100)
	// Suggest prefixes, each asked with the whole limit grid
	addS := func(p []byte, kind string) {
		for _, sp := range q.suggest {
			if bytes.Equal(sp.prefix, p) {
				return
			}
		}
		q.suggest = append(q.suggest, suggestProbe{append([]byte{}, p...), kind})
	}
	addS(nil, "empty")
	for _, sp := range dc.specials {
		if len(sp) > 0 {
			addS(sp, "degenerate-key")
			addS(append(append([]byte{}, sp...), 0x00), "key+00")
			addS(append(append([]byte{}, sp...), 0xff), "key+ff")
			if len(sp) > 1 {
				addS(sp[:1+s.intn(len(sp)-1, "cut")], "proper-prefix")
			}
		}
	}
	addS([]byte{0x00}, "byte-00")
	addS([]byte{0xff}, "byte-ff")
	for i := 0; i < 5 && i < u.len(); i++ {
		k := u.keys[s.intn(u.len(), "sugKey")]
		if len(k) == 0 {
			continue
		}
		switch s.intn(4, "sugKind") {
		case 0:
			addS(k, "whole-key")
		case 1:
			addS(k[:1+s.intn(len(k), "cut")], "proper-prefix") // may be the whole key: counted as proper-prefix all the same
		case 2:
			addS(append(append([]byte{}, k...), dc.st.byteAt(s, "ext")), "extension")
		default:
			sib := append([]byte{}, k...)
			sib[len(sib)-1] ^= byte(1 + s.intn(255, "flip"))
			addS(sib, "sibling")
		}
	}
	addS(u.keys[0], "first-key")
	addS(u.keys[u.len()-1], "last-key")

	// like patterns
	addL := func(p string, kind string) {
		if p == "" || p == "*" {
			return // the production caller answers these before it reaches the bucket (C10 domain)
		}
		dq.likes = append(dq.likes, kindLike{likePattern(p), kind})
	}
	addL("**", "match-all")
	likeKeys := append([][]byte{}, dc.specials...)
	likeKinds := make([]string, len(dc.specials))
	for i := range likeKinds {
		likeKinds[i] = "degenerate-key"
	}
	for i := 0; i < 3; i++ {
		likeKeys = append(likeKeys, u.keys[s.intn(u.len(), "likeKey")])
		likeKinds = append(likeKinds, "whole-key")
	}
	for i, k := range likeKeys {
		if len(k) == 0 || bytes.IndexByte(k, '*') >= 0 {
			continue
		}
		addL(string(k)+"*", likeKinds[i]+"-as-prefix")
		addL("*"+string(k), likeKinds[i]+"-as-suffix")
		addL("*"+string(k)+"*", likeKinds[i]+"-as-substring")
		addL(string(k), likeKinds[i]+"-exact")
	}
	for _, lp := range genLikes(s, dc.st, u, 5) {
		addL(string(lp), "random")
	}

	// regular expressions
	addR := func(expr, kind string) {
		rp, err := regexp.Compile(expr)
		if err != nil {
			return
		}
		dq.regexps = append(dq.regexps, kindRegexp{rp, kind})
	}
	for _, e := range []string{"", ".*", "^", "$", "(?s)^.*$", "^.*$"} {
		addR(e, "match-all-shape")
	}
	addR("^$", "empty-key-only")
	for _, e := range []string{"^.$", "^.?$", "(?s)^.?$"} {
		addR(e, "single-char-shape")
	}
	for _, e := range []string{`^\x00`, `\x00$`, `^\x00+$`, `^\x00*$`} {
		addR(e, "nul-byte-shape")
	}
	for i, k := range likeKeys {
		if !printable(k) {
			continue
		}
		lit := regexp.QuoteMeta(string(k))
		addR("^"+lit, likeKinds[i]+"-anchored-head")
		addR("^"+lit+"$", likeKinds[i]+"-anchored-both")
		addR(lit+"$", likeKinds[i]+"-anchored-tail")
		addR("^("+lit+")?$", likeKinds[i]+"-or-empty")
	}
	for _, rp := range genRegexps(t, s, dc.st, u, 5) {
		dq.regexps = append(dq.regexps, kindRegexp{rp, "random"})
	}

	// value sets for CollectKVs: exactly the degenerate keys' ids, one id, all + absent
	var spVals []uint32
	for _, sp := range dc.specials {
		if v, ok := u.get(sp); ok {
			q.collects = append(q.collects, []uint32{v})
			spVals = append(spVals, v)
		}
	}
	q.collects = append(q.collects, spVals, []uint32{u.vals[0]}, []uint32{u.vals[u.len()-1]},
		append(append([]uint32{}, u.vals...), 1<<31+12345, 1<<31+999))
	return dq
}

// record bumps the class counters of the degenerate arguments (once per case).
func (dq degQueries) record(grp string, m *sortedMap) {
	for _, sp := range dq.q.suggest {
		// the whole limit grid is asked for every prefix; the cross product is spelled out in the
		// evidence for the two prefix kinds the class is about, the others are counted per kind
		ev.Class(grp, "suggest:prefix="+sp.kind, 1)
		for _, lc := range limitGrid(len(m.withPrefix(sp.prefix))) {
			if sp.kind == "empty" || sp.kind == "degenerate-key" {
				ev.Class(grp, "suggest:prefix="+sp.kind+",limit="+lc.kind, 1)
			}
			ev.Class(grp, "suggest:limit="+lc.kind, 1)
		}
	}
	for _, l := range dq.likes {
		ev.Class(grp, "like:"+l.kind, 1)
		if len(m.selectVals(l.p.matches)) == m.len() {
			ev.Class(grp, "like:selects-every-key", 1)
		}
	}
	for _, r := range dq.regexps {
		ev.Class(grp, "regexp:"+r.kind, 1)
		if len(m.selectVals(r.rp.Match)) == m.len() {
			ev.Class(grp, "regexp:selects-every-key", 1)
		}
	}
}

// checkDegenerate runs the ordinary bucket comparison plus the degenerate like / regexp arguments.
func checkDegenerate(t fataler, stage string, b *model.TrieBucket, m *sortedMap, dq degQueries) {
	q := dq.q
	q.likes = nil
	for _, l := range dq.likes {
		q.likes = append(q.likes, l.p)
	}
	q.regexps = nil
	for _, r := range dq.regexps {
		q.regexps = append(q.regexps, r.rp)
	}
	checkBucket(t, stage, b, m, q)
}

// TestBucketDegenerate: see the comment at the top of this file.
func TestBucketDegenerate(t *testing.T) {
	const grp = "TestBucketDegenerate"
	rapid.Check(t, func(t *rapid.T) {
		dc := drawDegCase(t)
		s := rapidSrc{t}
		classes := []string{"deg=" + dc.class, "style=" + dc.st.name}
		if dc.hasEmpty() {
			classes = append(classes, "has-empty-key")
		}

		// further keys
		taken := map[string]struct{}{}
		for _, sp := range dc.specials {
			taken[string(sp)] = struct{}{}
		}
		nOther := rapid.IntRange(0, 12).Draw(t, "others")
		if rapid.IntRange(0, 4).Draw(t, "manyOthers") == 0 {
			nOther = rapid.IntRange(13, 60).Draw(t, "others")
		}
		var others [][]byte
		fresh := func() []byte {
			for attempt := 0; ; attempt++ {
				k := dc.other(s, others)
				if attempt > 40 {
					k = append(append([]byte{}, dc.root...), []byte(fmt.Sprintf("fallback-%d", attempt))...)
				}
				if len(k) == 0 || len(k) > maxKeyLen {
					continue
				}
				if _, dup := taken[string(k)]; dup {
					continue
				}
				taken[string(k)] = struct{}{}
				others = append(others, k)
				return k
			}
		}
		for i := 0; i < nOther; i++ {
			fresh()
		}

		// dictionaries of the bucket
		nd := 1
		if rapid.IntRange(0, 9).Draw(t, "severalDicts") >= 3 {
			nd = rapid.IntRange(2, 4).Draw(t, "dicts")
		}
		dictKeys := make([][][]byte, nd)
		for _, sp := range dc.specials {
			d := rapid.IntRange(0, nd-1).Draw(t, "specialDict")
			dictKeys[d] = append(dictKeys[d], sp)
		}
		for _, k := range append([][]byte{}, others...) {
			d := rapid.IntRange(0, nd-1).Draw(t, "otherDict")
			dictKeys[d] = append(dictKeys[d], k)
		}
		for d := range dictKeys {
			loneEmpty := len(dictKeys[d]) == 1 && len(dictKeys[d][0]) == 0
			if loneEmpty && !excluded(sigLoneEmptyKey) {
				continue
			}
			if len(dictKeys[d]) == 0 || loneEmpty {
				if loneEmpty {
					classes = append(classes, "excluded_known:dictionary-of-the-empty-key-alone")
				}
				dictKeys[d] = append(dictKeys[d], fresh())
			}
		}
		var dicts []dictSpec
		var bss []int
		var raw [][]byte
		next := rapid.SampledFrom([]uint32{0, 1, 1000, 1 << 31}).Draw(t, "idBase")
		for d := range dictKeys {
			keys := dictKeys[d]
			// generation order = the order a Go map would hand the pairs to the flusher: any
			for i := len(keys) - 1; i > 0; i-- {
				j := s.intn(i+1, "order")
				keys[i], keys[j] = keys[j], keys[i]
			}
			vals := make([]uint32, len(keys))
			for i := range vals {
				vals[i] = next
				next++
			}
			ds := dictSpec{keys: keys, vals: vals, m: newSortedMap(keys, vals)}
			n := len(keys)
			bs := []int{1, 2, 3, max(1, n/2), n, 32767, 1, 2}[rapid.IntRange(0, 7).Draw(t, "blockKind")]
			if bs == 1 && len(ds.m.keys[0]) == 0 && excludedBlock1() {
				bs = 2
				classes = append(classes, "excluded_known:empty-key-with-block-size-1")
			}
			dicts = append(dicts, ds)
			bss = append(bss, bs)
			data := writeDict(t, ds.keys, ds.vals, bs)
			if nt, sizes := countTries(t, data); !triesAsExpected(nt, n, bs, len(ds.m.keys[0]) == 0) {
				t.Fatalf("dictionary of %d keys with block size %d was written as %d tries %v", n, bs, nt, sizes)
			}
			raw = append(raw, data)
		}
		var models []*sortedMap
		for _, ds := range dicts {
			models = append(models, ds.m)
		}
		u := union(models...)
		dq := genDegQueries(t, s, dc, u)
		dq.record(grp, u)

		load := func(order []int) *model.TrieBucket {
			b := model.NewTrieBucketWithBlockSize(1)
			for _, d := range order {
				if err := b.Unmarshal(raw[d]); err != nil {
					t.Fatalf("TrieBucket.Unmarshal: %v", err)
				}
			}
			return b
		}
		fwd, rev := make([]int, nd), make([]int, nd)
		for i := range fwd {
			fwd[i], rev[i] = i, nd-1-i
		}
		total := 0
		for oi, order := range [][]int{fwd, rev} {
			if oi == 1 && nd == 1 {
				break
			}
			var od []dictSpec
			var obs []int
			for _, d := range order {
				od = append(od, dicts[d])
				obs = append(obs, bss[d])
			}
			var holder int
			total, holder = trieLayout(od, obs, dc.specials[0])
			pc := posClass(total, holder)
			classes = append(classes, "deg="+dc.class+"|"+triesClass(total)+"|in-"+pc)
			if dc.hasEmpty() {
				_, h := trieLayout(od, obs, nil)
				classes = append(classes, "empty-key|"+triesClass(total)+"|in-"+posClass(total, h))
			}
			b := load(order)
			checkDegenerate(t, fmt.Sprintf("bucket of %d dictionaries %v / %d tries (block sizes %v), %s key in the %s", nd, order, total, obs, dc.class, pc), b, u, dq)
			b.Release()
		}

		// merge 1: TrieBucket.Write with a drawn block size
		mergeBS := []int{2, 3, max(2, u.len()/2), max(2, u.len()), 32767, 65535}[rapid.IntRange(0, 5).Draw(t, "mergeBlock")]
		if !dc.hasEmpty() && rapid.IntRange(0, 3).Draw(t, "mergeBlock1") == 0 {
			mergeBS = 1
		}
		merging := model.NewTrieBucketWithBlockSize(mergeBS)
		for _, data := range raw {
			if err := merging.Unmarshal(data); err != nil {
				t.Fatalf("TrieBucket.Unmarshal: %v", err)
			}
		}
		var out bytes.Buffer
		if err := merging.Write(&out); err != nil {
			t.Fatalf("TrieBucket.Write: %v", err)
		}
		mergedTries, _ := countTries(t, out.Bytes())
		merged := model.NewTrieBucket()
		if err := merged.Unmarshal(append([]byte{}, out.Bytes()...)); err != nil {
			t.Fatalf("Unmarshal(merged): %v", err)
		}
		checkDegenerate(t, fmt.Sprintf("merged bucket (%d dictionaries / %d tries -> %d tries, block size %d)", nd, total, mergedTries, mergeBS), merged, u, dq)
		merged.Release()
		merging.Release()
		classes = append(classes, "merged|"+triesClass(mergedTries))

		// merge 2: the registered merger on the raw dictionaries (what a compaction does)
		viaMerger := mergeDirect(t, 7, raw)
		checkDegenerate(t, fmt.Sprintf("IndexKVMerger.Merge of %d dictionaries", nd), viaMerger, u, dq)
		viaMerger.Release()

		classes = append(classes, fmt.Sprintf("dicts=%d", nd))
		if u.len() == 1 {
			classes = append(classes, "single-key-bucket")
		}
		sort.Strings(classes)
		ev.Case(grp, fmt.Sprintf("%v|%d|", bss, mergeBS)+u.canon(), u.hasPrefixPair() || total >= 2, classes,
			map[string]any{"class": dc.class, "style": dc.st.name, "dicts": nd, "tries": total, "blockSizes": bss, "mergeBlockSize": mergeBS, "keys": u.describe(10)})
	})
}

// ---- regression: the known finding of this class -----------------------------------------------------

// TestRegression_TrieOfTheEmptyKeyAlone: the empty key is in the property's quantifier, and a
// dictionary that holds it together with other keys works. A TRIE that would hold only the empty
// key cannot be built: trie.Builder.Build -> buildNodes consumes the completed first key
// (groupStart++) and then reads keys[groupStart][depth] of a one-element slice. Reached through
// the bucket API by a dictionary {""}, and by any dictionary containing "" that is split with
// block size 1 (the first block is {""}).
func TestRegression_TrieOfTheEmptyKeyAlone(t *testing.T) {
	try := func(what string, f func()) (msg string) {
		defer func() {
			if r := recover(); r != nil {
				msg = fmt.Sprintf("%s: panic: %v", what, r)
			}
		}()
		f()
		return ""
	}
	var msgs []string
	add := func(m string) {
		if m != "" {
			msgs = append(msgs, m)
		}
	}
	add(try(`(a) trie.Builder.Build({""})`, func() {
		b := trie.NewBuilder()
		b.Build([][]byte{{}}, []uint32{7})
	}))
	add(try(`(a) TrieBucketBuilder.Write({""})`, func() {
		var buf bytes.Buffer
		if err := model.NewTrieBucketBuilder(32767, &buf).Write([][]byte{{}}, []uint32{7}); err != nil {
			return // a refusal is not a crash
		}
		b := model.NewTrieBucket()
		if err := b.Unmarshal(buf.Bytes()); err != nil {
			panic(err)
		}
		defer b.Release()
		if v, ok := b.GetValue([]byte{}); !ok || v != 7 {
			panic(fmt.Sprintf(`GetValue("") = %d,%v, want 7,true`, v, ok))
		}
		if _, ok := b.GetValue([]byte{0xff}); ok {
			panic(`GetValue("\xff") found on the dictionary {""}`)
		}
	}))
	add(try(`(b) TrieBucketBuilder(block size 1).Write({"", "a"})`, func() {
		var buf bytes.Buffer
		if err := model.NewTrieBucketBuilder(1, &buf).Write([][]byte{[]byte("a"), {}}, []uint32{1, 2}); err != nil {
			return // a refusal is not a crash
		}
		b := model.NewTrieBucket()
		if err := b.Unmarshal(buf.Bytes()); err != nil {
			panic(err)
		}
		defer b.Release()
		if v, ok := b.GetValue([]byte{}); !ok || v != 2 {
			panic(fmt.Sprintf(`GetValue("") = %d,%v, want 2,true`, v, ok))
		}
		if got := b.Suggest("", 10); len(got) != 2 || got[0] != "" || got[1] != "a" {
			panic(fmt.Sprintf(`Suggest("", 10) = %q, want ["" "a"]`, got))
		}
	}))
	switch {
	case len(msgs) == 0:
		if excluded(sigLoneEmptyKey) {
			t.Logf("%s no longer reproduces on this tree: remove it from the exclusions", sigLoneEmptyKey)
		}
	case excluded(sigLoneEmptyKey):
		ev.KnownFinding("C20", fmt.Sprintf("a trie that holds only the empty key cannot be built (%s): %v", sigLoneEmptyKey, msgs))
	default:
		t.Fatalf("a trie that holds only the empty key cannot be built: %v", msgs)
	}

	// the neighbouring shapes hold on this tree: "" together with other keys in one trie
	var buf bytes.Buffer
	if err := model.NewTrieBucketBuilder(2, &buf).Write([][]byte{[]byte("b"), []byte("a"), {}}, []uint32{1, 2, 3}); err != nil {
		t.Fatal(err)
	}
	b := model.NewTrieBucket()
	if err := b.Unmarshal(buf.Bytes()); err != nil {
		t.Fatal(err)
	}
	defer b.Release()
	if v, ok := b.GetValue([]byte{}); !ok || v != 3 {
		t.Fatalf(`GetValue("") = %d,%v, want 3,true`, v, ok)
	}
	if got := b.Suggest("", 10); len(got) != 3 || got[0] != "" || got[1] != "a" || got[2] != "b" {
		t.Fatalf(`Suggest("", 10) over tries {"", a} and {b} = %q, want ["" "a" "b"]`, got)
	}
}
