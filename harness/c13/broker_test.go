package c13

import (
	"fmt"
	"sort"
	"strconv"
	"testing"
	"time"

	"github.com/lindb/common/proto/gen/v1/flatMetricsV1"
	protoMetricsV1 "github.com/lindb/common/proto/gen/v1/linmetrics"
	"pgregory.net/rapid"

	"github.com/lindb/lindb/models"
	"github.com/lindb/lindb/pkg/timeutil"
	"github.com/lindb/lindb/series/metric"
	"github.com/lindb/lindb/verifharness/sim/ev"
)

// TestBrokerBatchFamilies: write side of the family lookup on the broker. An ingestion request is
// decoded into a POOLED batch object (metric.NewBrokerBatchRows), handed to the channel of one
// database (replica.databaseChannel.Write: NewShardGroupIterator(numOfShards), per shard
// FamilyRowsForNextShard(interval of the database), HasNextFamily/NextFamily) and released to the
// pool; the next request - maybe for a database with another interval - gets the same object
// with its embedded shard and family iterators. A history is a sequence of such uses of 1-2 batch
// objects over 2-3 databases with generated intervals; the timestamps of all uses are clustered
// around one boundary-biased anchor (same hour / day / month, and the neighbours).
//
// For every use: each row is handed out exactly once; per shard every family time is handed out
// once; the family time of a group is the start of the calendar family (of the interval type of
// THIS database) of every row in the group, equals the calculator's CalcFamilyTime, and
// [familyTime, CalcFamilyEndTime(familyTime)] contains the row's timestamp.
func TestBrokerBatchFamilies(t *testing.T) {
	rapid.Check(t, func(t *rapid.T) {
		type database struct {
			iv     timeutil.Interval
			shards int32
		}
		nDB := rapid.IntRange(2, 3).Draw(t, "nDatabases")
		dbs := make([]database, nDB)
		for i := range dbs {
			dbs[i] = database{iv: genIntervalOfType(t, genIntervalType(t)), shards: int32(rapid.IntRange(1, 4).Draw(t, "numOfShards"))}
		}
		anchor := genTimestamp(t, "anchor")
		conv := metric.NewProtoConverter(models.NewDefaultLimits())

		type wantRow struct {
			ts  int64
			tag string
		}
		type slot struct {
			batch *metric.BrokerBatchRows
			rows  []wantRow
		}
		type prevUse struct {
			typ      timeutil.IntervalType
			families map[int64]int64 // start -> end of the families (of typ) handed out by that use
		}
		slots := make([]slot, rapid.IntRange(1, 2).Draw(t, "nBatchObjects"))
		history := map[*metric.BrokerBatchRows]*prevUse{} // last use of every batch object seen
		primed := map[*metric.BrokerBatchRows]bool{}
		classSet := map[string]bool{}
		var log []string
		nonTrivial := false
		rowSeq := 0

		genRowTimestamp := func() int64 {
			var ts int64
			switch rapid.IntRange(0, 3).Draw(t, "tsKind") {
			case 0: // around the anchor, same or neighbouring hour
				ts = anchor + rapid.Int64Range(-2*hour, 2*hour).Draw(t, "tsHourOff")
			case 1: // same or neighbouring day
				ts = anchor + rapid.Int64Range(-2*dayL, 2*dayL).Draw(t, "tsDayOff")
			case 2: // same or neighbouring month
				ts = anchor + rapid.Int64Range(-45*dayL, 45*dayL).Draw(t, "tsMonthOff")
			default: // first / last millisecond of an hour, day or month near the anchor
				typ := genIntervalType(t)
				s, e := refFamily(typ, anchor+rapid.Int64Range(-2, 2).Draw(t, "tsFamOff")*(e2s(typ)))
				ts = rapid.SampledFrom([]int64{s, e, s - 1, e + 1}).Draw(t, "tsAt")
			}
			if ts < 1 {
				ts = 1 // timestamp 0 means "now" to the converter
			}
			return ts
		}

		acquire := func(sl *slot) {
			// The pool may hand out an object last used by an earlier case. So that the outcome of
			// a case is a function of the case alone, an object that enters the history is first
			// used once (not checked) for a 10s database with one row at 1970-01-01T00:00:00.001.
			for tries := 0; ; tries++ {
				sl.batch = metric.NewBrokerBatchRows()
				if _, seen := history[sl.batch]; seen || primed[sl.batch] {
					break
				}
				if tries == 8 {
					classSet["batch-object=not-primed"] = true
					break
				}
				primed[sl.batch] = true
				primeBatch(t, conv, sl.batch)
			}
			sl.rows = sl.rows[:0]
			if sl.batch.Len() != 0 {
				t.Fatalf("harness: a batch from the pool holds %d rows", sl.batch.Len())
			}
			n := rapid.IntRange(1, 8).Draw(t, "nRows")
			for i := 0; i < n; i++ {
				rowSeq++
				w := wantRow{ts: genRowTimestamp(), tag: strconv.Itoa(rowSeq)}
				// few distinct hosts, so that several rows share a shard
				host := "h" + strconv.Itoa(rapid.IntRange(0, 5).Draw(t, "host"))
				m := &protoMetricsV1.Metric{
					Name: "cpu", Timestamp: w.ts,
					Tags:         []*protoMetricsV1.KeyValue{{Key: "host", Value: host}, {Key: "row", Value: w.tag}},
					SimpleFields: []*protoMetricsV1.SimpleField{{Name: "f", Type: protoMetricsV1.SimpleFieldType_DELTA_SUM, Value: 1}},
				}
				if err := sl.batch.TryAppend(func(row *metric.BrokerRow) error { return conv.ConvertTo(m, row) }); err != nil {
					t.Fatalf("harness: converter rejected the metric: %v", err)
				}
				sl.rows = append(sl.rows, w)
			}
			if _, seen := history[sl.batch]; seen {
				classSet["batch-object=reused-from-pool"] = true
			} else {
				classSet["batch-object=first-seen-in-history"] = true
			}
			log = append(log, fmt.Sprintf("acquire(%d rows)", n))
		}

		// write does what replica.databaseChannel.Write does with the batch, then releases it.
		write := func(sl *slot, db database) {
			typ := db.iv.Type()
			calc := db.iv.Calculator()
			batch := sl.batch
			want := map[string]int64{}
			for _, w := range sl.rows {
				want[w.tag] = w.ts
			}
			prev := history[batch]
			use := &prevUse{typ: typ, families: map[int64]int64{}}

			batch.EvictOutOfTimeRange(0, 0) // behind/ahead checks disabled: independent of the wall clock
			handed := 0
			seenShards := map[int]bool{}
			it := batch.NewShardGroupIterator(db.shards)
			for it.HasRowsForNextShard() {
				shardIdx, famIt := it.FamilyRowsForNextShard(db.iv)
				if shardIdx < 0 || int32(shardIdx) >= db.shards || seenShards[shardIdx] {
					t.Fatalf("interval %s: shard index %d handed out twice or out of range (numOfShards %d)", db.iv, shardIdx, db.shards)
				}
				seenShards[shardIdx] = true
				seenFamilies := map[int64]bool{}
				for famIt.HasNextFamily() {
					familyTime, rows := famIt.NextFamily()
					if seenFamilies[familyTime] {
						t.Fatalf("interval %s shard %d: family time %d (%s) handed out twice", db.iv, shardIdx, familyTime, fmtMs(familyTime))
					}
					seenFamilies[familyTime] = true
					if len(rows) == 0 {
						t.Fatalf("interval %s shard %d: empty group for family %s", db.iv, shardIdx, fmtMs(familyTime))
					}
					if len(seenFamilies) >= 2 {
						classSet["shard-with>=2-families"] = true
					}
					for i := range rows {
						m := rows[i].Metric()
						ts := m.Timestamp()
						tag := rowTag(&rows[i])
						wts, ok := want[tag]
						if !ok || wts != ts {
							t.Fatalf("interval %s: row %q (timestamp %d) handed out, but it is not (or no longer) a row of this request (its timestamp: %d, known: %v)", db.iv, tag, ts, wts, ok)
						}
						delete(want, tag)
						handed++
						refStart, refEnd := refFamily(typ, ts)
						end := calc.CalcFamilyEndTime(familyTime)
						if familyTime != refStart || familyTime != calc.CalcFamilyTime(ts) || ts < familyTime || ts > end || end != refEnd {
							t.Fatalf("interval %s (%s type) shard %d, use history %v: row with timestamp %d (%s) was grouped into family [%s .. %s]; its family is [%s .. %s] (calculator: family time %s)",
								db.iv, typ, shardIdx, log, ts, fmtMs(ts), fmtMs(familyTime), fmtMs(end), fmtMs(refStart), fmtMs(refEnd), fmtMs(calc.CalcFamilyTime(ts)))
						}
						use.families[refStart] = refEnd
						if prev != nil && prev.typ != typ {
							for s, e := range prev.families {
								if s <= ts && ts <= e {
									classSet["row-inside-family-of-previous-use(other-type)"] = true
								}
							}
						}
					}
				}
			}
			if handed != batch.Len() || len(want) != 0 {
				t.Fatalf("interval %s: %d rows in the batch, %d handed out, never handed out: %v", db.iv, batch.Len(), handed, want)
			}
			switch {
			case prev == nil:
				classSet["use=first-of-object"] = true
			case prev.typ == typ:
				classSet["use=reuse-same-interval-type"] = true
			default:
				classSet["use=reuse-other-interval-type"] = true
				classSet[fmt.Sprintf("reuse:%s->%s", prev.typ, typ)] = true
				nonTrivial = true
			}
			if len(use.families) >= 2 {
				classSet["use-with>=2-families"] = true
			}
			history[batch] = use
			log = append(log, fmt.Sprintf("write(%s,%d shards)", db.iv, db.shards))
			batch.Release()
			sl.batch = nil
		}

		steps := rapid.IntRange(4, 12).Draw(t, "steps")
		for i := 0; i < steps; i++ {
			sl := &slots[rapid.IntRange(0, len(slots)-1).Draw(t, "slot")]
			if sl.batch == nil {
				acquire(sl)
				if len(slots) == 2 && slots[0].batch != nil && slots[1].batch != nil {
					classSet["two-batches-in-flight"] = true
				}
			} else {
				write(sl, dbs[rapid.IntRange(0, nDB-1).Draw(t, "db")])
			}
		}
		for i := range slots {
			if slots[i].batch != nil {
				write(&slots[i], dbs[rapid.IntRange(0, nDB-1).Draw(t, "db")])
			}
		}

		var classes []string
		for c := range classSet {
			classes = append(classes, c)
		}
		sort.Strings(classes)
		var ivs []string
		for _, d := range dbs {
			ivs = append(ivs, d.iv.String())
		}
		ev.Case("TestBrokerBatchFamilies", fmt.Sprintf("%v/%d/%v", ivs, anchor, log), nonTrivial, classes,
			map[string]any{"intervals": ivs, "anchor": time.UnixMilli(anchor).UTC().Format(time.RFC3339Nano), "history": log})
	})
}

// e2s: the family length used to step to neighbouring families of a type (a month is stepped by
// 31 days from the anchor, which lands in the next or the one after; both are fine here).
func e2s(typ timeutil.IntervalType) int64 {
	switch typ {
	case timeutil.Day:
		return hour
	case timeutil.Month:
		return dayL
	default:
		return 31 * dayL
	}
}

// rowTag returns the value of the "row" tag of a broker row.
func rowTag(row *metric.BrokerRow) string {
	m := row.Metric()
	for i := 0; i < m.KeyValuesLength(); i++ {
		var kv flatMetricsV1.KeyValue
		if m.KeyValues(&kv, i) && string(kv.Key()) == "row" {
			return string(kv.Value())
		}
	}
	return ""
}

// primeBatch runs one unchecked use (one row in 1970, 10s database, one shard) on a batch object
// and releases it to the pool.
func primeBatch(t *rapid.T, conv *metric.BrokerRowProtoConverter, batch *metric.BrokerBatchRows) {
	m := &protoMetricsV1.Metric{
		Name: "prime", Timestamp: 1,
		SimpleFields: []*protoMetricsV1.SimpleField{{Name: "f", Type: protoMetricsV1.SimpleFieldType_DELTA_SUM, Value: 1}},
	}
	if err := batch.TryAppend(func(row *metric.BrokerRow) error { return conv.ConvertTo(m, row) }); err != nil {
		t.Fatalf("harness: converter rejected the metric: %v", err)
	}
	it := batch.NewShardGroupIterator(1)
	for it.HasRowsForNextShard() {
		_, famIt := it.FamilyRowsForNextShard(timeutil.Interval(10 * sec))
		for famIt.HasNextFamily() {
			famIt.NextFamily()
		}
	}
	batch.Release()
}
