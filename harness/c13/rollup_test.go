package c13

import (
	"encoding/binary"
	"fmt"
	"os"
	"path/filepath"
	"runtime"
	"sort"
	"strconv"
	"strings"
	"sync"
	"testing"
	"time"

	"pgregory.net/rapid"

	"github.com/lindb/lindb/kv"
	"github.com/lindb/lindb/pkg/timeutil"
	"github.com/lindb/lindb/verifharness/sim/ev"
)

// ---- bucketing BETWEEN two intervals: the rollup arithmetic ----------------------------------------
//
// A point that was bucketed under the source (writable) interval of a database is re-bucketed
// under every coarser interval of the database by the rollup job (kv/family_rollup.go): the job
// derives the start of the source family from the names of the source store and family, picks the
// target store (segment) and target family for it, and hands a kv.Rollup object to the merger of
// the target family; the metric data merger places source slot s at BaseSlot() + s/IntervalRatio()
// of the target family and sizes the output with CalcSlot(GetTimestamp(s)).
//
// C13 says that a timestamp belongs to exactly one segment, family and slot of every interval. The
// statement has to commute with the rollup: whatever the production rollup arithmetic derives from
// (source interval, source store name, source family name, source slot) must be the segment, family
// and slot that the calendar assigns to the timestamp under the target interval.
//
// TestRollupBuckets drives the production job (family.rollup through kv.VerifRollup) over real kv
// stores that are named the way tsdb names segment stores; the families use a merger of the
// harness that captures the kv.Rollup object the job built and writes a marker into the target
// family it was built for. Everything the oracle compares with comes from time.Date arithmetic.

const rollupProbeMerger = "c13-rollup-probe"

// sigRatioWraps (repaired in /repo by 4598c08, kept as a regression test): kv rollup.IntervalRatio()
// returned uint16(target/source); for target/source >= 65536 the value wrapped, and when the wrapped
// value was not above the last slot of the source family the merger sent the later source slots one
// target slot too far (1s -> 19h: 68400 wrapped to 2864, source slots 2864.. of the hour).
const sigRatioWraps = "C13/rollup-interval-ratio-wraps-uint16"

type rollupCapture struct {
	id     uint32
	r      kv.Rollup
	merged []uint32 // keys merged by the job that got this rollup object
}

var (
	rollupProbeOnce sync.Once
	rollupProbeMu   sync.Mutex
	rollupCaptures  []*rollupCapture // reset by every case; written by the rollup goroutine of the case
)

type rollupProbe struct {
	flusher kv.Flusher
	cap     *rollupCapture
}

func (m *rollupProbe) Init(params map[string]interface{}) {
	if r, ok := params[kv.RollupContext].(kv.Rollup); ok {
		rollupProbeMu.Lock()
		m.cap = &rollupCapture{id: uint32(len(rollupCaptures)), r: r}
		rollupCaptures = append(rollupCaptures, m.cap)
		rollupProbeMu.Unlock()
	}
}

// Merge writes, under the key of the source family, the id of the captured rollup object: the
// target family that ends up holding the marker is the family the job built the object for.
func (m *rollupProbe) Merge(key uint32, _ [][]byte) error {
	out := make([]byte, 4)
	id := ^uint32(0) // a merge without rollup context (plain compaction) - never triggered here
	if m.cap != nil {
		id = m.cap.id
		rollupProbeMu.Lock()
		m.cap.merged = append(m.cap.merged, key)
		rollupProbeMu.Unlock()
	}
	binary.BigEndian.PutUint32(out, id)
	return m.flusher.Add(key, out)
}

func registerRollupProbe() {
	rollupProbeOnce.Do(func() {
		kv.RegisterMerger(rollupProbeMerger, func(flusher kv.Flusher) (kv.Merger, error) {
			return &rollupProbe{flusher: flusher}, nil
		})
	})
}

// ---- input domain ------------------------------------------------------------------------------------

func divisorsBetween(n, lo, hi int64) (rs []int64) {
	for d := lo; d <= hi; d++ {
		if n%d == 0 {
			rs = append(rs, d)
		}
	}
	return rs
}

var (
	// day-type source intervals (< 5 min) whose slots tile the one-hour family
	daySources = divisorsBetween(3600, 1, 299)
	// month-type intervals ([5 min, 1 h)) that tile the hour (targets of a day-type source)
	monthOfHour = divisorsBetween(3600, 300, 3599)
	// month-type intervals that tile the day (sources of a year-type target)
	monthOfDay = divisorsBetween(86400, 300, 3599)
)

func secondsInterval(t failer, secs int64) timeutil.Interval {
	var iv timeutil.Interval
	var s string
	switch {
	case secs%86400 == 0:
		s = fmt.Sprintf("%dd", secs/86400)
	case secs%3600 == 0:
		s = fmt.Sprintf("%dh", secs/3600)
	case secs%60 == 0:
		s = fmt.Sprintf("%dm", secs/60)
	default:
		s = fmt.Sprintf("%ds", secs)
	}
	if err := iv.ValueOf(s); err != nil || iv.Int64() != secs*sec {
		t.Fatalf("harness: interval %q: %v (%d)", s, err, iv)
	}
	return iv
}

// refType is the interval type by the documented thresholds (< 5 min, < 1 h, else).
func refType(iv timeutil.Interval) timeutil.IntervalType {
	switch {
	case iv.Int64() < 5*min:
		return timeutil.Day
	case iv.Int64() < hour:
		return timeutil.Month
	default:
		return timeutil.Year
	}
}

// refSegmentName / refFamilyNo: how tsdb names the kv store of a segment and the kv family of a
// data family (day: yyyymmdd / hour, month: yyyymm / day of month, year: yyyy / month).
func refSegmentName(typ timeutil.IntervalType, ts int64) string {
	tm := time.UnixMilli(ts).UTC()
	switch typ {
	case timeutil.Day:
		return tm.Format("20060102")
	case timeutil.Month:
		return tm.Format("200601")
	default:
		return tm.Format("2006")
	}
}

func refFamilyNo(typ timeutil.IntervalType, ts int64) int {
	tm := time.UnixMilli(ts).UTC()
	switch typ {
	case timeutil.Day:
		return tm.Hour()
	case timeutil.Month:
		return tm.Day()
	default:
		return int(tm.Month())
	}
}

type rollupPlan struct {
	source  timeutil.Interval
	targets []timeutil.Interval // ascending, distinct types, each coarser than the source type
}

// genRollupPlan draws the intervals of a database with automatic rollup: source = the smallest
// (writable) interval, targets = the others (tsdb/segment.go: StoreOption.Rollup = intervals[1:]).
// Domain = the configurations for which re-bucketing is well defined at all: the source slots tile
// the source family, every target is a whole multiple of the source, and a source family either
// starts on a target slot boundary or lies inside one target slot (month-type targets tile the hour,
// year-type targets are whole hours resp. tile or are tiled by the day). The option validator
// accepts other combinations too; nothing claims that they roll up exactly (C04 excludes them as well).
func genRollupPlan(t *rapid.T) rollupPlan {
	var p rollupPlan
	yearTarget := func(unit int64, src int64) int64 { // seconds; a whole number of `unit` (hour | day)
		switch rapid.IntRange(0, 9).Draw(t, "yearKind") {
		case 0, 1, 2, 3, 4:
			if unit == 3600 {
				return 3600 * rapid.SampledFrom([]int64{1, 1, 2, 3, 4, 6, 8, 12, 24}).Draw(t, "yearCommonH")
			}
			return 86400
		case 5, 6:
			if unit == 3600 {
				return 3600 * rapid.Int64Range(1, 48).Draw(t, "yearH")
			}
			return 86400 * rapid.Int64Range(1, 3).Draw(t, "yearD")
		case 7, 8:
			return 86400 * rapid.Int64Range(1, 31).Draw(t, "yearD")
		default:
			return 86400 * rapid.SampledFrom([]int64{30, 60, 365}).Draw(t, "yearBig") // 1M, 2M, 1y
		}
	}
	if rapid.IntRange(0, 4).Draw(t, "sourceType") > 0 {
		var s int64
		if rapid.IntRange(0, 2).Draw(t, "sourceCommon") > 0 {
			s = rapid.SampledFrom([]int64{1, 5, 10, 10, 15, 30, 60, 120}).Draw(t, "sourceS")
		} else {
			s = rapid.SampledFrom(daySources).Draw(t, "sourceS")
		}
		p.source = secondsInterval(t, s)
		var months []int64
		for _, m := range monthOfHour {
			if m%s == 0 {
				months = append(months, m)
			}
		}
		kind := rapid.IntRange(0, 2).Draw(t, "targets") // 0 month, 1 year, 2 both
		if len(months) == 0 {
			kind = 1
		}
		if kind != 1 {
			p.targets = append(p.targets, secondsInterval(t, rapid.SampledFrom(months).Draw(t, "targetMonth")))
		}
		if kind != 0 {
			p.targets = append(p.targets, secondsInterval(t, yearTarget(3600, s)))
		}
	} else {
		s := rapid.SampledFrom(monthOfDay).Draw(t, "sourceS")
		if rapid.Bool().Draw(t, "sourceCommon") {
			s = rapid.SampledFrom([]int64{300, 600, 900, 1800}).Draw(t, "sourceCommonS")
		}
		p.source = secondsInterval(t, s)
		var hours []int64 // whole hours that tile the day and are multiples of the source
		for _, h := range divisorsBetween(86400, 3600, 86400) {
			if h%s == 0 && h%3600 == 0 {
				hours = append(hours, h)
			}
		}
		if len(hours) > 0 && rapid.Bool().Draw(t, "targetTilesDay") {
			p.targets = append(p.targets, secondsInterval(t, rapid.SampledFrom(hours).Draw(t, "targetYear")))
		} else {
			p.targets = append(p.targets, secondsInterval(t, yearTarget(86400, s)))
		}
	}
	return p
}

// genRollupFamilies draws 1-3 source families (start times) clustered around one boundary-biased
// anchor: the family of the anchor and neighbours up to 3 families away (so that hour / day /
// month / year changes between them occur).
func genRollupFamilies(t *rapid.T, typ timeutil.IntervalType) []int64 {
	anchor := genTimestamp(t, "anchor")
	start, _ := refFamily(typ, anchor)
	set := map[int64]bool{start: true}
	n := rapid.IntRange(1, 3).Draw(t, "nSourceFamilies")
	for i := 1; i < n; i++ {
		f := start
		steps := rapid.IntRange(-3, 3).Draw(t, "neighbour")
		for ; steps < 0; steps++ {
			f, _ = refFamily(typ, f-1)
		}
		for ; steps > 0; steps-- {
			_, e := refFamily(typ, f)
			f = e + 1
		}
		set[f] = true
	}
	var rs []int64
	for f := range set {
		rs = append(rs, f)
	}
	sort.Slice(rs, func(i, j int) bool { return rs[i] < rs[j] })
	return rs
}

// ---- the oracle for one (source family, target) ----------------------------------------------------

// checkRollupObject compares everything the production rollup object answers for the source family
// starting at srcStart with the calendar. It returns the base slot by the calendar.
func checkRollupObject(t failer, r kv.Rollup, source, target timeutil.Interval, srcStart int64) (wantBase int64) {
	S, T := source.Int64(), target.Int64()
	_, srcEnd := refFamily(refType(source), srcStart)
	tStart, tEnd := refFamily(refType(target), srcStart)
	where := func() string {
		return fmt.Sprintf("rollup %s -> %s of the source family starting %s (target family by the calendar: %s .. %s)",
			source, target, fmtMs(srcStart), fmtMs(tStart), fmtMs(tEnd))
	}
	if srcEnd > tEnd {
		t.Fatalf("harness: source family ends after the target family: %s", where())
	}
	ratio := int64(r.IntervalRatio())
	if T/S <= 65535 && ratio != T/S {
		t.Fatalf("%s: IntervalRatio() = %d, target/source = %d", where(), ratio, T/S)
	}
	// target/source > 65535 is not representable in the uint16 of kv.Rollup; what the merger needs
	// then is slot/ratio == 0 for every slot of the source family (checked below for every slot).
	if ratio == 0 {
		t.Fatalf("%s: IntervalRatio() = 0", where())
	}
	wantBase = (srcStart - tStart) / T
	base := int64(r.BaseSlot())
	if base != wantBase {
		t.Fatalf("%s: BaseSlot() = %d, the source family starts in slot %d of the target family", where(), base, wantBase)
	}
	calc := target.Calculator()
	nSlots := (srcEnd + 1 - srcStart) / S
	if nSlots > 65536 {
		t.Fatalf("harness: %d source slots", nSlots)
	}
	for s := int64(0); s < nSlots; s++ {
		ts := r.GetTimestamp(uint16(s))
		if ts != srcStart+s*S {
			t.Fatalf("%s: GetTimestamp(%d) = %d (%s), source slot %d starts at %d (%s)", where(), s, ts, fmtMs(ts), s, srcStart+s*S, fmtMs(srcStart+s*S))
		}
		want := (ts - tStart) / T // the one slot of the target family the timestamp floors into
		// the merger's placement of source slot s
		if got := base + int64(uint16(s)/uint16(ratio)); got != want {
			t.Fatalf("%s: source slot %d (%s) is placed at BaseSlot()+slot/IntervalRatio() = %d+%d/%d = %d, its timestamp lies in target slot %d",
				where(), s, fmtMs(ts), base, s, ratio, got, want)
		}
		// every millisecond of the source slot maps to that target slot and no other
		for _, x := range []int64{ts, ts + S - 1} {
			if got := int64(r.CalcSlot(x)); got != want {
				t.Fatalf("%s: CalcSlot(%d = %s) = %d, the timestamp (source slot %d) lies in target slot %d", where(), x, fmtMs(x), got, s, want)
			}
			// ... and it is the slot, in the family, that the target interval's calculator assigns directly
			if f := calc.CalcFamilyTime(x); f != tStart {
				t.Fatalf("%s: the target calculator puts %s into the family starting %s", where(), fmtMs(x), fmtMs(f))
			}
			if got := int64(calc.CalcSlot(x, tStart, T)); got != want {
				t.Fatalf("%s: the target calculator puts %s into slot %d, want %d", where(), fmtMs(x), got, want)
			}
		}
	}
	return wantBase
}

func waitRollupJob(f kv.Family) {
	kv.VerifWaitIdle(f)
	for !kv.VerifRollupIdle(f) {
		runtime.Gosched()
	}
}

func TestRollupBuckets(t *testing.T) {
	registerRollupProbe()
	rapid.Check(t, func(t *rapid.T) {
		p := genRollupPlan(t)
		srcType := refType(p.source)
		fams := genRollupFamilies(t, srcType)
		runRollupCase(t, p, fams, "TestRollupBuckets")
	})
}

type rollupTB interface {
	failer
	Logf(format string, args ...any)
}

func runRollupCase(t rollupTB, p rollupPlan, fams []int64, group string) {
	srcType := refType(p.source)
	dir, err := os.MkdirTemp("", "c13r-")
	if err != nil {
		t.Fatalf("harness: %v", err)
	}
	defer os.RemoveAll(dir)
	base := filepath.Join(dir, "data", "db", "shard", "0", "segment")
	rollupProbeMu.Lock()
	rollupCaptures = nil
	rollupProbeMu.Unlock()

	var opened []string
	defer func() {
		for _, name := range opened {
			_ = kv.GetStoreManager().CloseStore(name)
		}
	}()
	open := func(name string, opt kv.StoreOption) kv.Store {
		if st, ok := kv.GetStoreManager().GetStoreByName(name); ok {
			return st
		}
		st, err := kv.GetStoreManager().CreateStore(name, opt)
		if err != nil {
			t.Fatalf("harness: create store %s: %v", name, err)
		}
		opened = append(opened, name)
		return st
	}
	srcOpt := kv.DefaultStoreOption()
	srcOpt.Source = p.source
	srcOpt.Rollup = append([]timeutil.Interval(nil), p.targets...)

	type srcFam struct {
		start  int64
		key    uint32
		family kv.Family
	}
	var sources []srcFam
	targetStores := map[string]kv.Store{} // every target segment store a writer of these families opens
	for i, f := range fams {
		// tsdb.shard.GetOrCrateDataFamily: source segment, the segment of every rollup target, then the family
		st := open(filepath.Join(base, string(srcType), refSegmentName(srcType, f)), srcOpt)
		for _, target := range p.targets {
			name := filepath.Join(base, string(refType(target)), refSegmentName(refType(target), f))
			targetStores[name] = open(name, kv.DefaultStoreOption())
		}
		famName := strconv.Itoa(refFamilyNo(srcType, f))
		family := st.GetFamily(famName)
		if family == nil {
			if family, err = st.CreateFamily(famName, kv.FamilyOption{Merger: rollupProbeMerger}); err != nil {
				t.Fatalf("harness: create family: %v", err)
			}
		}
		sources = append(sources, srcFam{start: f, key: uint32(i + 1), family: family})
	}
	// one flushed file per source family (the flush registers it for every rollup target)
	for _, s := range sources {
		fl := s.family.NewFlusher()
		if err := fl.Add(s.key, []byte{1}); err != nil {
			t.Fatalf("harness: flush: %v", err)
		}
		if err := fl.Commit(); err != nil {
			t.Fatalf("harness: flush: %v", err)
		}
		fl.Release()
	}
	for _, s := range sources {
		kv.VerifRollup(s.family)
		waitRollupJob(s.family)
	}
	rollupProbeMu.Lock()
	captures := append([]*rollupCapture(nil), rollupCaptures...)
	rollupProbeMu.Unlock()

	// where did the jobs put the data: target store (segment) -> family -> source key -> capture id
	type place struct{ store, family string }
	found := map[uint32]map[place]uint32{}
	for name, st := range targetStores {
		for _, famName := range st.ListFamilyNames() {
			family := st.GetFamily(famName)
			snap := family.GetSnapshot()
			for _, s := range sources {
				key := s.key
				if err := snap.Load(key, func(value []byte) error {
					if len(value) != 4 {
						return fmt.Errorf("marker of %d bytes", len(value))
					}
					if found[key] == nil {
						found[key] = map[place]uint32{}
					}
					found[key][place{name, famName}] = binary.BigEndian.Uint32(value)
					return nil
				}); err != nil {
					snap.Close()
					t.Fatalf("read target family %s/%s: %v", name, famName, err)
				}
			}
			snap.Close()
		}
	}

	classSet := map[string]bool{fmt.Sprintf("pair=%s->%s", srcType, typesOf(p.targets)): true}
	nontrivial := false
	used := map[uint32]bool{}
	for _, s := range sources {
		for _, target := range p.targets {
			tt := refType(target)
			want := place{filepath.Join(base, string(tt), refSegmentName(tt, s.start)), strconv.Itoa(refFamilyNo(tt, s.start))}
			id, ok := found[s.key][want]
			if !ok {
				t.Fatalf("rollup %s -> %s: the source family starting %s (store %s/%s family %d) was not rolled up into family %s of the target segment %s/%s; its data is in %v",
					p.source, target, fmtMs(s.start), srcType, refSegmentName(srcType, s.start), refFamilyNo(srcType, s.start),
					want.family, tt, refSegmentName(tt, s.start), relPlaces(base, found[s.key]))
			}
			if int(id) >= len(captures) || used[id] {
				t.Fatalf("harness: marker %d of key %d (captures %d, used %v)", id, s.key, len(captures), used[id])
			}
			used[id] = true
			wantBase := checkRollupObject(t, captures[id].r, p.source, target, s.start)
			delete(found[s.key], want)

			// evidence classes: where does the source family lie in the target family
			tStart, tEnd := refFamily(tt, s.start)
			_, sEnd := refFamily(srcType, s.start)
			if wantBase > 0 {
				nontrivial = true
				classSet["source-family-not-first-of-target-family"] = true
			} else {
				classSet["source-family-in-target-slot-0"] = true
			}
			if s.start == tStart {
				classSet["source-family-starts-target-family"] = true
			}
			if sEnd == tEnd {
				classSet["source-family-ends-target-family"] = true
			}
			if (s.start-tStart)/p.source.Int64() > 65535 {
				classSet["source-family-more-than-65535-source-slots-into-target-family"] = true
			}
			if target.Int64()/p.source.Int64() > 65535 {
				classSet["target/source-exceeds-uint16"] = true
			}
			if tt == timeutil.Year {
				day := time.UnixMilli(s.start).UTC().Day()
				switch {
				case day <= 8:
					classSet["year-target:day-of-month=1..8"] = true
				case day <= 28:
					classSet["year-target:day-of-month=9..28"] = true
				default:
					classSet["year-target:day-of-month=29..31"] = true
				}
			}
		}
		if len(found[s.key]) > 0 {
			t.Fatalf("rollup %s -> %v: data of the source family starting %s also landed in %v", p.source, p.targets, fmtMs(s.start), relPlaces(base, found[s.key]))
		}
		tm := time.UnixMilli(s.start).UTC()
		if tm.Month() == time.February && tm.Day() == 29 {
			classSet["leap-day"] = true
		}
		if tm.Day() == daysIn(tm.Year(), tm.Month()) {
			classSet["last-day-of-month"] = true
			if tm.Month() == time.December {
				classSet["last-day-of-year"] = true
			}
		}
		if tm.Day() == 1 {
			classSet["first-day-of-month"] = true
		}
	}
	if len(captures) != len(sources)*len(p.targets) {
		t.Fatalf("rollup %s -> %v of %d source families built %d rollup objects, want one per (family, target)", p.source, p.targets, len(sources), len(captures))
	}
	if len(sources) > 1 {
		classSet["source-families>=2"] = true
		if refSegmentName(srcType, sources[0].start) != refSegmentName(srcType, sources[len(sources)-1].start) {
			classSet["source-families-in-different-segments"] = true
		}
		for _, target := range p.targets {
			tt := refType(target)
			a, _ := refFamily(tt, sources[0].start)
			b, _ := refFamily(tt, sources[len(sources)-1].start)
			if a != b {
				classSet["source-families-in-different-target-families"] = true
			}
			if refSegmentName(tt, a) != refSegmentName(tt, b) {
				classSet["source-families-in-different-target-segments"] = true
			}
		}
	}
	classSet[fmt.Sprintf("targets=%d", len(p.targets))] = true
	var classes []string
	for c := range classSet {
		classes = append(classes, c)
	}
	sort.Strings(classes)
	var famStr []string
	for _, s := range sources {
		famStr = append(famStr, fmtMs(s.start))
	}
	ev.Case(group, fmt.Sprintf("%d/%v/%v", p.source, p.targets, fams), nontrivial, classes,
		map[string]any{"source": p.source.String(), "targets": fmt.Sprint(p.targets), "sourceFamilies": famStr})
}

func typesOf(targets []timeutil.Interval) string {
	s := ""
	for i, target := range targets {
		if i > 0 {
			s += "+"
		}
		s += string(refType(target))
	}
	return s
}

func relPlaces[P comparable, V any](base string, m map[P]V) string {
	var rs []string
	for p := range m {
		rs = append(rs, fmt.Sprint(p))
	}
	sort.Strings(rs)
	return strings.ReplaceAll(fmt.Sprint(rs), base+string(filepath.Separator), "")
}

// TestRegression_RollupIntervalRatioWraps: database intervals 1s (source) and 19h (year-type rollup
// target), source family 2015-01-01 00:00; 1s -> 22d likewise. target/source = 68400 does not fit the
// uint16 returned by kv rollup.IntervalRatio(): it wrapped to 2864, so the merger
// (BaseSlot()+slot/IntervalRatio()) put the source slots 2864..3599 of the hour (00:47:44 ..) into
// target slot 1 (19:00) although the whole hour lies in target slot 0 (outside the output range of
// the job: the points were dropped from the rollup). Repaired by 4598c08 (clamp to MaxUint16, see
// proposed_fix_rollup_interval_ratio_uint16.diff); fails if the defect returns.
func TestRegression_RollupIntervalRatioWraps(t *testing.T) {
	registerRollupProbe()
	for _, target := range []int64{19 * hour, 22 * dayL} {
		p := rollupPlan{source: timeutil.Interval(1 * sec), targets: []timeutil.Interval{timeutil.Interval(target)}}
		for _, fam := range []time.Time{time.Date(2015, 1, 1, 0, 0, 0, 0, time.UTC), time.Date(2024, 2, 29, 23, 0, 0, 0, time.UTC)} {
			runRollupCase(regressionTB{t}, p, []int64{fam.UnixMilli()}, "TestRegression_RollupIntervalRatioWraps")
		}
	}
}

type regressionTB struct{ *testing.T }

func (r regressionTB) Fatalf(format string, args ...any) {
	r.T.Helper()
	r.T.Fatalf(sigRatioWraps+": "+format, args...)
}
