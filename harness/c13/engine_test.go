package c13

import (
	"fmt"
	"os"
	"sort"
	"sync/atomic"
	"testing"
	"time"

	"github.com/lindb/common/pkg/logger"
	"pgregory.net/rapid"

	"github.com/lindb/lindb/models"
	"github.com/lindb/lindb/pkg/timeutil"
	"github.com/lindb/lindb/verifharness/sim/ev"
	"github.com/lindb/lindb/verifharness/sim/node"
)

func init() {
	_ = logger.RunningAtomicLevel.UnmarshalText([]byte("fatal"))
}

var engineDBSeq atomic.Int64

// TestEngineFamilies: engine level. Shard.GetOrCrateDataFamily(t) returns a family whose time
// range contains t (and is the range the calculator gives), and Shard.GetDataFamilies(range)
// returns exactly the existing families whose time range intersects the INCLUSIVE requested range
// (lindb query ranges include the slot at End). Written timestamps and the ends of the ranges are
// biased to family boundaries taken from the calendar: first / last millisecond of an existing or
// neighbouring family (also the first family of a segment), one ms and one slot around them,
// interval-truncated ends (slot 0 of a family) and single-millisecond ranges.
func TestEngineFamilies(t *testing.T) {
	rapid.Check(t, func(t *rapid.T) {
		typ := genIntervalType(t)
		var iv timeutil.Interval
		switch typ {
		case timeutil.Day:
			iv = timeutil.Interval(rapid.SampledFrom([]int64{1, 10, 30, 60}).Draw(t, "ivS") * sec)
		case timeutil.Month:
			iv = timeutil.Interval(rapid.SampledFrom([]int64{5, 10, 30}).Draw(t, "ivM") * min)
		default:
			iv = timeutil.Interval(rapid.SampledFrom([]int64{1, 4, 24}).Draw(t, "ivH") * hour)
		}
		calc := iv.Calculator()
		dir, err := os.MkdirTemp("", "c13e-")
		if err != nil {
			t.Fatalf("harness: %v", err)
		}
		defer os.RemoveAll(dir)
		n, err := node.Start(dir)
		if err != nil {
			t.Fatalf("harness: %v", err)
		}
		defer n.Close()
		db := fmt.Sprintf("c13db%d", engineDBSeq.Add(1))
		if err := n.CreateDB(db, node.DBOption(iv), 0); err != nil {
			t.Fatalf("harness: %v", err)
		}
		shard, _ := n.Shard(db, models.ShardID(0))

		// timestamps clustered around one anchor so that neighbouring families/segments occur
		anchor := genTimestamp(t, "anchor")
		var unit int64
		switch typ {
		case timeutil.Day:
			unit = hour
		case timeutil.Month:
			unit = dayL
		default:
			unit = 31 * dayL
		}
		nTs := rapid.IntRange(1, 6).Draw(t, "nTimestamps")
		type fam struct{ start, end int64 }
		existing := map[int64]fam{}
		var stamps []int64
		for i := 0; i < nTs; i++ {
			ts := anchor + rapid.Int64Range(-3, 3).Draw(t, "famOffset")*unit + rapid.Int64Range(0, unit-1).Draw(t, "inFam")
			// a third of the written timestamps are the first / last millisecond of their family
			switch rapid.IntRange(0, 5).Draw(t, "stampAt") {
			case 0:
				ts, _ = refFamily(typ, ts)
			case 1:
				_, ts = refFamily(typ, ts)
			}
			f, err := shard.GetOrCrateDataFamily(ts)
			if err != nil {
				t.Fatalf("GetOrCrateDataFamily(%d): %v", ts, err)
			}
			tr := f.TimeRange()
			if !(tr.Start <= ts && ts <= tr.End) {
				t.Fatalf("interval %s: family of timestamp %d has range [%d,%d]", iv, ts, tr.Start, tr.End)
			}
			if tr.Start != calc.CalcFamilyTime(ts) || tr.End != calc.CalcFamilyEndTime(tr.Start) {
				t.Fatalf("interval %s: family of %d has range [%d,%d], calculator says [%d,%d]", iv, ts, tr.Start, tr.End, calc.CalcFamilyTime(ts), calc.CalcFamilyEndTime(calc.CalcFamilyTime(ts)))
			}
			existing[tr.Start] = fam{tr.Start, tr.End}
			stamps = append(stamps, ts)
		}
		nQ := rapid.IntRange(1, 6).Draw(t, "nRanges")
		spanned := false
		classSet := map[string]bool{"type=" + typ.String(): true}
		// genEndpoint draws one end of a query range. Kind 0 is anywhere in a neighbouring family;
		// kind 1 is truncated to the storage interval the way the planner aligns ranges (so it can
		// fall on slot 0 of a family); kind 2 sits on or next to a family boundary: first ms,
		// last ms, one ms and one slot around it, of the family of a written timestamp or of a
		// neighbouring (possibly not existing, possibly other-segment) family. The boundaries come
		// from the calendar (refFamily), not from the calculator under test.
		genEndpoint := func(label string) int64 {
			base := anchor + rapid.Int64Range(-4, 3).Draw(t, label+"Fam")*unit + rapid.Int64Range(0, unit-1).Draw(t, label+"In")
			switch rapid.IntRange(0, 3).Draw(t, label+"Kind") {
			case 0:
				return base
			case 1:
				return base - base%iv.Int64()
			default:
				if rapid.Bool().Draw(t, label+"OfStamp") {
					base = stamps[rapid.IntRange(0, len(stamps)-1).Draw(t, label+"Stamp")]
					// the family itself or the one before / after it
					s, e := refFamily(typ, base)
					switch rapid.IntRange(0, 3).Draw(t, label+"Nb") {
					case 0:
						base = s - 1
					case 1:
						base = e + 1
					}
				}
				s, e := refFamily(typ, base)
				return rapid.SampledFrom([]int64{s, s, s - 1, s + 1, e, e, e - 1, e + 1, s + iv.Int64(), s - iv.Int64(), e + 1 - iv.Int64()}).Draw(t, label+"At")
			}
		}
		for q := 0; q < nQ; q++ {
			a := genEndpoint("qStart")
			var b int64
			switch rapid.IntRange(0, 5).Draw(t, "qEndKind") {
			case 0: // a single millisecond (one slot after planner truncation)
				b = a
			case 1:
				b = a + rapid.Int64Range(0, 5*unit).Draw(t, "qSpan")
			default:
				b = genEndpoint("qEnd")
			}
			if b < a {
				a, b = b, a
			}
			var want []int64
			for s, f := range existing {
				if f.start <= b && f.end >= a {
					want = append(want, s)
				}
			}
			sort.Slice(want, func(i, j int) bool { return want[i] < want[j] })
			var got []int64
			for _, f := range shard.GetDataFamilies(iv.Type(), timeutil.TimeRange{Start: a, End: b}) {
				got = append(got, f.TimeRange().Start)
			}
			sort.Slice(got, func(i, j int) bool { return got[i] < got[j] })
			if fmt.Sprint(got) != fmt.Sprint(want) {
				t.Fatalf("interval %s: GetDataFamilies([%d,%d] = %s .. %s) returns families starting at %v, the existing families whose time range intersects the inclusive range start at %v (existing: %v, written timestamps %v)",
					iv, a, b, fmtMs(a), fmtMs(b), got, want, existing, stamps)
			}
			if len(want) >= 2 {
				spanned = true
			}
			// evidence: where do the ends of the range lie relative to the families
			as, ae := refFamily(typ, a)
			bs, be := refFamily(typ, b)
			_, aExists := existing[as]
			_, bExists := existing[bs]
			if a == b {
				classSet["range=single-ms"] = true
			}
			if b == bs {
				classSet["range-end=family-start"] = true
				if bExists {
					classSet["range-end=start-of-existing-family"] = true
				}
				if refSegment(typ, b) == b {
					classSet["range-end=segment-start"] = true
				}
			}
			if b == be {
				classSet["range-end=family-end"] = true
			}
			if a == ae {
				classSet["range-start=family-end"] = true
				if aExists {
					classSet["range-start=end-of-existing-family"] = true
				}
			}
			if a == as {
				classSet["range-start=family-start"] = true
			}
			if b%iv.Int64() == 0 && b-bs < iv.Int64() {
				classSet["range-end-in-slot0"] = true
			}
			if refSegment(typ, a) != refSegment(typ, b) {
				classSet["range-crosses-segment"] = true
			}
			if len(want) == 0 {
				classSet["range-matches-no-family"] = true
			}
		}
		var classes []string
		for c := range classSet {
			classes = append(classes, c)
		}
		sort.Strings(classes)
		ev.Case("TestEngineFamilies", fmt.Sprintf("%d/%v/%d", iv, stamps, anchor), spanned, classes,
			map[string]any{"interval": iv.String(), "timestamps": stamps, "families": len(existing)})
	})
}

// TestRegression_RangeStartingInPreviousMonth: 5m-interval database (month-type calculator), one
// family on 2015-01-01, range 2014-12-31 .. 2015-01-01 00:00: the family must be returned.
func TestRegression_RangeStartingInPreviousMonth(t *testing.T) {
	dir, err := os.MkdirTemp("", "c13r-")
	if err != nil {
		t.Fatal(err)
	}
	defer os.RemoveAll(dir)
	n, err := node.Start(dir)
	if err != nil {
		t.Fatal(err)
	}
	defer n.Close()
	db := fmt.Sprintf("c13db%d", engineDBSeq.Add(1))
	iv := timeutil.Interval(5 * min)
	if err := n.CreateDB(db, node.DBOption(iv), 0); err != nil {
		t.Fatal(err)
	}
	shard, _ := n.Shard(db, models.ShardID(0))
	ts := int64(1420070400000) // 2015-01-01 00:00:00 UTC
	if _, err := shard.GetOrCrateDataFamily(ts); err != nil {
		t.Fatal(err)
	}
	got := shard.GetDataFamilies(iv.Type(), timeutil.TimeRange{Start: ts - dayL, End: ts + hour})
	if len(got) != 1 || got[0].TimeRange().Start != ts {
		t.Fatalf("C13/range-starting-in-previous-segment: GetDataFamilies(2014-12-31 .. 2015-01-01 01:00) returns %d families, want the family of 2015-01-01", len(got))
	}
}

// ---- calendar reference (independent of the interval calculators) ------------------------------

// refFamily is the family [start,end] of a timestamp by the calendar: one family per hour for
// the day type, per day for the month type, per month for the year type.
func refFamily(typ timeutil.IntervalType, ts int64) (start, end int64) {
	tm := time.UnixMilli(ts).UTC()
	var s, e time.Time
	switch typ {
	case timeutil.Day:
		s = time.Date(tm.Year(), tm.Month(), tm.Day(), tm.Hour(), 0, 0, 0, time.UTC)
		e = s.Add(time.Hour)
	case timeutil.Month:
		s = time.Date(tm.Year(), tm.Month(), tm.Day(), 0, 0, 0, 0, time.UTC)
		e = s.AddDate(0, 0, 1)
	default:
		s = time.Date(tm.Year(), tm.Month(), 1, 0, 0, 0, 0, time.UTC)
		e = s.AddDate(0, 1, 0)
	}
	return s.UnixMilli(), e.UnixMilli() - 1
}

// refSegment is the start of the segment of a timestamp: day / month / year.
func refSegment(typ timeutil.IntervalType, ts int64) int64 {
	tm := time.UnixMilli(ts).UTC()
	switch typ {
	case timeutil.Day:
		return time.Date(tm.Year(), tm.Month(), tm.Day(), 0, 0, 0, 0, time.UTC).UnixMilli()
	case timeutil.Month:
		return time.Date(tm.Year(), tm.Month(), 1, 0, 0, 0, 0, time.UTC).UnixMilli()
	default:
		return time.Date(tm.Year(), 1, 1, 0, 0, 0, 0, time.UTC).UnixMilli()
	}
}

func fmtMs(v int64) string { return time.UnixMilli(v).UTC().Format("2006-01-02T15:04:05.000Z") }
