package c13

import (
	"fmt"
	"os"
	"sort"
	"sync/atomic"
	"testing"

	"github.com/lindb/common/pkg/logger"
	"pgregory.net/rapid"

	"github.com/lindb/lindb/models"
	"github.com/lindb/lindb/pkg/timeutil"
	"github.com/lindb/lindb/verifharness/sim/ev"
	"github.com/lindb/lindb/verifharness/sim/node"
)

func init() {
	_ = logger.RunningAtomicLevel.UnmarshalText([]byte("fatal"))
}

var engineDBSeq atomic.Int64

// TestEngineFamilies: engine level. Shard.GetOrCrateDataFamily(t) returns a family whose time
// range contains t (and is the range the calculator gives), and Shard.GetDataFamilies(range)
// returns exactly the existing families whose range overlaps the requested range.
func TestEngineFamilies(t *testing.T) {
	rapid.Check(t, func(t *rapid.T) {
		typ := genIntervalType(t)
		var iv timeutil.Interval
		switch typ {
		case timeutil.Day:
			iv = timeutil.Interval(rapid.SampledFrom([]int64{1, 10, 30, 60}).Draw(t, "ivS") * sec)
		case timeutil.Month:
			iv = timeutil.Interval(rapid.SampledFrom([]int64{5, 10, 30}).Draw(t, "ivM") * min)
		default:
			iv = timeutil.Interval(rapid.SampledFrom([]int64{1, 4, 24}).Draw(t, "ivH") * hour)
		}
		calc := iv.Calculator()
		dir, err := os.MkdirTemp("", "c13e-")
		if err != nil {
			t.Fatalf("harness: %v", err)
		}
		defer os.RemoveAll(dir)
		n, err := node.Start(dir)
		if err != nil {
			t.Fatalf("harness: %v", err)
		}
		defer n.Close()
		db := fmt.Sprintf("c13db%d", engineDBSeq.Add(1))
		if err := n.CreateDB(db, node.DBOption(iv), 0); err != nil {
			t.Fatalf("harness: %v", err)
		}
		shard, _ := n.Shard(db, models.ShardID(0))

		// timestamps clustered around one anchor so that neighbouring families/segments occur
		anchor := genTimestamp(t, "anchor")
		var unit int64
		switch typ {
		case timeutil.Day:
			unit = hour
		case timeutil.Month:
			unit = dayL
		default:
			unit = 31 * dayL
		}
		nTs := rapid.IntRange(1, 6).Draw(t, "nTimestamps")
		type fam struct{ start, end int64 }
		existing := map[int64]fam{}
		var stamps []int64
		for i := 0; i < nTs; i++ {
			ts := anchor + rapid.Int64Range(-3, 3).Draw(t, "famOffset")*unit + rapid.Int64Range(0, unit-1).Draw(t, "inFam")
			f, err := shard.GetOrCrateDataFamily(ts)
			if err != nil {
				t.Fatalf("GetOrCrateDataFamily(%d): %v", ts, err)
			}
			tr := f.TimeRange()
			if !(tr.Start <= ts && ts <= tr.End) {
				t.Fatalf("interval %s: family of timestamp %d has range [%d,%d]", iv, ts, tr.Start, tr.End)
			}
			if tr.Start != calc.CalcFamilyTime(ts) || tr.End != calc.CalcFamilyEndTime(tr.Start) {
				t.Fatalf("interval %s: family of %d has range [%d,%d], calculator says [%d,%d]", iv, ts, tr.Start, tr.End, calc.CalcFamilyTime(ts), calc.CalcFamilyEndTime(calc.CalcFamilyTime(ts)))
			}
			existing[tr.Start] = fam{tr.Start, tr.End}
			stamps = append(stamps, ts)
		}
		nQ := rapid.IntRange(1, 4).Draw(t, "nRanges")
		spanned := false
		for q := 0; q < nQ; q++ {
			a := anchor + rapid.Int64Range(-4, 3).Draw(t, "qStartFam")*unit + rapid.Int64Range(0, unit-1).Draw(t, "qStartIn")
			b := a + rapid.Int64Range(0, 5*unit).Draw(t, "qSpan")
			var want []int64
			for s, f := range existing {
				if f.start <= b && f.end >= a {
					want = append(want, s)
				}
			}
			sort.Slice(want, func(i, j int) bool { return want[i] < want[j] })
			var got []int64
			for _, f := range shard.GetDataFamilies(iv.Type(), timeutil.TimeRange{Start: a, End: b}) {
				got = append(got, f.TimeRange().Start)
			}
			sort.Slice(got, func(i, j int) bool { return got[i] < got[j] })
			if fmt.Sprint(got) != fmt.Sprint(want) {
				t.Fatalf("interval %s: GetDataFamilies([%d,%d]) returns families starting at %v, the existing families overlapping the range start at %v (existing: %v, written timestamps %v)",
					iv, a, b, got, want, existing, stamps)
			}
			if len(want) >= 2 {
				spanned = true
			}
		}
		ev.Case("TestEngineFamilies", fmt.Sprintf("%d/%v/%d", iv, stamps, anchor), spanned, []string{"type=" + typ.String()},
			map[string]any{"interval": iv.String(), "timestamps": stamps, "families": len(existing)})
	})
}

// TestRegression_RangeStartingInPreviousMonth: 5m-interval database (month-type calculator), one
// family on 2015-01-01, range 2014-12-31 .. 2015-01-01 00:00: the family must be returned.
func TestRegression_RangeStartingInPreviousMonth(t *testing.T) {
	dir, err := os.MkdirTemp("", "c13r-")
	if err != nil {
		t.Fatal(err)
	}
	defer os.RemoveAll(dir)
	n, err := node.Start(dir)
	if err != nil {
		t.Fatal(err)
	}
	defer n.Close()
	db := fmt.Sprintf("c13db%d", engineDBSeq.Add(1))
	iv := timeutil.Interval(5 * min)
	if err := n.CreateDB(db, node.DBOption(iv), 0); err != nil {
		t.Fatal(err)
	}
	shard, _ := n.Shard(db, models.ShardID(0))
	ts := int64(1420070400000) // 2015-01-01 00:00:00 UTC
	if _, err := shard.GetOrCrateDataFamily(ts); err != nil {
		t.Fatal(err)
	}
	got := shard.GetDataFamilies(iv.Type(), timeutil.TimeRange{Start: ts - dayL, End: ts + hour})
	if len(got) != 1 || got[0].TimeRange().Start != ts {
		t.Fatalf("C13/range-starting-in-previous-segment: GetDataFamilies(2014-12-31 .. 2015-01-01 01:00) returns %d families, want the family of 2015-01-01", len(got))
	}
}
