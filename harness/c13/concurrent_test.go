package c13

import (
	"fmt"
	"os"
	"sort"
	"sync"
	"sync/atomic"
	"testing"
	"time"

	"pgregory.net/rapid"

	"github.com/lindb/lindb/models"
	"github.com/lindb/lindb/pkg/timeutil"
	"github.com/lindb/lindb/tsdb"
	"github.com/lindb/lindb/verifharness/sim/ev"
	"github.com/lindb/lindb/verifharness/sim/node"
)

// refSegmentNext is the start of the segment after the segment starting at segStart (calendar).
func refSegmentNext(typ timeutil.IntervalType, segStart int64) int64 {
	tm := time.UnixMilli(segStart).UTC()
	switch typ {
	case timeutil.Day:
		return tm.AddDate(0, 0, 1).UnixMilli()
	case timeutil.Month:
		return tm.AddDate(0, 1, 0).UnixMilli()
	default:
		return tm.AddDate(1, 0, 0).UnixMilli()
	}
}

// concProgram is what one goroutine of TestEngineConcurrentFamilies does after the barrier: n
// family lookups, the i-th one for pool[pattern[i%len(pattern)]]; after every queryEvery-th lookup
// (0 = never) one GetDataFamilies over queries[k%len(queries)].
type concProgram struct {
	pattern    []int
	n          int
	queryEvery int
	queries    [][2]int64
}

// TestEngineConcurrentFamilies: the family lookup of the write path under real concurrency. 2-8
// goroutines, released by one barrier, call Shard.GetOrCrateDataFamily of ONE shard of a real engine
// with timestamps of a generated pool that lies in 1-3 (mostly >= 2) different segments around a
// segment boundary near a boundary-biased anchor (last / first / any family of the segments, first /
// last / any millisecond of the family); segments and families are pre-created for a generated subset
// of the pool, the rest is created under the race. Each goroutine follows its own generated pattern
// over the pool (dedicated to one timestamp, alternating between segments, ...) and, optionally,
// queries Shard.GetDataFamilies over generated ranges in between, as queries run next to writers.
//
// Oracle (holds under every interleaving; nothing is evicted, closed or dropped during a case):
//   - every lookup succeeds and returns a family whose time range is the calendar family of ITS
//     timestamp (contains the timestamp);
//   - all lookups of timestamps of one calendar family - of all goroutines - return the same family
//     (exactly one family per timestamp);
//   - GetDataFamilies(range) returns pairwise distinct calendar families that intersect the inclusive
//     range, among them every pre-created family and every family the asking goroutine itself got
//     from an earlier lookup that intersects the range.
func TestEngineConcurrentFamilies(t *testing.T) {
	thorough := os.Getenv("VERIF_TIER") == "thorough"
	rapid.Check(t, func(t *rapid.T) {
		typ := genIntervalType(t)
		var iv timeutil.Interval
		var rollups []timeutil.Interval
		switch typ {
		case timeutil.Day:
			iv = timeutil.Interval(rapid.SampledFrom([]int64{1, 10, 30, 60}).Draw(t, "ivS") * sec)
			rollups = [][]timeutil.Interval{nil, {timeutil.Interval(5 * min)}, {timeutil.Interval(5 * min), timeutil.Interval(hour)}}[rapid.IntRange(0, 2).Draw(t, "rollup")]
		case timeutil.Month:
			iv = timeutil.Interval(rapid.SampledFrom([]int64{5, 10, 30}).Draw(t, "ivM") * min)
			rollups = [][]timeutil.Interval{nil, {timeutil.Interval(hour)}}[rapid.IntRange(0, 1).Draw(t, "rollup")]
		default:
			iv = timeutil.Interval(rapid.SampledFrom([]int64{1, 4, 24}).Draw(t, "ivH") * hour)
		}

		// --- segments and the pool of timestamps
		anchor := genTimestamp(t, "anchor")
		s0 := refSegment(typ, anchor)
		segStarts := []int64{refSegment(typ, s0-1), s0, refSegmentNext(typ, s0)}
		var segs []int64 // chosen segment starts
		switch rapid.IntRange(0, 7).Draw(t, "segSet") {
		case 0: // control: one segment only
			segs = []int64{segStarts[rapid.IntRange(0, 2).Draw(t, "seg")]}
		case 1, 2:
			segs = segStarts
		case 3:
			segs = []int64{segStarts[0], segStarts[2]} // not adjacent
		case 4, 5:
			segs = segStarts[:2]
		default:
			segs = segStarts[1:]
		}
		type poolEntry struct {
			ts, seg, famStart, famEnd int64
		}
		nPool := rapid.IntRange(len(segs), 6).Draw(t, "nPool")
		if nPool < 2 {
			nPool = 2
		}
		pool := make([]poolEntry, nPool)
		for i := range pool {
			var seg int64
			if i < len(segs) {
				seg = segs[i] // every chosen segment is used
			} else {
				seg = segs[rapid.IntRange(0, len(segs)-1).Draw(t, "poolSeg")]
			}
			next := refSegmentNext(typ, seg)
			var ts int64
			switch rapid.IntRange(0, 3).Draw(t, "poolFam") {
			case 0:
				ts = seg // first family of the segment
			case 1:
				ts = next - 1 // last family of the segment
			default:
				ts = seg + rapid.Int64Range(0, next-seg-1).Draw(t, "poolOff")
			}
			s, e := refFamily(typ, ts)
			switch rapid.IntRange(0, 3).Draw(t, "poolAt") {
			case 0:
				ts = s
			case 1:
				ts = e
			default:
				ts = rapid.Int64Range(s, e).Draw(t, "poolIn")
			}
			if refSegment(typ, ts) != seg {
				t.Fatalf("harness: timestamp %d not in segment %d", ts, seg)
			}
			pool[i] = poolEntry{ts: ts, seg: seg, famStart: s, famEnd: e}
		}
		precreate := make([]bool, nPool)
		nPre := 0
		switch rapid.IntRange(0, 3).Draw(t, "precreate") {
		case 0: // nothing exists: segments and families are created under the race
		case 1:
			for i := range precreate {
				precreate[i] = true
			}
		default:
			for i := range precreate {
				precreate[i] = rapid.Bool().Draw(t, "pre")
			}
		}

		// --- programs
		nG := rapid.IntRange(2, 8).Draw(t, "goroutines")
		maxN := 12000
		if thorough {
			maxN = 30000
		}
		progs := make([]concProgram, nG)
		withQueries := rapid.Bool().Draw(t, "withQueries")
		for g := range progs {
			p := &progs[g]
			switch rapid.IntRange(0, 3).Draw(t, "patternKind") {
			case 0: // dedicated writer of one family
				p.pattern = []int{rapid.IntRange(0, nPool-1).Draw(t, "idx")}
			case 1: // alternates between two pool entries
				p.pattern = []int{rapid.IntRange(0, nPool-1).Draw(t, "idx"), rapid.IntRange(0, nPool-1).Draw(t, "idx")}
			default:
				p.pattern = rapid.SliceOfN(rapid.IntRange(0, nPool-1), 1, 8).Draw(t, "pattern")
			}
			p.n = rapid.SampledFrom([]int{2000, 5000, maxN}).Draw(t, "lookups")
			if withQueries && rapid.Bool().Draw(t, "queries") {
				p.queryEvery = rapid.IntRange(200, 2000).Draw(t, "queryEvery")
				nQ := rapid.IntRange(1, 3).Draw(t, "nQueries")
				for q := 0; q < nQ; q++ {
					pa := pool[rapid.IntRange(0, nPool-1).Draw(t, "qa")]
					pb := pool[rapid.IntRange(0, nPool-1).Draw(t, "qb")]
					a := rapid.SampledFrom([]int64{pa.famStart, pa.famStart - 1, pa.famStart + 1, pa.ts, pa.famEnd, pa.famEnd + 1, pa.seg, pa.seg - 1}).Draw(t, "qaAt")
					b := rapid.SampledFrom([]int64{pb.famStart, pb.famStart - 1, pb.famStart + 1, pb.ts, pb.famEnd, pb.famEnd + 1, pb.famEnd - 1}).Draw(t, "qbAt")
					if b < a {
						a, b = b, a
					}
					p.queries = append(p.queries, [2]int64{a, b})
				}
			}
		}

		// --- engine
		dir, err := os.MkdirTemp("", "c13c-")
		if err != nil {
			t.Fatalf("harness: %v", err)
		}
		defer os.RemoveAll(dir)
		n, err := node.Start(dir)
		if err != nil {
			t.Fatalf("harness: %v", err)
		}
		defer n.Close()
		db := fmt.Sprintf("c13db%d", engineDBSeq.Add(1))
		if err := n.CreateDB(db, node.DBOption(append([]timeutil.Interval{iv}, rollups...)...), 0); err != nil {
			t.Fatalf("harness: %v", err)
		}
		shard, _ := n.Shard(db, models.ShardID(0))

		describe := func(p poolEntry) string {
			return fmt.Sprintf("%d (%s, segment %s)", p.ts, fmtMs(p.ts), fmtMs(p.seg))
		}
		// lookup does one checked lookup; "" = fine.
		lookup := func(p poolEntry) (tsdb.DataFamily, string) {
			f, err := shard.GetOrCrateDataFamily(p.ts)
			if err != nil {
				return nil, fmt.Sprintf("GetOrCrateDataFamily(%s): no family: %v", describe(p), err)
			}
			if f == nil {
				return nil, fmt.Sprintf("GetOrCrateDataFamily(%s): nil family without error", describe(p))
			}
			tr := f.TimeRange()
			if tr.Start != p.famStart || tr.End != p.famEnd {
				return nil, fmt.Sprintf("GetOrCrateDataFamily(%s) returned the family [%s .. %s]; the family of the timestamp is [%s .. %s]",
					describe(p), fmtMs(tr.Start), fmtMs(tr.End), fmtMs(p.famStart), fmtMs(p.famEnd))
			}
			return f, ""
		}
		preFamilies := map[int64]tsdb.DataFamily{} // family start -> family, created before the barrier
		for i, p := range pool {
			if !precreate[i] {
				continue
			}
			f, msg := lookup(p)
			if msg != "" {
				t.Fatalf("interval %s, sequential pre-creation: %s", iv, msg)
			}
			if prev, ok := preFamilies[p.famStart]; ok && prev != f {
				t.Fatalf("interval %s, sequential pre-creation: two different families for family time %s", iv, fmtMs(p.famStart))
			}
			preFamilies[p.famStart] = f
			nPre++
		}

		// --- run
		var failed atomic.Bool
		var failMu sync.Mutex
		var failure string
		fail := func(g int, i int, msg string) {
			failMu.Lock()
			if failure == "" {
				failure = fmt.Sprintf("goroutine %d of %d, its lookup #%d: %s", g, nG, i, msg)
			}
			failMu.Unlock()
			failed.Store(true)
		}
		got := make([]map[int64]tsdb.DataFamily, nG) // per goroutine: family start -> family it was given
		var lookups, queries atomic.Int64
		start := make(chan struct{})
		var ready, done sync.WaitGroup
		for g := range progs {
			ready.Add(1)
			done.Add(1)
			go func(g int) {
				defer done.Done()
				p := progs[g]
				mine := map[int64]tsdb.DataFamily{}
				got[g] = mine
				for s, f := range preFamilies {
					mine[s] = f
				}
				ready.Done()
				<-start
				nq := 0
				for i := 0; i < p.n && !failed.Load(); i++ {
					pe := pool[p.pattern[i%len(p.pattern)]]
					f, msg := lookup(pe)
					if msg != "" {
						fail(g, i, msg)
						return
					}
					if prev, ok := mine[pe.famStart]; ok && prev != f {
						fail(g, i, fmt.Sprintf("GetOrCrateDataFamily(%s) returned another family object than an earlier lookup of the same family: two families for one family time", describe(pe)))
						return
					}
					mine[pe.famStart] = f
					lookups.Add(1)
					if p.queryEvery > 0 && (i+1)%p.queryEvery == 0 {
						q := p.queries[nq%len(p.queries)]
						nq++
						seen := map[int64]bool{}
						for _, qf := range shard.GetDataFamilies(iv.Type(), timeutil.TimeRange{Start: q[0], End: q[1]}) {
							tr := qf.TimeRange()
							rs, re := refFamily(typ, tr.Start)
							if tr.Start != rs || tr.End != re {
								fail(g, i, fmt.Sprintf("GetDataFamilies([%s .. %s]) returned a family [%s .. %s] that is no calendar family", fmtMs(q[0]), fmtMs(q[1]), fmtMs(tr.Start), fmtMs(tr.End)))
								return
							}
							if tr.End < q[0] || tr.Start > q[1] {
								fail(g, i, fmt.Sprintf("GetDataFamilies([%s .. %s]) returned the family [%s .. %s] outside of the range", fmtMs(q[0]), fmtMs(q[1]), fmtMs(tr.Start), fmtMs(tr.End)))
								return
							}
							if seen[tr.Start] {
								fail(g, i, fmt.Sprintf("GetDataFamilies([%s .. %s]) returned the family %s twice", fmtMs(q[0]), fmtMs(q[1]), fmtMs(tr.Start)))
								return
							}
							seen[tr.Start] = true
							if own, ok := mine[tr.Start]; ok && own != qf {
								fail(g, i, fmt.Sprintf("GetDataFamilies([%s .. %s]) returned another family object for %s than the lookup for writing: two families for one family time", fmtMs(q[0]), fmtMs(q[1]), fmtMs(tr.Start)))
								return
							}
						}
						for s := range mine {
							_, e := refFamily(typ, s)
							if s <= q[1] && e >= q[0] && !seen[s] {
								fail(g, i, fmt.Sprintf("GetDataFamilies([%s .. %s]) does not return the family %s this goroutine got from an earlier lookup (or that was created before the start)", fmtMs(q[0]), fmtMs(q[1]), fmtMs(s)))
								return
							}
						}
						queries.Add(1)
					}
				}
			}(g)
		}
		ready.Wait()
		close(start)
		done.Wait()

		// --- evidence (recorded before the verdict, so a failing case is counted as well)
		segOf := func(idx int) int64 { return pool[idx].seg }
		usedSegs := map[int64]int{} // segment -> number of goroutines that look it up
		switching, dedicated := 0, 0
		for _, p := range progs {
			mySegs := map[int64]bool{}
			for _, idx := range p.pattern {
				mySegs[segOf(idx)] = true
			}
			for s := range mySegs {
				usedSegs[s]++
			}
			if len(mySegs) >= 2 {
				switching++
			} else {
				dedicated++
			}
		}
		classSet := map[string]bool{
			"type=" + typ.String():                              true,
			fmt.Sprintf("segments-in-pool=%d", len(segs)):       true,
			fmt.Sprintf("segments-looked-up=%d", len(usedSegs)): true,
			fmt.Sprintf("rollup-intervals=%d", len(rollups)):    true,
		}
		switch {
		case nG <= 2:
			classSet["goroutines=2"] = true
		case nG <= 4:
			classSet["goroutines=3-4"] = true
		default:
			classSet["goroutines=5-8"] = true
		}
		switch {
		case nPre == 0:
			classSet["precreated=none"] = true
		case nPre == nPool:
			classSet["precreated=all"] = true
		default:
			classSet["precreated=some"] = true
		}
		if switching > 0 {
			classSet["some-goroutine-switches-segment"] = true
		}
		if switching >= 2 {
			classSet[">=2-goroutines-switch-segment"] = true
		}
		if dedicated >= 2 && len(usedSegs) >= 2 && switching == 0 {
			classSet["all-goroutines-dedicated,different-segments"] = true
		}
		if queries.Load() > 0 {
			classSet["queries-next-to-lookups"] = true
		}
		for _, p := range pool {
			if p.famStart == p.seg {
				classSet["pool-has-first-family-of-segment"] = true
			}
			if p.famEnd == refSegmentNext(typ, p.seg)-1 {
				classSet["pool-has-last-family-of-segment"] = true
			}
		}
		// non-trivial: lookups of >= 2 different segments of the shard run concurrently (>= 2
		// goroutines, and no single segment that all of them stay in)
		nonTrivial := len(usedSegs) >= 2
		var classes []string
		for c := range classSet {
			classes = append(classes, c)
		}
		sort.Strings(classes)
		var progDesc []string
		for _, p := range progs {
			progDesc = append(progDesc, fmt.Sprintf("%v x%d q%d%v", p.pattern, p.n, p.queryEvery, p.queries))
		}
		var poolDesc []string
		for i, p := range pool {
			poolDesc = append(poolDesc, fmt.Sprintf("%s pre=%v", fmtMs(p.ts), precreate[i]))
		}
		ev.Case("TestEngineConcurrentFamilies", fmt.Sprintf("%d/%v/%v/%v", iv, rollups, poolDesc, progDesc), nonTrivial, classes,
			map[string]any{"interval": iv.String(), "rollups": fmt.Sprint(rollups), "pool": poolDesc, "programs": progDesc})
		ev.Class("TestEngineConcurrentFamilies", "concurrent-lookups", int(lookups.Load()))
		ev.Class("TestEngineConcurrentFamilies", "concurrent-range-queries", int(queries.Load()))

		if failure != "" {
			t.Fatalf("interval %s (%s type, rollups %v), pool %v, %d goroutines: %s", iv, typ, rollups, poolDesc, nG, failure)
		}
		// one family per family time over all goroutines
		all := map[int64]tsdb.DataFamily{}
		for g := range got {
			for s, f := range got[g] {
				if prev, ok := all[s]; ok && prev != f {
					t.Fatalf("interval %s, pool %v: goroutines were given two different family objects for the family %s", iv, poolDesc, fmtMs(s))
				}
				all[s] = f
			}
		}
	})
}
