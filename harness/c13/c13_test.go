// Package c13 checks property C13: time bucketing partitions the time axis consistently.
package c13

import (
	"fmt"
	"os"
	"testing"
	"time"

	"pgregory.net/rapid"

	"github.com/lindb/lindb/models"
	"github.com/lindb/lindb/pkg/option"
	"github.com/lindb/lindb/pkg/timeutil"
	qctx "github.com/lindb/lindb/query/context"
	"github.com/lindb/lindb/sql/stmt"
	"github.com/lindb/lindb/verifharness/sim/ev"
)

func TestMain(m *testing.M) { ev.Main(m) }

func init() {
	// the driver exports TZ=UTC; make the package self-contained for `go test` by hand. (Not
	// assigned when TZ=UTC already: the write races - for the race detector - with timer
	// goroutines started by the init functions of lindb packages.)
	if os.Getenv("TZ") != "UTC" {
		time.Local = time.UTC
	}
}

const (
	sec  = int64(1000)
	min  = 60 * sec
	hour = 60 * min
	dayL = 24 * hour
)

// ---- generators -------------------------------------------------------------------------

// genIntervalOfType draws an interval value of the wanted type through the production
// string parser (Interval.ValueOf), i.e. only values the database option can carry.
func genIntervalOfType(t *rapid.T, typ timeutil.IntervalType) timeutil.Interval {
	var s string
	switch typ {
	case timeutil.Day: // < 5 min
		if rapid.Bool().Draw(t, "daySeconds") {
			s = fmt.Sprintf("%ds", rapid.IntRange(1, 299).Draw(t, "s"))
		} else {
			s = fmt.Sprintf("%dm", rapid.IntRange(1, 4).Draw(t, "m"))
		}
	case timeutil.Month: // [5 min, 1 h)
		if rapid.Bool().Draw(t, "monthMinutes") {
			s = fmt.Sprintf("%dm", rapid.IntRange(5, 59).Draw(t, "m"))
		} else {
			s = fmt.Sprintf("%ds", rapid.IntRange(300, 3599).Draw(t, "s"))
		}
	default: // >= 1h
		switch rapid.IntRange(0, 3).Draw(t, "yearUnit") {
		case 0:
			s = fmt.Sprintf("%dh", rapid.IntRange(1, 48).Draw(t, "h"))
		case 1:
			s = fmt.Sprintf("%dm", rapid.IntRange(60, 600).Draw(t, "m"))
		case 2:
			s = fmt.Sprintf("%dd", rapid.IntRange(1, 31).Draw(t, "d"))
		default:
			s = rapid.SampledFrom([]string{"1M", "2M", "1y"}).Draw(t, "big")
		}
	}
	var iv timeutil.Interval
	if err := iv.ValueOf(s); err != nil {
		t.Fatalf("harness: interval %q rejected: %v", s, err)
	}
	if iv.Type() != typ {
		t.Fatalf("harness: interval %q has type %s, wanted %s", s, iv.Type(), typ)
	}
	return iv
}

func genIntervalType(t *rapid.T) timeutil.IntervalType {
	return rapid.SampledFrom([]timeutil.IntervalType{timeutil.Day, timeutil.Month, timeutil.Year}).Draw(t, "type")
}

func daysIn(y int, m time.Month) int {
	return time.Date(y, m+1, 0, 0, 0, 0, 0, time.UTC).Day()
}

// genTimestamp draws a millisecond timestamp in 2015-01-01 .. 2035-12-31, biased towards
// month ends, leap days, year ends and +-1ms around hour/day/month/year boundaries.
func genTimestamp(t *rapid.T, label string) int64 {
	y := rapid.IntRange(2015, 2035).Draw(t, label+"Y")
	var mo time.Month
	switch rapid.IntRange(0, 3).Draw(t, label+"Mk") {
	case 0:
		mo = time.January
	case 1:
		mo = time.December
	case 2:
		mo = time.February
	default:
		mo = time.Month(rapid.IntRange(1, 12).Draw(t, label+"M"))
	}
	dim := daysIn(y, mo)
	var d int
	switch rapid.IntRange(0, 2).Draw(t, label+"Dk") {
	case 0:
		d = 1
	case 1:
		d = dim
	default:
		d = rapid.IntRange(1, dim).Draw(t, label+"D")
	}
	pick := func(lbl string, max int) int {
		switch rapid.IntRange(0, 2).Draw(t, label+lbl+"k") {
		case 0:
			return 0
		case 1:
			return max
		default:
			return rapid.IntRange(0, max).Draw(t, label+lbl)
		}
	}
	h, mi, s, ms := pick("h", 23), pick("mi", 59), pick("s", 59), pick("ms", 999)
	ts := time.Date(y, mo, d, h, mi, s, ms*1e6, time.UTC).UnixMilli()
	ts += int64(rapid.SampledFrom([]int{0, 0, -1, 1, -1000, 1000}).Draw(t, label+"off"))
	lo := time.Date(2015, 1, 1, 0, 0, 0, 0, time.UTC).UnixMilli()
	hi := time.Date(2035, 12, 31, 23, 59, 59, 999e6, time.UTC).UnixMilli()
	if ts < lo {
		ts = lo
	}
	if ts > hi {
		ts = hi
	}
	return ts
}

// ---- the partition invariants of one (calculator, interval, timestamp) ----------------------

type failer interface {
	Fatalf(format string, args ...any)
}

// checkPoint asserts everything C13 states about one timestamp. It returns whether the
// timestamp lies within one interval of a family or segment boundary (non-trivial rule).
func checkPoint(t failer, iv timeutil.Interval, ts int64) bool {
	calc := iv.Calculator()
	ivl := iv.Int64()

	// --- segment: exactly one, contains ts, name round-trips
	seg := calc.CalcSegmentTime(ts)
	if seg > ts {
		t.Fatalf("segment start %d after timestamp %d (interval %s)", seg, ts, iv)
	}
	name := calc.GetSegment(ts)
	parsed, err := calc.ParseSegmentTime(name)
	if err != nil || parsed != seg {
		t.Fatalf("ParseSegmentTime(GetSegment(%d)=%q) = %d,%v want %d", ts, name, parsed, err, seg)
	}
	if s2 := calc.CalcSegmentTime(seg); s2 != seg {
		t.Fatalf("segment of segment start %d is %d (ts %d, interval %s)", seg, s2, ts, iv)
	}
	if calc.GetSegment(seg) != name {
		t.Fatalf("segment name differs inside one segment: %q vs %q", calc.GetSegment(seg), name)
	}
	prevSeg := calc.CalcSegmentTime(seg - 1)
	if prevSeg >= seg {
		t.Fatalf("segment before %d starts at %d", seg, prevSeg)
	}
	if calc.GetSegment(seg-1) == name {
		t.Fatalf("two segments share the name %q", name)
	}

	// --- family: contains ts, idempotent, tiles the axis
	fam := calc.CalcFamilyTime(ts)
	end := calc.CalcFamilyEndTime(fam)
	if !(fam <= ts && ts <= end) {
		t.Fatalf("family [%d,%d] does not contain %d (interval %s)", fam, end, ts, iv)
	}
	if f := calc.CalcFamilyTime(fam); f != fam {
		t.Fatalf("family of family start %d is %d", fam, f)
	}
	if f := calc.CalcFamilyTime(end); f != fam {
		t.Fatalf("family of family end %d is %d, want %d", end, f, fam)
	}
	if f := calc.CalcFamilyTime(end + 1); f != end+1 {
		t.Fatalf("gap/overlap: family after [%d,%d] starts at %d", fam, end, f)
	}
	pf := calc.CalcFamilyTime(fam - 1)
	if pf >= fam || calc.CalcFamilyEndTime(pf) != fam-1 {
		t.Fatalf("gap/overlap: family before %d is [%d,%d]", fam, pf, calc.CalcFamilyEndTime(pf))
	}
	// family addressed through (segment, family number) is the same family and lies in the segment
	fno := calc.CalcFamily(ts, seg)
	if fs := calc.CalcFamilyStartTime(seg, fno); fs != fam {
		t.Fatalf("CalcFamilyStartTime(seg=%d, family=%d) = %d, CalcFamilyTime = %d", seg, fno, fs, fam)
	}
	if fam < seg || calc.CalcSegmentTime(end) != seg {
		t.Fatalf("family [%d,%d] not inside segment starting %d", fam, end, seg)
	}
	if calc.CalcFamily(fam, seg) != fno || calc.CalcFamily(end, seg) != fno {
		t.Fatalf("family number changes inside one family: %d/%d/%d", calc.CalcFamily(fam, seg), fno, calc.CalcFamily(end, seg))
	}

	// --- slot
	slot := calc.CalcSlot(ts, fam, ivl)
	if slot < 0 || slot > 65535 {
		t.Fatalf("slot %d does not fit uint16 (ts %d fam %d interval %s)", slot, ts, fam, iv)
	}
	delta := ts - timeutil.CalcTimestamp(fam, slot, iv)
	if delta < 0 || delta >= ivl {
		t.Fatalf("slot %d of ts %d in family %d interval %s: ts-(start+slot*interval) = %d", slot, ts, fam, iv, delta)
	}
	// slots are monotone inside the family
	if s0 := calc.CalcSlot(fam, fam, ivl); s0 != 0 {
		t.Fatalf("slot of family start is %d", s0)
	}
	if se := calc.CalcSlot(end, fam, ivl); se < slot {
		t.Fatalf("slot of family end %d < slot %d of inner timestamp", se, slot)
	}
	// Interval.CalcSlotRange agrees with CalcSlot for a range inside the family
	sr := iv.CalcSlotRange(fam, timeutil.TimeRange{Start: fam, End: ts})
	if int(sr.Start) != 0 || int(sr.End) != slot {
		t.Fatalf("CalcSlotRange(fam..ts) = %v, want [0,%d]", sr, slot)
	}
	sr = iv.CalcSlotRange(fam, timeutil.TimeRange{Start: fam - 5*ivl, End: end + 5*ivl})
	if int(sr.Start) != 0 || int(sr.End) != calc.CalcSlot(end, fam, ivl) {
		t.Fatalf("CalcSlotRange(clipped) = %v, want [0,%d]", sr, calc.CalcSlot(end, fam, ivl))
	}

	near := ts-fam < ivl || end-ts < ivl || ts-seg < ivl
	return near
}

func TestPartition(t *testing.T) {
	rapid.Check(t, func(t *rapid.T) {
		typ := genIntervalType(t)
		iv := genIntervalOfType(t, typ)
		ts := genTimestamp(t, "t")
		near := checkPoint(t, iv, ts)
		classes := []string{"type=" + typ.String()}
		if near {
			classes = append(classes, "near-boundary")
		}
		ev.Case("TestPartition", fmt.Sprintf("%d/%d", iv, ts), near, classes,
			map[string]any{"interval": iv.String(), "timestamp": ts, "time": time.UnixMilli(ts).UTC().Format(time.RFC3339Nano)})
	})
}

// TestRangeFamilies: for a generated range, walking family by family from the family of the
// start reaches the family of the end, every step being adjacent; CalcTimeWindows (used to
// size query result buffers) is at least the number of families touched.
func TestRangeFamilies(t *testing.T) {
	rapid.Check(t, func(t *rapid.T) {
		typ := genIntervalType(t)
		iv := genIntervalOfType(t, typ)
		calc := iv.Calculator()
		a := genTimestamp(t, "a")
		var span int64
		switch typ {
		case timeutil.Day:
			span = rapid.Int64Range(0, 5*dayL).Draw(t, "span")
		case timeutil.Month:
			span = rapid.Int64Range(0, 70*dayL).Draw(t, "span")
		default:
			span = rapid.Int64Range(0, 800*dayL).Draw(t, "span")
		}
		b := a + span
		n := 0
		f := calc.CalcFamilyTime(a)
		last := calc.CalcFamilyTime(b)
		for {
			n++
			if f == last {
				break
			}
			if f > last {
				t.Fatalf("walk from family of %d overshoots family %d of %d", a, last, b)
			}
			nx := calc.CalcFamilyEndTime(f) + 1
			if calc.CalcFamilyTime(nx) != nx || nx <= f {
				t.Fatalf("family after %d starts at %d, CalcFamilyTime says %d", f, nx, calc.CalcFamilyTime(nx))
			}
			f = nx
			if n > 200000 {
				t.Fatalf("walk does not terminate")
			}
		}
		if w := calc.CalcTimeWindows(a, b); typ != timeutil.Year && w != n {
			// day and month calculators count families exactly; the year calculator
			// estimates (30-day months) and is only used as a capacity hint.
			t.Fatalf("CalcTimeWindows(%d,%d)=%d, families touched %d (interval %s)", a, b, w, n, iv)
		}
		ev.Case("TestRangeFamilies", fmt.Sprintf("%d/%d/%d", iv, a, b), n >= 2,
			[]string{"type=" + typ.String()},
			map[string]any{"interval": iv.String(), "start": a, "end": b, "families": n})
	})
}

// TestBoundaryWalk enumerates every family boundary of 2015..2035 for the three
// calculators and checks the point invariants at boundary-1, boundary, boundary+1 ms.
func TestBoundaryWalk(t *testing.T) {
	lo := time.Date(2015, 1, 1, 0, 0, 0, 0, time.UTC).UnixMilli()
	hi := time.Date(2035, 12, 31, 23, 59, 59, 999e6, time.UTC).UnixMilli()
	step := 1
	if testing.Short() {
		step = 7 // quick tier: every 7th day-type boundary; month/year always complete
	}
	for _, iv := range []timeutil.Interval{timeutil.Interval(10 * sec), timeutil.Interval(7 * sec), timeutil.Interval(5 * min), timeutil.Interval(7 * min), timeutil.Interval(hour), timeutil.Interval(5 * hour)} {
		calc := iv.Calculator()
		f := calc.CalcFamilyTime(lo)
		n := 0
		for f <= hi {
			end := calc.CalcFamilyEndTime(f)
			if end < f {
				t.Fatalf("family %d ends at %d", f, end)
			}
			if iv.Type() != timeutil.Day || n%step == 0 {
				for _, ts := range []int64{f, f + 1, end - 1, end} {
					checkPoint(t, iv, ts)
				}
			}
			nx := end + 1
			if calc.CalcFamilyTime(nx) != nx {
				t.Fatalf("interval %s: family after [%d,%d] starts at %d", iv, f, end, calc.CalcFamilyTime(nx))
			}
			f = nx
			n++
		}
		ev.Class("TestBoundaryWalk", "families-walked-"+iv.String(), n)
		ev.Case("TestBoundaryWalk", "walk/"+iv.String(), true, nil, map[string]any{"interval": iv.String(), "families": n, "from": lo, "to": hi})
	}
}

// ---- planner ---------------------------------------------------------------------------------

func genDBIntervals(t *rapid.T) option.Intervals {
	var ivs option.Intervals
	// a database has 1..3 intervals of distinct types (Intervals.IsValid), sorted ascending as
	// the create-database path does (sort.Sort(option.Intervals)).
	useDay := rapid.Bool().Draw(t, "useDay")
	useMonth := rapid.Bool().Draw(t, "useMonth")
	useYear := rapid.Bool().Draw(t, "useYear")
	if !useDay && !useMonth && !useYear {
		useDay = true
	}
	if useDay {
		ivs = append(ivs, option.Interval{Interval: genIntervalOfType(t, timeutil.Day), Retention: timeutil.Interval(30 * dayL)})
	}
	if useMonth {
		ivs = append(ivs, option.Interval{Interval: genIntervalOfType(t, timeutil.Month), Retention: timeutil.Interval(300 * dayL)})
	}
	if useYear {
		ivs = append(ivs, option.Interval{Interval: genIntervalOfType(t, timeutil.Year), Retention: timeutil.Interval(3000 * dayL)})
	}
	return ivs
}

func TestPlannerInterval(t *testing.T) {
	rapid.Check(t, func(t *rapid.T) {
		ivs := genDBIntervals(t)
		opt := &option.DatabaseOption{Intervals: ivs}
		if err := opt.Validate(); err != nil {
			t.Fatalf("harness: option rejected: %v", err)
		}
		start := genTimestamp(t, "start")
		var span int64
		switch rapid.IntRange(0, 4).Draw(t, "spanKind") {
		case 0:
			span = rapid.Int64Range(0, hour).Draw(t, "span")
		case 1:
			span = rapid.Int64Range(hour-2, 2*dayL).Draw(t, "span")
		case 2:
			span = rapid.Int64Range(2*dayL-2, 35*dayL).Draw(t, "span")
		case 3:
			span = rapid.Int64Range(29*dayL, 100*dayL).Draw(t, "span")
		default:
			// exactly at the thresholds of CalcQueryInterval
			span = rapid.SampledFrom([]int64{hour, 3 * hour, 6 * hour, 12 * hour, dayL, 2 * dayL, 7 * dayL, 30 * dayL, 60 * dayL, 90 * dayL}).Draw(t, "span") +
				int64(rapid.IntRange(-1, 1).Draw(t, "spanOff"))
		}
		end := start + span
		var userIv timeutil.Interval
		switch rapid.IntRange(0, 3).Draw(t, "userIvKind") {
		case 0: // not set
		case 1: // one of the stored ones
			userIv = ivs[rapid.IntRange(0, len(ivs)-1).Draw(t, "userIvIdx")].Interval
		default:
			userIv = timeutil.Interval(rapid.Int64Range(1, 3*24*3600).Draw(t, "userIvSec") * sec)
		}
		autoGroup := rapid.IntRange(0, 5).Draw(t, "autoGroup") == 0
		q := &stmt.Query{TimeRange: timeutil.TimeRange{Start: start, End: end}, Interval: userIv, AutoGroupByTime: autoGroup}
		qctx.VerifCalcTimeRangeAndInterval(q, models.Database{Name: "db", Option: opt})
		// the same range planned without any requested bucket width: what the range alone gives
		plain := &stmt.Query{TimeRange: timeutil.TimeRange{Start: start, End: end}}
		qctx.VerifCalcTimeRangeAndInterval(plain, models.Database{Name: "db", Option: opt})

		stored := false
		for _, i := range ivs {
			if i.Interval == q.StorageInterval {
				stored = true
			}
		}
		if !stored {
			t.Fatalf("planner picked storage interval %s, database stores %s", q.StorageInterval, ivs)
		}
		si := q.StorageInterval.Int64()
		if q.Interval <= 0 || q.Interval.Int64()%si != 0 {
			t.Fatalf("query interval %d is not a positive multiple of storage interval %d", q.Interval, si)
		}
		if int64(q.IntervalRatio) != q.Interval.Int64()/si || q.IntervalRatio < 1 {
			t.Fatalf("interval ratio %d != %d/%d", q.IntervalRatio, q.Interval, si)
		}
		if q.TimeRange.Start%si != 0 || q.TimeRange.End%si != 0 {
			t.Fatalf("range [%d,%d] not aligned to %d", q.TimeRange.Start, q.TimeRange.End, si)
		}
		// contains every requested slot: slots floor(start/si) .. floor(end/si)
		if q.TimeRange.Start/si != start/si || q.TimeRange.End/si != end/si {
			t.Fatalf("range [%d,%d] (slots %d..%d) does not cover requested slots %d..%d of [%d,%d] at %d",
				q.TimeRange.Start, q.TimeRange.End, q.TimeRange.Start/si, q.TimeRange.End/si, start/si, end/si, start, end, si)
		}
		// --- the requested bucket width is honoured (group by time(w) / group by time()) -----------
		// Documented in the planner and the statement struct: "if query interval not set, first set
		// it using the smallest interval"; "re-calc query interval based on query time range" (a
		// range shorter than one hour keeps the requested width); "if auto calc interval < user
		// input, need to use user input"; AutoGroupByTime = "auto fix group by interval based on
		// query time range" (the whole planned range plus its last slot). The range-based width is
		// not re-stated here: it is taken from the plan of the same range without a requested width.
		wClasses := []string{}
		truncU := userIv.Int64() / si * si
		rangeSlots := (q.TimeRange.End-q.TimeRange.Start)/si + 1
		switch {
		case autoGroup:
			// time() without a width: one bucket holds every requested slot ...
			if int64(q.IntervalRatio) < rangeSlots {
				t.Fatalf("group by time() over [%d,%d]: planned interval %s (ratio %d of %s) does not hold the %d requested slots of the planned range [%d,%d] in one bucket (requested width %s, database %s)",
					start, end, q.Interval, q.IntervalRatio, q.StorageInterval, rangeSlots, q.TimeRange.Start, q.TimeRange.End, userIv, ivs)
			}
			// ... and when nothing else was requested the bucket is exactly the planned range
			if userIv == 0 && int64(q.IntervalRatio) != rangeSlots {
				t.Fatalf("group by time() over [%d,%d]: planned interval %s = %d slots of %s, the planned range [%d,%d] has %d (database %s)",
					start, end, q.Interval, q.IntervalRatio, q.StorageInterval, q.TimeRange.Start, q.TimeRange.End, rangeSlots, ivs)
			}
			wClasses = append(wClasses, "width=auto:one-bucket-holds-the-range")
			if rangeSlots > 1 {
				wClasses = append(wClasses, "width=auto:range-of->=2-slots")
			}
		case userIv > 0:
			// never finer than what was asked for (in whole storage slots)
			if q.Interval.Int64() < truncU {
				t.Fatalf("group by time(%s) over [%d,%d]: planned interval %s is finer than the requested width (storage interval %s, database %s)",
					userIv, start, end, q.Interval, q.StorageInterval, ivs)
			}
			switch {
			case span < hour:
				// no range-based re-calculation below one hour: exactly the requested width, in
				// whole storage slots, at least one
				want := truncU
				if want < si {
					want = si
				}
				if q.Interval.Int64() != want {
					t.Fatalf("group by time(%s) over the %d ms range [%d,%d]: planned interval %s, want %d ms (storage interval %s, database %s)",
						userIv, span, start, end, q.Interval, want, q.StorageInterval, ivs)
				}
				wClasses = append(wClasses, "width=requested:range<1h:exact")
			case plain.StorageInterval == q.StorageInterval:
				// the coarser of the requested width and what the range alone gives
				want := plain.Interval.Int64()
				cls := "width=requested:range>=1h:range-recalc-is-coarser"
				if truncU > want {
					want = truncU
					cls = "width=requested:range>=1h:requested-is-coarser"
				}
				if q.Interval.Int64() != want {
					t.Fatalf("group by time(%s) over [%d,%d]: planned interval %s; the range alone gives %s, so the coarser of the two is %d ms (storage interval %s, database %s)",
						userIv, start, end, q.Interval, plain.Interval, want, q.StorageInterval, ivs)
				}
				wClasses = append(wClasses, cls)
			default:
				wClasses = append(wClasses, "width=requested:range>=1h:other-storage-interval-than-plain(not judged)")
			}
		default:
			wClasses = append(wClasses, "width=none")
		}

		fams := q.StorageInterval.Calculator().CalcTimeWindows(q.TimeRange.Start, q.TimeRange.End)
		nt := fams >= 2 || q.IntervalRatio > 1
		ev.Case("TestPlannerInterval", fmt.Sprintf("%v/%d/%d/%d/%v", ivs, start, end, userIv, autoGroup), nt,
			append([]string{fmt.Sprintf("nIntervals=%d", len(ivs)), fmt.Sprintf("autoGroup=%v", autoGroup)}, wClasses...),
			map[string]any{"intervals": ivs.String(), "start": start, "end": end, "userInterval": userIv.String(),
				"planned": map[string]any{"storage": q.StorageInterval.String(), "interval": q.Interval.String(), "ratio": q.IntervalRatio, "range": q.TimeRange}})
	})
}
