package c13

import (
	"fmt"
	"os"
	"sort"
	"testing"
	"time"

	protoMetricsV1 "github.com/lindb/common/proto/gen/v1/linmetrics"
	"pgregory.net/rapid"

	"github.com/lindb/lindb/kv"
	"github.com/lindb/lindb/models"
	"github.com/lindb/lindb/pkg/timeutil"
	"github.com/lindb/lindb/verifharness/sim/ev"
	"github.com/lindb/lindb/verifharness/sim/node"
)

// TestEngineRollupBuckets: the same commutation end to end, through a real engine. A database with a
// day-type source interval and a month-type and/or year-type rollup target gets points at
// boundary-biased slots of 1-3 source families (late-month days, month ends, leap days, year ends
// through genTimestamp; families clustered around one anchor), the families are flushed and rolled
// up by the production job (tsdb store naming, kv family.rollup, metric data merger), and every
// target is read back through the production query path with `group by time(target)` over the hour
// of every source family and the hours around it. The answer must hold, for every target slot the
// window touches, exactly the sum of the points whose timestamp floors into it - nothing missing,
// nothing from another slot.
func TestEngineRollupBuckets(t *testing.T) {
	rapid.Check(t, func(t *rapid.T) {
		S := rapid.SampledFrom([]int64{1, 10, 10, 30, 60}).Draw(t, "sourceS") * sec
		var targets []int64
		kind := rapid.IntRange(0, 3).Draw(t, "targets") // 0 month, 1 year, 2..3 both
		if kind != 1 {
			targets = append(targets, rapid.SampledFrom([]int64{5, 10, 15, 30}).Draw(t, "targetM")*min)
		}
		if kind != 0 {
			targets = append(targets, rapid.SampledFrom([]int64{1, 1, 2, 3, 4, 6}).Draw(t, "targetH")*hour)
		}
		fams := genRollupFamilies(t, timeutil.Day)
		nSlots := hour / S

		type point struct {
			ts int64
			k  int64 // value k/8
		}
		var pts []point
		for fi, f := range fams {
			seen := map[int64]bool{}
			n := rapid.IntRange(1, 6).Draw(t, fmt.Sprintf("nPoints%d", fi))
			for i := 0; i < n; i++ {
				var slot int64
				switch rapid.IntRange(0, 4).Draw(t, "slotKind") {
				case 0:
					slot = 0
				case 1:
					slot = nSlots - 1
				case 2: // first / last source slot of a target slot of the smallest target
					r := targets[0] / S
					if r > nSlots {
						r = nSlots
					}
					slot = rapid.Int64Range(0, nSlots/r-1).Draw(t, "targetSlotInHour")*r + rapid.SampledFrom([]int64{0, r - 1}).Draw(t, "edge")
				default:
					slot = rapid.Int64Range(0, nSlots-1).Draw(t, "slot")
				}
				if seen[slot] {
					continue
				}
				seen[slot] = true
				// anywhere inside the source slot (the source bucketing floors it)
				pts = append(pts, point{ts: f + slot*S + rapid.Int64Range(0, S-1).Draw(t, "inSlot"), k: rapid.Int64Range(1, 1<<16).Draw(t, "k")})
			}
		}

		dir, err := os.MkdirTemp("", "c13er-")
		if err != nil {
			t.Fatalf("harness: %v", err)
		}
		defer os.RemoveAll(dir)
		n, err := node.Start(dir)
		if err != nil {
			t.Fatalf("harness: %v", err)
		}
		defer n.Close()
		db := fmt.Sprintf("c13db%d", engineDBSeq.Add(1))
		ivs := []timeutil.Interval{timeutil.Interval(S)}
		for _, target := range targets {
			ivs = append(ivs, timeutil.Interval(target))
		}
		opt := node.DBOption(ivs...)
		if err := n.CreateDB(db, opt, 0); err != nil {
			t.Fatalf("harness: %v", err)
		}
		var ms []*protoMetricsV1.Metric
		for _, p := range pts {
			ms = append(ms, &protoMetricsV1.Metric{
				Name: "m", Timestamp: p.ts,
				Tags:         []*protoMetricsV1.KeyValue{{Key: "host", Value: "a"}},
				SimpleFields: []*protoMetricsV1.SimpleField{{Name: "f", Type: protoMetricsV1.SimpleFieldType_DELTA_SUM, Value: float64(p.k) / 8}},
			})
		}
		if err := n.Write(db, 0, ms); err != nil {
			t.Fatalf("write: %v", err)
		}
		if err := n.FlushDB(db); err != nil {
			t.Fatalf("flush: %v", err)
		}
		shard, _ := n.Shard(db, models.ShardID(0))
		for _, f := range fams {
			df, err := shard.GetOrCrateDataFamily(f)
			if err != nil {
				t.Fatalf("harness: %v", err)
			}
			kv.VerifRollup(df.Family())
			waitRollupJob(df.Family())
		}

		c := node.NewCluster()
		defer c.Close()
		c.AddLeaf("leaf0:1", n.Engine, "")
		c.SetLayout(db, opt, map[string][]models.ShardID{"leaf0:1": {0}})
		const layout = "2006-01-02 15:04:05"
		classSet := map[string]bool{}
		nontrivial := false
		for _, target := range targets {
			tt := refType(timeutil.Interval(target))
			classSet["target-type="+string(tt)] = true
			// Read back through windows shorter than one hour (for a longer range the planner
			// derives the storage interval from the length of the range, not from time(target)):
			// the hour of every source family and the hours before and after it.
			windows := map[int64]bool{}
			tfams := map[int64]bool{}
			for _, f := range fams {
				s, _ := refFamily(tt, f)
				tfams[s] = true
				if (f-s)/S > 65535 {
					classSet["source-family-more-than-65535-source-slots-into-target-family"] = true
				}
				if f > s {
					nontrivial = true
				}
				if tt == timeutil.Year {
					switch day := time.UnixMilli(f).UTC().Day(); {
					case day <= 8:
						classSet["year-target:day-of-month=1..8"] = true
					case day <= 28:
						classSet["year-target:day-of-month=9..28"] = true
					default:
						classSet["year-target:day-of-month=29..31"] = true
					}
				}
				windows[f-hour], windows[f], windows[f+hour] = true, true, true
			}
			if len(tfams) > 1 {
				classSet["source-families-in-different-target-families"] = true
			}
			for w := range windows {
				wEnd := w + hour - sec
				lo, hi := w/target*target, wEnd/target*target // the planner truncates the range to the storage interval
				want := map[int64]float64{}
				inSlots := 0
				for _, p := range pts {
					// the target slot of a point by the calendar: family start + whole target intervals
					tStart, _ := refFamily(tt, p.ts)
					slotStart := tStart + (p.ts-tStart)/target*target
					if slotStart >= lo && slotStart <= hi {
						want[slotStart] += float64(p.k) / 8
						inSlots++
					}
				}
				sqlText := fmt.Sprintf("select f from m where time>='%s' and time<='%s' group by host,time(%s)",
					time.UnixMilli(w).UTC().Format(layout), time.UnixMilli(wEnd).UTC().Format(layout), timeutil.Interval(target))
				rs, err := c.Query(db, sqlText)
				got := map[int64]float64{}
				if err != nil {
					if len(want) > 0 {
						t.Fatalf("intervals %v, source families %v: query %q after the rollup: %v; rolled-up points by target slot: %s", ivs, fmtAll(fams), sqlText, err, fmtSlots(want))
					}
				} else {
					for key, fields := range node.Canon(rs) {
						if key != "host=a" {
							t.Fatalf("query %q: unexpected series %q", sqlText, key)
						}
						got = fields["f"]
					}
				}
				if fmtSlots(got) != fmtSlots(want) {
					t.Fatalf("intervals %v, source families %v: target %s read back over %s .. %s holds\n  %s\nthe written points floor into\n  %s\n(points: %s)",
						ivs, fmtAll(fams), timeutil.Interval(target), fmtMs(w), fmtMs(wEnd), fmtSlots(got), fmtSlots(want), fmtPoints(pts, func(p point) (int64, int64) { return p.ts, p.k }))
				}
				if len(want) < inSlots {
					classSet[">=2-source-slots-in-one-target-slot"] = true
				}
				if len(want) == 0 {
					classSet["window-without-data"] = true
				}
			}
		}
		classSet[fmt.Sprintf("targets=%d", len(targets))] = true
		if len(fams) > 1 {
			classSet["source-families>=2"] = true
		}
		var classes []string
		for cl := range classSet {
			classes = append(classes, cl)
		}
		sort.Strings(classes)
		ev.Case("TestEngineRollupBuckets", fmt.Sprintf("%v/%v/%v", ivs, fams, pts), nontrivial, classes,
			map[string]any{"intervals": fmt.Sprint(ivs), "sourceFamilies": fmtAll(fams), "points": len(pts)})
	})
}

func fmtAll(ts []int64) []string {
	var rs []string
	for _, v := range ts {
		rs = append(rs, fmtMs(v))
	}
	return rs
}

func fmtSlots(m map[int64]float64) string {
	var keys []int64
	for k := range m {
		keys = append(keys, k)
	}
	sort.Slice(keys, func(i, j int) bool { return keys[i] < keys[j] })
	s := ""
	for _, k := range keys {
		s += fmt.Sprintf("%s=%v ", fmtMs(k), m[k])
	}
	if s == "" {
		return "(nothing)"
	}
	return s
}

func fmtPoints[P any](pts []P, get func(P) (int64, int64)) string {
	s := ""
	for _, p := range pts {
		ts, k := get(p)
		s += fmt.Sprintf("%s=%v ", fmtMs(ts), float64(k)/8)
	}
	return s
}
