package c13

// Process time zones other than UTC (the calculators use time.Local) and option validation of
// interval lists. The driver runs one process per test function, so the tests of this file may
// assign time.Local themselves (single goroutine; the zone database is embedded).

import (
	"fmt"
	"sort"
	"strings"
	"testing"
	"time"
	_ "time/tzdata"

	"pgregory.net/rapid"

	"github.com/lindb/lindb/models"
	"github.com/lindb/lindb/pkg/option"
	"github.com/lindb/lindb/pkg/timeutil"
	qctx "github.com/lindb/lindb/query/context"
	"github.com/lindb/lindb/sql/stmt"
	"github.com/lindb/lindb/verifharness/sim/ev"
)

// Zones. Generated: fixed offsets (whole hours, :30, :45) and daylight-saving zones of both
// hemispheres whose clock changes are whole hours and happen away from local midnight (also
// with :30/:45 base offsets). NOT generated: zones whose transition removes/repeats local
// midnight itself (America/Santiago, America/Havana, Asia/Beirut, Africa/Cairo ...): the
// segment base "local midnight" does not exist / exists twice there and time.Date documents
// its result as unspecified for such wall clocks, so the statement has no defined oracle.
var (
	fixedZones = []string{"UTC", "Asia/Shanghai", "Asia/Kolkata", "Asia/Kathmandu", "America/Phoenix", "Pacific/Honolulu", "Asia/Tokyo"}
	dstZones   = []string{"America/New_York", "Europe/Berlin", "Australia/Sydney", "America/Los_Angeles", "Europe/London",
		"Pacific/Auckland", "America/St_Johns", "Pacific/Chatham", "Australia/Adelaide", "America/Chicago"}
	// clock change of 30 minutes: a local day of 23.5 / 24.5 hours
	nonHourShiftZones = []string{"Australia/Lord_Howe"}
)

// sigNonHourShift: on the unchanged tree the day calculator's families (local midnight + n*1h,
// each one hour long) do not tile a local day whose length is not a whole number of hours.
const sigNonHourShift = "C13/day-families-overlap-on-non-whole-hour-clock-change"

// sigMonthSlotWraps: on the unchanged tree the month calculator's CalcSlot takes (ts-familyStart)
// modulo 24h; a local day of more than 24 hours (clocks set back) maps its last hour onto the
// slots of its first hour.
const sigMonthSlotWraps = "C13/month-slot-wraps-on-local-day-longer-than-24h"

// pendingFindings: findings of this file reported by the builder but not yet listed in
// /verif/known_findings.json (the builder may not edit that file). excluded(sig) is true while
// the finding is listed OR pending here; delete the entry here when the finding is listed (then
// ev.Known decides) or repaired in /repo (then the shape is generated and judged again).
var pendingFindings = map[string]bool{} // both findings of this file were repaired in /repo (a92b615, 351f321): the shapes are generated and judged

func excluded(sig string) bool { return ev.Known(sig) || pendingFindings[sig] }

func mustZone(name string) *time.Location {
	loc, err := time.LoadLocation(name)
	if err != nil {
		panic(fmt.Sprintf("harness: zone %s: %v", name, err))
	}
	return loc
}

type transition struct {
	at             int64 // first ms with the new offset
	before, after  int   // offsets in seconds
	localMidnight  int64 // local midnight of the day on which the clocks change
	nextMidnight   int64
}

var transitionCache = map[string][]transition{}

// transitionsOf finds every offset change of the zone in 2015..2035 (offset lookups of Go's zone
// database only: compare noon to noon, then bisect).
func transitionsOf(loc *time.Location) []transition {
	if tr, ok := transitionCache[loc.String()]; ok {
		return tr
	}
	off := func(ms int64) int { _, o := time.UnixMilli(ms).In(loc).Zone(); return o }
	var out []transition
	lo := time.Date(2015, 1, 1, 12, 0, 0, 0, time.UTC).UnixMilli()
	hi := time.Date(2036, 1, 1, 12, 0, 0, 0, time.UTC).UnixMilli()
	for a := lo; a < hi; a += dayL {
		b := a + dayL
		if off(a) == off(b) {
			continue
		}
		l, r := a, b // off(l) != off(r)
		for r-l > 1 {
			m := l + (r-l)/2
			if off(m) == off(a) {
				l = m
			} else {
				r = m
			}
		}
		lt := time.UnixMilli(r).In(loc)
		mid := time.Date(lt.Year(), lt.Month(), lt.Day(), 0, 0, 0, 0, loc)
		nx := time.Date(lt.Year(), lt.Month(), lt.Day()+1, 0, 0, 0, 0, loc)
		out = append(out, transition{at: r, before: off(a), after: off(b), localMidnight: mid.UnixMilli(), nextMidnight: nx.UnixMilli()})
	}
	transitionCache[loc.String()] = out
	return out
}

// calendar oracle (time.Date in the zone only) -----------------------------------------------

func oracleSegment(loc *time.Location, typ timeutil.IntervalType, ts int64) (start, next int64, name string) {
	lt := time.UnixMilli(ts).In(loc)
	switch typ {
	case timeutil.Day:
		return time.Date(lt.Year(), lt.Month(), lt.Day(), 0, 0, 0, 0, loc).UnixMilli(),
			time.Date(lt.Year(), lt.Month(), lt.Day()+1, 0, 0, 0, 0, loc).UnixMilli(), lt.Format("20060102")
	case timeutil.Month:
		return time.Date(lt.Year(), lt.Month(), 1, 0, 0, 0, 0, loc).UnixMilli(),
			time.Date(lt.Year(), lt.Month()+1, 1, 0, 0, 0, 0, loc).UnixMilli(), lt.Format("200601")
	default:
		return time.Date(lt.Year(), 1, 1, 0, 0, 0, 0, loc).UnixMilli(),
			time.Date(lt.Year()+1, 1, 1, 0, 0, 0, 0, loc).UnixMilli(), lt.Format("2006")
	}
}

// oracleFamily: day type = whole hours counted from the segment start (local midnight), month
// type = the local calendar day, year type = the local calendar month.
func oracleFamily(loc *time.Location, typ timeutil.IntervalType, ts int64) (start, end int64) {
	lt := time.UnixMilli(ts).In(loc)
	switch typ {
	case timeutil.Day:
		seg, next, _ := oracleSegment(loc, typ, ts)
		start = seg + (ts-seg)/hour*hour
		end = start + hour - 1
		if end >= next { // a local day that is not a whole number of hours long: families tile, so the last one ends with the day
			end = next - 1
		}
		return start, end
	case timeutil.Month:
		return time.Date(lt.Year(), lt.Month(), lt.Day(), 0, 0, 0, 0, loc).UnixMilli(),
			time.Date(lt.Year(), lt.Month(), lt.Day()+1, 0, 0, 0, 0, loc).UnixMilli() - 1
	default:
		return time.Date(lt.Year(), lt.Month(), 1, 0, 0, 0, 0, loc).UnixMilli(),
			time.Date(lt.Year(), lt.Month()+1, 1, 0, 0, 0, 0, loc).UnixMilli() - 1
	}
}

// checkZonePoint: the calendar oracle of segment and family in the process zone, then every
// invariant of checkPoint (containment, tiling, idempotence, name round trip, slot bound).
// It returns the signature of the known finding whose shape the point has (then only the parts the
// finding does not touch were judged), or "".
func checkZonePoint(t failer, loc *time.Location, iv timeutil.Interval, ts int64) string {
	calc := iv.Calculator()
	typ := iv.Type()
	seg, nextSeg, name := oracleSegment(loc, typ, ts)
	where := func() string {
		return fmt.Sprintf("zone %s interval %s ts %d (%s)", loc, iv, ts, time.UnixMilli(ts).In(loc).Format(time.RFC3339Nano))
	}
	if got := calc.CalcSegmentTime(ts); got != seg {
		t.Fatalf("%s: CalcSegmentTime = %d (%s), the local calendar says %d (%s)", where(), got,
			time.UnixMilli(got).In(loc).Format(time.RFC3339), seg, time.UnixMilli(seg).In(loc).Format(time.RFC3339))
	}
	if got := calc.GetSegment(ts); got != name {
		t.Fatalf("%s: GetSegment = %q, want %q", where(), got, name)
	}
	if p, err := calc.ParseSegmentTime(name); err != nil || p != seg {
		t.Fatalf("%s: ParseSegmentTime(%q) = %d,%v want %d", where(), name, p, err, seg)
	}
	if got := calc.CalcSegmentTime(nextSeg - 1); got != seg {
		t.Fatalf("%s: last ms %d of the segment is put into segment %d, want %d", where(), nextSeg-1, got, seg)
	}
	if got := calc.CalcSegmentTime(nextSeg); got != nextSeg {
		t.Fatalf("%s: first ms %d of the next segment is put into segment %d", where(), nextSeg, got)
	}
	if typ == timeutil.Day && excluded(sigNonHourShift) {
		// excluded shape: day-type interval on a local day that is not a whole number of hours long
		// (its last family) or on the day after it (the family before its first family)
		prev, _, _ := oracleSegment(loc, typ, seg-1)
		if (nextSeg-seg)%hour != 0 || (seg-prev)%hour != 0 {
			return sigNonHourShift
		}
	}
	fs, fe := oracleFamily(loc, typ, ts)
	if got := calc.CalcFamilyTime(ts); got != fs {
		t.Fatalf("%s: CalcFamilyTime = %d (%s), the local calendar says %d (%s)", where(), got,
			time.UnixMilli(got).In(loc).Format(time.RFC3339), fs, time.UnixMilli(fs).In(loc).Format(time.RFC3339))
	}
	if got := calc.CalcFamilyEndTime(fs); got != fe {
		t.Fatalf("%s: CalcFamilyEndTime(%d) = %d, the local calendar says %d", where(), fs, got, fe)
	}
	if typ == timeutil.Month && fe-fs+1 > dayL && excluded(sigMonthSlotWraps) {
		// excluded shape: month-type interval, family (local day) longer than 24 hours; segment and
		// family were judged above, the slot rules (and the generic walk of checkPoint) are not
		return sigMonthSlotWraps
	}
	checkPoint(prefixFailer{t, where}, iv, ts)
	return ""
}

type prefixFailer struct {
	t     failer
	where func() string
}

func (p prefixFailer) Fatalf(format string, args ...any) {
	p.t.Fatalf("%s: %s", p.where(), fmt.Sprintf(format, args...))
}

func setLocal(loc *time.Location) { time.Local = loc }

func genZone(t *rapid.T) (loc *time.Location, class string) {
	k := rapid.IntRange(0, 9).Draw(t, "zoneKind")
	switch {
	case k <= 1:
		return mustZone(rapid.SampledFrom(fixedZones).Draw(t, "zone")), "zone=fixed-offset"
	case k == 2:
		return mustZone(rapid.SampledFrom(nonHourShiftZones).Draw(t, "zone")), "zone=dst-30min-shift"
	default:
		return mustZone(rapid.SampledFrom(dstZones).Draw(t, "zone")), "zone=dst"
	}
}

// genZoneTimestamp: biased to the days on which the clocks change.
func genZoneTimestamp(t *rapid.T, loc *time.Location) (ts int64, class string) {
	trs := transitionsOf(loc)
	k := rapid.IntRange(0, 9).Draw(t, "tsKind")
	if len(trs) == 0 || k == 0 {
		return genTimestamp(t, "t"), "ts=anywhere"
	}
	tr := trs[rapid.IntRange(0, len(trs)-1).Draw(t, "transition")]
	dir := "forward"
	if tr.after < tr.before {
		dir = "back"
	}
	jit := int64(rapid.SampledFrom([]int{0, 0, -1, 1, -1000, 1000}).Draw(t, "jit"))
	switch k {
	case 1, 2, 3: // change day, after the transition
		return tr.at + rapid.Int64Range(0, tr.nextMidnight-1-tr.at).Draw(t, "after"), "ts=change-day-after-" + dir
	case 4: // change day, before the transition
		return tr.localMidnight + rapid.Int64Range(0, tr.at-1-tr.localMidnight).Draw(t, "before"), "ts=change-day-before-" + dir
	case 5: // around the transition instant and whole hours from it
		return tr.at + int64(rapid.IntRange(-3, 3).Draw(t, "h"))*hour + jit, "ts=transition+-hours-" + dir
	case 6: // last hours of the change day / first of the next
		return tr.nextMidnight + int64(rapid.IntRange(-2, 1).Draw(t, "h"))*hour + jit, "ts=change-day-end-" + dir
	case 7: // first hours of the change day
		return tr.localMidnight + int64(rapid.IntRange(-1, 2).Draw(t, "h"))*hour + jit, "ts=change-day-start-" + dir
	default: // the days around it
		return tr.localMidnight + rapid.Int64Range(-2*dayL, 3*dayL).Draw(t, "around"), "ts=days-around-change-" + dir
	}
}

func TestZonePartition(t *testing.T) {
	defer setLocal(time.UTC)
	rapid.Check(t, func(t *rapid.T) {
		loc, zc := genZone(t)
		setLocal(loc)
		typ := genIntervalType(t)
		iv := genIntervalOfType(t, typ)
		ts, tc := genZoneTimestamp(t, loc)
		classes := []string{zc, tc, "type=" + typ.String(), zc + "/" + "type=" + typ.String()}
		if sig := checkZonePoint(t, loc, iv, ts); sig != "" {
			classes = append(classes, "excluded_known="+sig)
		}
		nt := zc != "zone=fixed-offset" && strings.HasPrefix(tc, "ts=change-day") || strings.HasPrefix(tc, "ts=transition")
		ev.Case("TestZonePartition", fmt.Sprintf("%s/%d/%d", loc, iv, ts), nt,
			classes,
			map[string]any{"zone": loc.String(), "interval": iv.String(), "timestamp": ts, "local": time.UnixMilli(ts).In(loc).Format(time.RFC3339Nano)})
	})
}

// TestZoneClockChangeWalk: every clock change 2015..2035 of every generated daylight-saving
// zone; every whole and half hour from one hour before the local midnight of the change day to
// one hour after the next midnight (and the ms before each), for one interval of every type.
func TestZoneClockChangeWalk(t *testing.T) {
	defer setLocal(time.UTC)
	zones := append(append([]string{}, dstZones...), nonHourShiftZones...)
	ivs := []timeutil.Interval{timeutil.Interval(10 * sec), timeutil.Interval(5 * min), timeutil.Interval(hour)}
	for _, zn := range zones {
		loc := mustZone(zn)
		setLocal(loc)
		trs := transitionsOf(loc)
		if len(trs) < 30 {
			t.Fatalf("harness: zone %s has only %d clock changes in 2015..2035", zn, len(trs))
		}
		n, excl := 0, 0
		point := func(iv timeutil.Interval, ts int64) {
			n++
			if checkZonePoint(t, loc, iv, ts) != "" {
				excl++
			}
		}
		for i, tr := range trs {
			if testing.Short() && i%3 != 0 && i%3 != 1 { // quick tier: two of three changes (both directions alternate)
				continue
			}
			for ts := tr.localMidnight - hour; ts <= tr.nextMidnight+hour; ts += 30 * min {
				for _, iv := range ivs {
					point(iv, ts)
					point(iv, ts-1)
				}
			}
			for _, iv := range ivs {
				point(iv, tr.at)
				point(iv, tr.at-1)
			}
		}
		ev.Class("TestZoneClockChangeWalk", "points-"+zn, n)
		ev.Class("TestZoneClockChangeWalk", "excluded_known-points-"+zn, excl)
		ev.Case("TestZoneClockChangeWalk", "walk/"+zn, true, []string{"zone=dst"}, map[string]any{"zone": zn, "clockChanges": len(trs), "points": n})
	}
}

// TestRegression_NonWholeHourClockChangeFamiliesOverlap: process zone Australia/Lord_Howe
// (clocks move by 30 minutes). 2024-04-07 is 24.5 hours long: the day calculator's 25th family of
// that day, [00:00+24h, +25h), reaches 30 minutes into 2024-04-08, whose first family starts at
// its own local midnight: two families contain the same timestamps, and the family computed
// from the end of a family is another family.
func TestRegression_NonWholeHourClockChangeFamiliesOverlap(t *testing.T) {
	defer setLocal(time.UTC)
	loc := mustZone("Australia/Lord_Howe")
	setLocal(loc)
	calc := timeutil.Interval(10 * sec).Calculator()
	ts := time.Date(2024, 4, 7, 23, 45, 0, 0, loc).UnixMilli() // 24h15m after local midnight
	fam := calc.CalcFamilyTime(ts)
	end := calc.CalcFamilyEndTime(fam)
	next := calc.CalcFamilyTime(end)
	if next == fam {
		return // repaired
	}
	what := fmt.Sprintf("zone %s, interval 10s: family of %s is [%s, %s] but its last ms belongs to family %s: day-type families overlap on a 24.5h day",
		loc, time.UnixMilli(ts).In(loc).Format(time.RFC3339), time.UnixMilli(fam).In(loc).Format(time.RFC3339),
		time.UnixMilli(end).In(loc).Format(time.RFC3339Nano), time.UnixMilli(next).In(loc).Format(time.RFC3339))
	if excluded(sigNonHourShift) {
		ev.KnownFinding("C13", sigNonHourShift+": "+what)
		return
	}
	t.Fatalf("%s: %s", sigNonHourShift, what)
}

// TestRegression_MonthSlotWrapsOnLongLocalDay: process zone America/New_York, month-type interval
// 5m. 2024-11-03 is 25 hours long (01:00-02:00 happens twice). 23:10 EST is 24h10m after the start
// of the family (local midnight EDT); CalcSlot gives slot 2 = 00:10 EDT: the last hour of the day is
// stored in (merged into) the slots of its first hour.
func TestRegression_MonthSlotWrapsOnLongLocalDay(t *testing.T) {
	defer setLocal(time.UTC)
	loc := mustZone("America/New_York")
	setLocal(loc)
	iv := timeutil.Interval(5 * min)
	calc := iv.Calculator()
	early := time.Date(2024, 11, 3, 0, 10, 0, 0, loc).UnixMilli()
	late := time.Date(2024, 11, 3, 23, 10, 0, 0, loc).UnixMilli()
	fam := calc.CalcFamilyTime(late)
	if calc.CalcFamilyTime(early) != fam {
		t.Fatalf("harness: the two timestamps are not in one family")
	}
	s1, s2 := calc.CalcSlot(early, fam, iv.Int64()), calc.CalcSlot(late, fam, iv.Int64())
	if s1 != s2 && timeutil.CalcTimestamp(fam, s2, iv) == late {
		return // repaired
	}
	what := fmt.Sprintf("zone %s, interval 5m, family %s: 00:10 EDT gets slot %d and 23:10 EST (24h10m after the family start) gets slot %d = %s",
		loc, time.UnixMilli(fam).In(loc).Format(time.RFC3339), s1, s2, time.UnixMilli(timeutil.CalcTimestamp(fam, s2, iv)).In(loc).Format(time.RFC3339))
	if excluded(sigMonthSlotWraps) {
		ev.KnownFinding("C13", sigMonthSlotWraps+": "+what)
		return
	}
	t.Fatalf("%s: %s", sigMonthSlotWraps, what)
}

// ---- option validation: interval lists ---------------------------------------------------------

// TestOptionIntervalLists: a database option as it arrives from JSON/TOML (engine.CreateShards ->
// Validate; no sorting before validation). Documented rule (Intervals.IsValid): no two intervals
// of one interval type; Validate: not empty. Generated: 0-5 intervals, types drawn with
// repetition, order ascending / descending / shuffled.
func TestOptionIntervalLists(t *testing.T) {
	rapid.Check(t, func(t *rapid.T) {
		n := rapid.IntRange(0, 5).Draw(t, "n")
		if rapid.IntRange(0, 19).Draw(t, "emptyBias") != 0 && n == 0 {
			n = 3
		}
		var ivs option.Intervals
		for i := 0; i < n; i++ {
			typ := genIntervalType(t)
			var iv timeutil.Interval
			if len(ivs) > 0 && rapid.IntRange(0, 7).Draw(t, "sameValue") == 0 {
				iv = ivs[rapid.IntRange(0, len(ivs)-1).Draw(t, "sameIdx")].Interval
			} else {
				iv = genIntervalOfType(t, typ)
			}
			ivs = append(ivs, option.Interval{Interval: iv, Retention: timeutil.Interval(3000 * dayL)})
		}
		order := rapid.SampledFrom([]string{"ascending", "descending", "shuffled", "as-drawn"}).Draw(t, "order")
		switch order {
		case "ascending":
			sort.SliceStable(ivs, func(i, j int) bool { return ivs[i].Interval < ivs[j].Interval })
		case "descending":
			sort.SliceStable(ivs, func(i, j int) bool { return ivs[i].Interval > ivs[j].Interval })
		case "shuffled":
			perm := rapid.Permutation(ivs).Draw(t, "perm")
			ivs = option.Intervals(perm)
		}
		listed := append(option.Intervals{}, ivs...)
		// reference: count per type, find whether two of one type are neighbours in the list
		perType := map[timeutil.IntervalType]int{}
		dup, adjacentDup := false, false
		for i, x := range ivs {
			perType[x.Interval.Type()]++
			if perType[x.Interval.Type()] > 1 {
				dup = true
			}
			if i > 0 && ivs[i-1].Interval.Type() == x.Interval.Type() {
				adjacentDup = true
			}
		}
		opt := &option.DatabaseOption{Intervals: ivs}
		err := opt.Validate()
		wantReject := len(ivs) == 0 || dup
		if wantReject != (err != nil) {
			t.Fatalf("option with intervals %s (order %s): Validate = %v; a database stores exactly one interval per interval type and at least one, so it must be %s",
				listed, order, err, map[bool]string{true: "rejected", false: "accepted"}[wantReject])
		}
		if e2 := ivs.IsValid(); (e2 != nil) != dup {
			t.Fatalf("Intervals%s.IsValid() = %v, duplicate type in the list: %v", listed, e2, dup)
		}
		cls := []string{"order=" + order, fmt.Sprintf("n=%d", len(ivs))}
		switch {
		case len(ivs) == 0:
			cls = append(cls, "list=empty")
		case dup && !adjacentDup:
			cls = append(cls, "list=duplicate-type-separated-by-another-type")
		case dup:
			cls = append(cls, "list=duplicate-type-neighbours")
		default:
			cls = append(cls, "list=one-per-type")
		}
		if err == nil {
			// what is accepted: after the engine sorted it (tsdb.newShard: sort.Sort(Intervals)) the
			// planner picks, for a generated range and width, an interval of the list, and every type
			// has exactly one stored interval (segment directory / GetDataFamilies key).
			sort.Sort(opt.Intervals)
			start := genTimestamp(t, "start")
			span := rapid.SampledFrom([]int64{30 * min, 3 * hour, 3 * dayL, 40 * dayL, 100 * dayL}).Draw(t, "span")
			var userIv timeutil.Interval
			if rapid.Bool().Draw(t, "userIv") {
				userIv = timeutil.Interval(rapid.Int64Range(1, 3*24*3600).Draw(t, "userIvSec") * sec)
			}
			q := &stmt.Query{TimeRange: timeutil.TimeRange{Start: start, End: start + span}, Interval: userIv}
			qctx.VerifCalcTimeRangeAndInterval(q, models.Database{Name: "db", Option: opt})
			found := 0
			for _, x := range opt.Intervals {
				if x.Interval == q.StorageInterval {
					found++
				}
				if x.Interval.Type() == q.StorageInterval.Type() && x.Interval != q.StorageInterval {
					t.Fatalf("accepted option %s: planner reads type %s with %s, the database also stores %s of that type",
						listed, q.StorageInterval.Type(), q.StorageInterval, x.Interval)
				}
			}
			if found != 1 {
				t.Fatalf("accepted option %s: planned storage interval %s is stored %d times", listed, q.StorageInterval, found)
			}
			if q.Interval.Int64()%q.StorageInterval.Int64() != 0 || q.Interval <= 0 {
				t.Fatalf("accepted option %s: query interval %s not a multiple of %s", listed, q.Interval, q.StorageInterval)
			}
		}
		ev.Case("TestOptionIntervalLists", fmt.Sprintf("%v", listed), dup || order != "ascending", cls,
			map[string]any{"intervals": listed.String(), "order": order, "accepted": err == nil})
	})
}
