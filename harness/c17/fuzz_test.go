package c17

import (
	"testing"

	"github.com/lindb/lindb/sql"
	"github.com/lindb/lindb/sql/stmt"
)

// FuzzParse: native fuzzing of sql.Parse (thorough tier only).
//
//   - sql.Parse promises to turn every panic of the ANTLR error listener / the listener code into
//     an error (sql/parser.go: defer recover), so a panic that escapes Parse crashes the target
//     and is a violation; a rejected text is simply not part of the quantifier.
//   - accepted text: parsing is deterministic, and a *stmt.Query / *stmt.MetricMetadata survives
//     the wire (same oracle as the property tests). Both TimeRange bounds are left out of the
//     determinism comparison because for arbitrary text the target cannot know which bound is
//     clock derived; the wire comparison is complete.
//
// Inputs longer than 4 KiB are skipped: ANTLR's recursive descent needs stack proportional to
// the nesting and a megabyte of '(' is a resource question, not a C17 one.
func FuzzParse(f *testing.F) {
	for _, s := range []string{
		`select f from m`,
		`explain select (f+1)*2 as a, sum(max(f)/2) from cpu.load on 'ns-1' where (host='a' or host like 'b*') and ip not in ('1','2') and time > now()-1h and time < now() group by host, time(1m) having (sum(f) > 1.5 and g <= -2) or x like 3 order by a desc, sum(f) limit 5`,
		`select quantile(0.99) as p99, rate(f, 1m), count(*) from m where host =~ 'a.*' and host !~ 'b' group by time() fill(NULL)`,
		`from m select f[host='a'], sum(f, host='b') where time > '2019-01-01 00:00:00' and time < '20190102 00:00:00' withvalue`,
		`show tag values from m on ns with key = host where host='a' and (ip in ('1') or zone not like 'z*') limit 3`,
		`show metrics on ns where metric = abc limit 4`,
		`show fields from m`,
		`select .5 + f, 1.25*f, 007 - f, 1.a5 from m limit 007`,
		`select f from m where time > now(g) 1h`,
		"select `f`, ${v}, _x:y, 'a\nb' from \"m\"",
	} {
		f.Add(s)
	}
	f.Fuzz(func(t *testing.T, text string) {
		if len(text) > 4096 {
			t.Skip()
		}
		s1, err1 := sql.Parse(text)
		s2, err2 := sql.Parse(text)
		if (err1 == nil) != (err2 == nil) {
			t.Fatalf("sql.Parse is not deterministic: first %v, second %v\nsql: %q", err1, err2, text)
		}
		if err1 != nil {
			return
		}
		switch q1 := s1.(type) {
		case *stmt.Query:
			q2, ok := s2.(*stmt.Query)
			if !ok {
				t.Fatalf("sql.Parse is not deterministic: %T then %T\nsql: %q", s1, s2, text)
			}
			if d := queryDiff(q1, q2, true, true); d != "" {
				t.Fatalf("sql.Parse is not deterministic: %s\nsql: %q", d, text)
			}
			checkQueryWire(t, "sql: "+text, q1)
		case *stmt.MetricMetadata:
			m2, ok := s2.(*stmt.MetricMetadata)
			if !ok {
				t.Fatalf("sql.Parse is not deterministic: %T then %T\nsql: %q", s1, s2, text)
			}
			if d := metaDiff(q1, m2); d != "" {
				t.Fatalf("sql.Parse is not deterministic: %s\nsql: %q", d, text)
			}
			checkMetaWire(t, "sql: "+text, q1)
		}
	})
}
