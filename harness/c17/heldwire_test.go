package c17

// Held wire payloads and held decoded statements.
//
// Every other test of this package marshals a statement and unmarshals the payload at once. On a
// node the two are apart: the root planner (query/context/root_metric_context.go MakePlan,
// intermediate_metric_context.go MakePlan, metadata_context.go MakePlan) calls
// Statement.MarshalJSON() once and keeps the returned bytes in the task requests of all leaves while
// the node goes on marshalling the statements of the other queries in flight; a leaf or intermediate
// node (query/leaf_processor.go, query/intermediate_processor.go) unmarshals the payload of one
// request into a fresh statement, keeps that statement for the whole pipeline, and unmarshals the
// payloads of the next requests meanwhile; an intermediate node plans the decoded statement
// (calcTimeRangeAndInterval) and marshals it again for its leaves.
//
// A case is a session of one node (TestHeldPayloadsSurviveLaterTraffic: one session, run by the
// test goroutine, fully determined by the seed) or 2-6 sessions on goroutines released by one
// barrier (TestHeldPayloadsConcurrentSessions; nothing is shared between the sessions but the code
// under test). A session owns 2-6 statements
//
//	parsed query | directly built query | parsed show-statement | directly built metadata statement | expression tree
//
// and runs a drawn script of 6-40 operations:
//
//	marshal      a statement of the session, or a statement the session decoded earlier (forwarding, as the
//	             intermediate node does): Query/MetricMetadata.MarshalJSON() as MakePlan calls it, the same
//	             through encoding.JSONMarshal (json.Marshaler), stmt.Marshal for a tree. The returned slice is
//	             KEPT as it is (no copy), next to a private copy and a harness-made deep copy of the statement
//	decode       a kept payload into a fresh statement (UnmarshalJSON as the processors call it, the same through
//	             encoding.JSONUnmarshal, stmt.Unmarshal); the decoded statement is KEPT
//	release      the transport takes a payload buffer back and writes the next message into it. Allowed by the
//	             contract of json.Unmarshaler ("UnmarshalJSON must copy the JSON data if it wishes to retain the
//	             data after returning") and by the ownership of a returned []byte; the payload is dead afterwards
//	planSource   the production planner step on a parsed query of the session (calcTimeRangeAndInterval; for a
//	             metadata statement the limit, as NewMetadataContext sets it): later payloads carry the new
//	             state, the payloads marshalled before keep the old one
//	planDecoded  the same on a decoded statement (intermediate node)
//
// Oracle (independent of the implementation: a reference copy made by the harness, never by Marshal):
//
//   - after EVERY operation each kept payload still has the bytes that were returned (the last leaf gets
//     what the first leaf got), and each kept decoded statement still equals the reference of its payload;
//   - every decode, however many operations after the marshal, yields the statement as it was when it
//     was marshalled (not the statement of another query, not a later state of the same statement);
//   - at the end every payload that is still held is decoded once more and every statement of the
//     session still equals its reference (marshalling does not change the statement).
//
// The interleaving of the concurrent variant is not controlled (sampled); the oracle holds for every
// interleaving and no timing enters the verdict.

import (
	"bytes"
	"fmt"
	"sort"
	"strings"
	"sync"
	"sync/atomic"
	"testing"

	"pgregory.net/rapid"

	"github.com/lindb/common/pkg/encoding"

	"github.com/lindb/lindb/models"
	"github.com/lindb/lindb/pkg/timeutil"
	qctx "github.com/lindb/lindb/query/context"
	"github.com/lindb/lindb/sql"
	"github.com/lindb/lindb/sql/stmt"
	"github.com/lindb/lindb/verifharness/sim/ev"
)

// ---- reference copies ---------------------------------------------------------------------------------

func cloneStrings(s []string) []string {
	if s == nil {
		return nil
	}
	out := make([]string, len(s))
	for i := range s {
		out[i] = strings.Clone(s[i])
	}
	return out
}

func cloneExprs(es []stmt.Expr) []stmt.Expr {
	if es == nil {
		return nil
	}
	out := make([]stmt.Expr, len(es))
	for i := range es {
		out[i] = cloneExpr(es[i])
	}
	return out
}

// cloneExpr copies a tree node by node (strings included, so that the copy shares no byte with the original).
func cloneExpr(e stmt.Expr) stmt.Expr {
	if isNilExpr(e) {
		return nil
	}
	c := strings.Clone
	switch x := e.(type) {
	case *stmt.SelectItem:
		return &stmt.SelectItem{Expr: cloneExpr(x.Expr), Alias: c(x.Alias)}
	case *stmt.OrderByExpr:
		return &stmt.OrderByExpr{Expr: cloneExpr(x.Expr), Desc: x.Desc}
	case *stmt.FieldExpr:
		return &stmt.FieldExpr{Name: c(x.Name)}
	case *stmt.NumberLiteral:
		return &stmt.NumberLiteral{Val: x.Val}
	case *stmt.CallExpr:
		return &stmt.CallExpr{FuncType: x.FuncType, Params: cloneExprs(x.Params)}
	case *stmt.ParenExpr:
		return &stmt.ParenExpr{Expr: cloneExpr(x.Expr)}
	case *stmt.NotExpr:
		return &stmt.NotExpr{Expr: cloneExpr(x.Expr)}
	case *stmt.BinaryExpr:
		return &stmt.BinaryExpr{Left: cloneExpr(x.Left), Operator: x.Operator, Right: cloneExpr(x.Right)}
	case *stmt.EqualsExpr:
		return &stmt.EqualsExpr{Key: c(x.Key), Value: c(x.Value)}
	case *stmt.LikeExpr:
		return &stmt.LikeExpr{Key: c(x.Key), Value: c(x.Value)}
	case *stmt.RegexExpr:
		return &stmt.RegexExpr{Key: c(x.Key), Regexp: c(x.Regexp)}
	case *stmt.InExpr:
		return &stmt.InExpr{Key: c(x.Key), Values: cloneStrings(x.Values)}
	default:
		panic(fmt.Sprintf("harness: node kind %T is not part of the statement model", e))
	}
}

// hwValue is a statement of one of the three kinds that travel.
type hwValue struct {
	q *stmt.Query
	m *stmt.MetricMetadata
	e stmt.Expr
}

func (v hwValue) kind() string {
	switch {
	case v.q != nil:
		return "query"
	case v.m != nil:
		return "meta"
	default:
		return "expr"
	}
}

func (v hwValue) clone() hwValue {
	switch {
	case v.q != nil:
		q := *v.q // scalars
		q.Namespace, q.MetricName = strings.Clone(q.Namespace), strings.Clone(q.MetricName)
		q.SelectItems, q.OrderByItems = cloneExprs(v.q.SelectItems), cloneExprs(v.q.OrderByItems)
		q.Condition, q.Having = cloneExpr(v.q.Condition), cloneExpr(v.q.Having)
		q.GroupBy = cloneStrings(v.q.GroupBy)
		return hwValue{q: &q}
	case v.m != nil:
		m := *v.m
		m.Namespace, m.MetricName, m.TagKey, m.Prefix = strings.Clone(m.Namespace), strings.Clone(m.MetricName), strings.Clone(m.TagKey), strings.Clone(m.Prefix)
		m.Condition = cloneExpr(v.m.Condition)
		return hwValue{m: &m}
	default:
		return hwValue{e: cloneExpr(v.e)}
	}
}

// diff: "" if got is the statement want (the equality of this package, see c17_test.go).
func (want hwValue) diff(got hwValue, withRewrite bool) string {
	switch {
	case want.q != nil:
		if d := queryDiff(want.q, got.q, false, false); d != "" {
			return d
		}
		if withRewrite {
			pa, ea := queryExprs(want.q)
			_, eb := queryExprs(got.q)
			for i := range ea {
				if d := rewriteDiff(pa[i], ea[i], eb[i]); d != "" {
					return d
				}
			}
		}
	case want.m != nil:
		if d := metaDiff(want.m, got.m); d != "" {
			return d
		}
		if withRewrite {
			return rewriteDiff("Condition", want.m.Condition, got.m.Condition)
		}
	default:
		if d := exprDiff("e", want.e, got.e); d != "" {
			return d
		}
		if withRewrite {
			return rewriteDiff("e", want.e, got.e)
		}
	}
	return ""
}

const (
	viaMarshalJSON   = "MarshalJSON"   // payload, _ := Statement.MarshalJSON()  (MakePlan)
	viaJSONMarshal   = "JSONMarshal"   // encoding.JSONMarshal(statement)         (json.Marshaler)
	viaExprMarshal   = "stmt.Marshal"  // stmt.Marshal(tree)
	viaUnmarshalJSON = "UnmarshalJSON" // fresh statement, UnmarshalJSON(req.Payload) (processors)
	viaJSONUnmarshal = "JSONUnmarshal" // encoding.JSONUnmarshal(payload, &statement) (json.Unmarshaler)
	viaExprUnmarshal = "stmt.Unmarshal"
)

func (v hwValue) marshal(via string) ([]byte, error) {
	switch {
	case v.q != nil && via == viaJSONMarshal:
		return encoding.JSONMarshal(v.q), nil
	case v.q != nil:
		return v.q.MarshalJSON()
	case v.m != nil && via == viaJSONMarshal:
		return encoding.JSONMarshal(v.m), nil
	case v.m != nil:
		return v.m.MarshalJSON()
	default:
		return stmt.Marshal(v.e), nil
	}
}

func hwDecode(kind, via string, data []byte) (hwValue, error) {
	switch kind {
	case "query":
		q := stmt.Query{}
		if via == viaJSONUnmarshal {
			return hwValue{q: &q}, encoding.JSONUnmarshal(data, &q)
		}
		return hwValue{q: &q}, q.UnmarshalJSON(data)
	case "meta":
		m := &stmt.MetricMetadata{}
		if via == viaJSONUnmarshal {
			return hwValue{m: m}, encoding.JSONUnmarshal(data, m)
		}
		return hwValue{m: m}, m.UnmarshalJSON(data)
	default:
		e, err := stmt.Unmarshal(data)
		if err == nil && isNilExpr(e) {
			err = fmt.Errorf("stmt.Unmarshal returned no expression and no error")
		}
		return hwValue{e: e}, err
	}
}

// plan runs what a planning node does to its own statement before it marshals it.
func (v hwValue) plan(opt int) {
	switch {
	case v.q != nil:
		qctx.VerifCalcTimeRangeAndInterval(v.q, models.Database{Name: "db", Option: dbOptions[opt%len(dbOptions)]})
	case v.m != nil:
		v.m.Limit = hwLimits[opt%len(hwLimits)]
	}
}

var hwLimits = []int{100, 1, 10000, 50, 7}

// ---- the session -----------------------------------------------------------------------------------------

type hwStmt struct {
	Origin string `json:"origin"` // query:parsed | query:built | meta:parsed | meta:built | expr
	Text   string `json:"sql,omitempty"`
	val    hwValue
	ref    hwValue // reference copy of val, brought up to date by the harness at every plan step
	// plannable: the production planner step is only run on statements the parser produced (and on
	// what was decoded from them): those are the statements it sees.
	plannable bool
}

type hwOp struct {
	Kind string `json:"op"`            // marshal | decode | release | planSource | planDecoded
	Src  string `json:"src,omitempty"` // marshal: "stmt" or "decoded"
	A    int    `json:"a"`             // index of the statement / payload / decoded statement
	Via  string `json:"via,omitempty"`
	Opt  int    `json:"opt,omitempty"`
}

type hwSession struct {
	Stmts []*hwStmt `json:"statements"`
	Ops   []hwOp    `json:"ops"`
}

type hwPayload struct {
	kind, via string
	from      string  // description of the source
	held      []byte  // the slice as returned
	copyOf    []byte  // private copy taken when it was returned
	want      hwValue // the statement as it was when it was marshalled
	plannable bool
	released  bool
	step      int // operation that produced it
	marshalNo int // r.marshals when it was produced
	decodes   int
}

type hwDecoded struct {
	val       hwValue
	want      hwValue
	payload   int
	plannable bool
	step      int
	decodeNo  int
}

type hwStats struct {
	ops                        map[string]int
	payloadKinds               map[string]int
	maxHeldAcross              int // marshals between the marshal of a payload and one of its decodes
	maxHeldAcrossOther         int // ... counting only marshals of another source
	maxDecodedAcross           int // decodes between a decode and the last check of its statement
	shorterLater, longerLater  bool
	replanned                  bool // one statement marshalled, planned, marshalled again
	forwarded, decodedTwice    bool
	releasedWithDecoded        bool // a payload released while statements decoded from it are held
	bytesMarshalled, maxPayLen int
}

type hwRun struct {
	s        *hwSession
	name     string
	payloads []*hwPayload
	decoded  []*hwDecoded
	marshals int
	decodes  int
	// marshalSrc[i]: source description of the i-th marshal
	marshalSrc []string
	stats      hwStats
}

func newHWRun(name string, s *hwSession) *hwRun {
	return &hwRun{s: s, name: name, stats: hwStats{ops: map[string]int{}, payloadKinds: map[string]int{}}}
}

func clip(b []byte) string {
	if len(b) > 1500 {
		return string(b[:1500]) + fmt.Sprintf("...(%d bytes)", len(b))
	}
	return string(b)
}

// checkHeld: what the node holds is what it got.
func (r *hwRun) checkHeld(step int, op hwOp) string {
	for i, p := range r.payloads {
		if p.released || bytes.Equal(p.held, p.copyOf) {
			continue
		}
		what := "decoding them"
		got, err := hwDecode(p.kind, viaUnmarshalJSON, p.held)
		switch {
		case err != nil:
			what += fmt.Sprintf(" fails: %v", err)
		default:
			if d := p.want.diff(got, false); d != "" {
				what += " gives another statement: " + d
			} else {
				what += " still gives the statement"
			}
		}
		return fmt.Sprintf("%s: payload #%d (%s of %s via %s at step %d) changed while the node held it for its other receivers: after step %d (%+v) the kept bytes are not the returned bytes; %s\nreturned: %s\nheld now: %s",
			r.name, i, p.kind, p.from, p.via, p.step, step, op, what, clip(p.copyOf), clip(p.held))
	}
	for i, d := range r.decoded {
		if diff := d.want.diff(d.val, false); diff != "" {
			return fmt.Sprintf("%s: decoded statement #%d (from payload #%d, decoded at step %d) changed while the node held it: after step %d (%+v): %s\npayload: %s",
				r.name, i, d.payload, d.step, step, op, diff, clip(r.payloads[d.payload].copyOf))
		}
		if n := r.decodes - d.decodeNo; n > r.stats.maxDecodedAcross {
			r.stats.maxDecodedAcross = n
		}
	}
	return ""
}

func (r *hwRun) decode(step, pi int, via string) string {
	p := r.payloads[pi]
	got, err := hwDecode(p.kind, via, p.held)
	across, other := r.marshals-p.marshalNo, 0
	for _, src := range r.marshalSrc[p.marshalNo:] {
		if src != p.from {
			other++
		}
	}
	if err != nil {
		return fmt.Sprintf("%s: step %d: the receiving node cannot decode payload #%d (%s of %s via %s at step %d, held across %d later marshals): %v\nreturned: %s\nheld now: %s",
			r.name, step, pi, p.kind, p.from, p.via, p.step, across, err, clip(p.copyOf), clip(p.held))
	}
	if d := p.want.diff(got, true); d != "" {
		return fmt.Sprintf("%s: step %d: payload #%d (%s of %s via %s at step %d, held across %d later marshals) does not decode to the statement that was marshalled: %s\nreturned: %s\nheld now: %s",
			r.name, step, pi, p.kind, p.from, p.via, p.step, across, d, clip(p.copyOf), clip(p.held))
	}
	if p.decodes++; p.decodes >= 2 {
		r.stats.decodedTwice = true
	}
	if across > r.stats.maxHeldAcross {
		r.stats.maxHeldAcross = across
	}
	if other > r.stats.maxHeldAcrossOther {
		r.stats.maxHeldAcrossOther = other
	}
	r.decoded = append(r.decoded, &hwDecoded{val: got, want: p.want, payload: pi, plannable: p.plannable, step: step, decodeNo: r.decodes})
	r.decodes++
	return ""
}

func (r *hwRun) step(i int) string {
	op := r.s.Ops[i]
	r.stats.ops[op.Kind]++
	switch op.Kind {
	case "marshal":
		var src hwValue
		var from string
		plannable := false
		if op.Src == "decoded" {
			d := r.decoded[op.A]
			src, from, plannable = d.val, fmt.Sprintf("decoded statement #%d", op.A), d.plannable
			r.stats.forwarded = true
		} else {
			st := r.s.Stmts[op.A]
			src, from, plannable = st.val, fmt.Sprintf("statement %d", op.A), st.plannable
		}
		want := src.clone()
		data, err := src.marshal(op.Via)
		if err != nil {
			return fmt.Sprintf("%s: step %d: %s of %s: %v", r.name, i, op.Via, from, err)
		}
		if len(data) == 0 {
			return fmt.Sprintf("%s: step %d: %s of %s returned no payload", r.name, i, op.Via, from)
		}
		for _, p := range r.payloads {
			if p.released {
				continue
			}
			if len(data) < len(p.held) {
				r.stats.shorterLater = true
			}
			if len(data) > len(p.held) {
				r.stats.longerLater = true
			}
			if p.from == from && p.want.diff(want, false) != "" {
				r.stats.replanned = true
			}
		}
		r.payloads = append(r.payloads, &hwPayload{kind: src.kind(), via: op.Via, from: from, held: data, copyOf: bytes.Clone(data), want: want,
			plannable: plannable, step: i, marshalNo: r.marshals + 1})
		r.marshals++
		r.marshalSrc = append(r.marshalSrc, from)
		r.stats.payloadKinds[src.kind()+"/"+op.Via]++
		r.stats.bytesMarshalled += len(data)
		if len(data) > r.stats.maxPayLen {
			r.stats.maxPayLen = len(data)
		}
	case "decode":
		if msg := r.decode(i, op.A, op.Via); msg != "" {
			return msg
		}
	case "release":
		p := r.payloads[op.A]
		p.released = true
		// the buffer gets the next message: the bytes of another payload, repeated, or filler
		fill := []byte("#")
		if other := r.payloads[(op.A+1)%len(r.payloads)]; other != p {
			fill = other.copyOf
		}
		for j := range p.held {
			p.held[j] = fill[j%len(fill)]
		}
		for _, d := range r.decoded {
			if d.payload == op.A {
				r.stats.releasedWithDecoded = true
			}
		}
	case "planSource":
		st := r.s.Stmts[op.A]
		st.val.plan(op.Opt)
		st.ref.plan(op.Opt) // the reference copy goes through the same planner step, on its own memory
	case "planDecoded":
		d := r.decoded[op.A]
		d.val.plan(op.Opt)
		d.want = d.want.clone()
		d.want.plan(op.Opt)
	default:
		panic("harness: unknown op " + op.Kind)
	}
	return r.checkHeld(i, op)
}

// finish: the last receivers get their payloads; the session's own statements are what they were.
func (r *hwRun) finish() string {
	n := len(r.s.Ops)
	for pi, p := range r.payloads {
		if p.released {
			continue
		}
		if msg := r.decode(n, pi, viaUnmarshalJSON); msg != "" {
			return msg
		}
	}
	if msg := r.checkHeld(n, hwOp{Kind: "end"}); msg != "" {
		return msg
	}
	for i, st := range r.s.Stmts {
		if d := st.ref.diff(st.val, false); d != "" {
			return fmt.Sprintf("%s: statement %d (%s) of the session is no longer the statement the node planned, marshalling changed it: %s", r.name, i, st.Origin, d)
		}
	}
	return ""
}

func (r *hwRun) run() string {
	for i := range r.s.Ops {
		if msg := r.step(i); msg != "" {
			return msg
		}
	}
	return r.finish()
}

// ---- generator -------------------------------------------------------------------------------------------------

// genBuiltQuery: a statement as a planner / API client builds it (domain of exprgen_test.go), small to medium.
func genBuiltQuery(t *rapid.T) *stmt.Query {
	depth := rapid.SampledFrom([]int{1, 2, 2, 3, 4}).Draw(t, "depth")
	optExpr := func(label string) stmt.Expr {
		if rapid.IntRange(0, 2).Draw(t, label) == 0 {
			return nil
		}
		if drawWide(t) {
			e, _ := genWideExpr(t)
			return e
		}
		return genExpr(t, depth)
	}
	list := func(label string) []stmt.Expr {
		var out []stmt.Expr
		for i, n := 0, rapid.SampledFrom([]int{0, 1, 1, 2, 3, 6}).Draw(t, label); i < n; i++ {
			out = append(out, genExpr(t, depth))
		}
		return out
	}
	q := &stmt.Query{
		Explain:         rapid.Bool().Draw(t, "explain"),
		Namespace:       genString(t, "ns"),
		MetricName:      genString(t, "metric"),
		SelectItems:     list("nSelect"),
		AllFields:       rapid.Bool().Draw(t, "allFields"),
		Condition:       optExpr("cond"),
		TimeRange:       timeutil.TimeRange{Start: rapid.Int64().Draw(t, "start"), End: rapid.Int64().Draw(t, "end")},
		Interval:        genSeconds(t, "interval"),
		StorageInterval: genSeconds(t, "storageInterval"),
		IntervalRatio:   rapid.IntRange(0, 100000).Draw(t, "ratio"),
		AutoGroupByTime: rapid.Bool().Draw(t, "autoGroupByTime"),
		Having:          optExpr("having"),
		OrderByItems:    list("nOrderBy"),
		Limit:           rapid.IntRange(0, 1<<31-1).Draw(t, "limit"),
	}
	for i, n := 0, rapid.SampledFrom([]int{0, 0, 1, 2, 3, 8}).Draw(t, "nGroupBy"); i < n; i++ {
		q.GroupBy = append(q.GroupBy, genString(t, "groupBy"))
	}
	return q
}

func genBuiltMeta(t *rapid.T) *stmt.MetricMetadata {
	m := &stmt.MetricMetadata{
		Namespace:  genString(t, "ns"),
		MetricName: genString(t, "metric"),
		Type:       stmt.MetricMetadataType(rapid.IntRange(0, 6).Draw(t, "type")),
		TagKey:     genString(t, "tagKey"),
		Prefix:     genString(t, "prefix"),
		Limit:      rapid.IntRange(0, 1<<31-1).Draw(t, "limit"),
	}
	if rapid.IntRange(0, 2).Draw(t, "cond") != 0 {
		m.Condition = genExpr(t, rapid.IntRange(1, 4).Draw(t, "depth"))
	}
	return m
}

func genHWStmt(t *rapid.T) *hwStmt {
	built := func() *hwStmt { return &hwStmt{Origin: "query:built", val: hwValue{q: genBuiltQuery(t)}} }
	switch rapid.SampledFrom([]string{"pq", "pq", "pq", "pq", "pq", "bq", "bq", "pm", "bm", "ex", "ex"}).Draw(t, "stmtKind") {
	case "pq":
		for try := 0; try < 3; try++ {
			g := newSQLGen(t)
			g.queryStmt()
			if s, err := sql.Parse(g.text()); err == nil {
				if q, ok := s.(*stmt.Query); ok {
					return &hwStmt{Origin: "query:parsed", Text: g.text(), val: hwValue{q: q}, plannable: true}
				}
			}
		}
		return built()
	case "bq":
		return built()
	case "pm":
		g := newSQLGen(t)
		g.metadataStmt()
		if s, err := sql.Parse(g.text()); err == nil {
			if m, ok := s.(*stmt.MetricMetadata); ok {
				return &hwStmt{Origin: "meta:parsed", Text: g.text(), val: hwValue{m: m}, plannable: true}
			}
		}
		return &hwStmt{Origin: "meta:built", val: hwValue{m: genBuiltMeta(t)}, plannable: true}
	case "bm":
		return &hwStmt{Origin: "meta:built", val: hwValue{m: genBuiltMeta(t)}, plannable: true}
	default:
		if drawWide(t) {
			e, _ := genWideExpr(t)
			return &hwStmt{Origin: "expr", val: hwValue{e: e}}
		}
		return &hwStmt{Origin: "expr", val: hwValue{e: genExpr(t, rapid.SampledFrom([]int{1, 1, 2, 3, 4, 5}).Draw(t, "depth"))}}
	}
}

// genHWSession draws the statements and the script. The script only refers to payloads / decoded
// statements that exist at that step: their number does not depend on the code under test.
func genHWSession(t *rapid.T, nOps int) *hwSession {
	s := &hwSession{}
	for i, n := 0, rapid.IntRange(2, 6).Draw(t, "nStmts"); i < n; i++ {
		st := genHWStmt(t)
		st.ref = st.val.clone()
		s.Stmts = append(s.Stmts, st)
	}
	type pay struct {
		kind      string
		plannable bool
		released  bool
		decoded   bool
	}
	type dec struct {
		kind      string
		plannable bool
	}
	var pays []pay
	var decs []dec
	var plannableStmts []int
	for i, st := range s.Stmts {
		if st.plannable {
			plannableStmts = append(plannableStmts, i)
		}
	}
	for len(s.Ops) < nOps {
		var live, undecoded, liveDecoded, plannableDecs []int
		for i, p := range pays {
			if !p.released {
				live = append(live, i)
				if !p.decoded {
					undecoded = append(undecoded, i)
				} else {
					liveDecoded = append(liveDecoded, i)
				}
			}
		}
		for i, d := range decs {
			if d.plannable {
				plannableDecs = append(plannableDecs, i)
			}
		}
		choices := []string{"marshal", "marshal", "marshal", "marshal", "marshal"}
		if len(live) > 0 {
			choices = append(choices, "decode", "decode", "decode", "decode", "release", "release")
		}
		if len(plannableStmts) > 0 {
			choices = append(choices, "planSource")
		}
		if len(plannableDecs) > 0 {
			choices = append(choices, "planDecoded")
		}
		switch kind := rapid.SampledFrom(choices).Draw(t, "op"); kind {
		case "marshal":
			op := hwOp{Kind: "marshal", Src: "stmt"}
			var k string
			var plannable bool
			if len(decs) > 0 && rapid.IntRange(0, 3).Draw(t, "forward") == 0 {
				op.Src, op.A = "decoded", rapid.IntRange(0, len(decs)-1).Draw(t, "decoded")
				k, plannable = decs[op.A].kind, decs[op.A].plannable
			} else {
				op.A = rapid.IntRange(0, len(s.Stmts)-1).Draw(t, "stmt")
				k, plannable = s.Stmts[op.A].val.kind(), s.Stmts[op.A].plannable
			}
			switch {
			case k == "expr":
				op.Via = viaExprMarshal
			case rapid.IntRange(0, 5).Draw(t, "viaJSON") == 0:
				op.Via = viaJSONMarshal
			default:
				op.Via = viaMarshalJSON
			}
			pays = append(pays, pay{kind: k, plannable: plannable})
			s.Ops = append(s.Ops, op)
		case "decode":
			// half of the time the payload that has waited longest without being decoded
			var pi int
			if len(undecoded) > 0 && rapid.Bool().Draw(t, "oldest") {
				pi = undecoded[0]
			} else {
				pi = rapid.SampledFrom(live).Draw(t, "payload")
			}
			op := hwOp{Kind: "decode", A: pi, Via: viaUnmarshalJSON}
			switch {
			case pays[pi].kind == "expr":
				op.Via = viaExprUnmarshal
			case rapid.IntRange(0, 5).Draw(t, "viaJSON") == 0:
				op.Via = viaJSONUnmarshal
			}
			pays[pi].decoded = true
			decs = append(decs, dec{kind: pays[pi].kind, plannable: pays[pi].plannable})
			s.Ops = append(s.Ops, op)
		case "release":
			// mostly a payload whose statement some receiver still works with
			from := live
			if len(liveDecoded) > 0 && rapid.IntRange(0, 3).Draw(t, "releaseDecoded") != 0 {
				from = liveDecoded
			}
			pi := rapid.SampledFrom(from).Draw(t, "payload")
			pays[pi].released = true
			s.Ops = append(s.Ops, hwOp{Kind: "release", A: pi})
		case "planSource":
			s.Ops = append(s.Ops, hwOp{Kind: "planSource", A: rapid.SampledFrom(plannableStmts).Draw(t, "stmt"), Opt: rapid.IntRange(0, 4).Draw(t, "opt")})
		case "planDecoded":
			s.Ops = append(s.Ops, hwOp{Kind: "planDecoded", A: rapid.SampledFrom(plannableDecs).Draw(t, "decoded"), Opt: rapid.IntRange(0, 4).Draw(t, "opt")})
		}
	}
	return s
}

// ---- evidence ------------------------------------------------------------------------------------------------------

func acrossBucket(n int) string {
	switch {
	case n <= 1:
		return fmt.Sprint(n)
	case n <= 3:
		return "2-3"
	case n <= 7:
		return "4-7"
	case n <= 15:
		return "8-15"
	default:
		return ">=16"
	}
}

func hwSessionCanon(s *hwSession) string {
	var b strings.Builder
	for _, st := range s.Stmts {
		data, _ := st.ref.marshal(viaMarshalJSON)
		fmt.Fprintf(&b, "%s %s\n", st.Origin, data)
	}
	fmt.Fprintf(&b, "%+v\n", s.Ops)
	return b.String()
}

// hwEvidence merges the statistics of the sessions of one case into classes.
func hwEvidence(group, variant string, sessions []*hwSession, runs []*hwRun, extra []string) {
	set := map[string]bool{"variant=" + variant: true, fmt.Sprintf("sessions=%d", len(sessions)): true}
	var canon strings.Builder
	acrossMax, acrossOther, decAcross, ops, maxLen := 0, 0, 0, 0, 0
	flags := map[string]bool{}
	for i, r := range runs {
		canon.WriteString(hwSessionCanon(sessions[i]))
		for _, st := range sessions[i].Stmts {
			set["stmt="+st.Origin] = true
		}
		for k := range r.stats.ops {
			set["op="+k] = true
		}
		for k := range r.stats.payloadKinds {
			set["payload="+k] = true
		}
		for _, op := range sessions[i].Ops {
			if op.Kind == "decode" {
				set["decode="+op.Via] = true
			}
		}
		ops += len(sessions[i].Ops)
		if r.stats.maxHeldAcross > acrossMax {
			acrossMax = r.stats.maxHeldAcross
		}
		if r.stats.maxHeldAcrossOther > acrossOther {
			acrossOther = r.stats.maxHeldAcrossOther
		}
		if r.stats.maxDecodedAcross > decAcross {
			decAcross = r.stats.maxDecodedAcross
		}
		if r.stats.maxPayLen > maxLen {
			maxLen = r.stats.maxPayLen
		}
		for k, v := range map[string]bool{"laterPayloadShorter": r.stats.shorterLater, "laterPayloadLonger": r.stats.longerLater,
			"sameStatementMarshalledAgainAfterPlan": r.stats.replanned, "forwardedDecodedStatement": r.stats.forwarded,
			"payloadDecodedTwice": r.stats.decodedTwice, "releasedWhileDecodedHeld": r.stats.releasedWithDecoded} {
			if v {
				flags[k] = true
			}
		}
	}
	for k := range flags {
		set["shape="+k] = true
	}
	set["payloadHeldAcrossMarshals="+acrossBucket(acrossMax)] = true
	set["payloadHeldAcrossMarshalsOfOthers="+acrossBucket(acrossOther)] = true
	set["decodedHeldAcrossDecodes="+acrossBucket(decAcross)] = true
	set["ops="+sizeBucket(ops)] = true
	set["maxPayloadBytes="+sizeBucket(maxLen)] = true
	classes := sortedKeys(set, "")
	classes = append(classes, extra...)
	sort.Strings(classes)
	// non-trivial: a payload was decoded after >= 2 marshals of OTHER statements, a decoded statement was
	// held across >= 2 later decodes, and a later payload was shorter as well as longer than a held one
	nonTrivial := acrossOther >= 2 && decAcross >= 2 && flags["laterPayloadShorter"] && flags["laterPayloadLonger"]
	sample := map[string]any{"sessions": sessions, "heldAcrossMarshals": acrossMax, "decodedHeldAcrossDecodes": decAcross}
	ev.Case(group, canon.String(), nonTrivial, classes, sample)
}

// ---- the two tests -----------------------------------------------------------------------------------------------

var hwOpsLadder = []int{6, 10, 16, 16, 24, 40}

func TestHeldPayloadsSurviveLaterTraffic(t *testing.T) {
	rapid.Check(t, func(t *rapid.T) {
		s := genHWSession(t, rapid.SampledFrom(hwOpsLadder).Draw(t, "nOps"))
		r := newHWRun("node session", s)
		if msg := r.run(); msg != "" {
			t.Fatalf("%s", msg)
		}
		hwEvidence("TestHeldPayloadsSurviveLaterTraffic", "sequential", []*hwSession{s}, []*hwRun{r}, nil)
	})
}

var hwConcCounters struct{ cases, casesWithOverlap atomic.Int64 }

func TestHeldPayloadsConcurrentSessions(t *testing.T) {
	defer func() {
		ev.Note("TestHeldPayloadsConcurrentSessions/sessions", fmt.Sprintf("cases=%d, of which with >= 2 sessions observed inside an operation together: %d",
			hwConcCounters.cases.Load(), hwConcCounters.casesWithOverlap.Load()))
	}()
	rapid.Check(t, func(t *rapid.T) {
		n := rapid.SampledFrom([]int{2, 3, 4, 4, 6}).Draw(t, "sessions")
		sessions := make([]*hwSession, n)
		runs := make([]*hwRun, n)
		for i := range sessions {
			sessions[i] = genHWSession(t, rapid.SampledFrom(hwOpsLadder).Draw(t, "nOps"))
			runs[i] = newHWRun(fmt.Sprintf("session %d of %d concurrent sessions", i, n), sessions[i])
		}
		var (
			wg          sync.WaitGroup
			start       = make(chan struct{})
			inFlight    atomic.Int32
			maxInFlight atomic.Int32
			msgs        = make([]string, n)
		)
		for i := range runs {
			wg.Add(1)
			go func(i int) {
				defer wg.Done()
				defer func() {
					if p := recover(); p != nil {
						msgs[i] = fmt.Sprintf("%s: panic: %v", runs[i].name, p)
					}
				}()
				r := runs[i]
				<-start
				for k := range r.s.Ops {
					c := inFlight.Add(1)
					for {
						m := maxInFlight.Load()
						if c <= m || maxInFlight.CompareAndSwap(m, c) {
							break
						}
					}
					msg := r.step(k)
					inFlight.Add(-1)
					if msg != "" {
						msgs[i] = msg
						return
					}
				}
				msgs[i] = r.finish()
			}(i)
		}
		close(start)
		wg.Wait()
		for _, msg := range msgs {
			if msg != "" {
				t.Fatalf("%s", msg)
			}
		}
		overlap := int(maxInFlight.Load())
		hwConcCounters.cases.Add(1)
		if overlap >= 2 {
			hwConcCounters.casesWithOverlap.Add(1)
		}
		hwEvidence("TestHeldPayloadsConcurrentSessions", "concurrent", sessions, runs, []string{fmt.Sprintf("overlap=%d", overlap)})
	})
}
