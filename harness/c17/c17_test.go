// Package c17 checks property C17: a parsed statement survives the wire unchanged.
//
// What is compared, and why (the equality of this package):
//
//   - Scalars (Explain, Namespace, MetricName, AllFields, TimeRange, Interval, StorageInterval,
//     IntervalRatio, AutoGroupByTime, Limit; keys, values, names, aliases, operators, function
//     types, Desc) must be identical.
//   - Expression trees must have the same node kind at every position and equal children.
//   - A nil slice and an empty slice are the same thing (Query.GroupBy/SelectItems/OrderByItems,
//     CallExpr.Params, InExpr.Values). JSON cannot tell them apart (`omitempty`, `null`), and every
//     consumer in /repo only ranges over them or takes len(): Query.HasGroupBy, the planners in
//     query/context, aggregation/*, tag filter execution range over InExpr.Values, and Rewrite()
//     joins them (nil and empty both give ""). No consumer compares them with nil.
//   - NumberLiteral is compared by value (bit pattern of the float64), not by its Rewrite() text,
//     which only has two decimals.
//   - In addition the Rewrite() strings of all expressions must agree and marshalling the
//     received statement again must give the same bytes as the first payload.
//
// Size: besides the nesting bound the generators have a size class (sqlgen_test.go wideTargets,
// exprgen_test.go genWideExpr): one clause / one tree of the statement gets 12..100 terms on one or
// two levels (where clause with that many tag filters, f0+f1+..., a call with that many params, a
// having with that many comparisons, long in/select/group by/order by lists, planner-built
// right-deep chains). The classes wide=..., exprNodes=..., fanout=... count them.
//
// Operator census (census_test.go), informational only: whether the statement carries the operators,
// functions and atoms the TEXT has (select list and having clause) is counted in the evidence
// (census:* classes) and never asserted -- C17 does not state it.
//
// Concurrent sessions: sessions_test.go (every result of concurrently parsing goroutines must be
// the verdict of the same text parsed alone).
//
// Held payloads: heldwire_test.go (node sessions that keep marshalled payloads and decoded statements
// while further statements are marshalled / unmarshalled / planned, on one goroutine and on several).
//
// Determinism of sql.Parse: the same text is parsed twice (and a third time after the pooled
// lexer/parser went through a rejected text) and the results must be equal. Query.TimeRange
// reads the wall clock when a bound is missing or written with now(); the generator knows for
// each bound whether it is clock derived and those bounds -- and only those -- are left out of the
// determinism comparison (they are still part of the wire comparison, which is clock free).
package c17

import (
	"bytes"
	"fmt"
	"math"
	"reflect"
	"strings"
	"sync/atomic"
	"testing"
	"time"

	"pgregory.net/rapid"

	"github.com/lindb/common/pkg/logger"

	"github.com/lindb/lindb/models"
	"github.com/lindb/lindb/pkg/option"
	"github.com/lindb/lindb/pkg/timeutil"
	qctx "github.com/lindb/lindb/query/context"
	"github.com/lindb/lindb/sql"
	"github.com/lindb/lindb/sql/stmt"
	"github.com/lindb/lindb/verifharness/sim/ev"
)

func TestMain(m *testing.M) { ev.Main(m) }

func init() {
	// the driver exports TZ=UTC; make the package self-contained for `go test` by hand
	// (common/timeutil.ParseTimestamp uses time.Local).
	time.Local = time.UTC
	// sql.Parse logs every rejected text with a stack trace to stdout; silence the logger
	// (this only changes logging).
	_ = logger.RunningAtomicLevel.UnmarshalText([]byte("fatal"))
}

type failer interface {
	Fatalf(format string, args ...any)
}

// ---- equality -------------------------------------------------------------------------------

func isNilExpr(e stmt.Expr) bool {
	if e == nil {
		return true
	}
	v := reflect.ValueOf(e)
	return v.Kind() == reflect.Ptr && v.IsNil()
}

// exprDiff returns "" if a and b are equal, otherwise the path and kind of the first difference.
func exprDiff(path string, a, b stmt.Expr) string {
	if isNilExpr(a) || isNilExpr(b) {
		if isNilExpr(a) && isNilExpr(b) {
			return ""
		}
		return fmt.Sprintf("%s: %T(nil=%v) vs %T(nil=%v)", path, a, isNilExpr(a), b, isNilExpr(b))
	}
	if reflect.TypeOf(a) != reflect.TypeOf(b) {
		return fmt.Sprintf("%s: node kind %T vs %T", path, a, b)
	}
	str := func(field, x, y string) string {
		if x != y {
			return fmt.Sprintf("%s.%s: %q vs %q", path, field, x, y)
		}
		return ""
	}
	switch x := a.(type) {
	case *stmt.SelectItem:
		y := b.(*stmt.SelectItem)
		if d := str("Alias", x.Alias, y.Alias); d != "" {
			return d
		}
		return exprDiff(path+".Expr", x.Expr, y.Expr)
	case *stmt.OrderByExpr:
		y := b.(*stmt.OrderByExpr)
		if x.Desc != y.Desc {
			return fmt.Sprintf("%s.Desc: %v vs %v", path, x.Desc, y.Desc)
		}
		return exprDiff(path+".Expr", x.Expr, y.Expr)
	case *stmt.FieldExpr:
		return str("Name", x.Name, b.(*stmt.FieldExpr).Name)
	case *stmt.NumberLiteral:
		y := b.(*stmt.NumberLiteral)
		if math.Float64bits(x.Val) != math.Float64bits(y.Val) {
			return fmt.Sprintf("%s.Val: %v (%#x) vs %v (%#x)", path, x.Val, math.Float64bits(x.Val), y.Val, math.Float64bits(y.Val))
		}
		return ""
	case *stmt.CallExpr:
		y := b.(*stmt.CallExpr)
		if x.FuncType != y.FuncType {
			return fmt.Sprintf("%s.FuncType: %d vs %d", path, x.FuncType, y.FuncType)
		}
		return exprsDiff(path+".Params", x.Params, y.Params)
	case *stmt.ParenExpr:
		return exprDiff(path+".Expr", x.Expr, b.(*stmt.ParenExpr).Expr)
	case *stmt.NotExpr:
		return exprDiff(path+".Expr", x.Expr, b.(*stmt.NotExpr).Expr)
	case *stmt.BinaryExpr:
		y := b.(*stmt.BinaryExpr)
		if x.Operator != y.Operator {
			return fmt.Sprintf("%s.Operator: %d vs %d", path, x.Operator, y.Operator)
		}
		if d := exprDiff(path+".Left", x.Left, y.Left); d != "" {
			return d
		}
		return exprDiff(path+".Right", x.Right, y.Right)
	case *stmt.EqualsExpr:
		y := b.(*stmt.EqualsExpr)
		if d := str("Key", x.Key, y.Key); d != "" {
			return d
		}
		return str("Value", x.Value, y.Value)
	case *stmt.LikeExpr:
		y := b.(*stmt.LikeExpr)
		if d := str("Key", x.Key, y.Key); d != "" {
			return d
		}
		return str("Value", x.Value, y.Value)
	case *stmt.RegexExpr:
		y := b.(*stmt.RegexExpr)
		if d := str("Key", x.Key, y.Key); d != "" {
			return d
		}
		return str("Regexp", x.Regexp, y.Regexp)
	case *stmt.InExpr:
		y := b.(*stmt.InExpr)
		if d := str("Key", x.Key, y.Key); d != "" {
			return d
		}
		return stringsDiff(path+".Values", x.Values, y.Values)
	default:
		return fmt.Sprintf("%s: node kind %T is not part of the statement model", path, a)
	}
}

func exprsDiff(path string, a, b []stmt.Expr) string {
	if len(a) != len(b) {
		return fmt.Sprintf("%s: %d vs %d elements", path, len(a), len(b))
	}
	for i := range a {
		if d := exprDiff(fmt.Sprintf("%s[%d]", path, i), a[i], b[i]); d != "" {
			return d
		}
	}
	return ""
}

func stringsDiff(path string, a, b []string) string {
	if len(a) != len(b) {
		return fmt.Sprintf("%s: %d vs %d elements", path, len(a), len(b))
	}
	for i := range a {
		if a[i] != b[i] {
			return fmt.Sprintf("%s[%d]: %q vs %q", path, i, a[i], b[i])
		}
	}
	return ""
}

// queryDiff compares two statements; skipStart/skipEnd leave a clock derived bound out.
func queryDiff(a, b *stmt.Query, skipStart, skipEnd bool) string {
	switch {
	case a.Explain != b.Explain:
		return fmt.Sprintf("Explain: %v vs %v", a.Explain, b.Explain)
	case a.Namespace != b.Namespace:
		return fmt.Sprintf("Namespace: %q vs %q", a.Namespace, b.Namespace)
	case a.MetricName != b.MetricName:
		return fmt.Sprintf("MetricName: %q vs %q", a.MetricName, b.MetricName)
	case a.AllFields != b.AllFields:
		return fmt.Sprintf("AllFields: %v vs %v", a.AllFields, b.AllFields)
	case !skipStart && a.TimeRange.Start != b.TimeRange.Start:
		return fmt.Sprintf("TimeRange.Start: %d vs %d", a.TimeRange.Start, b.TimeRange.Start)
	case !skipEnd && a.TimeRange.End != b.TimeRange.End:
		return fmt.Sprintf("TimeRange.End: %d vs %d", a.TimeRange.End, b.TimeRange.End)
	case a.Interval != b.Interval:
		return fmt.Sprintf("Interval: %dms vs %dms", a.Interval, b.Interval)
	case a.StorageInterval != b.StorageInterval:
		return fmt.Sprintf("StorageInterval: %dms vs %dms", a.StorageInterval, b.StorageInterval)
	case a.IntervalRatio != b.IntervalRatio:
		return fmt.Sprintf("IntervalRatio: %d vs %d", a.IntervalRatio, b.IntervalRatio)
	case a.AutoGroupByTime != b.AutoGroupByTime:
		return fmt.Sprintf("AutoGroupByTime: %v vs %v", a.AutoGroupByTime, b.AutoGroupByTime)
	case a.Limit != b.Limit:
		return fmt.Sprintf("Limit: %d vs %d", a.Limit, b.Limit)
	}
	if d := stringsDiff("GroupBy", a.GroupBy, b.GroupBy); d != "" {
		return d
	}
	if d := exprsDiff("SelectItems", a.SelectItems, b.SelectItems); d != "" {
		return d
	}
	if d := exprDiff("Condition", a.Condition, b.Condition); d != "" {
		return d
	}
	if d := exprDiff("Having", a.Having, b.Having); d != "" {
		return d
	}
	return exprsDiff("OrderByItems", a.OrderByItems, b.OrderByItems)
}

func metaDiff(a, b *stmt.MetricMetadata) string {
	switch {
	case a.Namespace != b.Namespace:
		return fmt.Sprintf("Namespace: %q vs %q", a.Namespace, b.Namespace)
	case a.MetricName != b.MetricName:
		return fmt.Sprintf("MetricName: %q vs %q", a.MetricName, b.MetricName)
	case a.Type != b.Type:
		return fmt.Sprintf("Type: %d vs %d", a.Type, b.Type)
	case a.TagKey != b.TagKey:
		return fmt.Sprintf("TagKey: %q vs %q", a.TagKey, b.TagKey)
	case a.Prefix != b.Prefix:
		return fmt.Sprintf("Prefix: %q vs %q", a.Prefix, b.Prefix)
	case a.Limit != b.Limit:
		return fmt.Sprintf("Limit: %d vs %d", a.Limit, b.Limit)
	}
	return exprDiff("Condition", a.Condition, b.Condition)
}

// safeRewrite calls Rewrite(); a tree with a nil child makes Rewrite panic.
func safeRewrite(e stmt.Expr) (s string, panicked bool) {
	if isNilExpr(e) {
		return "<nil>", false
	}
	defer func() {
		if r := recover(); r != nil {
			s, panicked = fmt.Sprintf("<panic: %v>", r), true
		}
	}()
	return e.Rewrite(), false
}

func rewriteDiff(path string, a, b stmt.Expr) string {
	ra, _ := safeRewrite(a)
	rb, _ := safeRewrite(b)
	if ra != rb {
		return fmt.Sprintf("%s: Rewrite() %q vs %q", path, ra, rb)
	}
	return ""
}

func queryExprs(q *stmt.Query) (paths []string, exprs []stmt.Expr) {
	for i, e := range q.SelectItems {
		paths, exprs = append(paths, fmt.Sprintf("SelectItems[%d]", i)), append(exprs, e)
	}
	paths, exprs = append(paths, "Condition", "Having"), append(exprs, q.Condition, q.Having)
	for i, e := range q.OrderByItems {
		paths, exprs = append(paths, fmt.Sprintf("OrderByItems[%d]", i)), append(exprs, e)
	}
	return
}

// ---- the wire oracles -------------------------------------------------------------------------

// checkQueryWire sends q the way query/context/root_metric_context.go MakePlan does
// (payload, _ := Statement.MarshalJSON()) and receives it the way query/leaf_processor.go
// processDataSearch and query/intermediate_processor.go do (stmt.Query{}.UnmarshalJSON(payload)).
func checkQueryWire(t failer, what string, q *stmt.Query) {
	payload, err := q.MarshalJSON()
	if err != nil {
		t.Fatalf("%s: MarshalJSON: %v", what, err)
	}
	got := stmt.Query{}
	if err := got.UnmarshalJSON(payload); err != nil {
		t.Fatalf("%s: the receiving node cannot decode the statement the root sends: %v\npayload: %s", what, err, payload)
	}
	if d := queryDiff(q, &got, false, false); d != "" {
		t.Fatalf("%s: statement changed on the wire: %s\npayload: %s", what, d, payload)
	}
	pa, ea := queryExprs(q)
	_, eb := queryExprs(&got)
	for i := range ea {
		if d := rewriteDiff(pa[i], ea[i], eb[i]); d != "" {
			t.Fatalf("%s: %s\npayload: %s", what, d, payload)
		}
	}
	again, _ := got.MarshalJSON()
	if !bytes.Equal(payload, again) {
		t.Fatalf("%s: forwarding the received statement gives a different payload\nfirst:  %s\nsecond: %s", what, payload, again)
	}
}

// checkMetaWire: query/context/metadata_context.go marshals, leaf/intermediate processors
// unmarshal into &stmt.MetricMetadata{}.
func checkMetaWire(t failer, what string, q *stmt.MetricMetadata) {
	payload, err := q.MarshalJSON()
	if err != nil {
		t.Fatalf("%s: MarshalJSON: %v", what, err)
	}
	got := &stmt.MetricMetadata{}
	if err := got.UnmarshalJSON(payload); err != nil {
		t.Fatalf("%s: the receiving node cannot decode the metadata statement: %v\npayload: %s", what, err, payload)
	}
	if d := metaDiff(q, got); d != "" {
		t.Fatalf("%s: metadata statement changed on the wire: %s\npayload: %s", what, d, payload)
	}
	if d := rewriteDiff("Condition", q.Condition, got.Condition); d != "" {
		t.Fatalf("%s: %s\npayload: %s", what, d, payload)
	}
	again, _ := got.MarshalJSON()
	if !bytes.Equal(payload, again) {
		t.Fatalf("%s: forwarding the received statement gives a different payload\nfirst:  %s\nsecond: %s", what, payload, again)
	}
}

// checkExprWire: stmt.Marshal / stmt.Unmarshal of one expression tree.
func checkExprWire(t failer, what string, e stmt.Expr) {
	data := stmt.Marshal(e)
	got, err := stmt.Unmarshal(data)
	if err != nil {
		t.Fatalf("%s: Unmarshal(Marshal(e)): %v\njson: %s", what, err, data)
	}
	if d := exprDiff("e", e, got); d != "" {
		t.Fatalf("%s: expression changed: %s\njson: %s", what, d, data)
	}
	if d := rewriteDiff("e", e, got); d != "" {
		t.Fatalf("%s: %s\njson: %s", what, d, data)
	}
	if again := stmt.Marshal(got); !bytes.Equal(data, again) {
		t.Fatalf("%s: second generation differs\nfirst:  %s\nsecond: %s", what, data, again)
	}
}

// ---- shape measures (non-trivial rule) ----------------------------------------------------------

// exprDepth counts the nodes on the longest path; SelectItem/OrderByExpr wrappers do not count.
func exprDepth(e stmt.Expr) int {
	if isNilExpr(e) {
		return 0
	}
	max := func(xs ...stmt.Expr) int {
		m := 0
		for _, x := range xs {
			if d := exprDepth(x); d > m {
				m = d
			}
		}
		return m
	}
	switch x := e.(type) {
	case *stmt.SelectItem:
		return exprDepth(x.Expr)
	case *stmt.OrderByExpr:
		return exprDepth(x.Expr)
	case *stmt.CallExpr:
		return 1 + max(x.Params...)
	case *stmt.ParenExpr:
		return 1 + exprDepth(x.Expr)
	case *stmt.NotExpr:
		return 1 + exprDepth(x.Expr)
	case *stmt.BinaryExpr:
		return 1 + max(x.Left, x.Right)
	default:
		return 1
	}
}

// nodeKinds adds the node kinds of the tree to set.
func nodeKinds(e stmt.Expr, set map[string]bool) {
	if isNilExpr(e) {
		return
	}
	set[strings.TrimPrefix(fmt.Sprintf("%T", e), "*stmt.")] = true
	switch x := e.(type) {
	case *stmt.SelectItem:
		nodeKinds(x.Expr, set)
	case *stmt.OrderByExpr:
		nodeKinds(x.Expr, set)
	case *stmt.CallExpr:
		set["func="+x.FuncType.String()] = true
		for _, p := range x.Params {
			nodeKinds(p, set)
		}
	case *stmt.ParenExpr:
		nodeKinds(x.Expr, set)
	case *stmt.NotExpr:
		nodeKinds(x.Expr, set)
	case *stmt.BinaryExpr:
		set["op="+stmt.BinaryOPString(x.Operator)] = true
		nodeKinds(x.Left, set)
		nodeKinds(x.Right, set)
	}
}

// exprNodes counts every node of the tree (wrappers included): the size of ONE top-level
// expression, as opposed to its depth.
func exprNodes(e stmt.Expr) int {
	if isNilExpr(e) {
		return 0
	}
	switch x := e.(type) {
	case *stmt.SelectItem:
		return 1 + exprNodes(x.Expr)
	case *stmt.OrderByExpr:
		return 1 + exprNodes(x.Expr)
	case *stmt.CallExpr:
		n := 1
		for _, p := range x.Params {
			n += exprNodes(p)
		}
		return n
	case *stmt.ParenExpr:
		return 1 + exprNodes(x.Expr)
	case *stmt.NotExpr:
		return 1 + exprNodes(x.Expr)
	case *stmt.BinaryExpr:
		return 1 + exprNodes(x.Left) + exprNodes(x.Right)
	default:
		return 1
	}
}

// exprFanout is the largest number of children/values of one node of the tree.
func exprFanout(e stmt.Expr) int {
	if isNilExpr(e) {
		return 0
	}
	max := func(a, b int) int {
		if a > b {
			return a
		}
		return b
	}
	switch x := e.(type) {
	case *stmt.SelectItem:
		return max(1, exprFanout(x.Expr))
	case *stmt.OrderByExpr:
		return max(1, exprFanout(x.Expr))
	case *stmt.CallExpr:
		n := len(x.Params)
		for _, p := range x.Params {
			n = max(n, exprFanout(p))
		}
		return n
	case *stmt.ParenExpr:
		return max(1, exprFanout(x.Expr))
	case *stmt.NotExpr:
		return max(1, exprFanout(x.Expr))
	case *stmt.BinaryExpr:
		return max(2, max(exprFanout(x.Left), exprFanout(x.Right)))
	case *stmt.InExpr:
		return len(x.Values)
	default:
		return 0
	}
}

// querySize: the node count of the largest top-level expression and the largest fan-out (params of a
// call, values of an in-list, entries of the select / group by / order by lists).
func querySize(q *stmt.Query) (maxNodes, maxFanout int) {
	_, es := queryExprs(q)
	for _, e := range es {
		if n := exprNodes(e); n > maxNodes {
			maxNodes = n
		}
		if n := exprFanout(e); n > maxFanout {
			maxFanout = n
		}
	}
	for _, n := range []int{len(q.SelectItems), len(q.GroupBy), len(q.OrderByItems)} {
		if n > maxFanout {
			maxFanout = n
		}
	}
	return
}

func sizeLabels(maxNodes, maxFanout int) []string {
	return []string{"exprNodes=" + sizeBucket(maxNodes), "fanout=" + sizeBucket(maxFanout)}
}

func queryDepth(q *stmt.Query) int {
	_, es := queryExprs(q)
	m := 0
	for _, e := range es {
		if d := exprDepth(e); d > m {
			m = d
		}
	}
	return m
}

func sortedKeys(m map[string]bool, prefix string) []string {
	var out []string
	for k, v := range m {
		if v {
			out = append(out, prefix+k)
		}
	}
	// deterministic order
	for i := 1; i < len(out); i++ {
		for j := i; j > 0 && out[j] < out[j-1]; j-- {
			out[j], out[j-1] = out[j-1], out[j]
		}
	}
	return out
}

// ---- (a) parsed query text ----------------------------------------------------------------------

type counters struct{ generated, accepted, rejected, edgeGenerated, edgeRejected atomic.Int64 }

func (c *counters) note(name string) {
	g, a, r := c.generated.Load(), c.accepted.Load(), c.rejected.Load()
	rate := 100.0
	if g-c.edgeGenerated.Load() > 0 {
		rate = 100 * float64(a-(c.edgeGenerated.Load()-c.edgeRejected.Load())) / float64(g-c.edgeGenerated.Load())
	}
	ev.Note(name+"/acceptance", fmt.Sprintf("generated=%d accepted=%d rejected=%d; well-formed texts accepted %.2f%%; texts with a deliberately malformed shape (known defect signatures): %d, of which rejected %d",
		g, a, r, rate, c.edgeGenerated.Load(), c.edgeRejected.Load()))
}

// a text no statement rule matches; used to push the pooled lexer/parser through a failure.
var rejectedTexts = []string{"select f", "select f from", "select f from m where", "select sum( from m", "show tag values from",
	"select f from m where host in (", "select f from m group by time(", "!!", "select f from m order by g", "select f from m limit 99999999999"}

var dbOptions = []*option.DatabaseOption{
	{Intervals: option.Intervals{{Interval: timeutil.Interval(10 * 1000), Retention: timeutil.Interval(30 * 86400000)}}},
	{Intervals: option.Intervals{{Interval: timeutil.Interval(10 * 1000), Retention: timeutil.Interval(30 * 86400000)},
		{Interval: timeutil.Interval(5 * 60000), Retention: timeutil.Interval(90 * 86400000)}}},
	{Intervals: option.Intervals{{Interval: timeutil.Interval(1000), Retention: timeutil.Interval(7 * 86400000)},
		{Interval: timeutil.Interval(60000), Retention: timeutil.Interval(30 * 86400000)},
		{Interval: timeutil.Interval(3600000), Retention: timeutil.Interval(365 * 86400000)}}},
}

var queryCounters counters

// census mismatch samples already kept in the evidence notes, per label (queryProperty runs on
// one goroutine)
var censusSamples = map[string]int{}

func queryProperty(t *rapid.T) {
	g := newSQLGen(t)
	g.queryStmt()
	text := g.text()
	edge := len(g.edges) > 0
	queryCounters.generated.Add(1)
	if edge {
		queryCounters.edgeGenerated.Add(1)
	}

	s1, err1 := sql.Parse(text)
	if rapid.IntRange(0, 3).Draw(t, "interleaveReject") == 0 {
		if _, err := sql.Parse(rapid.SampledFrom(rejectedTexts).Draw(t, "rejectedText")); err == nil {
			t.Fatalf("harness: rejected text was accepted")
		}
	}
	s2, err2 := sql.Parse(text)
	if (err1 == nil) != (err2 == nil) || (err1 != nil && err1.Error() != err2.Error()) {
		t.Fatalf("sql.Parse is not deterministic: first %v, second %v\nsql: %s", err1, err2, text)
	}
	classes := append(sortedKeys(g.kinds, "clause="), sortedKeys(g.edges, "edge=")...)
	classes = append(classes, g.sizeClasses()...)
	if err1 != nil {
		queryCounters.rejected.Add(1)
		if edge {
			queryCounters.edgeRejected.Add(1)
			classes = append(classes, "rejected-edge")
		} else {
			classes = append(classes, "rejected-wellformed")
			t.Logf("generator: well-formed text rejected: %v\nsql: %s", err1, text)
		}
		ev.Case("TestParsedQuerySurvivesWire", text, false, classes, nil)
		return
	}
	queryCounters.accepted.Add(1)
	q1, ok1 := s1.(*stmt.Query)
	q2, ok2 := s2.(*stmt.Query)
	if !ok1 || !ok2 {
		t.Fatalf("sql.Parse returned %T / %T for a query statement\nsql: %s", s1, s2, text)
	}
	if d := queryDiff(q1, q2, g.startClock, g.endClock); d != "" {
		t.Fatalf("sql.Parse is not deterministic: %s\nsql: %s", d, text)
	}
	// for determinism even nil-vs-empty matters: strict deep equality, clock derived bounds aside
	c1, c2 := *q1, *q2
	if g.startClock {
		c1.TimeRange.Start, c2.TimeRange.Start = 0, 0
	}
	if g.endClock {
		c1.TimeRange.End, c2.TimeRange.End = 0, 0
	}
	if !reflect.DeepEqual(&c1, &c2) {
		t.Fatalf("sql.Parse is not deterministic: statements are not deeply equal\nfirst:  %+v\nsecond: %+v\nsql: %s", c1, c2, text)
	}
	checkQueryWire(t, "parsed statement", q1)
	// informational (census_test.go): does the statement carry the operators of the text? Never fails.
	if g.filterInExpr {
		classes = append(classes, "shape=filterInsideExpr")
	}
	if g.nowParam {
		classes = append(classes, "shape=nowParam")
	}
	if edge {
		classes = append(classes, "census:skipped-edge")
	} else {
		classes = append(classes, censusClasses(g)...)
		if mm := censusMismatch(g, q1, text); mm != "" {
			label := "census:mismatch-other"
			switch {
			case g.filterInExpr:
				label = "census:mismatch-filterInsideExpr"
			case g.nowParam:
				label = "census:mismatch-nowParam"
			}
			classes = append(classes, "census:mismatch", label)
			if censusSamples[label]++; censusSamples[label] <= 2 {
				ev.Note(fmt.Sprintf("TestParsedQuerySurvivesWire/%s/sample%d", label, censusSamples[label]), mm)
			}
			t.Logf("observation (not asserted): the statement does not carry the operators of the text: %s", mm)
		}
	}

	// the root plans before it sends: run the production planner step on the parsed statement
	planned := rapid.Bool().Draw(t, "plan")
	if planned {
		opt := rapid.SampledFrom(dbOptions).Draw(t, "dbOption")
		qctx.VerifCalcTimeRangeAndInterval(q2, models.Database{Name: "db", Option: opt})
		checkQueryWire(t, "planned statement", q2)
		classes = append(classes, "planned")
	}

	// evidence
	kinds := map[string]bool{}
	for k, v := range g.kinds {
		kinds[k] = v
	}
	kinds["condition"] = kinds["condition"] || q1.Condition != nil
	kinds["having"] = kinds["having"] || q1.Having != nil
	nk := 0
	for _, k := range []string{"alias", "condition", "timeRange", "interval", "groupBy", "having", "orderBy", "limit", "explain", "namespace"} {
		if kinds[k] {
			nk++
		}
	}
	depth := queryDepth(q1)
	nodes := map[string]bool{}
	_, es := queryExprs(q1)
	for _, e := range es {
		nodeKinds(e, nodes)
	}
	if depth > 12 {
		classes = append(classes, "depth>12")
	} else {
		classes = append(classes, fmt.Sprintf("depth=%d", depth))
	}
	classes = append(classes, fmt.Sprintf("clauseKinds=%d", nk))
	classes = append(classes, sizeLabels(querySize(q1))...)
	classes = append(classes, sortedKeys(nodes, "node=")...)
	if q1.AllFields {
		classes = append(classes, "allFields")
	}
	if !g.startClock {
		classes = append(classes, "absStart")
	}
	payload, _ := q1.MarshalJSON()
	ev.Case("TestParsedQuerySurvivesWire", text, depth >= 3 && nk >= 3, classes,
		map[string]any{"sql": text, "depth": depth, "clauseKinds": nk, "planned": planned, "payload": string(payload)})
}

func TestParsedQuerySurvivesWire(t *testing.T) {
	defer queryCounters.note("TestParsedQuerySurvivesWire")
	for _, sig := range []string{sigNilOperand, sigInfNumber, sigDurationOverflow} {
		if ev.Known(sig) {
			ev.Note("excluded_known/"+sig, "shape left out of the SQL generator while the finding is listed in known_findings.json")
		}
	}
	rapid.Check(t, queryProperty)
	checkAcceptance(t, &queryCounters)
}

// checkAcceptance: the generator claims to produce accepted text by construction; if that claim
// is badly off the run says nothing about the property and is reported as inconclusive.
func checkAcceptance(t *testing.T, c *counters) {
	wf := c.generated.Load() - c.edgeGenerated.Load()
	wfRejected := c.rejected.Load() - c.edgeRejected.Load()
	if wf >= 100 && wfRejected*50 > wf {
		t.Fatalf("VERIF-INCONCLUSIVE: %d of %d well-formed generated texts were rejected by sql.Parse (generator unsound)", wfRejected, wf)
	}
}

// ---- (a') parsed metric metadata statements -------------------------------------------------------

var metaCounters counters

func metaProperty(t *rapid.T) {
	g := newSQLGen(t)
	kind := g.metadataStmt()
	text := g.text()
	metaCounters.generated.Add(1)
	s1, err1 := sql.Parse(text)
	s2, err2 := sql.Parse(text)
	if (err1 == nil) != (err2 == nil) || (err1 != nil && err1.Error() != err2.Error()) {
		t.Fatalf("sql.Parse is not deterministic: first %v, second %v\nsql: %s", err1, err2, text)
	}
	if err1 != nil {
		metaCounters.rejected.Add(1)
		t.Logf("generator: well-formed text rejected: %v\nsql: %s", err1, text)
		ev.Case("TestParsedMetadataSurvivesWire", text, false, []string{"rejected-wellformed", "kind=" + kind}, nil)
		return
	}
	metaCounters.accepted.Add(1)
	m1, ok1 := s1.(*stmt.MetricMetadata)
	m2, ok2 := s2.(*stmt.MetricMetadata)
	if !ok1 || !ok2 {
		t.Fatalf("sql.Parse returned %T / %T for a metadata statement\nsql: %s", s1, s2, text)
	}
	if d := metaDiff(m1, m2); d != "" {
		t.Fatalf("sql.Parse is not deterministic: %s\nsql: %s", d, text)
	}
	if !reflect.DeepEqual(m1, m2) {
		t.Fatalf("sql.Parse is not deterministic: statements are not deeply equal\nfirst:  %+v\nsecond: %+v\nsql: %s", m1, m2, text)
	}
	checkMetaWire(t, "parsed metadata statement", m1)
	depth := exprDepth(m1.Condition)
	nk := 0
	for _, b := range []bool{m1.Condition != nil, g.kinds["limit"], g.kinds["namespace"], g.kinds["prefix"], m1.TagKey != ""} {
		if b {
			nk++
		}
	}
	payload, _ := m1.MarshalJSON()
	dl := fmt.Sprintf("depth=%d", depth)
	if depth > 12 {
		dl = "depth>12"
	}
	classes := append([]string{"kind=" + kind, dl, fmt.Sprintf("clauseKinds=%d", nk)}, g.sizeClasses()...)
	classes = append(classes, sizeLabels(exprNodes(m1.Condition), exprFanout(m1.Condition))...)
	ev.Case("TestParsedMetadataSurvivesWire", text, depth >= 3 && nk >= 3, classes,
		map[string]any{"sql": text, "payload": string(payload)})
}

func TestParsedMetadataSurvivesWire(t *testing.T) {
	defer metaCounters.note("TestParsedMetadataSurvivesWire")
	rapid.Check(t, metaProperty)
	checkAcceptance(t, &metaCounters)
}
