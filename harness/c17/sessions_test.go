package c17

// TestConcurrentSessionsParseAlike: "Parsing is deterministic: the same text always yields equal
// statements" when several sessions parse at the same time.
//
// sql.Parse is called from every HTTP handler goroutine of the broker (and by the storage side for
// metadata statements); its lexer and parser objects come from process wide pools. A case is
//
//   - a set of texts: 3-8 texts of the grammar generator (queries and show-statements, every size
//     class), 0-3 statements that the grammar accepts and the statement validation refuses (order
//     by a field that is not selected, order by with a wrong call, start time after end time, limit
//     beyond int32, unparsable timestamp, duration beyond int64, expression without operand, number
//     beyond float64, empty select list) and 0-3 texts with a syntax error (a generated text with a
//     token removed / doubled / replaced, or cut off);
//   - 2-8 sessions, each a drawn sequence of 4-40 indices into that set (the streams overlap: the
//     same text is parsed by several sessions).
//
// Oracle, independent of the interleaving: before the sessions start every text is parsed alone
// (twice; both results must agree) and that verdict (rejected, or the statement) is the reference.
// The sessions are goroutines released by one barrier; every single result of every session must be
// the reference verdict of its text: rejected <=> rejected, and an accepted statement deeply equal to
// the reference (TimeRange bounds that read the wall clock excepted, as everywhere in this
// package). After the sessions ended every text is parsed alone once more. No timing enters the
// verdict, so one differing result is a violation; how the goroutines interleave is not controlled
// (sampled), the class overlap=... records how many Parse calls were observed in flight together.

import (
	"fmt"
	"reflect"
	"strings"
	"sync"
	"sync/atomic"
	"testing"
	"time"

	"pgregory.net/rapid"

	"github.com/lindb/lindb/sql"
	"github.com/lindb/lindb/sql/stmt"
	"github.com/lindb/lindb/verifharness/sim/ev"
)

type sessText struct {
	Text   string `json:"sql"`
	Intent string `json:"intent"` // query | metadata | invalid:<kind> | syntax:<kind>
	// TimeRange bounds left out of the comparison (clock derived, or unknown for mutated text)
	skipStart, skipEnd bool

	ref    stmt.Statement
	refErr error
}

// ---- statements the validation refuses -------------------------------------------------------------

var invalidKinds = []string{"orderByUnknownField", "orderByUnknownField", "orderByBadCall", "startAfterEnd", "startAfterEnd",
	"limitOutOfRange", "limitOutOfRange", "badTimestamp", "durationOutOfRange", "missingOperand", "numberOutOfRange", "emptySelect"}

// invalidQueryStmt emits a statement that the grammar derives and queryStmtParser.validation() /
// build() / the listener callbacks refuse, with one drawn violation placed into an otherwise ordinary
// generated statement.
func (g *sqlGen) invalidQueryStmt() string {
	kind := rapid.SampledFrom(invalidKinds).Draw(g.t, "invalidKind")
	if g.chance(10, "explain") {
		g.kw("explain")
	}
	g.kw("select")
	switch kind {
	case "emptySelect": // the listener drops bare numbers and durations: nothing is selected
		g.number()
		if g.chance(30, "emptySelect2") {
			g.p(",")
			g.anyDuration("selDur")
		}
	case "missingOperand":
		g.fieldExpr(1)
		g.p(rapid.SampledFrom([]string{"+", "-", "*", "/"}).Draw(g.t, "arith"))
		g.malformedOperand()
	case "numberOutOfRange":
		g.fieldExpr(1)
		g.p(rapid.SampledFrom([]string{"+", "-", "*", "/"}).Draw(g.t, "arith"))
		g.hugeNumber()
	default:
		g.selectList()
	}
	g.from()
	switch kind {
	case "startAfterEnd":
		g.kw("where")
		if g.chance(40, "filterFirst") {
			g.tagFilter(2)
			g.kw("and")
		}
		switch rapid.IntRange(0, 2).Draw(g.t, "saeForm") {
		case 0: // both absolute, exchanged
			a := g.absTime("saeA", 1975, 2200)
			b := a.Add(-time.Duration(rapid.Int64Range(1, 400*86400).Draw(g.t, "saeSpanSec")) * time.Second)
			g.kw("time")
			g.p(">")
			g.w("'" + a.Format(rapid.SampledFrom(timeLayouts).Draw(g.t, "saeLayoutA")) + "'")
			g.kw("and")
			g.kw("time")
			g.p("<")
			g.w("'" + b.Format(rapid.SampledFrom(timeLayouts).Draw(g.t, "saeLayout")) + "'")
		case 1: // start in the future, end = now
			g.kw("time")
			g.p(">")
			g.emitNow("+", int64(rapid.IntRange(1, 30).Draw(g.t, "saeN")), rapid.SampledFrom([]string{"h", "d", "w"}).Draw(g.t, "saeUnit"), false)
		default: // end far in the past, start = now-1h
			g.kw("time")
			g.p("<")
			g.emitAbs("saePast", g.absTime("saePast", 1975, 2015))
		}
	case "badTimestamp":
		g.kw("where")
		g.kw("time")
		g.p(rapid.SampledFrom([]string{">", "<", ">=", "<="}).Draw(g.t, "btOp"))
		g.w(rapid.SampledFrom([]string{"'yesterday'", "'2019-13-45 00:00:00'", "'2019-04-10'", "'10:00:00'", "''", "'20190410 25:00:00'", "'1554854400'"}).Draw(g.t, "badTime"))
	default:
		if g.chance(50, "hasWhere") {
			g.where()
		}
	}
	switch {
	case kind == "durationOutOfRange":
		g.kw("group")
		g.kw("by")
		g.kw("time")
		g.p("(")
		if rapid.Bool().Draw(g.t, "wraps") {
			g.duration("", 18446744073709552+int64(rapid.IntRange(0, 1000).Draw(g.t, "ovfN")), "s") // product wraps around
		} else {
			g.w("9" + g.digits("ovfDigits", 19, 24) + rapid.SampledFrom([]string{"s", "m", "h"}).Draw(g.t, "ovfUnit")) // beyond int64
		}
		g.p(")")
	case g.chance(30, "hasGroupBy"):
		g.groupBy()
	}
	switch kind {
	case "orderByUnknownField":
		g.kw("order")
		g.kw("by")
		name := fmt.Sprintf("not_selected_%d", rapid.IntRange(0, 99).Draw(g.t, "unknownField"))
		if rapid.Bool().Draw(g.t, "inCall") {
			g.kw(rapid.SampledFrom(orderByFuncs).Draw(g.t, "obFunc"))
			g.p("(")
			g.w(name)
			g.p(")")
		} else {
			g.w(name)
		}
		if g.chance(50, "dir") {
			g.kw(rapid.SampledFrom([]string{"asc", "desc"}).Draw(g.t, "dir"))
		}
	case "orderByBadCall":
		g.kw("order")
		g.kw("by")
		if rapid.Bool().Draw(g.t, "twoParams") { // order by function params length invalid
			g.kw(rapid.SampledFrom(orderByFuncs).Draw(g.t, "obFunc"))
			g.p("(")
			g.ident("field", fieldPool, false)
			g.p(",")
			g.ident("field", fieldPool, false)
			g.p(")")
		} else { // function not support order by
			g.kw(rapid.SampledFrom([]string{"quantile", "rate"}).Draw(g.t, "obFunc"))
			g.p("(")
			g.ident("field", fieldPool, false)
			g.p(")")
		}
	}
	if kind == "limitOutOfRange" {
		g.kw("limit")
		g.w(rapid.SampledFrom([]string{"2147483648", "99999999999", "4294967296", "9223372036854775808"}).Draw(g.t, "bigLimit"))
	} else if g.chance(25, "hasLimit") {
		g.kw("limit")
		g.w(fmt.Sprint(rapid.IntRange(0, 100000).Draw(g.t, "limit")))
	}
	return kind
}

// ---- texts with a syntax error -----------------------------------------------------------------------

var junkTokens = []string{"!!", ")", "(", "select", "from", ",", "where", "'", "=", "]", "group", "??", "by"}

// syntaxMutant damages the token sequence of a generated statement. Whether the damage really is
// a syntax error is decided by the reference parse (dropping `desc` leaves a valid statement).
func (g *sqlGen) syntaxMutant() string {
	n := len(g.toks)
	kind := rapid.SampledFrom([]string{"cut", "cut", "drop", "double", "junk", "swap"}).Draw(g.t, "syntaxKind")
	switch kind {
	case "cut":
		g.toks = g.toks[:rapid.IntRange(1, n-1).Draw(g.t, "cutAt")]
	case "drop":
		i := rapid.IntRange(0, n-1).Draw(g.t, "dropAt")
		g.toks = append(g.toks[:i:i], g.toks[i+1:]...)
	case "double":
		i := rapid.IntRange(0, n-1).Draw(g.t, "doubleAt")
		g.toks = append(g.toks[:i+1:i+1], g.toks[i:]...)
	case "junk":
		i := rapid.IntRange(0, n).Draw(g.t, "junkAt")
		j := tok{rapid.SampledFrom(junkTokens).Draw(g.t, "junk"), true}
		g.toks = append(g.toks[:i:i], append([]tok{j}, g.toks[i:]...)...)
	default:
		i := rapid.IntRange(0, n-2).Draw(g.t, "swapAt")
		g.toks[i], g.toks[i+1] = g.toks[i+1], g.toks[i]
	}
	return kind
}

// ---- the case -----------------------------------------------------------------------------------------

type sessCase struct {
	texts     []*sessText
	schedules [][]int
}

func genSessCase(t *rapid.T) *sessCase {
	c := &sessCase{}
	nValid := rapid.IntRange(3, 8).Draw(t, "nValid")
	for i := 0; i < nValid; i++ {
		g := newSQLGen(t)
		if rapid.IntRange(0, 4).Draw(t, "isMetadata") == 0 {
			g.metadataStmt()
			c.texts = append(c.texts, &sessText{Text: g.text(), Intent: "metadata"})
			continue
		}
		g.queryStmt()
		intent := "query"
		if len(g.edges) > 0 {
			intent = "invalid:generatorEdge" // the malformed shapes of the generator are refused by the validation too
		}
		c.texts = append(c.texts, &sessText{Text: g.text(), Intent: intent, skipStart: g.startClock, skipEnd: g.endClock})
	}
	nInvalid := rapid.SampledFrom([]int{0, 1, 1, 2, 2, 3}).Draw(t, "nInvalid")
	for i := 0; i < nInvalid; i++ {
		g := newSQLGen(t)
		g.wide, g.maxDepth = "", 2
		kind := g.invalidQueryStmt()
		c.texts = append(c.texts, &sessText{Text: g.text(), Intent: "invalid:" + kind, skipStart: true, skipEnd: true})
	}
	nSyntax := rapid.SampledFrom([]int{0, 0, 1, 1, 2, 3}).Draw(t, "nSyntax")
	for i := 0; i < nSyntax; i++ {
		if rapid.IntRange(0, 3).Draw(t, "fixedRejected") == 0 {
			c.texts = append(c.texts, &sessText{Text: rapid.SampledFrom(rejectedTexts).Draw(t, "rejectedText"), Intent: "syntax:fixed", skipStart: true, skipEnd: true})
			continue
		}
		g := newSQLGen(t)
		g.wide = ""
		g.queryStmt()
		kind := g.syntaxMutant()
		c.texts = append(c.texts, &sessText{Text: g.text(), Intent: "syntax:" + kind, skipStart: true, skipEnd: true})
	}
	nSessions := rapid.SampledFrom([]int{2, 3, 4, 4, 6, 8, 8}).Draw(t, "sessions")
	for s := 0; s < nSessions; s++ {
		n := rapid.SampledFrom([]int{4, 8, 16, 24, 40}).Draw(t, "statements")
		sched := make([]int, n)
		for i := range sched {
			sched[i] = rapid.IntRange(0, len(c.texts)-1).Draw(t, "text")
		}
		c.schedules = append(c.schedules, sched)
	}
	return c
}

// sameStatement compares a result with the reference verdict of its text; "" if they agree.
func sameStatement(tx *sessText, got stmt.Statement, gotErr error) string {
	if (gotErr == nil) != (tx.refErr == nil) {
		return fmt.Sprintf("parsed alone: err=%v; in the session: err=%v", tx.refErr, gotErr)
	}
	if gotErr != nil {
		return ""
	}
	if reflect.TypeOf(got) != reflect.TypeOf(tx.ref) {
		return fmt.Sprintf("parsed alone: %T; in the session: %T", tx.ref, got)
	}
	switch want := tx.ref.(type) {
	case *stmt.Query:
		have := got.(*stmt.Query)
		if d := queryDiff(want, have, tx.skipStart, tx.skipEnd); d != "" {
			return "statement differs from the one parsed alone: " + d
		}
		c1, c2 := *want, *have
		if tx.skipStart {
			c1.TimeRange.Start, c2.TimeRange.Start = 0, 0
		}
		if tx.skipEnd {
			c1.TimeRange.End, c2.TimeRange.End = 0, 0
		}
		if !reflect.DeepEqual(&c1, &c2) {
			return fmt.Sprintf("statement is not deeply equal to the one parsed alone\nalone:   %+v\nsession: %+v", c1, c2)
		}
	case *stmt.MetricMetadata:
		have := got.(*stmt.MetricMetadata)
		if d := metaDiff(want, have); d != "" {
			return "statement differs from the one parsed alone: " + d
		}
		if !reflect.DeepEqual(want, have) {
			return fmt.Sprintf("statement is not deeply equal to the one parsed alone\nalone:   %+v\nsession: %+v", want, have)
		}
	default:
		if !reflect.DeepEqual(tx.ref, got) {
			return fmt.Sprintf("statement is not deeply equal to the one parsed alone\nalone:   %+v\nsession: %+v", tx.ref, got)
		}
	}
	return ""
}

var sessCounters struct{ parses, rejectedParses, cases, casesWithOverlap atomic.Int64 }

func sessionsProperty(t *rapid.T) {
	c := genSessCase(t)

	// reference: every text parsed alone, twice
	for _, tx := range c.texts {
		tx.ref, tx.refErr = sql.Parse(tx.Text)
		again, err := sql.Parse(tx.Text)
		if d := sameStatement(tx, again, err); d != "" {
			t.Fatalf("sql.Parse is not deterministic (one goroutine, same text twice): %s\nsql: %s", d, tx.Text)
		}
		switch q := tx.ref.(type) {
		case *stmt.Query:
			checkQueryWire(t, "parsed statement", q)
		case *stmt.MetricMetadata:
			checkMetaWire(t, "parsed metadata statement", q)
		}
	}

	// sessions
	var (
		wg          sync.WaitGroup
		start       = make(chan struct{})
		inFlight    atomic.Int32
		maxInFlight atomic.Int32
		differing   atomic.Int64
		first       = make([]string, len(c.schedules))
	)
	for s, sched := range c.schedules {
		wg.Add(1)
		go func(s int, sched []int) {
			defer wg.Done()
			<-start
			for i, idx := range sched {
				tx := c.texts[idx]
				n := inFlight.Add(1)
				for {
					m := maxInFlight.Load()
					if n <= m || maxInFlight.CompareAndSwap(m, n) {
						break
					}
				}
				got, err := sql.Parse(tx.Text)
				inFlight.Add(-1)
				if d := sameStatement(tx, got, err); d != "" {
					differing.Add(1)
					if first[s] == "" {
						first[s] = fmt.Sprintf("session %d, statement %d of %d (%s): %s\nsql: %s", s, i+1, len(sched), tx.Intent, d, tx.Text)
					}
				}
			}
		}(s, sched)
	}
	close(start)
	wg.Wait()
	total := 0
	for _, sched := range c.schedules {
		total += len(sched)
	}
	if n := differing.Load(); n > 0 {
		for _, msg := range first {
			if msg != "" {
				t.Fatalf("the same text does not always yield an equal statement: %d of the %d results of %d concurrent sessions differ from the same text parsed alone; first: %s",
					n, total, len(c.schedules), msg)
			}
		}
	}

	// and alone again after the sessions
	for _, tx := range c.texts {
		got, err := sql.Parse(tx.Text)
		if d := sameStatement(tx, got, err); d != "" {
			t.Fatalf("sql.Parse is not deterministic (parsed alone after concurrent sessions): %s\nsql: %s", d, tx.Text)
		}
	}

	// evidence
	var canon strings.Builder
	classes := []string{fmt.Sprintf("sessions=%d", len(c.schedules))}
	counts := map[string]int{}
	used := make([]int, len(c.texts)) // sessions that parse the text
	for _, sched := range c.schedules {
		seen := map[int]bool{}
		for _, idx := range sched {
			if !seen[idx] {
				seen[idx] = true
				used[idx]++
			}
		}
		fmt.Fprintf(&canon, "%v;", sched)
	}
	sharedAccepted, invalidParsed, syntaxParsed, rejectedParses := 0, 0, 0, 0
	for i, tx := range c.texts {
		fmt.Fprintf(&canon, "%s\n", tx.Text)
		outcome := "accepted"
		if tx.refErr != nil {
			outcome = "rejected"
		}
		kind := tx.Intent
		if strings.HasPrefix(kind, "syntax:") {
			kind = "syntaxError" // detail below
			counts["syntaxKind="+strings.TrimPrefix(tx.Intent, "syntax:")+"/"+outcome]++
		}
		counts["text="+kind+"/"+outcome]++
		if tx.refErr == nil && used[i] >= 2 {
			sharedAccepted++
		}
		if tx.refErr != nil && used[i] > 0 {
			if strings.HasPrefix(tx.Intent, "invalid:") {
				invalidParsed++
			} else {
				syntaxParsed++
			}
		}
	}
	for _, sched := range c.schedules {
		for _, idx := range sched {
			if c.texts[idx].refErr != nil {
				rejectedParses++
			}
		}
	}
	present := map[string]bool{}
	for k := range counts {
		present[k] = true
	}
	classes = append(classes, sortedKeys(present, "")...)
	overlap := int(maxInFlight.Load())
	classes = append(classes, fmt.Sprintf("overlap=%d", overlap), "sessionParses="+sizeBucket(total))
	switch {
	case invalidParsed > 0 && syntaxParsed > 0:
		classes = append(classes, "sessionsParse:validationRejected+syntaxError")
	case invalidParsed > 0:
		classes = append(classes, "sessionsParse:validationRejected")
	case syntaxParsed > 0:
		classes = append(classes, "sessionsParse:syntaxError")
	default:
		classes = append(classes, "sessionsParse:acceptedOnly")
	}
	sessCounters.cases.Add(1)
	sessCounters.parses.Add(int64(total))
	sessCounters.rejectedParses.Add(int64(rejectedParses))
	if overlap >= 2 {
		sessCounters.casesWithOverlap.Add(1)
	}
	nonTrivial := len(c.schedules) >= 3 && sharedAccepted >= 2 && invalidParsed > 0 && overlap >= 2
	sample := map[string]any{"texts": c.texts, "schedules": c.schedules, "maxInFlight": overlap}
	ev.Case("TestConcurrentSessionsParseAlike", canon.String(), nonTrivial, classes, sample)
}

func TestConcurrentSessionsParseAlike(t *testing.T) {
	defer func() {
		ev.Note("TestConcurrentSessionsParseAlike/sessions", fmt.Sprintf("cases=%d, of which with >= 2 Parse calls observed in flight together: %d; results compared in sessions: %d, of which rejected texts: %d",
			sessCounters.cases.Load(), sessCounters.casesWithOverlap.Load(), sessCounters.parses.Load(), sessCounters.rejectedParses.Load()))
	}()
	rapid.Check(t, sessionsProperty)
}
