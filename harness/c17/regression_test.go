package c17

// Plain reproductions (no rapid) of the defects the generators found on the unchanged tree.
// Each asserts the property itself -- "accepted by sql.Parse => survives the wire" -- so it
// fails while the parser accepts the text and passes once the parser rejects it (or, should the
// model ever learn to carry such a statement, once it round-trips).

import (
	"fmt"
	"strings"
	"testing"

	"github.com/lindb/lindb/sql"
	"github.com/lindb/lindb/sql/stmt"
	"github.com/lindb/lindb/verifharness/sim/ev"
)

// softFailer turns Fatalf into a panic the caller recovers (used to see whether a listed known
// finding still reproduces without failing the run).
type softFailer struct{}
type softFailure string

func (softFailer) Fatalf(format string, args ...any) {
	panic(softFailure(fmt.Sprintf(format, args...)))
}

func violates(text string) (msg string) {
	defer func() {
		if r := recover(); r != nil {
			if sf, ok := r.(softFailure); ok {
				msg = string(sf)
				return
			}
			panic(r)
		}
	}()
	s, err := sql.Parse(text)
	if err != nil {
		return ""
	}
	if q, ok := s.(*stmt.Query); ok {
		checkQueryWire(softFailer{}, "sql: "+text, q)
	}
	return ""
}

func acceptedImpliesWire(t *testing.T, sig string, texts ...string) {
	t.Helper()
	if ev.Known(sig) {
		// listed in known_findings.json: report it if it still reproduces, never fail
		for _, text := range texts {
			if msg := violates(text); msg != "" {
				ev.KnownFinding("C17", fmt.Sprintf("%s: sql.Parse accepts %.60q but the statement does not survive the wire", sig, text))
				return
			}
		}
		t.Logf("known finding %s does not reproduce any more", sig)
		return
	}
	for _, text := range texts {
		text := text
		t.Run("", func(t *testing.T) {
			s, err := sql.Parse(text)
			if err != nil {
				t.Logf("rejected (fine): %.80s: %v", text, err)
				return
			}
			q, ok := s.(*stmt.Query)
			if !ok {
				t.Fatalf("%T for %s", s, text)
			}
			checkQueryWire(t, "sql: "+text, q)
		})
	}
}

// A duration literal or a star in operand position (both are alternatives of rule fieldExpr)
// is ignored by the listener (sql/query_stmt_parser.go visitFieldExpr), so the enclosing
// BinaryExpr / ParenExpr keeps a nil child; stmt.Marshal writes "right":null and stmt.Unmarshal
// fails on it: the leaf answers ErrUnmarshalQuery for a statement the root accepted and planned.
// The last text reaches OrderByExpr{Expr: nil} (check() looks the empty name up in fieldNames,
// which contains "" because of the empty alias).
func TestRegression_NilOperand(t *testing.T) {
	acceptedImpliesWire(t, sigNilOperand,
		`select (*) from m`, // found by FuzzParse within 3 s
		`select f+1h from m`,
		`select 1h+f from m`,
		`select f, (*) from m`,
		`select f, g+* from m`,
		`select f from m group by host having * > 1`,
		`select f from m group by host having sum(f)+1m > 1`,
		`select f as '' from m order by (g)`,
	)
}

// strconv.ParseFloat's error is dropped in visitExprAtom: an integer literal beyond the float64
// range becomes NumberLiteral{+Inf}, which JSON cannot carry ("expr":null on the wire).
func TestRegression_InfNumberLiteral(t *testing.T) {
	acceptedImpliesWire(t, sigInfNumber,
		`select f+1`+strings.Repeat("0", 309)+` from m`,
		`select f from m group by host having f > 9`+strings.Repeat("9", 320),
	)
}

// parseDuration multiplies without an overflow check: 18446744073709552 s * 1000 wraps around to
// 384 ms; Interval's JSON form is its String() ("0s"), so the leaf groups by a different interval
// (0 => storage interval) than the root planned with.
func TestRegression_DurationOverflow(t *testing.T) {
	acceptedImpliesWire(t, sigDurationOverflow,
		`select f from m group by time(18446744073709552s)`,
		`select f from m group by time(18446744073709553s)`,
		`select f from m group by host, time(307445734561826m)`,
	)
}

// Hand written statements covering every clause; always expected to hold.
func TestRegression_Examples(t *testing.T) {
	for _, text := range []string{
		`select f from m`,
		`explain select (f+1)*2 as a, sum(max(f)/2) from cpu.load on 'ns-1' where (host='a' or host like 'b*') and ip not in ('1','2') and time > now()-1h and time < now() group by host, time(1m) having (sum(f) > 1.5 and g <= -2) or x like 3 order by a desc, sum(f) limit 5`,
		`select quantile(0.99) as p99, rate(f, 1m), count(*) from m where host =~ 'a.*' and host !~ 'b' and c <> 'd' and e != 'f' and g not like 'h' group by time()`,
		`from m select f where time > '2019-01-01 00:00:00' and time < '20190102 00:00:00' withvalue`,
		"select `f`, ${v}, _x:y, 'a b' from 'it s'",
		`select f from m where host='a\"b<>&` + " \x01" + `'`,
	} {
		s, err := sql.Parse(text)
		if err != nil {
			t.Fatalf("rejected: %s: %v", text, err)
		}
		checkQueryWire(t, "sql: "+text, s.(*stmt.Query))
	}
	for _, text := range []string{
		`show tag values from m on ns with key = host where host='a' and (ip in ('1') or zone not like 'z*') limit 3`,
		`show fields from m`, `show tag keys from m on ns`, `show metrics on ns where metric = abc limit 4`, `show namespaces where namespace = abc`,
	} {
		s, err := sql.Parse(text)
		if err != nil {
			t.Fatalf("rejected: %s: %v", text, err)
		}
		checkMetaWire(t, "sql: "+text, s.(*stmt.MetricMetadata))
	}
}

// OBSERVATION, never failing (C17 does not state that the parsed tree reflects the text; the wire
// round trip and determinism hold for these statements, which TestParsedQuerySurvivesWire checks
// for the generated shape=filterInsideExpr class). A tag filter may be written inside a select /
// having expression (rule exprAtom: ident identFilter?, identFilter: '[' tagFilterExpr ']').
// baseStmtParser keeps the tag filter under construction on the same stack as the select expression,
// and completeTagFilterExpr attaches the finished filter to whatever is on top of that stack: the
// arithmetic BinaryExpr / ParenExpr around the field. The filter takes an operand slot, and the
// operand written in the text finds both slots taken and is dropped: `select f[host='a'] - 1 from m`
// selects `f - (host=a)`. A filter on an atom whose enclosing node has no free slot left (the right
// operand: `g * f[host='a']`) or that sits directly in a call (`sum(f[host='a'])`) is harmless.
// A possible repair is kept in proposed_fix_tag_filter_operand.diff.
func TestRegression_TagFilterBecomesOperand(t *testing.T) {
	for _, text := range []string{
		`select f[host='a'] - 1 from m`,
		`select (f[host='a']) from m`,
		`select g - f[host='a'] + 2 from m`, // '+' binds tighter than '-' in this grammar: f is the left operand of '+'
		`select f from m group by host having f[host='a'] > 1`,
	} {
		s, err := sql.Parse(text)
		if err != nil {
			t.Logf("observation: %s is rejected now: %v", text, err)
			continue
		}
		q := s.(*stmt.Query)
		got := map[string]int{}
		for _, e := range q.SelectItems {
			treeCensus("", e, got)
		}
		treeCensus("", q.Having, got)
		t.Logf("observation: %s => select/having expressions hold %s", text, censusString(got))
		// what C17 does state holds for it
		checkQueryWire(t, "sql: "+text, q)
	}
}
