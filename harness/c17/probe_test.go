package c17

import (
	"fmt"
	"go.uber.org/zap/zapcore"
	"github.com/lindb/common/pkg/logger"
	"testing"

	"github.com/lindb/lindb/sql"
	"github.com/lindb/lindb/sql/stmt"
)

func TestProbe(t *testing.T) {
	logger.RunningAtomicLevel.SetLevel(zapcore.FatalLevel)
	for _, s := range []string{
		`select f from m`,
		`select "f" from "m"`,
		`select 'f' from 'm' on 'ns'`,
		"select `f` from `m`",
		`select f from m where host="a"`,
		`select f from m where host='a b' and time > now()-1h`,
		`select f from m where time > now()-1h and time < now() and host='a'`,
		`select f from m where time > '2019-01-01 00:00:00'`,
		`select f from m where time > 20190101000000`,
		`select f from m where time > 1546300800000`,
		`select f from m where time > '1546300800000'`,
		`select sum(f, host='a') from m`,
		`select f[host='a'] from m`,
		`select sum(*) from m`,
		`select f from m where time > now(g)`,
		`select 1h from m`,
		`select f, 1h from m`,
		`select f+100000000000000000000000000000000000000000000000000000000000000000000000000000000000000000000000000000000000000000000000000000000000000000000000000000000000000000000000000000000000000000000000000000000000000000000000000000000000000000000000000000000000000000000000000000000000000000000000000000000000000000000000000000000000000000000000000000000000000 from m`,
		`select f from m group by time(9223372036854775807y)`,
		`select f from m group by time(1500s), time()`,
		`select f from m group by host fill(null) having f > 1 order by f desc asc limit 5 withvalue`,
		`select (f+1)*2 as a, sum(max(f)/2) from m`,
		`select f from m where (host='a' or host like 'b*') and ip not in ('1','2')`,
		`select f from m where host =~ 'a.*' and host !~ 'b' and c <> 'd' and e != 'f' and g not like 'h'`,
		`select f from m limit 99999999999`,
		`select s, m, h from d`,
		`select f from m garbage here`,
		`select f from m where host='it\"s'`,
		`select f from m where host='aéé'`,
		`explain select f as 'x y' from cpu.load on 'ns-1' where host='a'`,
		`select f from m order by sum(f)`,
		`select sum(f) from m order by sum(f), f`,
		`select f from m having (sum(f) > 1.5 and g <= -2) or x like 3`,
		`select 1.a5+f from m`,
		`select -f from m`,
		`select f - 1 from m`,
		`select f -1 from m`,
		`select f-1 from m`,
		`select ${abc} from _x:y`,
		`show tag values from m with key = host where host='a' limit 3`,
		`show fields from m on ns`,
		`show metrics on ns where metric = abc limit 4`,
		`show namespaces where namespace = abc`,
		`show tag keys from m`,
		`select f from m group by host having (sum(f) > 1.5 and g <= -2) or x like 3`,
		`select f from m group by host fill(NULL) having f > 1 order by f desc asc limit 5 withvalue`,
		`select f+1h from m`,
		`select sum(f+1h) from m`,
		`select f, (*) from m`,
		`select f, g + * from m`,
		`select f from m group by host having f[host='a'] > 1`,
		`select sum from max`,
		`select sum(sum) as as from from on on where where='where' and and='and'`,
		`select f from m where time = now()`,
		`select f from m where time > now() - 1h`,
		`select f from m where time > now()+1h`,
		`select f from m where time > now() 1h`,
		`select f from m where time < '2019-01-01 00:00:00'`,
		`select f from m where time > '20190101 00:00:00' and time < '2019/01/02 00:00:00'`,
		`select f from m where time > '20190101000000'`,
		`select f from m order by 'f'`,
		`select sum(f) from m order by 'sum(f)'`,
		`select sum(max(f)/2) from m order by min(sum(max(f)/2)) desc`,
		`select f as '' from m order by g+1`,
		`select true from m`,
		`select TRUE from m`,
		`select f from m where host=''`,
		`select f from ''`,
		`select f from m where host='a\nb'`,
		"select f from m where host='a\nb\x01<>&\u2028'",
		`select f from m group by time(18446744073709552s)`,
		`select f from m where host in ('a')`,
		`select f from m where host='a' and time > now()-1h and time < now()`,
		`select f from m where time > now()-1h and host='a' and b='c'`,
		`select f from m where (time > now()-1h)`,
		`select f from m where host='a' or time > now()-1h`,
		`from m select f`,
		`explain from m on ns select f limit 1`,
		`select quantile(0.99) from m`,
		`select rate(f, 1m) from m`,
		`select f.g.h from a.b`,
		`select 'a'.b from m`,
		`select .5 + f, 1.25*f, 007 - f from m limit 007`,
		`select f from m where not host='a'`,
	} {
		st, err := sql.Parse(s)
		if err != nil {
			fmt.Printf("REJECT %q: %v\n", s, err)
			continue
		}
		switch q := st.(type) {
		case *stmt.Query:
			data, _ := q.MarshalJSON()
			fmt.Printf("OK %q\n   %s\n", s, data)
			var q2 stmt.Query
			if err := q2.UnmarshalJSON(data); err != nil {
				fmt.Printf("   UNMARSHAL ERR %v\n", err)
			}
		case *stmt.MetricMetadata:
			data, _ := q.MarshalJSON()
			fmt.Printf("OK %q\n   %s\n", s, data)
		default:
			fmt.Printf("OK %q %T %+v\n", s, st, st)
		}
	}
}
